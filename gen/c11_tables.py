#!/usr/bin/env python3
"""T1 for C11: regenerate the enumerator tables of `Result`, `Result_Class`, `Result_Relation` and
`Rounding_Dir` from the typed clang AST of src/Result_defs.hh and src/Rounding_Dir_defs.hh, and
write lean/PPLV/Gen/ResultTable.lean with theorems stating that the hand-written model
(`PPLV/Checked/Result.lean`) has exactly these enumerators with exactly these values.

usage: c11_tables.py <repo> <out.lean>      (exit 0; the file is rewritten only when it changes)
"""
import json, os, subprocess, sys, tempfile

ENUMS = ["Result_Class", "Result_Relation", "Result", "Rounding_Dir"]


def enum_values(repo):
    src = os.path.join(repo, "src")
    with tempfile.TemporaryDirectory() as d:
        tu = os.path.join(d, "t.cc")
        with open(tu, "w") as f:
            f.write('#include "Result_defs.hh"\n#include "Rounding_Dir_defs.hh"\n')
        out = {}
        for e in ENUMS:
            r = subprocess.run(["clang++-14", "-std=gnu++17", "-I" + src, "-I" + repo, "-fsyntax-only", "-Xclang",
                                "-ast-dump=json", "-Xclang", "-ast-dump-filter=Parma_Polyhedra_Library::" + e, tu],
                               stdout=subprocess.PIPE, stderr=subprocess.PIPE, text=True)
            if r.returncode != 0:
                raise SystemExit("clang failed on the enum headers:\n" + r.stderr[-2000:])
            # the dump is a sequence of JSON objects (one per matching declaration)
            dec = json.JSONDecoder()
            s, i, found = r.stdout, 0, None
            while i < len(s):
                while i < len(s) and s[i] != "{":
                    i += 1
                if i >= len(s):
                    break
                obj, j = dec.raw_decode(s, i)
                i = j
                if obj.get("kind") == "EnumDecl" and obj.get("name") == e:
                    found = obj
                    break
            if found is None:
                raise SystemExit("enum %s not found in the AST" % e)
            vals = []
            for c in found.get("inner", []):
                if c.get("kind") != "EnumConstantDecl":
                    continue
                v = find_value(c)
                if v is None:
                    raise SystemExit("no constant value for %s::%s" % (e, c.get("name")))
                vals.append((c["name"], int(v)))
            out[e] = vals
        return out


def find_value(node):
    if node.get("kind") == "ConstantExpr" and "value" in node:
        return node["value"]
    for c in node.get("inner", []) or []:
        v = find_value(c)
        if v is not None:
            return v
    return None


def lean_list(vals):
    return "[" + ", ".join('("%s", %d)' % (n, v) for n, v in vals) + "]"


def render(tabs):
    return """import PPLV.Checked.Result
/-! GENERATED at every run of `bin/check C11` by `gen/c11_tables.py` from the clang AST of
`src/Result_defs.hh` and `src/Rounding_Dir_defs.hh` — do not edit.

The theorems tie the hand-written model to the source: same enumerators, same order, same
numeric values; and the record view of a result code is faithful (`ofNat ∘ toNat = id`). -/
namespace PPLV.Gen.C11
open PPLV.Checked

def resultClassEnum : List (String × Nat) := %s
def resultRelationEnum : List (String × Nat) := %s
def resultEnum : List (String × Nat) := %s
def roundingDirEnum : List (String × Nat) := %s

theorem result_table_eq : Result.table.map (fun p => (p.1, p.2.toNat)) = resultEnum := by decide
theorem result_roundtrip : Result.table.all (fun p => Result.ofNat p.2.toNat == p.2) = true := by decide
theorem dir_table_eq : Dir.table = roundingDirEnum := by decide
theorem dir_codes : [Dir.down, Dir.up, Dir.ignore, Dir.notNeeded].map Dir.code =
    ["ROUND_DOWN", "ROUND_UP", "ROUND_IGNORE", "ROUND_NOT_NEEDED"].map (fun n => (roundingDirEnum.lookup n).getD 99) := by decide
theorem class_codes : [Cls.normal, Cls.minf, Cls.pinf, Cls.nan].map Cls.code =
    ["VC_NORMAL", "VC_MINUS_INFINITY", "VC_PLUS_INFINITY", "VC_NAN"].map (fun n => (resultClassEnum.lookup n).getD 99) := by decide
theorem relation_codes : [Rel.EMPTY, Rel.EQ, Rel.LT, Rel.GT, Rel.NE, Rel.LE, Rel.GE, Rel.LGE].map Rel.toNat =
    ["VR_EMPTY", "VR_EQ", "VR_LT", "VR_GT", "VR_NE", "VR_LE", "VR_GE", "VR_LGE"].map
      (fun n => (resultRelationEnum.lookup n).getD 99) := by decide

end PPLV.Gen.C11
""" % (lean_list(tabs["Result_Class"]), lean_list(tabs["Result_Relation"]), lean_list(tabs["Result"]),
       lean_list(tabs["Rounding_Dir"]))


def main():
    repo, out = sys.argv[1], sys.argv[2]
    text = render(enum_values(repo))
    old = open(out).read() if os.path.exists(out) else None
    if old != text:
        os.makedirs(os.path.dirname(out), exist_ok=True)
        tmp = out + ".tmp%d" % os.getpid()
        with open(tmp, "w") as f:
            f.write(text)
        os.rename(tmp, out)
    return 0


if __name__ == "__main__":
    sys.exit(main())
