#!/usr/bin/env python3
"""dev tool (not run by bin/check): harness journals -> KF-C14-* entries (ids are stable; entries no longer observed become "fixed").
   gen/c14_findings.py <journals of c14_faults --mode fault|abandon|weight|reject ...> [--write [--no-fix]]   (run bin/check with VERIF_KEEP=1 to keep its journals)
--write updates the C14 entries of /verif/known_findings.json (everybody else's are kept; the file is re-read right before)."""
import sys, json, collections, subprocess, re
sys.path.insert(0, '/verif')
import checks.c14 as c

DESC = {
 "element_copy_throws_in_fill_loop": "CO_Tree::CO_Tree(Iterator, n) (CO_Tree_templates.hh) has no handler around its fill loop: when a copy `new(&(*root)) data_type(*i)` throws, the constructor exits without ~CO_Tree(), so indexes[], data[] and every element built so far stay allocated (2 operator-new blocks + one GMP block per element). Reached through Sparse_Row(const Dense_Row&), Sparse_Row(y, sz, capacity), Sparse_Row::linear_combine, Linear_Expression conversions, i.e. from most public operations of polyhedra, grids, MIP and PIP. Lean: C14.no_leak_cotree_iter_fails / cotree_iter_leaks_exactly",
 "constraint_copies_not_deleted_when_constructor_throws": "MIP_Problem(dim, cs, obj, mode) and the copy constructor call add_constraint_helper from the constructor body without the handler the two iterator constructors have: when a later `new Constraint(c)` throws, ~MIP_Problem() does not run and the Constraint objects already pushed into input_cs (a vector of raw pointers) are never deleted. Also reached through the temporary MIP problems of BD_Shape / Octagonal_Shape / Box ::max_min, bounds, relation_with. Lean: C14.no_leak_mip_ctor_fails / no_leak_mip_copy_fails",
 "begin_ne_end_on_empty_tree": "CO_Tree::operator= = destroy(); init(); copy_data_from(): when an allocation of init() throws, refresh_cached_iterators() is not reached: the (now empty) tree keeps cached end iterators into the array destroy() released, so begin() != end() on an empty tree and any iteration dereferences freed memory. Lean: C14.valid_cotree_assign_fails",
 "double_free_or_unknown_block": "a block is released twice (or a block that is not live is released) while unwinding or when the objects are destroyed afterwards",
 "const_object_damaged_by_fault": "a const object (receiver of a const member function, or a const argument) is left invalid (OK() fails) or with a different value when the lazy update it triggered is interrupted",
 "object_claims_valid_but_is_unusable_after_fault": "after the exception the receiver passes OK() but copying or using it again yields an object that does not",
 "other_objects_damaged_by_fault": "after the exception, assigning a fresh value to the receiver and repeating the call does not give the reference result (or the follow-up calls throw): objects other than the receiver (arguments, shared representations) were damaged",
 "crash_or_hang_when_used_after_fault": "after the exception, calling OK(), copying, re-using or re-assigning the objects involved crashes (SIGSEGV/SIGFPE/SIGABRT) or does not terminate",
 "crash_when_destroyed_after_fault": "after the exception, destroying the objects involved crashes or corrupts the heap",
 "crash_inside_the_call": "the process dies inside the call in which the fault is injected (exception escaping a noexcept context or memory error during unwinding)",
 "unclassified_leak": "blocks allocated during the call stay allocated after the exception once every object is destroyed",
 "fails_without_fault": "the scenario misbehaves without any fault injected",
}

acc = collections.OrderedDict()
def report(f, kind, extra):
    key = (f.site, f.tags[0]) if not f.site.startswith("reject:") else (f.site, f.tags[0])
    e = acc.setdefault(key, {"count": 0, "tags": f.tags, "what": f.what, "lines": [], "states": set(), "modes": set(), "fns": collections.Counter()})
    e.setdefault("ops", collections.Counter())
    for t in f.tags:
        if t.startswith("in_"): e["fns"][t[3:]] += 1
        if t.startswith("op_"): e["ops"][t[3:]] += 1
    e["count"] += 1; e["modes"].add(kind)
    for t in f.tags:
        if t.startswith("state_"): e["states"].add(t)
    if len(e["lines"]) < 2: e["lines"].append(f.line[:420])

for path in [a for a in sys.argv[1:] if not a.startswith("--")]:
    lines = open(path).read().splitlines()
    if re.search(r"/f_\d+\.txt$", path):      # sweep binary predates a change of these scenarios: they are re-run in new_fault_changed.txt
        lines = [l for l in lines if not re.search(r" \S+\.ascii_load | micro\.swapvec| Rational_Box\.propagate_constraints ", l)]
    if "/build/run-C14-" in path:
        lines = [l for l in lines if not re.search(r"Product\S*\.ascii_load ", l)]
    if any(l.startswith("rej ") for l in lines[:60]):
        r = subprocess.run(["lake", "env", "lean", "--run", "Driver/C14.lean"], cwd="/verif/lean", stdin=open(path), stdout=subprocess.PIPE, text=True)
        verd = {}
        for l in r.stdout.splitlines():
            t = l.split(None, 2)
            if t and t[0] in ("ok", "MISMATCH", "ok-representation-only"): verd[int(t[1])] = (t[0], t[2] if len(t) > 2 else "")
        c.analyse_reject(lines, verd, report, collections.Counter(), [])
        continue
    for i, l in enumerate(lines):
        t = l.split()
        if not t: continue
        if t[0] == "scen":
            kv = dict(x.split("=", 1) for x in t[4:] if "=" in x)
            bad = [x for x in t if x.startswith("!")]
            if kv.get("fault_done") != "1" and bad == ["!exception_outside_armed_call_invalid_argument"]:
                pass
            elif bad or kv.get("fault_done") != "1" or kv.get("dry_bad_free") not in ("0", None):
                report(c.Finding("unfaulted:" + t[3], ["fails_without_fault"] + [b[1:] for b in bad], "scenario fails without any fault injected", l), t[1], {})
        if t[0] in ("fault", "crash"):
            thr = None
            if t[0] == "crash" and i + 1 < len(lines) and lines[i + 1].startswith("thrower "):
                x = lines[i + 1].split(None, 2); thr = x[2] if len(x) > 2 else ""
            for f in c.classify_fault(t, l, thr): report(f, t[1], {})

entries = []
for (site, tag), e in acc.items():
    if site in ("gmpxx", "slow"): continue
    if site.startswith("reject:"):
        states = sorted(e["states"])
        allst = len(states) >= 3 or not states or states == ["state_-"]
        preds = [tag] if allst else states
        for p in preds:
            entries.append({"site": site, "predicate": p,
              "what": "%s: %s%s" % (site[7:], e["what"].split(":")[0] if ":" in e["what"] else e["what"], "" if allst else " (only in state %s)" % p[6:]),
              "witness": {"journal": e["lines"][0]}})
        continue
    d = DESC.get(tag, tag.replace("_", " "))
    w = e["lines"][0].split()
    wit = {"scenario": w[3] if len(w) > 3 else "?", "mode": w[1] if len(w) > 1 else "?", "journal": e["lines"][0],
           "occurrences_in_sweeps": e["count"], "modes": sorted(e["modes"]), "interrupted_functions": dict(e["fns"].most_common(12)), "operations": dict(e.get("ops", collections.Counter()).most_common(12))}
    m = re.search(r" k=(-?\d+)", e["lines"][0])
    if m: wit["k"] = int(m.group(1))
    what = d if tag in ("element_copy_throws_in_fill_loop", "constraint_copies_not_deleted_when_constructor_throws", "begin_ne_end_on_empty_tree") \
        else "%s operations (%s): an allocation failure / abandonment inside %s (%s): %s" % (
            site.split("@")[-1], ", ".join(k for k, _ in e.get("ops", collections.Counter()).most_common(4)), site.split("@")[0],
            ", ".join(k.split("::")[-1] for k, _ in e["fns"].most_common(5)), d)
    entries.append({"site": site, "predicate": tag, "what": what, "witness": wit})

SPECIAL = {
 ("reject:Octagonal_Shape_mpq:expand_space_dimension_overflow", "throws_invalid_argument_instead_of_length_error"): "Octagonal_Shape::expand_space_dimension throws std::invalid_argument where std::length_error is documented. REOPENED: a664620 repaired it, commit 38ad585 (relation_with(Congruence) of BD_Shape and Octagonal_Shape) rewrote Octagonal_Shape_templates.hh from a copy without that hunk; re-apply /verif/fixes/fix_c14_octagon_expand_length_error_reapply.diff",
 ("unfaulted:Rational_Box.bounded_affine_preimage", "crash_without_fault"): "Box::bounded_affine_preimage(var, lb, ub, d) with well-formed arguments dies with SIGFPE (GMP division by zero, DESIGN section 9 defect 13): an exit that is neither a return nor a documented exception",
 ("unfaulted:Rational_Box.ctor_from_C_Polyhedron_poly", "fails_without_fault"): "Box(const Polyhedron& ph, POLYNOMIAL_COMPLEXITY) on an empty polyhedron whose emptiness is not yet detected throws std::length_error (Variable(i): i exceeds the maximum allowed variable identifier): an undocumented exception out of a well-formed call",
 ("reject:Weightwatch:ctor_threshold_already_reached", "rejected_call_leaks"): "Threshold_Watcher(delta, holder, flag) allocates its handler in the member initialiser and then throws std::invalid_argument (threshold already reached, delta == 0): the constructor exits without deleting the handler (1 operator-new block per rejected call)",
}
kfp = '/verif/known_findings.json'
# commits of /repo that repaired earlier findings: (site, predicate) patterns -> commit
FIXED_BY = [
 (lambda s, p: s.startswith("reject:BD_Shape_mpq:add_"), "bcff4db"),
 (lambda s, p: s.startswith("reject:Octagonal_Shape_mpq:add_"), "d118ccd"),
 (lambda s, p: s.startswith("reject:Rational_Box:add_"), "2c68c03"),
 (lambda s, p: s.startswith("reject:Grid:add_") and "constraints" in s, "7218b6b"),
 (lambda s, p: s == "reject:Grid:add_constraint_inequality", "680f35a"),
 (lambda s, p: s == "reject:Grid:generalized_affine_image_inequality_with_modulus", "a13dde6"),
 (lambda s, p: s.startswith("reject:Pointset_Powerset_C:") and ("add_constraint_dim" in s or "intersection_assign_dim" in s), "cc896a6"),
 (lambda s, p: s == "unfaulted:Rational_Box.ctor_from_C_Polyhedron_poly", "54fbc54"),
 (lambda s, p: s == "unfaulted:Grid.is_universe", "a1adcb8"),
 (lambda s, p: p == "element_copy_throws_in_fill_loop", "b3209bf"),
 (lambda s, p: p == "begin_ne_end_on_empty_tree", "6fe0c25"),
 (lambda s, p: p == "constraint_copies_not_deleted_when_constructor_throws", "08ac3bf"),
 (lambda s, p: s == "Dense_Row@protocol", "47812c6"),
 (lambda s, p: s == "reject:Weightwatch:ctor_threshold_already_reached", "e927285"),
 (lambda s, p: s == "reject:Rational_Box:widening_assign_dim", "fbacad8"),
 (lambda s, p: s == "reject:Pointset_Powerset_C:difference_assign_dim", "ecc2e43"),
 (lambda s, p: s == "reject:Pointset_Powerset_C:remove_higher_space_dimensions_dim", "57e6f2b"),
 (lambda s, p: s.endswith(":expand_space_dimension_overflow"), "a664620"),
]
def main_write(entries):
    import subprocess
    head = subprocess.run(["git", "-C", "/repo", "log", "--oneline", "-1"], stdout=subprocess.PIPE, text=True).stdout.split()[0]
    cur = json.load(open(kfp))                      # re-read right before writing; keep everybody else's entries
    others = [f for f in cur["findings"] if f.get("property") != "C14"]
    old = [f for f in cur["findings"] if f.get("property") == "C14"]
    seen = {(e["site"], e["predicate"]): e for e in entries}
    out, used = [], set()
    nmax = max([int(f["id"].split("-")[-1]) for f in old] + [0])
    for f in old:                                   # ids are stable
        key = (f["site"], f["predicate"])
        key2 = (f["site"], f["predicate"] + ":offender_after_applied_elements")
        if key not in seen and key2 not in seen:
            key2 = (f["site"], f["predicate"] + ":first_component_modified_before_the_second_rejects")
        if key not in seen and key2 in seen:        # system overloads: the position of the offender is now part of the predicate
            f["predicate"] = key2[1]; key = key2
        if key in seen:
            f["status"] = "open"; f.pop("fixed_by", None)
            f["what"] = seen[key]["what"]; f["witness"] = seen[key]["witness"]
            used.add(key)
        elif f.get("status") != "fixed" and "--no-fix" not in sys.argv:
            f["status"] = "fixed"
            commit = next((c for t, c in FIXED_BY if t(*key)), None)
            f["fixed_by"] = commit if commit else "8e4f976 (CO_Tree insertion) or another repair landed before %s: no longer observed in the every-k sweeps of seeds 1-3" % head
        out.append(f)
    for key, e in seen.items():
        if key not in used:
            nmax += 1
            out.append({"id": "KF-C14-%d" % nmax, "property": "C14", "status": "open", **e})
    json.dump({"findings": others + out}, open(kfp, "w"), indent=1)
    import collections
    print("C14 entries:", collections.Counter(f["status"] for f in out), "; kept", len(others), "others")

for e in entries:
    if (e["site"], e["predicate"]) in SPECIAL:
        e["what"] = SPECIAL[(e["site"], e["predicate"])]
json.dump(entries, open('/tmp/c14/kf_mine.json', 'w'), indent=1)
print(len(entries), "classes observed")
if "--write" in sys.argv:
    main_write(entries)
