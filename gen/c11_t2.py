#!/usr/bin/env python3
"""T2 for C11: regenerate a Lean model of the pure scalar functions of src/checked_int_inlines.hh
(and the three generic helpers of src/checked_inlines.hh they rest on) DIRECTLY FROM THE C++ SOURCE.

  c11_t2.py <repo> <out.lean> [--report <json>] [--only fn,fn] [--no-cache]

Source of truth: the clang AST of the *uninstantiated* function templates
(`clang++-14 -std=gnu++17 -fsyntax-only -Xclang -ast-dump=json -Xclang -ast-dump-filter=<substring>`
on <repo>/src/ppl.hh; four filters (`_int`, `_generic`, `assign_nan`, `Extended_Int`), run in parallel,
about 2.5 s together; the extracted sub-trees are cached under /verif/build/t2_ast keyed by the content
hash of ppl.hh).  Dependent names carry no name in the
AST node; they are recovered by slicing ppl.hh at the node's (spelling) offsets and validated
against a strict pattern.

Output: lean/PPLV/Gen/CheckedT2.lean, one `def t2_<fn>` per translated function and one
`def t2_Extended_Int_<member>` per static member of `Extended_Int<Policy, Type>`, deterministic, no
proofs; plus the dispatchers `t2_assign`, `t2_neg`, `t2_add` ... (by signedness; the rule is checked on
every `PPL_SPECIALIZE_*` line of the source, and `Larger<T>::type_for_*` on every specialisation).  `PPLV/Checked/T2Agree.lean` proves each of them equal to the hand-written model, so a
changed token in the C++ changes a generated definition and breaks `lake build PPLV.Props.C11T2`.

The C++ subset (anything else is an error naming the construct and the source line; the function
is then NOT emitted, the exit status is 1 and the report lists it):

  stmt  ::= { stmt* } | if (cond) stmt [else stmt] | return expr ; | T v = expr ; | typedef ... UType ;
          | v = expr ; | v op= expr ; (op in + - * << >>) | ++v ; | --v ; | f<..>(out, ..) ;
          | switch (c) { case K: stmt* ... default: stmt* }   (every section ends in `return`)
  expr  ::= literal | variable | enumerator | P::flag | Extended_Int<P, T>::member | Larger<T>::use_for_*
          | sizeof(T) * CHAR_BIT | sizeof(A) cmp sizeof(B) | - e | ! e | ~ e | e op e | c ? a : b
          | (void-expr, e) | static_cast<T>(e) | T(e) | f<..>(args) | round_up(dir) ...

Conventions (the same as the hand-written model, see PPLV/Checked/Model.lean):
  * values of the template integer types are mathematical integers (`Int`); arithmetic on them is
    exact; `static_cast<T>` / `T(e)` between them and the store into the out-parameter are
    value-transparent (the C11 `no_wrap` theorems show the stored value is in range; the driver
    compares `wrap model = real`);
  * `/`, `%` are `Int.tdiv`, `Int.tmod`; `x << k` is `x * 2^k`, `x >> k` is `x / 2^k` (floor);
  * `unsigned int` values (`exp`, `sizeof_to_bits(sizeof(T))`) are `Nat`; `-` on them is truncated;
  * `&` is translated only when one operand is statically a mask: `(2^k) - 1` (-> `% 2^k`), a
    single bit `2^k` held in a local (-> `T2.andBit`), or `UType(-1) << k` (-> `T2.andHigh`);
  * values of `UType = C_Integer<T>::other_type` are kept reduced modulo 2^bits (`T2.toU`), `~` on
    them is `T2.notU`, `T(u)` is the two's complement reinterpretation `T2.toS`, `~` on a `T` is `T2.notS`;
  * a function `Result f(T& to, args)` becomes `t2_f .. (to : Int) args : Int × Result`; a local that receives a
    value through the out-parameter of a callee and is read again holds the value converted to its type
    (`T.wrap`), an uninitialised local passed as out-argument is passed as 0;
  * `PPL_ASSERT(..)` (`((void) 0)`) and `PPL_UNREACHABLE` are skipped; `CHECK_P(flag, c)` is `flag && c`.

Exit status 1 iff a function outside EXPECTED_UNTRANSLATED could not be translated or a table rule is violated.
"""
import hashlib, json, os, re, subprocess, sys, tempfile
from concurrent.futures import ThreadPoolExecutor

VERIF = os.path.dirname(os.path.dirname(os.path.abspath(__file__)))
CACHE = os.path.join(VERIF, "build", "t2_ast")
FILTERS = ["_int", "_generic", "assign_nan", "Extended_Int"]
CACHE_VERSION = "5"

# the functions T2 is asked to translate, in the order of the source
TARGETS = [
    "set_neg_overflow_int", "set_pos_overflow_int", "round_lt_int_no_overflow", "round_gt_int_no_overflow",
    "round_lt_int", "round_gt_int", "classify_int", "is_nan_int", "is_minf_int", "is_pinf_int",
    "assign_special_int", "assign_nan",
    "assign_signed_int_signed_int", "assign_signed_int_unsigned_int", "assign_unsigned_int_signed_int",
    "assign_unsigned_int_unsigned_int",
    "neg_int_larger", "add_int_larger", "sub_int_larger", "mul_int_larger",
    "neg_signed_int", "neg_unsigned_int", "add_signed_int", "add_unsigned_int", "sub_signed_int", "sub_unsigned_int",
    "mul_signed_int", "mul_unsigned_int", "div_signed_int", "div_unsigned_int", "idiv_signed_int", "idiv_unsigned_int",
    "rem_signed_int", "rem_unsigned_int",
    "div_2exp_unsigned_int", "div_2exp_signed_int", "add_2exp_unsigned_int", "add_2exp_signed_int",
    "sub_2exp_unsigned_int", "sub_2exp_signed_int", "mul_2exp_unsigned_int", "mul_2exp_signed_int",
    "smod_2exp_unsigned_int", "smod_2exp_signed_int", "umod_2exp_unsigned_int", "umod_2exp_signed_int",
    "abs_generic", "sgn_generic", "cmp_generic",
    "add_mul_int", "sub_mul_int",
    "sqrt_unsigned_int", "sqrt_signed_int",
]

# outside the subset by design (reported in the evidence, not an error): the loop of isqrt_rem
EXPECTED_UNTRANSLATED = {"sqrt_unsigned_int": "calls isqrt_rem (a for loop)", "sqrt_signed_int": "calls sqrt_unsigned_int"}

POLICY_FLAGS = {"check_overflow": "checkOverflow", "check_inf_add_inf": "checkInfAddInf",
                "check_inf_sub_inf": "checkInfSubInf", "check_inf_mul_zero": "checkInfMulZero",
                "check_div_zero": "checkDivZero", "check_inf_div_inf": "checkInfDivInf",
                "check_inf_mod": "checkInfMod", "check_sqrt_neg": "checkSqrtNeg", "has_nan": "hasNan",
                "has_infinity": "hasInfinity"}
EXT_MEMBERS = {"min": ("emin", True), "max": ("emax", True), "plus_infinity": ("plusInf", False),
               "minus_infinity": ("minusInf", False), "not_a_number": ("nanV", True)}
LARGER_USE = {"use_for_neg": "useNeg", "use_for_add": "useAdd", "use_for_sub": "useSub", "use_for_mul": "useMul"}
ENUM_CONSTS = {"VC_NORMAL": ("Cls.normal", "cls"), "VC_MINUS_INFINITY": ("Cls.minf", "cls"),
               "VC_PLUS_INFINITY": ("Cls.pinf", "cls"), "VC_NAN": ("Cls.nan", "cls"),
               "VR_EMPTY": ("Rel.EMPTY", "rel"), "VR_EQ": ("Rel.EQ", "rel"), "VR_LT": ("Rel.LT", "rel"),
               "VR_GT": ("Rel.GT", "rel"), "VR_NE": ("Rel.NE", "rel"), "VR_LE": ("Rel.LE", "rel"),
               "VR_GE": ("Rel.GE", "rel"), "VR_LGE": ("Rel.LGE", "rel"),
               "ROUND_DOWN": ("Dir.down", "dir"), "ROUND_UP": ("Dir.up", "dir"), "ROUND_IGNORE": ("Dir.ignore", "dir"),
               "ROUND_NOT_NEEDED": ("Dir.notNeeded", "dir")}
# non-template helpers of Rounding_Dir_inlines.hh / Result_inlines.hh, bound to the hand model (K4)
RESOLVED_CALLS = {"round_up": ("%s.roundUp", ["dir"], "bool"), "round_down": ("%s.roundDown", ["dir"], "bool"),
                  "round_not_requested": ("%s.notRequested", ["dir"], "bool"),
                  "result_overflow": ("(Result.resultOverflow %s)", ["result"], "int")}
LEAN_RESERVED = {"from": "frm", "at": "at_", "do": "do_", "end": "end_", "in": "in_", "then": "then_", "else": "else_",
                 "fun": "fun_", "have": "have_", "show": "show_", "let": "let_", "if": "if_", "Type": "Ty",
                 "open": "open_", "by": "by_", "with": "with_", "match": "match_", "rem": "rem"}
KIND_LEAN = {"int": "Int", "uint": "Int", "nat": "Nat", "bool": "Bool", "result": "Result", "dir": "Dir",
             "cls": "Cls", "rel": "Rel"}


class Unsupported(Exception):
    def __init__(self, what, node=None):
        Exception.__init__(self, what)
        self.what, self.node = what, node


# ------------------------------------------------------------------------------------------ clang

def run_clang(repo, flt):
    src = os.path.join(repo, "src")
    cmd = ["clang++-14", "-std=gnu++17", "-fsyntax-only", "-Xclang", "-ast-dump=json", "-Xclang",
           "-ast-dump-filter=" + flt, "-I" + src, os.path.join(src, "ppl.hh")]
    with tempfile.TemporaryFile("w+") as out:
        r = subprocess.run(cmd, stdout=out, stderr=subprocess.PIPE, text=True)
        if r.returncode != 0:
            raise SystemExit("c11_t2: clang failed (filter %s):\n%s" % (flt, r.stderr[-3000:]))
        out.seek(0)
        return out.read()


KEEP = ("kind", "name", "opcode", "value", "hasElse", "hasInit", "hasVar", "isPostfix", "castKind", "inner", "init")


def slim(o):
    """keep what the translator reads (the `lookups` arrays of unresolved operators are huge)"""
    d = {k: o[k] for k in KEEP if k in o and k != "inner"}
    if "type" in o:
        d["type"] = o["type"].get("qualType")
    if "argType" in o:
        d["argType"] = o["argType"].get("qualType")
    if "referencedDecl" in o:
        d["ref"] = [o["referencedDecl"].get("kind"), o["referencedDecl"].get("name")]
    r = o.get("range")
    if r:
        def loc(x):
            m = 1 if "spellingLoc" in x else 0
            e = x.get("expansionLoc", x).get("offset")
            x = x.get("spellingLoc", x)
            return [x.get("offset"), x.get("tokLen"), m, e]
        d["range"] = [loc(r["begin"]), loc(r["end"])]
    if "inner" in o:
        d["inner"] = [slim(c) for c in o["inner"] if c]
    return d


def load_functions(repo, use_cache=True):
    """{name: slimmed FunctionTemplateDecl} for every TARGET that has a definition"""
    hh = os.path.join(repo, "src", "ppl.hh")
    blob = open(hh, "rb").read()
    key = hashlib.sha256(blob + CACHE_VERSION.encode() + " ".join(FILTERS + TARGETS).encode()).hexdigest()[:20]
    cp = os.path.join(CACHE, key + ".json")
    if use_cache and os.path.exists(cp):
        try:
            return json.load(open(cp)), blob, True
        except ValueError:
            pass
    with ThreadPoolExecutor(len(FILTERS)) as ex:
        dumps = list(ex.map(lambda f: run_clang(repo, f), FILTERS))
    want, found = set(TARGETS), {}
    dec = json.JSONDecoder()
    for s in dumps:
        i, n = 0, len(s)
        while True:
            i = s.find("{", i)
            if i < 0:
                break
            # the dump is a sequence of "Dumping <name>:" lines each followed by one JSON object
            obj, i = dec.raw_decode(s, i)
            if obj.get("kind") == "ClassTemplateDecl" and obj.get("name") == "Extended_Int":
                sl = slim(obj)
                if "//Extended_Int" in found and found["//Extended_Int"] != sl:
                    raise SystemExit("c11_t2: two different definitions of Extended_Int")
                found["//Extended_Int"] = sl
                continue
            if obj.get("kind") != "FunctionTemplateDecl" or obj.get("name") not in want:
                continue
            fd = [c for c in obj.get("inner", []) if c.get("kind") == "FunctionDecl"]
            if not fd or not any(c.get("kind") == "CompoundStmt" for c in fd[0].get("inner", [])):
                continue       # a declaration without body
            sl = slim(obj)
            sl["inner"] = [c for c in sl["inner"] if c["kind"] != "FunctionDecl"] + [slim(fd[0])]   # drop instantiations
            name = obj["name"]
            if name in found and found[name] != sl:
                raise SystemExit("c11_t2: two different definitions of %s in the translation unit" % name)
            found[name] = sl
    os.makedirs(CACHE, exist_ok=True)
    tmp = cp + ".tmp%d" % os.getpid()
    with open(tmp, "w") as f:
        json.dump(found, f)
    os.rename(tmp, cp)
    # keep the cache small: at most 6 entries
    ents = sorted((os.path.getmtime(os.path.join(CACHE, f)), f) for f in os.listdir(CACHE) if f.endswith(".json"))
    for _, f in ents[:-6]:
        os.unlink(os.path.join(CACHE, f))
    return found, blob, False


# ------------------------------------------------------------------------------------------ source map

class Source:
    def __init__(self, blob):
        self.blob = blob
        self.marks = []           # (offset, file, first_line, ppl_line)
        pat = re.compile(rb"/\* Automatically generated from PPL source file \.\./src/(\S+) line (\d+)\. \*/")
        nl = [m.start() for m in re.finditer(rb"\n", blob)]
        self.nl = nl
        import bisect
        self.bisect = bisect
        for m in pat.finditer(blob):
            self.marks.append((m.start(), m.group(1).decode(), int(m.group(2)), bisect.bisect_left(nl, m.start()) + 1))

    def text(self, node):
        r = node.get("range")
        if not r or r[0][0] is None or r[1][0] is None:
            return None
        b, e = r[0][0], r[1][0] + (r[1][1] or 0)
        if not (0 <= b < e <= len(self.blob)) or e - b > 400:
            return None
        return self.blob[b:e].decode("utf-8", "replace")

    def where(self, node):
        """original file:line of a node (through the `Automatically generated from` marks of ppl.hh)"""
        n = node
        while n is not None:
            r = n.get("range")
            if r and (r[0][3] if r[0][2] else r[0][0]) is not None:
                off = r[0][3] if r[0][2] else r[0][0]
                line = self.bisect.bisect_left(self.nl, off) + 1
                k = self.bisect.bisect_right([m[0] for m in self.marks], off) - 1
                if k >= 0:
                    _, f, first, pl = self.marks[k]
                    return "%s:%d" % (f, first + (line - pl) - 1)
                return "ppl.hh:%d" % line
            inner = n.get("inner") or []
            n = inner[0] if inner else None
        return "?"


# ------------------------------------------------------------------------------------------ values

class Val:
    def __init__(self, text, kind, cty=None, shape=None, lit=None):
        self.text, self.kind, self.cty, self.shape, self.lit = text, kind, cty, shape, lit


def paren(s):
    s = s.strip()
    if re.match(r"^[\w.]+$", s) or (s.startswith("(") and balanced(s)):
        return s
    return "(" + s + ")"


def balanced(s):
    """s starts with '(' and that parenthesis closes at the very end"""
    d = 0
    for i, c in enumerate(s):
        if c == "(":
            d += 1
        elif c == ")":
            d -= 1
            if d == 0:
                return i == len(s) - 1
    return False


def lname(n):
    m = re.match(r"^Policy(\d*)$", n)
    if m:
        return "P" + m.group(1)         # a binder `(Policy : Policy)` would shadow the type
    return LEAN_RESERVED.get(n, n)


# ------------------------------------------------------------------------------------------ functions

class Fn:
    """signature of a translated function template"""
    def __init__(self, name, decl, src):
        self.name, self.src = name, src
        self.tparams = []       # (c++ name, 'policy' | 'type')
        fd = None
        for c in decl["inner"]:
            if c["kind"] == "TemplateTypeParmDecl":
                n = c.get("name")
                if not n:
                    raise Unsupported("unnamed template parameter", c)
                self.tparams.append((n, "policy" if n.endswith("Policy") or re.match(r"Policy\d*$", n) else "type"))
            elif c["kind"] == "FunctionDecl":
                fd = c
            else:
                raise Unsupported("template parameter of kind " + c["kind"], c)
        self.decl = fd
        self.where = src.where(fd)
        self.params = []        # (c++ name or None, lean name, kind, cty, is_out)
        self.body = None
        k = 0
        for c in fd.get("inner", []):
            if c["kind"] == "ParmVarDecl":
                k += 1
                ty = c["type"]
                kind, cty = self.ctype(ty, {})
                out = ty.rstrip().endswith("&") and not ty.lstrip().startswith("const")
                n = c.get("name")
                self.params.append((n, lname(n) if n else "_a%d" % k, kind, cty, out))
            elif c["kind"] == "CompoundStmt":
                self.body = c
        ret = fd["type"].split("(")[0].strip()
        self.ret = {"Parma_Polyhedra_Library::Result": "result", "bool": "bool",
                    "Parma_Polyhedra_Library::Result_Relation": "rel", "void": "void"}.get(ret)
        if self.ret is None:
            raise Unsupported("return type " + ret, fd)
        outs = [p for p in self.params if p[4]]
        if len(outs) > 1:
            raise Unsupported("more than one out-parameter", fd)
        self.out = outs[0][0] if outs else None
        if outs and self.params[0] is not outs[0]:
            raise Unsupported("an out-parameter that is not the first parameter", fd)
        if self.ret == "result" and not outs:
            self.ret = "result_only"
        self.calls = []
        self.lean = None

    def type_names(self):
        return [n for n, k in self.tparams if k == "type"]

    def ctype(self, qual, typedefs):
        """C++ type text -> (kind, cty)"""
        t = qual.strip()
        t = re.sub(r"^const\s+", "", t)
        t = re.sub(r"\s*&$", "", t).strip()
        t = re.sub(r"\s+const$", "", t)
        if t in typedefs:
            return typedefs[t]
        if t in [n for n, k in self.tparams if k == "type"]:
            return "int", ("T", t)
        m = re.match(r"^typename Larger<(\w+)>::type_for_(neg|add|sub|mul)$", t)
        if m and m.group(1) in self.type_names():
            return "int", ("larger", m.group(2), m.group(1))
        m = re.match(r"^typename C_Integer<(\w+)>::other_type$", t)
        if m and m.group(1) in self.type_names():
            return "uint", ("other", m.group(1))
        if t in ("unsigned int", "unsigned long", "std::size_t", "size_t"):
            return "nat", None
        if t == "bool":
            return "bool", None
        if t in ("Parma_Polyhedra_Library::Result", "Result"):
            return "result", None
        if t in ("Parma_Polyhedra_Library::Rounding_Dir", "Rounding_Dir"):
            return "dir", None
        if t in ("Parma_Polyhedra_Library::Result_Class", "Result_Class"):
            return "cls", None
        if t in ("Parma_Polyhedra_Library::Result_Relation", "Result_Relation"):
            return "rel", None
        raise Unsupported("C++ type `%s`" % qual)

    def lean_ret(self):
        return {"result": "Int × Result", "bool": "Bool", "rel": "Rel", "void": "Int", "result_only": "Result"}[self.ret]


def ty_lean(cty):
    """Lean IntTy expression of a C++ integer type"""
    if cty[0] == "T":
        return lname(cty[1])
    if cty[0] == "larger":
        return "(t2_larger_type_for_%s %s)" % (cty[1], lname(cty[2]))
    if cty[0] == "other":
        raise Unsupported("C_Integer<%s>::other_type as a type argument" % cty[1])
    raise Unsupported("type %r" % (cty,))


# generic entry points resolved by the PPL_SPECIALIZE_* tables: by signedness of the (first) type
DISPATCH = {
    # name: (tparams, params, signed target, unsigned target)  -- targets take (policies.., To-type, args)
    "neg": (["To_Policy", "From_Policy"], ["To", "From"], "neg_signed_int", "neg_unsigned_int", 1),
    "add": (["To_Policy", "From1_Policy", "From2_Policy"], ["To", "From1", "From2"], "add_signed_int", "add_unsigned_int", 2),
    "sub": (["To_Policy", "From1_Policy", "From2_Policy"], ["To", "From1", "From2"], "sub_signed_int", "sub_unsigned_int", 2),
    "mul": (["To_Policy", "From1_Policy", "From2_Policy"], ["To", "From1", "From2"], "mul_signed_int", "mul_unsigned_int", 2),
}


# dispatchers no translated function calls; emitted for the agreement theorems (`C11.t2_div_holds` ...)
DISPATCH_MORE = {
    "div": ("div_signed_int", "div_unsigned_int", "xy"), "idiv": ("idiv_signed_int", "idiv_unsigned_int", "xy"),
    "rem": ("rem_signed_int", "rem_unsigned_int", "xy"),
    "add_2exp": ("add_2exp_signed_int", "add_2exp_unsigned_int", "xe"), "sub_2exp": ("sub_2exp_signed_int", "sub_2exp_unsigned_int", "xe"),
    "mul_2exp": ("mul_2exp_signed_int", "mul_2exp_unsigned_int", "xe"), "div_2exp": ("div_2exp_signed_int", "div_2exp_unsigned_int", "xe"),
    "smod_2exp": ("smod_2exp_signed_int", "smod_2exp_unsigned_int", "xe"), "umod_2exp": ("umod_2exp_signed_int", "umod_2exp_unsigned_int", "xe"),
    "abs": ("abs_generic", "assign_unsigned_int_unsigned_int", "abs"),
}


class Translator:
    def __init__(self, decls, blob):
        self.src = Source(blob)
        self.decls = decls
        self.fns, self.failed = {}, {}
        for name in TARGETS:
            if name not in decls:
                self.failed[name] = "no definition of this function template found in the translation unit"
                continue
            try:
                self.fns[name] = Fn(name, decls[name], self.src)
            except Unsupported as e:
                self.failed[name] = self.msg(e, decls[name])
        self.externals = set()
        self.dispatch_used = set()

    def msg(self, e, fallback=None):
        node = e.node if e.node is not None else fallback
        w = self.src.where(node) if node is not None else "?"
        t = self.src.text(node) if node is not None else None
        s = "%s at %s" % (e.what, w)
        if t and len(t) < 160:
            s += " [`%s`]" % " ".join(t.split())
        return s

    # -------------------------------------------------------------------------------- expressions
    def dependent_name(self, node, fn):
        t = self.src.text(node)
        if t is None:
            raise Unsupported("dependent name whose source range cannot be read", node)
        t = "".join(t.split())
        m = re.match(r"^(\w+)::(\w+)$", t)
        if m and (m.group(1), "policy") in fn.tparams:
            if m.group(2) not in POLICY_FLAGS:
                raise Unsupported("policy member `%s`" % m.group(2), node)
            return Val("%s.%s" % (lname(m.group(1)), POLICY_FLAGS[m.group(2)]), "bool")
        m = re.match(r"^Extended_Int<(\w+),(\w+)>::(\w+)$", t)
        if m and (m.group(1), "policy") in fn.tparams and (m.group(2), "type") in fn.tparams:
            if m.group(3) not in EXT_MEMBERS:
                raise Unsupported("Extended_Int member `%s`" % m.group(3), node)
            f, needs_policy = EXT_MEMBERS[m.group(3)]
            txt = "(%s.%s %s)" % (lname(m.group(2)), f, lname(m.group(1))) if needs_policy else "%s.%s" % (lname(m.group(2)), f)
            return Val(txt, "int", ("T", m.group(2)))
        m = re.match(r"^C_Integer<(\w+)>::(min|max)$", t)
        if m and (m.group(1), "type") in fn.tparams:
            return Val("%s.c%s" % (lname(m.group(1)), m.group(2)), "int", ("T", m.group(1)))
        m = re.match(r"^Larger<(\w+)>::(\w+)$", t)
        if m and (m.group(1), "type") in fn.tparams and m.group(2) in LARGER_USE:
            return Val("%s.%s" % (lname(m.group(1)), LARGER_USE[m.group(2)]), "bool")
        raise Unsupported("dependent name `%s`" % t, node)

    def strip(self, node):
        while node["kind"] in ("ParenExpr", "ImplicitCastExpr", "ExprWithCleanups", "MaterializeTemporaryExpr"):
            if node["kind"] == "ImplicitCastExpr" and node.get("castKind") not in (
                    "LValueToRValue", "IntegralCast", "NoOp", "FunctionToPointerDecay"):
                raise Unsupported("implicit cast " + str(node.get("castKind")), node)
            node = node["inner"][0]
        return node

    def operator(self, node):
        """(opcode, operand nodes) of a BinaryOperator / UnaryOperator / CXXOperatorCallExpr"""
        k = node["kind"]
        if k in ("BinaryOperator", "UnaryOperator", "CompoundAssignOperator"):
            return node["opcode"], node["inner"]
        callee = self.strip(node["inner"][0])
        n = callee.get("name") if callee["kind"] == "UnresolvedLookupExpr" else (callee.get("ref") or [None, None])[1]
        if not n or not n.startswith("operator"):
            raise Unsupported("operator call without operator name", node)
        return n[len("operator"):], node["inner"][1:]

    def ex(self, node, env, fn):
        node = self.strip(node)
        k = node["kind"]
        if k == "IntegerLiteral":
            return Val(str(int(node["value"])), "lit", lit=int(node["value"]))
        if k == "CXXBoolLiteralExpr":
            return Val("true" if node["value"] in (True, "true", "True") else "false", "bool")
        if k == "DeclRefExpr":
            rk, rn = node.get("ref") or [None, None]
            if rk in ("ParmVarDecl", "VarDecl"):
                if rn not in env:
                    raise Unsupported("reference to `%s`, not a local of the function" % rn, node)
                v = env[rn]
                if v.get("uninit"):
                    raise Unsupported("read of the uninitialised local `%s`" % rn, node)
                return Val(v["lean"], v["kind"], v["cty"], v.get("shape"))
            if rk == "EnumConstantDecl":
                if rn in ENUM_CONSTS:
                    return Val(*ENUM_CONSTS[rn])
                if rn in self.result_names:
                    return Val(rn, "result")
                raise Unsupported("enumerator `%s`" % rn, node)
            raise Unsupported("reference to %s `%s`" % (rk, rn), node)
        if k == "DependentScopeDeclRefExpr":
            return self.dependent_name(node, fn)
        if k == "UnaryExprOrTypeTraitExpr":
            if node.get("name") != "sizeof" or node.get("argType") not in fn.type_names():
                raise Unsupported("sizeof of something else than a template integer type", node)
            return Val(None, "bytes", ("T", node["argType"]))
        if k in ("CXXStaticCastExpr", "CXXUnresolvedConstructExpr", "CXXFunctionalCastExpr", "CStyleCastExpr"):
            return self.cast(node, env, fn)
        if k == "ConditionalOperator":
            c = self.cond(node["inner"][0], env, fn)
            a, b = self.ex(node["inner"][1], env, fn), self.ex(node["inner"][2], env, fn)
            a, b = self.unify(a, b, node)
            if a.kind == "lit" and b.kind == "lit":
                return Val("(if %s then (%s : Int) else %s)" % (c, a.text, b.text), "int", None)
            if a.kind == "bool" and b.text == "false":
                return Val("(%s && %s)" % (c, a.text), "bool")      # CHECK_P(flag, cond) with assertions off
            return Val("(if %s then %s else %s)" % (c, a.text, b.text), a.kind, a.cty)
        if k in ("BinaryOperator", "CXXOperatorCallExpr", "UnaryOperator"):
            op, args = self.operator(node)
            if len(args) == 1:
                return self.unop(op, args[0], node, env, fn)
            if len(args) == 2:
                return self.binop(op, args[0], args[1], node, env, fn)
            raise Unsupported("operator with %d operands" % len(args), node)
        if k == "CallExpr":
            return self.call_value(node, env, fn)
        raise Unsupported("expression of kind " + k, node)

    def cast(self, node, env, fn):
        tt = node.get("type")
        if node.get("castKind") == "ToVoid":
            return Val(None, "void")
        inner = self.ex(node["inner"][0], env, fn)
        if node.get("castKind") == "NoOp" and tt in ("std::size_t", "size_t", "unsigned long"):
            return inner
        kind, cty = fn.ctype(tt, env.get("//typedefs", {}))
        if kind == "int":
            if inner.kind == "lit":
                return Val(self.lit(inner, "int"), "int", cty, shape=("lit", inner.lit), lit=inner.lit)
            if inner.kind == "int":
                return Val(inner.text, "int", cty, inner.shape)        # value-transparent (convention)
            if inner.kind == "uint":
                return Val("(T2.toS %s %s)" % (ty_lean(("T", inner.cty[1])), paren(inner.text)), "int", cty)
        if kind == "uint":
            base = ty_lean(("T", cty[1]))
            if inner.kind == "lit":
                if inner.lit == -1:
                    return Val("(T2.umax %s)" % base, "uint", cty, shape=("allones",))
                if 0 <= inner.lit <= 1:
                    return Val(self.lit(inner, "int"), "uint", cty, shape=("lit", inner.lit), lit=inner.lit)
                raise Unsupported("conversion of the literal %d to the unsigned type" % inner.lit, node)
            if inner.kind in ("int", "uint"):
                return Val("(T2.toU %s %s)" % (base, paren(inner.text)), "uint", cty)
        raise Unsupported("cast of a %s value to `%s`" % (inner.kind, tt), node)

    def lit(self, v, kind):
        if v.lit is None:
            return v.text
        if v.lit < 0:
            if kind == "nat":
                raise Unsupported("negative literal in unsigned arithmetic")
            return "(%d)" % v.lit
        return str(v.lit)

    def unify(self, a, b, node):
        if a.kind == "lit" and b.kind == "lit":
            return a, b
        if a.kind == "lit":
            if b.kind not in ("int", "uint", "nat"):
                raise Unsupported("integer literal combined with a %s" % b.kind, node)
            a = Val(self.lit(a, b.kind), b.kind, b.cty, lit=a.lit)
        elif b.kind == "lit":
            if a.kind not in ("int", "uint", "nat"):
                raise Unsupported("integer literal combined with a %s" % a.kind, node)
            b = Val(self.lit(b, a.kind), a.kind, a.cty, lit=b.lit)
        if a.kind != b.kind:
            raise Unsupported("operands of different kinds (%s, %s)" % (a.kind, b.kind), node)
        return a, b

    def unop(self, op, arg, node, env, fn):
        if op == "!":
            return Val("(!%s)" % paren(self.cond(arg, env, fn)), "bool")
        a = self.ex(arg, env, fn)
        if op == "-":
            if a.kind == "lit":
                return Val(str(-a.lit), "lit", lit=-a.lit)
            if a.kind == "int":
                return Val("(-%s)" % paren(a.text), "int", a.cty)
            if a.kind == "uint":
                return Val("(T2.toU %s (-%s))" % (ty_lean(("T", a.cty[1])), paren(a.text)), "uint", a.cty)
        if op == "~":
            if a.kind == "int":
                return Val("(T2.notS %s)" % paren(a.text), "int", a.cty)
            if a.kind == "uint":
                return Val("(T2.notU %s %s)" % (ty_lean(("T", a.cty[1])), paren(a.text)), "uint", a.cty)
        raise Unsupported("unary `%s` on a %s value" % (op, a.kind), node)

    def cond(self, node, env, fn):
        """a Bool-valued Lean term; an integer used as a condition is compared with 0"""
        v = self.ex(node, env, fn)
        if v.kind == "bool":
            return v.text
        if v.kind in ("int", "uint", "nat"):
            return "(%s != 0)" % paren(v.text)
        raise Unsupported("a %s value used as a condition" % v.kind, node)

    def binop(self, op, ln, rn, node, env, fn):
        if op in ("&&", "||"):
            return Val("(%s %s %s)" % (self.cond(ln, env, fn), op, self.cond(rn, env, fn)), "bool")
        a, b = self.ex(ln, env, fn), self.ex(rn, env, fn)
        if op == ",":
            if a.kind != "void":
                raise Unsupported("comma operator whose left operand is not a void expression", node)
            return b
        if op == "|" and a.kind == "result" and b.kind == "result":
            if b.text != "V_UNREPRESENTABLE":
                raise Unsupported("`|` of result codes other than `| V_UNREPRESENTABLE`", node)
            return Val("%s.orUnrep" % paren(a.text), "result")
        # sizeof arithmetic
        if a.kind == "bytes" or b.kind == "bytes":
            if op == "*" and a.kind == "bytes" and b.kind == "lit" and b.lit == 8:
                return Val("%s.bits" % ty_lean(a.cty), "nat")
            if a.kind == "bytes" and b.kind == "bytes" and op in ("<", "<=", ">", ">=", "==", "!="):
                a, b = Val("%s.bits" % ty_lean(a.cty), "nat"), Val("%s.bits" % ty_lean(b.cty), "nat")
            else:
                raise Unsupported("sizeof used otherwise than `sizeof(T) * CHAR_BIT` or `sizeof(A) cmp sizeof(B)`", node)
        if op in ("<<", ">>"):
            if b.kind == "lit":
                b = Val(self.lit(b, "nat"), "nat", lit=b.lit)
            if b.kind != "nat":
                raise Unsupported("shift count of kind " + b.kind, node)
            if a.kind == "lit":
                raise Unsupported("shift of an untyped literal", node)
            if a.kind not in ("int", "uint"):
                raise Unsupported("shift of a %s value" % a.kind, node)
            p2 = "pow2 %s" % paren(b.text)
            if op == "<<":
                if a.kind == "int":
                    if a.lit == 1:
                        return Val("(%s)" % p2, "int", a.cty, shape=("pow2", "(%s)" % p2))
                    return Val("(%s * %s)" % (a.text, p2), "int", a.cty)
                base = ty_lean(("T", a.cty[1]))
                if a.lit == 1:
                    return Val("(T2.toU %s (%s))" % (base, p2), "uint", a.cty)
                sh = ("highmask", paren(b.text)) if a.shape == ("allones",) else None
                return Val("(T2.toU %s (%s * %s))" % (base, a.text, p2), "uint", a.cty, shape=sh)
            return Val("(%s / %s)" % (a.text, p2), a.kind, a.cty)
        if op == "&":
            for x, m in ((a, b), (b, a)):
                if m.shape and m.shape[0] == "lowmask" and x.kind in ("int", "uint"):
                    return Val("(T2.andLow %s %s)" % (paren(x.text), m.shape[1]), x.kind, x.cty)
                if m.shape and m.shape[0] == "pow2" and x.kind == "int" and m.kind == "int":
                    return Val("(T2.andBit %s %s)" % (paren(x.text), m.shape[1]), "int", x.cty)
                if m.shape and m.shape[0] == "highmask" and x.kind == "uint" and m.kind == "uint":
                    return Val("(T2.andHigh %s %s)" % (paren(x.text), m.shape[1]), "uint", x.cty)
            raise Unsupported("`&` where neither operand is statically a mask ((1 << k) - 1, a single bit held in a "
                              "local, or UType(-1) << k)", node)
        a, b = self.unify(a, b, node)
        kind = a.kind
        if kind == "lit":
            raise Unsupported("arithmetic on two untyped literals", node)
        if op in ("+", "-", "*"):
            if kind in ("int", "nat"):
                sh = None
                if op == "-" and b.lit == 1 and a.shape and a.shape[0] == "pow2":
                    sh = ("lowmask", a.shape[1])
                return Val("(%s %s %s)" % (a.text, op, b.text), kind, a.cty, shape=sh)
            if kind == "uint":
                sh = None
                if op == "-" and b.lit == 1 and a.shape and a.shape[0] == "pow2":
                    sh = ("lowmask", a.shape[1])
                if op == "-" and b.lit == 1 and a.lit is None and re.match(r"^\(T2\.toU \S+ \(pow2 .*\)\)$", a.text):
                    # (UType(1) << k) - 1 : the low mask of the unsigned type
                    inner = re.match(r"^\(T2\.toU \S+ (\(pow2 .*\))\)$", a.text).group(1)
                    sh = ("lowmask", inner)
                return Val("(T2.toU %s (%s %s %s))" % (ty_lean(("T", a.cty[1])), a.text, op, b.text), "uint", a.cty, shape=sh)
        if op in ("/", "%") and kind == "int":
            return Val("(Int.%s %s %s)" % ("tdiv" if op == "/" else "tmod", paren(a.text), paren(b.text)), "int", a.cty)
        if op in ("<", "<=", ">", ">=") and kind in ("int", "uint", "nat"):
            sym = {"<": "<", "<=": "≤", ">": ">", ">=": "≥"}[op]
            return Val("decide (%s %s %s)" % (a.text, sym, b.text), "bool")
        if op in ("==", "!=") and kind in ("int", "uint", "nat", "bool", "result", "cls", "rel"):
            return Val("(%s %s %s)" % (paren(a.text), op, paren(b.text)), "bool")
        raise Unsupported("binary `%s` on %s values" % (op, kind), node)

    # -------------------------------------------------------------------------------- calls
    def template_args(self, callee_node):
        t = self.src.text(callee_node)
        if t is None:
            raise Unsupported("call whose callee text cannot be read", callee_node)
        t = " ".join(t.split())
        m = re.match(r"^(\w+)\s*(?:<(.*)>)?$", t)
        if not m or m.group(1) != callee_node.get("name"):
            raise Unsupported("callee `%s`" % t, callee_node)
        args = [a.strip() for a in m.group(2).split(",")] if m.group(2) else []
        return args

    def bind_call(self, node, env, fn):
        """-> (lean head, [lean args], callee descriptor)"""
        callee = self.strip(node["inner"][0])
        argn = node["inner"][1:]
        if callee["kind"] == "DeclRefExpr":
            name = (callee.get("ref") or [None, None])[1]
            if name not in RESOLVED_CALLS:
                raise Unsupported("call of `%s`" % name, node)
            fmt, kinds, rk = RESOLVED_CALLS[name]
            vals = [self.ex(a, env, fn) for a in argn]
            if [v.kind for v in vals] != kinds:
                raise Unsupported("arguments of `%s`" % name, node)
            self.externals.add(name)
            return ("value", Val(fmt % tuple(paren(v.text) for v in vals), rk, None))
        if callee["kind"] != "UnresolvedLookupExpr":
            raise Unsupported("call through " + callee["kind"], node)
        name = callee["name"]
        if name not in self.fns and name not in DISPATCH and name not in ("assign", "assign_special", "lt"):
            if name in self.failed:
                raise Unsupported("call of `%s`, which could not be translated" % name, node)
            raise Unsupported("call of `%s`, not a translated function" % name, node)
        targs = self.template_args(callee)
        vals = [self.ex(a, env, fn) for a in argn]
        if name == "lt" and not targs and len(vals) == 2:
            a, b = self.unify(vals[0], vals[1], node)
            if a.kind != "int":
                raise Unsupported("`lt` on operands that are not two native integers", node)
            self.externals.add("lt(x, y) (Safe_Int_Comparison: the mathematical x < y on native integers)")
            return ("value", Val("decide (%s < %s)" % (a.text, b.text), "bool"))
        if name in DISPATCH or name == "assign":
            return self.bind_dispatch(name, targs, vals, node, fn)
        if name == "assign_special" and "assign_special_int" in self.fns:
            name = "assign_special_int"      # PPL_SPECIALIZE_ASSIGN_SPECIAL(assign_special_int, <every native integer>)
            self.dispatch_used.add("assign_special")
        if name not in self.fns:
            if name in self.failed:
                raise Unsupported("call of `%s`, which could not be translated" % name, node)
            raise Unsupported("call of `%s`, not a translated function" % name, node)
        g = self.fns[name]
        fn.calls.append(name)
        # explicit template arguments, then deduction of the type parameters from the arguments
        bind = {}
        if len(targs) > len(g.tparams):
            raise Unsupported("too many template arguments for `%s`" % name, node)
        for (pn, pk), a in zip(g.tparams, targs):
            if pk == "policy":
                if a == "void":
                    bind[pn] = "default"
                elif (a, "policy") in fn.tparams:
                    bind[pn] = lname(a)
                else:
                    raise Unsupported("template argument `%s` for the policy parameter %s of `%s`" % (a, pn, name), node)
            else:
                if (a, "type") not in fn.tparams:
                    raise Unsupported("template argument `%s` for the type parameter %s of `%s`" % (a, pn, name), node)
                bind[pn] = lname(a)
        if len(vals) != len(g.params):
            raise Unsupported("`%s` called with %d arguments, declared with %d" % (name, len(vals), len(g.params)), node)
        largs = []
        for (pn, pl, pk, pcty, pout), v in zip(g.params, vals):
            if v.kind == "lit" and pk in ("int", "nat"):
                v = Val(self.lit(v, pk), pk, pcty, lit=v.lit)
            if v.kind != pk:
                raise Unsupported("argument of kind %s for the %s parameter `%s` of `%s`" % (v.kind, pk, pn, name), node)
            if pk == "int" and pcty and pcty[0] == "T":
                want = ty_lean(v.cty) if v.cty else None
                if want is None:
                    raise Unsupported("integer argument of unknown type for `%s`" % name, node)
                if bind.setdefault(pcty[1], want) != want:
                    raise Unsupported("conflicting deductions for the type parameter %s of `%s`" % (pcty[1], name), node)
            largs.append(paren(v.text))
        for pn, pk in g.tparams:
            if pn not in bind:
                raise Unsupported("template parameter %s of `%s` is neither given nor deducible" % (pn, name), node)
        head = "t2_%s %s" % (name, " ".join(bind[pn] for pn, _ in g.tparams))
        return ("call", head, largs, g, vals)

    def bind_dispatch(self, name, targs, vals, node, fn):
        pol = []
        for a in targs:
            if a == "void":
                pol.append("default")
            elif (a, "policy") in fn.tparams:
                pol.append(lname(a))
            else:
                raise Unsupported("template argument `%s` of the generic `%s`" % (a, name), node)
        if name == "assign":
            if len(pol) != 2 or [v.kind for v in vals] != ["int", "int", "dir"]:
                raise Unsupported("generic `assign` not of the form assign<P1, P2>(to, from, dir)", node)
            need = ["assign_signed_int_signed_int", "assign_signed_int_unsigned_int", "assign_unsigned_int_signed_int",
                    "assign_unsigned_int_unsigned_int"]
            tys = [ty_lean(vals[0].cty), ty_lean(vals[1].cty)]
        else:
            npol, _, sg, us, nfrom = DISPATCH[name]
            if len(pol) != len(npol) or [v.kind for v in vals[:1 + nfrom]] != ["int"] * (1 + nfrom) or vals[-1].kind != "dir" \
                    or len(vals) != nfrom + 2:
                raise Unsupported("generic `%s` not of the expected form" % name, node)
            need = [sg, us]
            t0 = vals[0].cty
            # only same-type specialisations exist for native integers (checked on the PPL_SPECIALIZE_* lines
            # by check_dispatch): the dispatcher is keyed by the type of the out-parameter
            tys = [ty_lean(t0)]
        for n in need:
            if n not in self.fns:
                raise Unsupported("generic `%s`: its target `%s` could not be translated" % (name, n), node)
            fn.calls.append(n)
        self.dispatch_used.add(name)
        head = "t2_%s %s %s" % (name, " ".join(pol), " ".join(tys))
        return ("call", head, [paren(v.text) for v in vals], None, vals)

    def call_value(self, node, env, fn):
        b = self.bind_call(node, env, fn)
        if b[0] == "value":
            return b[1]
        _, head, largs, g, vals = b
        if g is not None and g.ret in ("bool", "rel", "result_only"):
            return Val("(%s %s)" % (head, " ".join(largs)), "result" if g.ret == "result_only" else g.ret)
        raise Unsupported("call of a function with an out-parameter inside an expression", node)

    # -------------------------------------------------------------------------------- statements
    def assign_to(self, name, val, env, node):
        v = env.get(name)
        if v is None or isinstance(v, dict) is False:
            raise Unsupported("assignment to `%s`, not a local of the function" % name, node)
        if v.get("const"):
            raise Unsupported("assignment to the const `%s`" % name, node)
        val = self.convert(val, v["kind"], v["cty"], node)
        # shapes that mention the assigned variable are no longer valid
        for n, w in env.items():
            if isinstance(w, dict) and w.get("shape") and re.search(r"\b%s\b" % re.escape(v["lean"]), str(w["shape"])):
                w["shape"] = None
        v["shape"] = val.shape if val.shape and val.shape[0] in ("pow2", "highmask") else None
        if v["shape"] and v["shape"][0] == "pow2":
            v["shape"] = ("pow2", v["lean"])
        v["uninit"] = False
        return "let %s : %s := %s" % (v["lean"], KIND_LEAN[v["kind"]], val.text)

    def convert(self, val, kind, cty, node):
        if val.kind == "lit" and kind in ("int", "uint", "nat"):
            if kind == "uint" and not (0 <= val.lit <= 1):
                raise Unsupported("literal %d stored in the unsigned type" % val.lit, node)
            return Val(self.lit(val, kind), kind, cty, lit=val.lit)
        if val.kind == kind:
            return val
        if val.kind == "int" and kind == "uint":
            return Val("T2.toU %s %s" % (ty_lean(("T", cty[1])), paren(val.text)), "uint", cty)
        raise Unsupported("a %s value stored in a %s variable" % (val.kind, kind), node)

    def block(self, stmts, env, fn):
        """Lean lines (relative indentation) of the value of the statement list `stmts`"""
        if not stmts:
            raise Unsupported("control reaches the end of the function without `return`", fn.decl)
        s, rest = stmts[0], stmts[1:]
        k = s["kind"]
        if k == "CompoundStmt":
            return self.block(list(s.get("inner", [])) + rest, env, fn)
        if k == "NullStmt":
            return self.block(rest, env, fn)
        if k == "ReturnStmt":
            return self.ret(s, env, fn)
        if k == "IfStmt":
            if s.get("hasInit") or s.get("hasVar"):
                raise Unsupported("if with an init-statement or a condition variable", s)
            inner = s["inner"]
            c = self.cond(inner[0], env, fn)
            e1, e2 = self.fork(env), self.fork(env)
            th = self.block([inner[1]] + rest, e1, fn)
            el = self.block(([inner[2]] if s.get("hasElse") else []) + rest, e2, fn)
            return ["if %s then" % c] + ["  " + l for l in th] + ["else"] + ["  " + l for l in el]
        if k == "SwitchStmt":
            return self.switch(s, rest, env, fn)
        if k == "DeclStmt":
            lines = []
            for d in s.get("inner", []):
                lines += self.decl(d, env, fn)
            return lines + self.block(rest, env, fn)
        if k in ("BinaryOperator", "CXXOperatorCallExpr", "CompoundAssignOperator", "UnaryOperator"):
            return self.effect(s, env, fn).split("\n") + self.block(rest, env, fn)
        if k == "CallExpr":
            callee = self.strip(s["inner"][0])
            if callee["kind"] == "DeclRefExpr" and (callee.get("ref") or [None, None])[1] == "ppl_unreachable" \
                    and len(s["inner"]) == 1:
                # PPL_UNREACHABLE: a marker, the statements after it are translated as written
                self.externals.add("ppl_unreachable() (marker, skipped)")
                return self.block(rest, env, fn)
            return self.call_stmt(s, None, env, fn).split("\n") + self.block(rest, env, fn)
        if k in ("ParenExpr", "CStyleCastExpr", "CXXStaticCastExpr"):
            e = self.strip(s)
            if e["kind"] in ("CStyleCastExpr", "CXXStaticCastExpr") and e.get("castKind") == "ToVoid" \
                    and self.strip(e["inner"][0])["kind"] == "IntegerLiteral":
                return self.block(rest, env, fn)       # PPL_ASSERT(..) with assertions off: ((void) 0)
        raise Unsupported("statement of kind " + k, s)

    def fork(self, env):
        return {k: (dict(v) if isinstance(v, dict) and k != "//typedefs" else (dict(v) if k == "//typedefs" else v))
                for k, v in env.items()}

    def decl(self, d, env, fn):
        if d["kind"] == "TypedefDecl":
            kind, cty = fn.ctype(d["type"], env["//typedefs"])
            if kind != "uint":
                raise Unsupported("typedef of `%s`" % d["type"], d)
            env["//typedefs"][d["name"]] = (kind, cty)
            return []
        if d["kind"] != "VarDecl":
            raise Unsupported("declaration of kind " + d["kind"], d)
        name = d["name"]
        if name in env:
            raise Unsupported("local `%s` shadows another local" % name, d)
        kind, cty = fn.ctype(d["type"], env["//typedefs"])
        if kind not in ("int", "uint", "nat", "bool", "result"):
            raise Unsupported("local of type `%s`" % d["type"], d)
        const = d["type"].lstrip().startswith("const")
        env[name] = {"lean": lname(name), "kind": kind, "cty": cty, "shape": None, "const": False, "uninit": True}
        init = d.get("inner") or []
        if not init:
            if kind != "int":
                raise Unsupported("uninitialised local of type `%s`" % d["type"], d)
            return []
        if d.get("init") not in ("c", "call"):
            raise Unsupported("initialiser style %r" % d.get("init"), d)
        node = init[0]
        if self.strip(node)["kind"] == "CallExpr" and self.is_out_call(self.strip(node), env, fn):
            line = self.call_stmt(self.strip(node), name, env, fn)
        else:
            line = self.assign_to(name, self.ex(node, env, fn), env, d)
        env[name]["const"] = const
        return line.split("\n")

    def is_out_call(self, node, env, fn):
        callee = self.strip(node["inner"][0])
        if callee["kind"] != "UnresolvedLookupExpr":
            return False
        n = callee["name"]
        if n in DISPATCH or n in ("assign", "assign_special"):
            return True
        return n in self.fns and self.fns[n].out is not None

    def effect(self, s, env, fn):
        op, args = self.operator(s)
        tgt = self.strip(args[0])
        if tgt["kind"] != "DeclRefExpr" or (tgt.get("ref") or [None])[0] not in ("ParmVarDecl", "VarDecl"):
            raise Unsupported("expression statement that is not an assignment to a local", s)
        name = tgt["ref"][1]
        if name not in env:
            raise Unsupported("assignment to `%s`, not a local of the function" % name, s)
        if op == "=" and len(args) == 2:
            rhs = self.strip(args[1])
            if rhs["kind"] == "CallExpr" and self.is_out_call(rhs, env, fn):
                return self.call_stmt(rhs, name, env, fn)
            return self.assign_to(name, self.ex(args[1], env, fn), env, s)
        if op in ("++", "--") and len(args) == 1:
            cur = self.ex(args[0], env, fn)
            if cur.kind != "int":
                raise Unsupported("`%s` on a %s variable" % (op, cur.kind), s)
            return self.assign_to(name, Val("(%s %s 1)" % (cur.text, op[0]), "int", cur.cty), env, s)
        if op in ("+=", "-=", "*=", "<<=", ">>=") and len(args) == 2:
            fake = {"kind": "BinaryOperator", "opcode": op[:-1], "inner": [args[0], args[1]], "range": s.get("range")}
            return self.assign_to(name, self.ex(fake, env, fn), env, s)
        raise Unsupported("expression statement with operator `%s`" % op, s)

    def call_stmt(self, node, result_var, env, fn):
        """`f<..>(out, args);` or `Result r = f<..>(out, args);`: rebinds out (and r)"""
        b = self.bind_call_out(node, env, fn)
        head, largs, outname = b
        o = env[outname]
        if result_var is None:
            line = "let %s : Int := (%s %s).1" % (o["lean"], head, " ".join(largs))
        else:
            r = env[result_var]
            if r["kind"] != "result":
                raise Unsupported("result of a call stored in a %s variable" % r["kind"], node)
            if r["lean"] == o["lean"]:
                raise Unsupported("call storing into its own result variable", node)
            line = "let (%s, %s) := %s %s" % (o["lean"], r["lean"], head, " ".join(largs))
            r["uninit"] = False
        o["uninit"] = False
        o["shape"] = None
        if outname != fn.out:
            # the callee hands back the value before its conversion to the type; a local that is read again
            # holds the converted value (the hand model: "typed temporaries that are read again are wrapped")
            if o["kind"] != "int" or not o["cty"] or o["cty"][0] != "T":
                raise Unsupported("out-argument of type other than a template integer type", node)
            line += "\nlet %s : Int := %s.wrap %s" % (o["lean"], ty_lean(o["cty"]), o["lean"])
        return line

    def bind_call_out(self, node, env, fn):
        """a call of a function with an out-parameter: the out argument must be a local; an uninitialised local is
        passed as 0 (the callee's result code says whether it stored anything)"""
        outn = self.strip(node["inner"][1]) if len(node["inner"]) > 1 else None
        if outn is None or outn["kind"] != "DeclRefExpr" or outn["ref"][1] not in env:
            raise Unsupported("call whose first argument is not a local", node)
        outname = outn["ref"][1]
        was_uninit = env[outname].get("uninit")
        if was_uninit:
            env[outname]["uninit"] = False
        b = self.bind_call(node, env, fn)
        if b[0] != "call":
            raise Unsupported("call of a function without out-parameter as a statement", node)
        _, head, largs, g, vals = b
        if g is not None and g.out is None:
            raise Unsupported("call of a function without out-parameter as a statement", node)
        if env[outname].get("const"):
            raise Unsupported("const local passed as out-parameter", node)
        if was_uninit:
            largs = ["0"] + largs[1:]
        return head, largs, outname

    def ret(self, s, env, fn):
        inner = s.get("inner") or []
        if fn.ret == "void":
            raise Unsupported("return in a void function", s)
        if not inner:
            raise Unsupported("return without a value", s)
        e = self.strip(inner[0])
        if fn.ret == "result":
            if e["kind"] == "CallExpr" and self.is_out_call(e, env, fn):
                head, largs, outname = self.bind_call_out(e, env, fn)
                if outname != fn.out:
                    raise Unsupported("`return f(v, ..)` where v is not the out-parameter", s)
                return ["%s %s" % (head, " ".join(largs))]
            v = self.ex(e, env, fn)
            if v.kind != "result":
                raise Unsupported("return of a %s value from a function returning Result" % v.kind, s)
            return ["(%s, %s)" % (env[fn.out]["lean"], v.text)]
        v = self.ex(e, env, fn)
        if v.kind != ("result" if fn.ret == "result_only" else fn.ret):
            raise Unsupported("return of a %s value from a function returning %s" % (v.kind, fn.ret), s)
        return [v.text]

    def switch(self, s, rest, env, fn):
        inner = s["inner"]
        scrut = self.ex(inner[0], env, fn)
        body = inner[1]
        if body["kind"] != "CompoundStmt":
            raise Unsupported("switch whose body is not a block", s)
        sections, cur = [], None
        def open_label(st):
            # CaseStmt: inner = [ConstantExpr/label, sub-statement]; DefaultStmt: inner = [sub-statement]
            nonlocal cur
            if st["kind"] == "CaseStmt":
                lab = st["inner"][0]
                while lab["kind"] in ("ConstantExpr", "ImplicitCastExpr", "ParenExpr"):
                    lab = lab["inner"][0]
                cur = {"label": lab, "stmts": []}
                sections.append(cur)
                sub = st["inner"][-1]
            else:
                cur = {"label": None, "stmts": []}
                sections.append(cur)
                sub = st["inner"][0]
            if sub["kind"] in ("CaseStmt", "DefaultStmt"):
                raise Unsupported("case labels sharing one section", st)
            cur["stmts"].append(sub)
        for st in body.get("inner", []):
            if st["kind"] in ("CaseStmt", "DefaultStmt"):
                open_label(st)
            elif cur is None:
                raise Unsupported("statement before the first case label", st)
            else:
                cur["stmts"].append(st)
        arms = []
        for sec in sections:
            lines = self.block(sec["stmts"] + [{"kind": "//fallthrough", "range": s.get("range")}], self.fork(env), fn)
            arms.append((sec["label"], lines))
        if scrut.kind == "cls":
            out = ["match %s with" % scrut.text]
            seen = set()
            for lab, lines in arms:
                if lab is None:
                    pat = "_"
                else:
                    v = self.ex(lab, env, fn)
                    if v.kind != "cls":
                        raise Unsupported("case label of kind " + v.kind, lab)
                    pat = "." + v.text.split(".")[1]
                if pat in seen:
                    raise Unsupported("duplicate case label", s)
                seen.add(pat)
                out.append("| %s =>" % pat)
                out += ["  " + l for l in lines]
            if "_" not in seen and len(seen) < 4:
                raise Unsupported("switch on Result_Class without default that does not cover every class", s)
            # the default arm must come last in Lean; C++ allows any order
            return self.default_last(out)
        if scrut.kind == "int":
            out = []
            default = None
            for lab, lines in arms:
                if lab is None:
                    default = lines
            if default is None:
                raise Unsupported("switch on an integer without default", s)
            chain = default
            for lab, lines in reversed([a for a in arms if a[0] is not None]):
                v = self.ex(lab, env, fn)
                if v.kind != "lit":
                    raise Unsupported("case label that is not an integer literal", lab)
                chain = ["if %s == %s then" % (paren(scrut.text), self.lit(v, "int"))] + ["  " + l for l in lines] + \
                        ["else"] + ["  " + l for l in chain]
            return chain
        raise Unsupported("switch on a %s value" % scrut.kind, s)

    def default_last(self, out):
        # split into arms
        head, arms, cur = out[0], [], None
        for l in out[1:]:
            if l.startswith("| "):
                cur = [l]
                arms.append(cur)
            else:
                cur.append(l)
        arms.sort(key=lambda a: a[0].startswith("| _"))
        return [head] + [l for a in arms for l in a]

    # -------------------------------------------------------------------------------- functions
    def translate(self, fn):
        env = {"//typedefs": {}}
        binders = []
        for n, k in fn.tparams:
            binders.append("(%s : %s)" % (lname(n), "Policy" if k == "policy" else "IntTy"))
        for (n, ln, kind, cty, out) in fn.params:
            if kind not in KIND_LEAN:
                raise Unsupported("parameter of kind " + kind, fn.decl)
            if n is not None:
                if n in env:
                    raise Unsupported("duplicate parameter name", fn.decl)
                env[n] = {"lean": ln, "kind": kind, "cty": cty, "shape": None, "const": not out, "uninit": False}
            binders.append("(%s : %s)" % (ln, KIND_LEAN[kind]))
        if fn.body is None:
            raise Unsupported("no body", fn.decl)
        lines = self.block([fn.body], env, fn)
        for l in lines:
            if "//fallthrough" in l:
                raise Unsupported("switch section that does not end in return", fn.decl)
        head = "def t2_%s %s : %s :=" % (fn.name, " ".join(binders), fn.lean_ret())
        return "\n".join([head] + ["  " + l for l in lines])

    def extended_int(self):
        """the static members of `template <typename Policy, typename Type> struct Extended_Int`:
        [(member, lean def text, where)]; failures go to self.failed"""
        out = []
        decl = self.decls.get("//Extended_Int")
        if decl is None:
            self.failed["Extended_Int"] = "class template not found in the translation unit"
            return out
        class Pseudo:
            pass
        fn = Pseudo()
        fn.tparams = []
        rec = None
        for c in decl.get("inner", []):
            if c["kind"] == "TemplateTypeParmDecl":
                n = c.get("name")
                fn.tparams.append((n, "policy" if n.endswith("Policy") else "type"))
            elif c["kind"] == "CXXRecordDecl":
                rec = c
        fn.type_names = lambda: [n for n, k in fn.tparams if k == "type"]
        fn.ctype = lambda qual, td: (("int", ("T", "Type")) if re.sub(r"^const\s+", "", qual.strip()) in fn.type_names()
                                     else (_ for _ in ()).throw(Unsupported("C++ type `%s`" % qual)))
        if rec is None or fn.tparams != [("Policy", "policy"), ("Type", "type")]:
            self.failed["Extended_Int"] = "unexpected shape of the class template"
            return out
        for c in rec.get("inner", []):
            if c["kind"] != "VarDecl":
                continue
            name = "Extended_Int::" + c["name"]
            try:
                if not c.get("inner") or c.get("init") != "c":
                    raise Unsupported("static member without `= expr` initialiser", c)
                v = self.ex(c["inner"][0], {"//typedefs": {}}, fn)
                if v.kind == "lit":
                    v = Val(self.lit(v, "int"), "int")
                if v.kind != "int":
                    raise Unsupported("member of kind " + v.kind, c)
                out.append((c["name"], "def t2_Extended_Int_%s (P : Policy) (Ty : IntTy) : Int :=\n  %s" % (c["name"], v.text),
                            self.src.where(c)))
            except Unsupported as e:
                self.failed[name] = self.msg(e, c)
        return out

    def run(self, only=None):
        # parse the result-code names of the hand model (validation of enumerator references)
        rl = open(os.path.join(VERIF, "lean", "PPLV", "Checked", "Result.lean")).read()
        self.result_names = set(re.findall(r"^def (V_\w+) : Result", rl, re.M))
        order, state = [], {}

        def visit(name, stack):
            if state.get(name) == "done":
                return name in self.fns and self.fns[name].lean is not None
            if name in stack:
                self.failed[name] = "recursion through " + " -> ".join(stack + [name])
                return False
            if name not in self.fns:
                return False
            fn = self.fns[name]
            fn.calls = []
            try:
                text = self.translate(fn)
            except Unsupported as e:
                self.failed[name] = self.msg(e, fn.decl)
                state[name] = "done"
                return False
            for c in list(fn.calls):
                if state.get(c) != "done" and not visit(c, stack + [name]) or self.fns[c].lean is None:
                    self.failed[name] = "calls `%s`, which could not be translated (%s)" % (c, self.failed.get(c, "?"))
                    state[name] = "done"
                    return False
            fn.lean = text
            state[name] = "done"
            order.append(name)
            return True

        # callees must be known to be translatable before a caller is emitted: visit in source order,
        # depth first (the translation of a caller needs only the callee's signature)
        for name in TARGETS:
            if only and name not in only:
                continue
            if name in self.fns:
                visit(name, [])
        for name in list(self.fns):
            if self.fns[name].lean is None and name not in self.failed and (not only or name in only):
                self.failed[name] = "not reached"
        return order


# the `//fallthrough` pseudo statement: reaching it means a switch section fell through
_orig_block = Translator.block


def _block(self, stmts, env, fn):
    if stmts and stmts[0].get("kind") == "//fallthrough":
        raise Unsupported("switch section that does not end in `return` (fall-through or break)", stmts[0])
    if stmts and stmts[0].get("kind") == "BreakStmt":
        raise Unsupported("break", stmts[0])
    return _orig_block(self, stmts, env, fn)


Translator.block = _block


# ------------------------------------------------------------------------------------------ dispatch tables (T1)

def specialisation_table(blob):
    """the PPL_SPECIALIZE_* lines of checked_int_inlines.hh, macro-expanded one level:
    [(generic, function, [types])]"""
    txt = blob.decode("utf-8", "replace")
    a = txt.find("PPL source file ../src/checked_int_inlines.hh line 1.")
    b = txt.find("Automatically generated from PPL source file ../src/checked_float_inlines.hh", a)
    if a < 0 or b < 0:
        raise SystemExit("c11_t2: section of checked_int_inlines.hh not found in ppl.hh")
    sec = txt[a:b]
    macros = {}
    for m in re.finditer(r"^#define (PPL_ASSIGN\w*)\(([^)]*)\)((?:.*\\\n)*.*)$", sec, re.M):
        macros[m.group(1)] = ([p.strip() for p in m.group(2).split(",")], m.group(3).replace("\\\n", " "))
    rows = []
    use = re.compile(r"^(PPL_SPECIALIZE_(\w+)|PPL_ASSIGN\w*)\(([^()]*)\)\s*$")
    def emit(line):
        m = use.match(line.strip())
        if not m:
            return
        args = [x.strip() for x in m.group(3).split(",")]
        if m.group(1) in macros:
            ps, body = macros[m.group(1)]
            if len(ps) != len(args):
                raise SystemExit("c11_t2: macro %s used with %d arguments" % (m.group(1), len(args)))
            for call in re.findall(r"PPL_SPECIALIZE_\w+\([^()]*\)", body):
                for p, v in zip(ps, args):
                    call = re.sub(r"\b%s\b" % re.escape(p), v, call)
                emit(call)
        elif m.group(2):
            rows.append((m.group(2).lower(), args[0], args[1:]))
    for line in sec.splitlines():
        if line.startswith("#"):
            continue
        emit(line)
    return rows


def check_dispatch(blob, used):
    """the rule the generated dispatchers implement, checked against every specialisation line"""
    rows = specialisation_table(blob)
    def sg(t):
        if t.startswith("signed "):
            return "signed"
        if t.startswith("unsigned "):
            return "unsigned"
        return None       # plain char: conditional on PPL_CXX_PLAIN_CHAR_IS_SIGNED, not used by the checks
    bad, n = [], 0
    for generic, func, types in rows:
        s = [sg(t) for t in types]
        if None in s:
            continue
        n += 1
        if generic == "assign":
            want = "assign_%s_int_%s_int" % (s[0], s[1]) if len(s) == 2 else None
        elif generic in ("neg", "add", "sub", "mul", "div", "idiv", "rem", "add_2exp", "sub_2exp", "mul_2exp", "div_2exp",
                         "smod_2exp", "umod_2exp", "sqrt"):
            want = "%s_%s_int" % (generic, s[0]) if len(set(s)) == 1 and len(set(types)) == 1 else None
        elif generic == "abs":
            want = ("abs_generic" if s[0] == "signed" else "assign_unsigned_int_unsigned_int") if len(set(types)) == 1 else None
        elif generic == "assign_special":
            want = "assign_special_int"
        else:
            continue
        if want != func:
            bad.append("PPL_SPECIALIZE_%s(%s, %s): the dispatch rule of the model expects %s" % (
                generic.upper(), func, ", ".join(types), want))
    return n, bad


def check_larger(blob):
    """`Larger<T>`: type_for_neg / type_for_sub are signed int_fast types, type_for_add / type_for_mul have the
    signedness of T (what `t2_larger_type_for_*` say)"""
    txt = blob.decode("utf-8", "replace")
    bad, n = [], 0
    for m in re.finditer(r"template <>\s*struct Larger<([^>]+)>\s*\{(.*?)\n\};", txt, re.S):
        t = m.group(1).strip()
        uns = t.startswith("unsigned")
        if t == "char":
            continue
        n += 1
        tds = dict((op, ty) for ty, op in re.findall(r"typedef\s+(\w+)\s+type_for_(\w+);", m.group(2)))
        for op in ("neg", "add", "sub", "mul"):
            ty = tds.get(op)
            if ty is None or not re.match(r"^u?int_fast(16|32|64)_t$", ty):
                bad.append("Larger<%s>::type_for_%s is %s" % (t, op, ty))
                continue
            want_unsigned = uns and op in ("add", "mul")
            if ty.startswith("u") != want_unsigned:
                bad.append("Larger<%s>::type_for_%s is %s (the model takes %s)" % (t, op, ty, "unsigned" if want_unsigned else "signed"))
    if n < 10:
        bad.append("only %d specialisations of Larger<T> found" % n)
    return n, bad


# ------------------------------------------------------------------------------------------ output

HEADER = """import PPLV.Checked.T2Base
/-! GENERATED at every run of `bin/check C11` by `gen/c11_t2.py` from the clang AST of the
uninstantiated function templates of `src/checked_int_inlines.hh` / `src/checked_inlines.hh`
(through `src/ppl.hh`) — do not edit.  One `def t2_<function>` per translated C++ function, over
the parameter types of the hand-written model (`PPLV/Checked/Model.lean`): template policy
parameters are `Policy` records, template integer types are `IntTy` descriptors, values are `Int`,
`unsigned int` is `Nat`, a function `Result f(T& to, ..)` returns `(to, result)`.
`PPLV/Checked/T2Agree.lean` proves each definition equal to the hand-written model. -/
set_option linter.unusedVariables false
namespace PPLV.Gen.T2
open PPLV.Checked PPLV.Checked.Result
"""


def render(tr, order):
    out = [HEADER]
    out.append("/-- `Larger<T>::type_for_*` (the table of specialisations was checked against this rule) -/")
    out.append("def t2_larger_type_for_neg (T : IntTy) : IntTy := T.larger true")
    out.append("def t2_larger_type_for_add (T : IntTy) : IntTy := T.larger T.signed")
    out.append("def t2_larger_type_for_sub (T : IntTy) : IntTy := T.larger true")
    out.append("def t2_larger_type_for_mul (T : IntTy) : IntTy := T.larger T.signed")
    out.append("")
    for member, text, where in tr.ext_members:
        out.append("/-- `Extended_Int<Policy, Type>::%s` (%s) -/" % (member, where))
        out.append("-- [t2:Extended_Int_%s]" % member)
        out.append(text)
        out.append("-- [end]")
        out.append("")
    emitted = set()
    def dispatchers():
        # a dispatcher is emitted as soon as its targets are
        res = []
        if "assign" not in emitted and all(
                n in emitted for n in ("assign_signed_int_signed_int", "assign_signed_int_unsigned_int",
                                       "assign_unsigned_int_signed_int", "assign_unsigned_int_unsigned_int")):
            emitted.add("assign")
            res.append("/-- generic `assign<To_Policy, From_Policy>(to, from, dir)` on native integers (the PPL_SPECIALIZE_ASSIGN table) -/\n"
                       "def t2_assign (To_Policy : Policy) (From_Policy : Policy) (To : IntTy) (From : IntTy) (to : Int) (frm : Int) (dir : Dir) : Int × Result :=\n"
                       "  match To.signed, From.signed with\n"
                       "  | true, true => t2_assign_signed_int_signed_int To_Policy From_Policy To From to frm dir\n"
                       "  | true, false => t2_assign_signed_int_unsigned_int To_Policy From_Policy To From to frm dir\n"
                       "  | false, true => t2_assign_unsigned_int_signed_int To_Policy From_Policy To From to frm dir\n"
                       "  | false, false => t2_assign_unsigned_int_unsigned_int To_Policy From_Policy To From to frm dir\n")
        for g, (pols, _, sg, us, nfrom) in DISPATCH.items():
            if g not in emitted and sg in emitted and us in emitted:
                emitted.add(g)
                ops = ["x", "y"][:nfrom]
                b = " ".join("(%s : Policy)" % p for p in pols) + " (To : IntTy) (to : Int) " + \
                    " ".join("(%s : Int)" % o for o in ops) + " (dir : Dir)"
                a = " ".join(pols) + " To to " + " ".join(ops) + " dir"
                res.append("/-- generic `%s<..>` on native integers (the PPL_SPECIALIZE_%s table: by signedness) -/\n"
                           "def t2_%s %s : Int × Result :=\n  if To.signed then t2_%s %s else t2_%s %s\n" % (
                               g, g.upper(), g, b, sg, a, us, a))
        for g, (sg, us, shape) in DISPATCH_MORE.items():
            if g not in emitted and sg in emitted and us in emitted:
                emitted.add(g)
                if shape == "xy":
                    pols, b2, a2 = ["To_Policy", "From1_Policy", "From2_Policy"], "(x : Int) (y : Int)", "x y"
                elif shape == "xe":
                    pols, b2, a2 = ["To_Policy", "From_Policy"], "(x : Int) (exp : Nat)", "x exp"
                else:
                    pols, b2, a2 = ["To_Policy", "From_Policy"], "(x : Int)", "x"
                b = " ".join("(%s : Policy)" % p for p in pols) + " (To : IntTy) (to : Int) " + b2 + " (dir : Dir)"
                ty = "To To" if shape == "abs" else "To"
                a = " ".join(pols) + " " + ty + " to " + a2 + " dir"
                res.append("/-- generic `%s<..>` on native integers (the PPL_SPECIALIZE_%s table: by signedness) -/\n"
                           "def t2_%s %s : Int × Result :=\n  if To.signed then t2_%s %s else t2_%s %s\n" % (
                               g, g.upper(), g, b, sg, a, us, a))
        return res
    # dispatchers are referenced by later functions only; emit each right after its last target
    for name in order:
        fn = tr.fns[name]
        out.append("/-- `%s` (%s) -/" % (name, fn.where))
        out.append("-- [t2:%s]" % name)
        out.append(fn.lean)
        out.append("-- [end]")
        out.append("")
        emitted.add(name)
        out += dispatchers()
    out.append("/-- the functions translated in this run, in the order of emission -/")
    out.append("def translated : List String := [%s]" % ", ".join('"%s"' % n for n in order))
    out.append("")
    out.append("end PPLV.Gen.T2")
    return "\n".join(out) + "\n"


def split_defs(text):
    """{function: def text} of a generated file"""
    return {m.group(1): m.group(2) for m in re.finditer(r"-- \[t2:(\w+)\]\n(.*?)\n-- \[end\]", text, re.S)}


def main(argv):
    pos, report_path, only, use_cache = [], None, None, True
    i = 1
    while i < len(argv):
        a = argv[i]
        if a == "--report":
            report_path = argv[i + 1]; i += 1
        elif a == "--only":
            only = set(argv[i + 1].split(",")); i += 1
        elif a == "--no-cache":
            use_cache = False
        elif a.startswith("--"):
            print(__doc__); return 2
        else:
            pos.append(a)
        i += 1
    if len(pos) != 2:
        print(__doc__)
        return 2
    repo, outp = pos
    decls, blob, cached = load_functions(repo, use_cache)
    tr = Translator(decls, blob)
    order = tr.run(only)
    tr.ext_members = tr.extended_int() if not only else []
    nd, bad_d = check_dispatch(blob, tr.dispatch_used)
    nl, bad_l = check_larger(blob)
    text = render(tr, order)
    old = open(outp).read() if os.path.exists(outp) else None
    if old != text:
        os.makedirs(os.path.dirname(outp), exist_ok=True)
        tmp = outp + ".tmp%d" % os.getpid()
        with open(tmp, "w") as f:
            f.write(text)
        os.rename(tmp, outp)
    callgraph = {n: sorted(set(tr.fns[n].calls)) for n in order}
    rep = {"translated": order, "translated_constants": ["Extended_Int::" + m for m, _, _ in tr.ext_members],
           "failed": {k: v for k, v in sorted(tr.failed.items()) if not only or k in only},
           "externals_bound_to_the_hand_model": sorted(tr.externals), "dispatchers": sorted(tr.dispatch_used),
           "callgraph": callgraph, "ast_cache_hit": cached, "rewritten": old != text,
           "specialisation_lines_checked": nd, "dispatch_rule_violations": bad_d,
           "larger_specialisations_checked": nl, "larger_rule_violations": bad_l,
           "where": {n: tr.fns[n].where for n in order},
           "expected_untranslated": EXPECTED_UNTRANSLATED}
    if report_path:
        with open(report_path, "w") as f:
            json.dump(rep, f, indent=1, sort_keys=True)
    for k, v in rep["failed"].items():
        print("c11_t2: NOT TRANSLATED %s: %s" % (k, v))
    for b in bad_d + bad_l:
        print("c11_t2: TABLE %s" % b)
    print("c11_t2: %d functions translated, %d not translated, ast cache %s" % (len(order), len(rep["failed"]), "hit" if cached else "miss"))
    unexpected = [k for k in rep["failed"] if k not in EXPECTED_UNTRANSLATED]
    return 1 if (unexpected or bad_d or bad_l) else 0


if __name__ == "__main__":
    sys.exit(main(sys.argv))
