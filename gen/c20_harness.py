#!/usr/bin/env python3
"""Generates the table-driven part of the C20 harness from the entry-point table (build/c20_table.json):

  build/c20gen/c20_ciface_gen.inc   included by harness/c20_ciface.cc

 * one `sw_<i>` function per entry point that synthesises type-correct arguments from the parameter
   kinds and calls the entry point through `Sweep::run` (which checks the calling protocol);
 * the type table (delete / OK / asprint / copy / equals function of every handle type, looked up by name
   in the same table);
 * per-domain function-pointer tables (`DomApi`) for the templated C++ oracle.

Only signatures (names, parameter names and types) are used, so the generated text is stable under
changes of wrapper bodies.  Stdlib only; deterministic.
"""
import hashlib, json, os, re, sys

VERIF = os.path.dirname(os.path.dirname(os.path.abspath(__file__)))

# entry points the generic sweep does not call (they are exercised by hand-written code in the harness)
HAND = {
    "ppl_initialize", "ppl_finalize", "ppl_thread_initialize", "ppl_thread_finalize",
    "ppl_set_error_handler", "ppl_set_timeout", "ppl_reset_timeout", "ppl_set_deterministic_timeout",
    "ppl_reset_deterministic_timeout", "ppl_io_set_variable_output_function",
    "ppl_io_get_variable_output_function", "ppl_set_rounding_for_PPL", "ppl_restore_pre_PPL_rounding",
    "ppl_io_wrap_string", "ppl_set_irrational_precision",
}

DOMAIN_CXX = {
    "Polyhedron": "C_Polyhedron",
    "Grid": "Grid",
    "Rational_Box": "Rational_Box",
    "Double_Box": "Double_Box",
    "BD_Shape_mpz_class": "BD_Shape<mpz_class>",
    "BD_Shape_mpq_class": "BD_Shape<mpq_class>",
    "BD_Shape_double": "BD_Shape<double>",
    "Octagonal_Shape_mpz_class": "Octagonal_Shape<mpz_class>",
    "Octagonal_Shape_mpq_class": "Octagonal_Shape<mpq_class>",
    "Octagonal_Shape_double": "Octagonal_Shape<double>",
    "Pointset_Powerset_C_Polyhedron": "Pointset_Powerset<C_Polyhedron>",
    "Pointset_Powerset_NNC_Polyhedron": "Pointset_Powerset<NNC_Polyhedron>",
    "Constraints_Product_C_Polyhedron_Grid": "Constraints_Product_C_Polyhedron_Grid",
}
# name used in ppl_new_<X>_from_... for a handle type
NEW_NAME = {"Polyhedron": "C_Polyhedron"}

# operations of the per-domain API table: field -> (entry-point suffix, C function type with %s = handle base)
DOM_OPS = [
    ("is_empty", "int(*)(ppl_const_%s_t)"), ("is_universe", "int(*)(ppl_const_%s_t)"),
    ("is_bounded", "int(*)(ppl_const_%s_t)"), ("is_topologically_closed", "int(*)(ppl_const_%s_t)"),
    ("is_discrete", "int(*)(ppl_const_%s_t)"), ("contains_integer_point", "int(*)(ppl_const_%s_t)"),
    ("OK", "int(*)(ppl_const_%s_t)"),
    ("space_dimension", "int(*)(ppl_const_%s_t, ppl_dimension_type*)"),
    ("affine_dimension", "int(*)(ppl_const_%s_t, ppl_dimension_type*)"),
    ("constrains", "int(*)(ppl_%s_t, ppl_dimension_type)"),
    ("bounds_from_above", "int(*)(ppl_const_%s_t, ppl_const_Linear_Expression_t)"),
    ("bounds_from_below", "int(*)(ppl_const_%s_t, ppl_const_Linear_Expression_t)"),
    ("maximize", "int(*)(ppl_const_%s_t, ppl_const_Linear_Expression_t, ppl_Coefficient_t, ppl_Coefficient_t, int*)"),
    ("minimize", "int(*)(ppl_const_%s_t, ppl_const_Linear_Expression_t, ppl_Coefficient_t, ppl_Coefficient_t, int*)"),
    ("relation_with_Constraint", "int(*)(ppl_const_%s_t, ppl_const_Constraint_t)"),
    ("relation_with_Generator", "int(*)(ppl_const_%s_t, ppl_const_Generator_t)"),
    ("contains_@", "int(*)(ppl_const_%s_t, ppl_const_%s_t)"),
    ("strictly_contains_@", "int(*)(ppl_const_%s_t, ppl_const_%s_t)"),
    ("is_disjoint_from_@", "int(*)(ppl_const_%s_t, ppl_const_%s_t)"),
    ("equals_@", "int(*)(ppl_const_%s_t, ppl_const_%s_t)"),
    ("intersection_assign", "int(*)(ppl_%s_t, ppl_const_%s_t)"),
    ("upper_bound_assign", "int(*)(ppl_%s_t, ppl_const_%s_t)"),
    ("difference_assign", "int(*)(ppl_%s_t, ppl_const_%s_t)"),
    ("concatenate_assign", "int(*)(ppl_%s_t, ppl_const_%s_t)"),
    ("time_elapse_assign", "int(*)(ppl_%s_t, ppl_const_%s_t)"),
    ("upper_bound_assign_if_exact", "int(*)(ppl_%s_t, ppl_const_%s_t)"),
    ("simplify_using_context_assign", "int(*)(ppl_%s_t, ppl_const_%s_t)"),
    ("widening_assign", "int(*)(ppl_%s_t, ppl_const_%s_t)"),
    ("topological_closure_assign", "int(*)(ppl_%s_t)"),
    ("add_constraint", "int(*)(ppl_%s_t, ppl_const_Constraint_t)"),
    ("add_congruence", "int(*)(ppl_%s_t, ppl_const_Congruence_t)"),
    ("add_constraints", "int(*)(ppl_%s_t, ppl_const_Constraint_System_t)"),
    ("refine_with_constraint", "int(*)(ppl_%s_t, ppl_const_Constraint_t)"),
    ("refine_with_congruence", "int(*)(ppl_%s_t, ppl_const_Congruence_t)"),
    ("affine_image", "int(*)(ppl_%s_t, ppl_dimension_type, ppl_const_Linear_Expression_t, ppl_const_Coefficient_t)"),
    ("affine_preimage", "int(*)(ppl_%s_t, ppl_dimension_type, ppl_const_Linear_Expression_t, ppl_const_Coefficient_t)"),
    ("bounded_affine_image", "int(*)(ppl_%s_t, ppl_dimension_type, ppl_const_Linear_Expression_t, ppl_const_Linear_Expression_t, ppl_const_Coefficient_t)"),
    ("generalized_affine_image", "int(*)(ppl_%s_t, ppl_dimension_type, enum ppl_enum_Constraint_Type, ppl_const_Linear_Expression_t, ppl_const_Coefficient_t)"),
    ("add_space_dimensions_and_embed", "int(*)(ppl_%s_t, ppl_dimension_type)"),
    ("add_space_dimensions_and_project", "int(*)(ppl_%s_t, ppl_dimension_type)"),
    ("remove_higher_space_dimensions", "int(*)(ppl_%s_t, ppl_dimension_type)"),
    ("remove_space_dimensions", "int(*)(ppl_%s_t, ppl_dimension_type*, size_t)"),
    ("unconstrain_space_dimension", "int(*)(ppl_%s_t, ppl_dimension_type)"),
    ("expand_space_dimension", "int(*)(ppl_%s_t, ppl_dimension_type, ppl_dimension_type)"),
    ("fold_space_dimensions", "int(*)(ppl_%s_t, ppl_dimension_type*, size_t, ppl_dimension_type)"),
    ("map_space_dimensions", "int(*)(ppl_%s_t, ppl_dimension_type*, size_t)"),
    ("get_constraints", "int(*)(ppl_const_%s_t, ppl_const_Constraint_System_t*)"),
    ("get_minimized_constraints", "int(*)(ppl_const_%s_t, ppl_const_Constraint_System_t*)"),
    ("get_congruences", "int(*)(ppl_const_%s_t, ppl_const_Congruence_System_t*)"),
    ("ascii_dump", "int(*)(ppl_const_%s_t, FILE*)"),
    ("ascii_load", "int(*)(ppl_%s_t, FILE*)"),
]


def cident(s):
    return re.sub(r"[^A-Za-z0-9_]", "_", s)


def gen(tab):
    E = tab["entries"]
    by_name = {f["name"]: f for f in E}
    htypes = sorted(set(p["htype"] for f in E for p in f["params"]
                        if p["kind"] in ("handle", "constHandle", "outHandle", "outConstHandle")))
    tid = {h: i for i, h in enumerate(htypes)}
    out = []
    w = out.append
    w("// GENERATED by gen/c20_harness.py from build/c20_table.json — do not edit.")
    w("enum TypeId { %s, T_COUNT };" % ", ".join("T_%s" % h for h in htypes))
    # ---- type table
    for h in htypes:
        d = "ppl_delete_" + h
        if d in by_name:
            w("static int del_%s(const void* p) { return %s((ppl_const_%s_t) p); }" % (h, d, h))
        ok = "ppl_%s_OK" % h
        if ok in by_name:
            w("static int ok_%s(const void* p) { return %s((ppl_const_%s_t) p); }" % (h, ok, h))
        ap = "ppl_io_asprint_" + h
        if ap in by_name:
            w("static int asprint_%s(char** s, const void* p) { return %s(s, (ppl_const_%s_t) p); }" % (h, ap, h))
        nn = NEW_NAME.get(h, h)
        cp = "ppl_new_%s_from_%s" % (nn, nn)
        if cp in by_name:
            w("static int copy_%s(void** o, const void* p) { ppl_%s_t x = 0; int r = %s(&x, (ppl_const_%s_t) p); *o = (void*) x; return r; }" % (h, h, cp, h))
        eq = "ppl_%s_equals_%s" % (h, h)
        if eq in by_name:
            w("static int equals_%s(const void* a, const void* b) { return %s((ppl_const_%s_t) a, (ppl_const_%s_t) b); }" % (h, eq, h, h))
        sd = "ppl_new_%s_from_space_dimension" % nn
        if sd in by_name and h in DOMAIN_CXX:
            w("static int newdim_%s(void** o, ppl_dimension_type d, int e) { ppl_%s_t x = 0; int r = %s(&x, d, e); *o = (void*) x; return r; }" % (h, h, sd))
            rc = "ppl_%s_refine_with_constraint" % h
            w("static int refine_%s(void* p, ppl_const_Constraint_t c) { return %s((ppl_%s_t) p, c); }" % (h, rc, h))
    w("static const TypeInfo g_types[T_COUNT] = {")
    for h in htypes:
        nn = NEW_NAME.get(h, h)
        def ref(pre, cond):
            return "%s_%s" % (pre, h) if cond else "0"
        w('  { "%s", %s, %s, %s, %s, %s, %s, %s },' % (
            h, ref("del", "ppl_delete_" + h in by_name), ref("ok", "ppl_%s_OK" % h in by_name),
            ref("asprint", "ppl_io_asprint_" + h in by_name),
            ref("copy", "ppl_new_%s_from_%s" % (nn, nn) in by_name),
            ref("equals", "ppl_%s_equals_%s" % (h, h) in by_name),
            ref("newdim", h in DOMAIN_CXX and "ppl_new_%s_from_space_dimension" % nn in by_name),
            ref("refine", h in DOMAIN_CXX and "ppl_new_%s_from_space_dimension" % nn in by_name)))
    w("};")
    # ---- sweep functions
    names = []
    for idx, f in enumerate(E):
        n = f["name"]
        if n in HAND or f["kind"] == "delete":
            continue
        body, args, post = [], [], []
        ok = True
        ps = f["params"]
        for i, p in enumerate(ps):
            k, t, pn, h = p["kind"], p["type"], p["name"], p["htype"]
            a = "a%d" % i
            nxt = ps[i + 1] if i + 1 < len(ps) else None
            if k in ("handle", "constHandle"):
                cst = "true" if k == "constHandle" else "false"
                body.append("%s %s = (%s) S.obj(T_%s, %d, %s);" % (t, a, t, h, i, cst))
                args.append(a)
            elif k in ("outHandle", "outConstHandle"):
                base = t.replace("*", "").strip()
                body.append("%s %s = 0;" % (base, a))
                args.append("&" + a)
                if f["kind"] == "new" and k == "outHandle":
                    post.append("if (r >= 0 && %s) S.adopt(T_%s, (void*) %s);" % (a, h, a))
            elif k == "dim":
                body.append("ppl_dimension_type %s = S.dim(\"%s\");" % (a, pn))
                args.append(a)
            elif k == "dimPtr":
                if nxt is not None and nxt["type"] == "size_t":
                    body.append("ppl_dimension_type* %s = S.dims();" % a)
                else:
                    body.append("ppl_dimension_type %s_v = 0; ppl_dimension_type* %s = &%s_v;" % (a, a, a))
                args.append(a)
            elif k == "int":
                body.append("int %s = S.ival(\"%s\");" % (a, pn))
                args.append(a)
            elif k == "uint":
                if t == "size_t":
                    body.append("size_t %s = S.ndims();" % a)
                else:
                    body.append("%s %s = S.uval(\"%s\");" % (t, a, pn))
                args.append(a)
            elif k == "intPtr":
                base = t.replace("*", "").strip()
                body.append("%s %s_v = 1; %s* %s = &%s_v;" % (base, a, base, a, a))
                args.append(a)
            elif k == "mpz":
                args.append("S.z")
            elif k == "file":
                body.append("FILE* %s = S.file();" % a)
                args.append(a)
            elif k == "strPtr" and t == "char **":
                body.append("char* %s_v = 0; char** %s = &%s_v;" % (a, a, a))
                post.append("if (%s_v) free(%s_v);" % (a, a))
                args.append(a)
            elif k == "strPtr":
                body.append("const char* %s_v = 0; const char** %s = &%s_v;" % (a, a, a))
                args.append(a)
            elif k == "enum":
                body.append("%s %s = (%s) S.enumval(\"%s\");" % (t, a, t, h))
                args.append(a)
            elif k == "other" and t == "size_t *":
                body.append("size_t %s_v = 0; size_t* %s = &%s_v;" % (a, a, a))
                args.append(a)
            elif k == "other" and t == "const ppl_const_Constraint_System_t *":
                body.append("ppl_const_Constraint_System_t %s_v = (ppl_const_Constraint_System_t) S.obj(T_Constraint_System, %d, true);" % (a, i))
                body.append("const ppl_const_Constraint_System_t* %s = &%s_v;" % (a, a))
                args.append(a)
            else:
                ok = False
        if not ok:
            w("// not swept (unsupported parameter type): %s" % n)
            continue
        w("static int sw_%d(Sweep& S) {  // %s" % (idx, n))
        for b in body:
            w("  " + b)
        w("  int r = S.run([&]() -> int { return %s(%s); });" % (n, ", ".join(args)))
        for b in post:
            w("  " + b)
        w("  return r;")
        w("}")
        names.append((idx, n, f))
    w("static const SweepEntry g_sweep[] = {")
    for idx, n, f in names:
        w('  { %d, "%s", "%s", "%s", sw_%d },' % (idx, n, f["op"], f["cls"], idx))
    w("};")
    w("static const int g_nsweep = %d;" % len(names))
    w("static const int g_nentries = %d;" % len(E))
    # ---- per-domain API tables for the oracle
    w("template <typename H, typename CH> struct DomApi {")
    w("  const char* name; TypeId tid;")
    for op, ty in DOM_OPS:
        field = op.replace("_@", "")
        w("  %s;" % ty.replace("(*)", "(*%s)" % field).replace("ppl_const_%s_t", "CH").replace("ppl_%s_t", "H"))
    w("};")
    for h in sorted(DOMAIN_CXX):
        vals = []
        for op, ty in DOM_OPS:
            nm = "ppl_%s_%s" % (h, op.replace("@", h))
            if nm in by_name:
                # check the signature really is the expected one (else leave the slot empty)
                exp = [x.strip() for x in ty[ty.index(")(") + 2:-1].split(",")]
                exp = [x.replace("%s", h) for x in exp]
                got = [p["type"].replace(" *", "*").replace("[]", "*") for p in by_name[nm]["params"]]
                got = [g for g in got]
                if [e.replace(" ", "") for e in exp] == [g.replace(" ", "") for g in got]:
                    vals.append(nm)
                else:
                    vals.append("0 /* signature differs: %s */" % nm)
            else:
                vals.append("0")
        w('static const DomApi<ppl_%s_t, ppl_const_%s_t> api_%s = { "%s", T_%s, %s };' % (h, h, h, h, h, ", ".join(vals)))
    w("#define C20_FOR_EACH_DOMAIN(X) \\")
    for h in sorted(DOMAIN_CXX):
        w("  X(%s, %s) \\" % (h, DOMAIN_CXX[h].replace(",", " C20_COMMA ")))
    w("")
    return "\n".join(out) + "\n"


def write(tab, outdir):
    text = gen(tab)
    os.makedirs(outdir, exist_ok=True)
    p = os.path.join(outdir, "c20_ciface_gen.inc")
    if not (os.path.exists(p) and open(p).read() == text):
        with open(p + ".tmp", "w") as f:
            f.write(text)
        os.replace(p + ".tmp", p)
    return p, hashlib.sha256(text.encode()).hexdigest()[:16]


if __name__ == "__main__":
    tabp = sys.argv[1] if len(sys.argv) > 1 else os.path.join(VERIF, "build", "c20_table.json")
    outd = sys.argv[2] if len(sys.argv) > 2 else os.path.join(VERIF, "build", "c20gen")
    p, h = write(json.load(open(tabp)), outd)
    print(p, h)
