#!/usr/bin/env python3
"""T1 translator for property C15: the status-flag dump/load tables of PPL's five Status classes.

Source of truth: the CURRENT text of, under $VERIF_REPO (default /repo)/src,
    Ph_Status.cc   Ph_Status_inlines.hh   Ph_Status_idefs.hh      (Polyhedron::Status)
    Grid_Status.cc Grid_Status_inlines.hh Grid_Status_idefs.hh    (Grid::Status)
    BDS_Status.cc  BDS_Status_inlines.hh  BDS_Status_idefs.hh     (BD_Shape<T>::Status)
    Og_Status.cc   Og_Status_inlines.hh   Og_Status_idefs.hh      (Octagonal_Shape<T>::Status)
    Box_Status.cc  Box_Status_inlines.hh  Box_Status_idefs.hh     (Box<ITV>::Status)

What is extracted (nothing is assumed about names, order, number of flags):
  * the keyword strings (`const char* zero_dim_univ = "ZE";`) and the yes/no/separator characters;
  * from `Status::ascii_dump`: the ordered chain `s << (test_X() ? yes : no) << keyword << separator ...`,
    i.e. for every field its test function, its token and the exact separator text written after it;
  * from `Status::ascii_load`: for every `get_field(s, keyword, positive)` the statements executed when
    the sign is '+' and when it is '-' (`set_X()` / `reset_X()` / nothing);
  * from the inlines: what `test_X`, `set_X`, `reset_X` do to `flags`
    (`flags == M`, `test_any(M)`, `flags = M`, `set(M)`, `reset(M | M')`);
  * from the idefs: the numeric value of every mask `static const flags_t NAME = 1U << k;`
    and the flags value of a default-constructed `Status()`;
  * whether `get_field` still has the shape "first character yes/no, rest equals the keyword".

Anything that does not have one of these shapes makes the translator fail (exit 1) - the check then
reports the obligation as broken instead of silently keeping an old table.

Output (deterministic, data only): lean/PPLV/Gen/StatusTables.lean, and a JSON twin for checks/c15.py.
  python3 gen/c15_tables.py [--repo DIR] [--lean OUT.lean] [--json OUT.json]
Stdlib only.
"""
import argparse, json, os, re, sys

VERIF = os.path.dirname(os.path.dirname(os.path.abspath(__file__)))

CLASSES = [
    # key, C++ class (site name), file stem
    ("ph", "Polyhedron::Status", "Ph_Status"),
    ("grid", "Grid::Status", "Grid_Status"),
    ("bds", "BD_Shape::Status", "BDS_Status"),
    ("og", "Octagonal_Shape::Status", "Og_Status"),
    ("box", "Box::Status", "Box_Status"),
]


class TranslateError(Exception):
    pass


def strip_comments(src):
    src = re.sub(r"/\*.*?\*/", " ", src, flags=re.S)
    src = re.sub(r"//[^\n]*", " ", src)
    return src


def body_after(src, pos):
    """text of the brace block that starts at the first '{' at or after pos (without the braces)"""
    i = src.index("{", pos)
    depth, j = 0, i
    while j < len(src):
        if src[j] == "{":
            depth += 1
        elif src[j] == "}":
            depth -= 1
            if depth == 0:
                return src[i + 1:j]
        j += 1
    raise TranslateError("unbalanced braces")


def find_function(src, name_re):
    """body of the (unique) function whose declarator matches  Status::<name>(...) [const] {"""
    ms = list(re.finditer(r"Status::\s*(?:%s)\s*\(([^)]*)\)\s*(?:const\s*)?\{" % name_re, src))
    if len(ms) != 1:
        raise TranslateError("expected exactly one definition of Status::%s, found %d" % (name_re, len(ms)))
    return body_after(src, ms[0].end() - 1)


def c_char(lit):
    lit = lit.strip()
    m = re.fullmatch(r"'(\\?.)'", lit)
    if not m:
        raise TranslateError("not a character literal: %r" % lit)
    c = m.group(1)
    return {"\\n": "\n", "\\t": "\t", "\\\\": "\\", "\\'": "'"}.get(c, c)


def last_ident(expr):
    """`Implementation::Boxes::empty` -> `empty`"""
    return expr.strip().split("::")[-1].strip()


def parse_masks(idefs):
    masks = {}
    for m in re.finditer(r"static\s+const\s+flags_t\s+(\w+)\s*=\s*([^;]+);", idefs):
        name, val = m.group(1), m.group(2).strip()
        mm = re.fullmatch(r"(\d+)U?", val)
        if mm:
            masks[name] = int(mm.group(1))
            continue
        mm = re.fullmatch(r"(\d+)U?\s*<<\s*(\d+)", val)
        if mm:
            masks[name] = int(mm.group(1)) << int(mm.group(2))
            continue
        raise TranslateError("mask %s has an unexpected initialiser %r" % (name, val))
    if not masks:
        raise TranslateError("no flags_t masks found")
    return masks


def eval_mask(expr, masks):
    v = 0
    for part in expr.split("|"):
        n = part.strip()
        if n not in masks:
            raise TranslateError("unknown mask %r" % n)
        v |= masks[n]
    return v


def simple_statements(body):
    """statements of an accessor body with assertions removed"""
    body = re.sub(r"PPL_ASSERT(?:_HEAVY)?\s*\((?:[^()]|\([^()]*\))*\)\s*;", " ", body)
    return [s.strip() for s in body.split(";") if s.strip()]


def accessor_semantics(inl, masks):
    """-> tests {name: ("eq"|"any", mask)}, acts {name: ("assign"|"or"|"andnot", mask)}"""
    tests, acts = {}, {}
    for m in re.finditer(r"Status::\s*((?:test|set|reset)_\w+)\s*\(\s*\)\s*(const\s*)?\{", inl):
        name = m.group(1)
        if name in ("test_all", "test_any"):
            continue
        st = simple_statements(body_after(inl, m.end() - 1))
        if name.startswith("test_"):
            if len(st) != 1:
                raise TranslateError("%s: unexpected body %r" % (name, st))
            mm = re.fullmatch(r"return\s+test_any\s*\(([^()]+)\)", st[0])
            if mm:
                tests[name] = ("any", eval_mask(mm.group(1), masks)); continue
            mm = re.fullmatch(r"return\s+flags\s*==\s*(\w+)", st[0])
            if mm:
                tests[name] = ("eq", eval_mask(mm.group(1), masks)); continue
            raise TranslateError("%s: unexpected body %r" % (name, st))
        else:
            if len(st) == 1:
                mm = re.fullmatch(r"set\s*\(([^()]+)\)", st[0])
                if mm:
                    acts[name] = ("or", eval_mask(mm.group(1), masks)); continue
                mm = re.fullmatch(r"reset\s*\(([^()]+)\)", st[0])
                if mm:
                    acts[name] = ("andnot", eval_mask(mm.group(1), masks)); continue
                mm = re.fullmatch(r"flags\s*=\s*(\w+)", st[0])
                if mm:
                    acts[name] = ("assign", eval_mask(mm.group(1), masks)); continue
            # e.g. reset_zero_dim_univ (conditional): only an error if ascii_load uses it
            acts[name] = ("unsupported", " ; ".join(st))
    return tests, acts


GET_FIELD_NORMAL = ("std::string str; if (!(s >> str) || (str[0] != Y && str[0] != N) || str.substr(1) != keyword) "
                    "{ return false; } positive = (str[0] == Y); return true;")


def get_field_is_standard(text, yes, no):
    m = re.search(r"\bget_field\s*\(\s*std::istream&\s*s\s*,\s*const\s+char\*\s*(?:const\s+)?keyword\s*,\s*bool&\s*positive\s*\)\s*\{", text)
    if not m:
        raise TranslateError("get_field not found")
    body = " ".join(body_after(text, m.end() - 1).split())
    for a, b in (("'%s'" % yes, "Y"), ("'%s'" % no, "N"), ("yes", "Y"), ("no", "N")):
        body = re.sub(r"(?<![\w'])%s(?![\w'])" % re.escape(a), b, body)
    return body == GET_FIELD_NORMAL


def parse_dump(body, toks, chars):
    """-> list of dict(test=fn, yes, no, tok=varname, sep=str)"""
    st = [s for s in (x.strip() for x in body.split(";")) if s and not s.startswith("using ")]
    if len(st) != 1 or not st[0].startswith("s"):
        raise TranslateError("ascii_dump: expected a single output chain, got %r" % st)
    # split the chain at top-level <<
    items, depth, cur = [], 0, ""
    chain = st[0][1:]
    i = 0
    while i < len(chain):
        c = chain[i]
        if c == "(":
            depth += 1
        elif c == ")":
            depth -= 1
        if depth == 0 and chain.startswith("<<", i):
            items.append(cur.strip()); cur = ""; i += 2; continue
        cur += c; i += 1
    items.append(cur.strip())
    items = [x for x in items if x]
    fields = []

    def lit(x):
        if x in chars:
            return chars[x]
        if x.startswith("'"):
            return c_char(x)
        if x in ("std::endl", "endl"):
            return "\n"
        return None

    k = 0
    while k < len(items):
        m = re.fullmatch(r"\(\s*(test_\w+)\s*\(\s*\)\s*\?\s*([^:]+?)\s*:\s*([^)]+?)\s*\)", items[k])
        if not m:
            raise TranslateError("ascii_dump: expected (test_X() ? yes : no), got %r" % items[k])
        y, n = lit(m.group(2)), lit(m.group(3))
        if y is None or n is None:
            raise TranslateError("ascii_dump: sign characters not understood in %r" % items[k])
        if k + 1 >= len(items) or last_ident(items[k + 1]) not in toks:
            raise TranslateError("ascii_dump: keyword expected after %r" % items[k])
        f = {"test": m.group(1), "yes": y, "no": n, "tokvar": last_ident(items[k + 1]), "sep": ""}
        k += 2
        while k < len(items) and not items[k].startswith("("):
            l = lit(items[k])
            if l is None:
                raise TranslateError("ascii_dump: separator not understood: %r" % items[k])
            f["sep"] += l
            k += 1
        fields.append(f)
    return fields


def parse_load(body):
    """-> list of (keyword var, plus fn or None, minus fn or None)"""
    body = re.sub(r"PPL_ASSERT(?:_HEAVY)?\s*\((?:[^()]|\([^()]*\))*\)\s*;", " ", body)
    parts = re.split(r"if\s*\(\s*!\s*get_field\s*\(", body)
    head = " ".join(parts[0].split())
    if not re.fullmatch(r"(using namespace [\w:]+; )?(PPL_UNINITIALIZED\(bool, positive\);|bool positive;)", head):
        raise TranslateError("ascii_load: unexpected prologue %r" % head)
    out = []
    for idx, p in enumerate(parts[1:]):
        p = " ".join(p.split())
        m = re.match(r"s\s*,\s*([\w:]+)\s*,\s*positive\s*\)\s*\)\s*\{\s*return false;\s*\}\s*(.*)$", p)
        if not m:
            raise TranslateError("ascii_load: unexpected get_field use %r" % p[:80])
        kw, rest = last_ident(m.group(1)), m.group(2).strip()
        if idx == len(parts) - 2:
            if not rest.endswith("return true;"):
                raise TranslateError("ascii_load: does not end with return true")
            rest = rest[: -len("return true;")].strip()
        m = re.fullmatch(r"if\s*\(\s*positive\s*\)\s*\{\s*(\w+)\(\);\s*\}(?:\s*else\s*\{\s*(\w+)\(\);\s*\})?", rest)
        if not m:
            raise TranslateError("ascii_load: unexpected action after get_field(%s): %r" % (kw, rest[:120]))
        out.append((kw, m.group(1), m.group(2)))
    return out


def default_flags(inl, masks):
    m = re.search(r"Status::Status\s*\(\s*\)\s*:\s*flags\s*\(\s*(\w+)\s*\)", inl)
    if not m:
        raise TranslateError("default constructor Status() : flags(...) not found")
    return eval_mask(m.group(1), masks)


def bits_of(mask):
    return [i for i in range(mask.bit_length()) if (mask >> i) & 1]


def translate_class(repo, key, site, stem):
    rd = lambda n: strip_comments(open(os.path.join(repo, "src", n)).read())
    cc, inl, idefs = rd(stem + ".cc"), rd(stem + "_inlines.hh"), rd(stem + "_idefs.hh")
    both = cc + "\n" + inl
    toks = {}
    for m in re.finditer(r"(?<!extern )const\s+char\s*\*\s*(?:const\s+)?(\w+)\s*=\s*\"([^\"]*)\"\s*;", cc):
        toks[m.group(1)] = m.group(2)
    if not toks:
        raise TranslateError("%s: no keyword strings" % stem)
    chars = {}
    for m in re.finditer(r"const\s+char\s+(\w+)\s*=\s*('\\?.')\s*;", both):
        chars[m.group(1)] = c_char(m.group(2))
    masks = parse_masks(idefs)
    tests, acts = accessor_semantics(inl, masks)
    dump = parse_dump(find_function(both, "ascii_dump"), toks, chars)
    load = parse_load(find_function(both, "ascii_load"))
    if [d["tokvar"] for d in dump] != [l[0] for l in load]:
        raise TranslateError("%s: ascii_dump writes %s but ascii_load reads %s" % (
            stem, [d["tokvar"] for d in dump], [l[0] for l in load]))
    yes = {d["yes"] for d in dump}; no = {d["no"] for d in dump}
    if len(yes) != 1 or len(no) != 1:
        raise TranslateError("%s: sign characters differ between fields" % stem)
    yes, no = yes.pop(), no.pop()
    rows = []
    for d, (kw, plus, minus) in zip(dump, load):
        if d["test"] not in tests:
            raise TranslateError("%s: semantics of %s unknown" % (stem, d["test"]))

        def act(fn):
            if fn is None:
                return ("nop", 0)
            if fn not in acts or acts[fn][0] == "unsupported":
                raise TranslateError("%s: ascii_load calls %s whose body is not a plain flag update: %r" % (stem, fn, acts.get(fn)))
            return acts[fn]
        rows.append({"tok": toks[kw], "sep": d["sep"], "test": tests[d["test"]], "plus": act(plus), "minus": act(minus),
                     "test_fn": d["test"], "plus_fn": plus, "minus_fn": minus})
    return {"key": key, "site": site, "stem": stem, "yes": yes, "no": no, "rows": rows, "masks": masks,
            "init": default_flags(inl, masks), "get_field_standard": get_field_is_standard(both, yes, no)}


def translate(repo):
    return [translate_class(repo, *c) for c in CLASSES]


# ------------------------------------------------------------------------------------ Lean output
def lean_str(s):
    out = '"'
    for c in s:
        out += {"\n": "\\n", "\t": "\\t", "\\": "\\\\", '"': '\\"'}.get(c, c)
    return out + '"'


def lean_char(c):
    return "'" + {"\n": "\\n", "\t": "\\t", "\\": "\\\\", "'": "\\'"}.get(c, c) + "'"


TEST_KIND = {"eq": 0, "any": 1}
ACT_KIND = {"nop": 0, "assign": 1, "or": 2, "andnot": 3}


def lean_bits(mask):
    return "[" + ", ".join(str(b) for b in bits_of(mask)) + "]"


def emit_lean(tabs):
    L = []
    L.append("/-! GENERATED by gen/c15_tables.py from the current `src/*_Status{.cc,_inlines.hh,_idefs.hh}` - do not edit.")
    L.append("Data only.  A row is")
    L.append("  (keyword, separator text `ascii_dump` writes after it,")
    L.append("   test kind (0: `flags == mask`, 1: `(flags & mask) != 0`), bits of the test mask,")
    L.append("   action of `ascii_load` on '+' (0 nothing, 1 `flags = mask`, 2 `flags |= mask`, 3 `flags &= ~mask`), bits of its mask,")
    L.append("   action of `ascii_load` on '-', bits of its mask).")
    L.append("Masks are given as the list of their set bit positions. -/")
    L.append("namespace PPLV.Gen.StatusTables")
    L.append("")
    L.append("abbrev Row := String × String × Nat × List Nat × Nat × List Nat × Nat × List Nat")
    L.append("")
    for t in tabs:
        k = t["key"]
        L.append("/-- `%s` (%s.cc, %s_inlines.hh, %s_idefs.hh) -/" % (t["site"], t["stem"], t["stem"], t["stem"]))
        L.append("def %sYes : Char := %s" % (k, lean_char(t["yes"])))
        L.append("def %sNo : Char := %s" % (k, lean_char(t["no"])))
        L.append("/-- `flags` of a default-constructed `Status()` -/")
        L.append("def %sInit : Nat := %d" % (k, t["init"]))
        L.append("/-- `get_field` is \"first character yes/no, remainder equals the keyword\" -/")
        L.append("def %sGetFieldStandard : Bool := %s" % (k, "true" if t["get_field_standard"] else "false"))
        L.append("def %sMasks : List (String × Nat) :=" % k)
        L.append("  [" + ", ".join("(%s, %d)" % (lean_str(n), v) for n, v in t["masks"].items()) + "]")
        L.append("def %sRows : List Row :=" % k)
        rs = []
        for r in t["rows"]:
            rs.append("(%s, %s, %d, %s, %d, %s, %d, %s)" % (
                lean_str(r["tok"]), lean_str(r["sep"]), TEST_KIND[r["test"][0]], lean_bits(r["test"][1]),
                ACT_KIND[r["plus"][0]], lean_bits(r["plus"][1]), ACT_KIND[r["minus"][0]], lean_bits(r["minus"][1])))
        L.append("  [" + ",\n   ".join(rs) + "]")
        L.append("")
    L.append("end PPLV.Gen.StatusTables")
    return "\n".join(L) + "\n"


def write_if_changed(path, text):
    if os.path.exists(path) and open(path).read() == text:
        return False
    os.makedirs(os.path.dirname(path), exist_ok=True)
    tmp = path + ".tmp%d" % os.getpid()
    with open(tmp, "w") as f:
        f.write(text)
    os.replace(tmp, path)
    return True


def main():
    ap = argparse.ArgumentParser()
    ap.add_argument("--repo", default=os.environ.get("VERIF_REPO", "/repo"))
    ap.add_argument("--lean", default=os.path.join(VERIF, "lean", "PPLV", "Gen", "StatusTables.lean"))
    ap.add_argument("--json", default=None)
    a = ap.parse_args()
    try:
        tabs = translate(a.repo)
    except (TranslateError, OSError, ValueError) as e:
        print("c15_tables: cannot translate: %s" % e, file=sys.stderr)
        return 1
    changed = write_if_changed(a.lean, emit_lean(tabs))
    if a.json:
        write_if_changed(a.json, json.dumps(tabs, indent=1, sort_keys=True))
    print("c15_tables: %d classes, %d fields, %s %s" % (
        len(tabs), sum(len(t["rows"]) for t in tabs), "wrote" if changed else "unchanged", a.lean))
    return 0


if __name__ == "__main__":
    sys.exit(main())
