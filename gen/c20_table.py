#!/usr/bin/env python3
"""T1 translator for property C20: table of every extern "C" entry point of PPL's C interface.

Source of truth: the typed clang AST (clang++-14 -Xclang -ast-dump=json) of the CURRENT
`interfaces/C/ppl_c_implementation_common.cc` and of every generated `interfaces/C/ppl_c_*.cc`
under $VERIF_REPO (default /repo), plus a one-function probe TU that expands `CATCH_ALL` as
`ppl_c_implementation_common_defs.hh` defines it now.

  python3 gen/c20_table.py [--repo DIR] [--lean OUT.lean] [--json OUT.json] [-j N]

Output 1 (JSON, for checks/c20.py and the harness generator): full records with names.
Output 2 (Lean, data only): lean/PPLV/Gen/CIfaceTable.lean with
   def errorCodes, def catchAll, def catchVariants, def strTab, def cEntryPoints (chunked).
Names never take part in kernel evaluation: every compared name is an index into `strTab`.

Per-TU extraction results are cached under /verif/build/c20cache by a content hash of the TU
and of every header that can influence its AST; the 84 MB dumps themselves are never kept.
Stdlib only; deterministic output.
"""
import argparse, concurrent.futures, glob, hashlib, json, os, re, subprocess, sys, tempfile

VERIF = os.path.dirname(os.path.dirname(os.path.abspath(__file__)))
BUILD = os.path.join(VERIF, "build")
CACHE = os.path.join(BUILD, "c20cache")
CLANG = os.environ.get("VERIF_CLANG", "clang++-14")
EXTRACTOR_VERSION = "10"

NAMING = json.load(open(os.path.join(os.path.dirname(os.path.abspath(__file__)), "c20_naming.json")))

STD_CLASSES = {
    "std::bad_alloc": "bad_alloc", "std::invalid_argument": "invalid_argument",
    "std::domain_error": "domain_error", "std::length_error": "length_error",
    "std::out_of_range": "out_of_range", "std::logic_error": "logic_error",
    "std::overflow_error": "overflow_error", "std::underflow_error": "underflow_error",
    "std::range_error": "range_error", "std::runtime_error": "runtime_error",
    "std::exception": "exception",
    "Parma_Polyhedra_Library::Interfaces::C::timeout_exception": "timeout",
    "Parma_Polyhedra_Library::Interfaces::C::deterministic_timeout_exception": "det_timeout",
}
CALL_KINDS = {"CallExpr", "CXXMemberCallExpr", "CXXOperatorCallExpr", "CXXConstructExpr", "CXXNewExpr",
              "CXXDeleteExpr", "CXXThrowExpr", "CXXDynamicCastExpr", "CXXTypeidExpr", "CXXTemporaryObjectExpr",
              "CXXFunctionalCastExpr", "UserDefinedLiteral"}
TRANSPARENT = {"ImplicitCastExpr", "ParenExpr", "ExprWithCleanups", "MaterializeTemporaryExpr",
               "CXXBindTemporaryExpr", "ConstantExpr"}
CONV_FUNS = {"to_const", "to_nonconst"}


# ----------------------------------------------------------------------------- clang
def clang_flags(repo):
    c = os.path.join(repo, "interfaces", "C")
    return ["-std=gnu++17", "-fsyntax-only", "-w", "-DHAVE_CONFIG_H", "-I" + c, "-I" + repo,
            "-I" + os.path.join(repo, "interfaces"), "-I" + os.path.join(repo, "src")]


def dep_files(repo):
    c = os.path.join(repo, "interfaces", "C")
    deps = sorted(glob.glob(os.path.join(c, "*.hh")) + glob.glob(os.path.join(c, "*.h")))
    deps += [os.path.join(repo, "interfaces", "interfaced_boxes.hh"), os.path.join(repo, "src", "ppl.hh"),
             os.path.join(repo, "config.h")]
    return [d for d in deps if os.path.exists(d)]


def headers_hash(repo):
    h = hashlib.sha256()
    for d in dep_files(repo):
        h.update(os.path.basename(d).encode())
        with open(d, "rb") as f:
            h.update(hashlib.sha256(f.read()).digest())
    return h.hexdigest()


def iter_toplevel(text):
    dec = json.JSONDecoder()
    i, n = 0, len(text)
    while True:
        while i < n and text[i] in " \r\n\t":
            i += 1
        if i >= n:
            return
        if text[i] != "{":           # "Dumping xxx:" lines of the non-JSON mode; never seen with =json
            j = text.find("\n", i)
            i = n if j < 0 else j + 1
            continue
        obj, i = dec.raw_decode(text, i)
        yield obj


def run_clang(repo, src, flt="ppl_"):
    cmd = [CLANG] + clang_flags(repo) + ["-Xclang", "-ast-dump=json", "-Xclang", "-ast-dump-filter=" + flt, src]
    r = subprocess.run(cmd, stdout=subprocess.PIPE, stderr=subprocess.PIPE, text=True,
                       cwd=os.path.join(repo, "interfaces", "C"))
    if r.returncode != 0:
        raise RuntimeError("clang failed on %s:\n%s" % (src, r.stderr[-3000:]))
    return r.stdout


# ----------------------------------------------------------------------------- AST helpers
def qt(node):
    return (node.get("type") or {}).get("qualType", "")


def dqt(node):
    t = node.get("type") or {}
    return t.get("desugaredQualType", t.get("qualType", ""))


def inner(node):
    return [x for x in node.get("inner", []) if x]


def strip_transparent(node):
    while node.get("kind") in TRANSPARENT and inner(node):
        node = inner(node)[0]
    return node


def callee_name(call):
    """name of the function a CallExpr-like node calls (None for indirect calls)."""
    k = call.get("kind")
    ch = inner(call)
    if k in ("CallExpr", "CXXOperatorCallExpr", "UserDefinedLiteral") and ch:
        f = strip_transparent(ch[0])
        if f.get("kind") == "DeclRefExpr":
            return (f.get("referencedDecl") or {}).get("name")
        if f.get("kind") == "MemberExpr":
            return f.get("name")
        return None
    if k == "CXXMemberCallExpr" and ch:
        f = strip_transparent(ch[0])
        if f.get("kind") == "MemberExpr":
            return f.get("name")
        return None
    return None


def split_params(ftype):
    """parameter types of a function type string `R (A, B, C)`."""
    i = ftype.find("(")
    if i < 0:
        return []
    depth, cur, out = 0, "", []
    for ch in ftype[i:]:
        if ch in "(<":
            depth += 1
            if depth == 1:
                continue
        elif ch in ")>":
            depth -= 1
            if depth == 0:
                break
        if ch == "," and depth == 1:
            out.append(cur.strip()); cur = ""
        else:
            cur += ch
    if cur.strip() and cur.strip() != "void":
        out.append(cur.strip())
    return out


def short_class(t):
    t = t.replace("const ", "").replace("Parma_Polyhedra_Library::", "").replace("Interfaces::C::", "")
    t = re.sub(r"\s*[*&]+$", "", t).strip()
    return t


def norm_type(t):
    """C++ type -> the identifier the interface uses for it: BD_Shape<double> -> BD_Shape_double."""
    t = t.replace("::", "_").replace("<", "_").replace(">", "").replace(", ", "_").replace(",", "_").replace(" ", "_")
    return NAMING.get("type_alias", {}).get(t, t)


def classify_param(t, dt):
    """kind, handle-type for a parameter of (sugared) type t."""
    ts = t.strip()
    m = re.fullmatch(r"ppl_const_(\w+)_t", ts)
    if m:
        return "constHandle", m.group(1)
    m = re.fullmatch(r"ppl_(\w+)_t", ts)
    if m:
        return "handle", m.group(1)
    m = re.fullmatch(r"ppl_const_(\w+)_t \*", ts)
    if m:
        return "outConstHandle", m.group(1)
    m = re.fullmatch(r"ppl_(\w+)_t \*", ts)
    if m:
        return "outHandle", m.group(1)
    if ts == "ppl_dimension_type":
        return "dim", ""
    if ts in ("ppl_dimension_type *", "ppl_dimension_type[]", "ppl_dimension_type *const"):
        return "dimPtr", ""
    if ts in ("int", "long"):
        return "int", ""
    if ts in ("unsigned int", "unsigned long", "unsigned", "size_t"):
        return "uint", ""
    if ts in ("int *", "unsigned int *"):
        return "intPtr", ""
    if ts.startswith("mpz_t") or ts.startswith("__mpz_struct") or ts.startswith("mpz_ptr"):
        return "mpz", ""
    if ts in ("FILE *",):
        return "file", ""
    if ts in ("const char *",):
        return "cstr", ""
    if ts in ("char **", "const char **"):
        return "strPtr", ""
    if ts.startswith("enum "):
        return "enum", ts[5:]
    if "(*)" in ts or "function_type" in ts or "handler_type" in ts:
        return "fnPtr", ""
    return "other", ts


class FnInfo:
    pass


def analyse_function(fd, fname, enum_values):
    ch = inner(fd)
    body = None
    params = []
    for x in ch:
        if x.get("kind") == "ParmVarDecl":
            params.append(x)
        elif x.get("kind") in ("CXXTryStmt", "CompoundStmt"):
            body = x
    if body is None:
        return None
    rec = {"name": fd["name"], "file": fname, "line": (fd.get("loc") or {}).get("line", 0),
           "cLinkage": fd.get("mangledName") == fd.get("name"), "static": fd.get("storageClass") == "static",
           "type": qt(fd)}
    m = re.match(r"(.*?)\s*\(", qt(fd))
    rec["ret"] = m.group(1) if m else ""
    pinfo = {}
    plist = []
    for i, p in enumerate(params):
        kind, ht = classify_param(qt(p), dqt(p))
        d = {"name": p.get("name", ""), "type": qt(p), "kind": kind, "htype": ht, "convs": [], "other": 0}
        plist.append(d)
        pinfo[p["id"]] = d
    rec["params"] = plist
    is_try = body.get("kind") == "CXXTryStmt"
    rec["try"] = is_try
    if is_try:
        bch = inner(body)
        main = bch[0]
        handlers = [x for x in body.get("inner", [])[1:]]
    else:
        main = body
        handlers = []
    st = {"arms": [], "notifySeen": 0, "rets": [], "terns": [], "deletes": 0, "deleteParams": [], "news": 0, "throws": 0, "calls": 0,
          "constcast": 0, "callees": [], "boolcalls": 0}

    def param_of(expr):
        """if expr (through transparent nodes, static_casts and conversion calls) denotes a conversion of a
        handle parameter, return that parameter's record."""
        e = strip_transparent(expr)
        while True:
            k = e.get("kind")
            if k in ("CXXStaticCastExpr",) and inner(e):
                e = strip_transparent(inner(e)[0]); continue
            if k == "CallExpr" and callee_name(e) in CONV_FUNS and len(inner(e)) == 2:
                e = strip_transparent(inner(e)[1]); continue
            break
        if e.get("kind") == "DeclRefExpr" and (e.get("referencedDecl") or {}).get("id") in pinfo:
            return pinfo[e["referencedDecl"]["id"]]
        return None

    def ret_shape(e):
        e0 = strip_transparent(e)
        k = e0.get("kind")
        if k == "IntegerLiteral":
            return {"k": "lit", "v": int(e0["value"])}
        if k in ("CXXNullPtrLiteralExpr", "GNUNullExpr"):
            return {"k": "lit", "v": 0}
        if k == "UnaryOperator" and e0.get("opcode") == "-" and strip_transparent(inner(e0)[0]).get("kind") == "IntegerLiteral":
            return {"k": "lit", "v": -int(strip_transparent(inner(e0)[0])["value"])}
        if k == "DeclRefExpr" and (e0.get("referencedDecl") or {}).get("kind") == "EnumConstantDecl":
            nm = e0["referencedDecl"]["name"]
            if nm in enum_values:
                return {"k": "err", "name": nm, "v": enum_values[nm]}
            return {"k": "expr", "type": qt(e0), "node": "enum:" + nm}
        if k == "ConditionalOperator":
            t = tern_shape(e0)
            if t is not None:
                d = dict(t); d["k"] = "tern"; return d
        if k == "CallExpr" and (callee_name(e0) or "").startswith("ppl_") and qt(e0) == "int":
            return {"k": "delegate", "to": callee_name(e0)}
        if qt(e0) in ("bool", "const bool"):
            neg = False
            c0 = e0
            while c0.get("kind") == "UnaryOperator" and c0.get("opcode") == "!":
                neg = not neg
                c0 = strip_transparent(inner(c0)[0])
            return {"k": "boolv", "neg": neg}
        return {"k": "expr", "type": qt(e0), "node": k}

    def tern_shape(e0):
        c, a, b = inner(e0)
        a0, b0 = strip_transparent(a), strip_transparent(b)
        if a0.get("kind") != "IntegerLiteral" or b0.get("kind") != "IntegerLiteral":
            return None
        c0 = strip_transparent(c)
        neg = False
        while c0.get("kind") == "UnaryOperator" and c0.get("opcode") == "!":
            neg = not neg
            c0 = strip_transparent(inner(c0)[0])
        # comparisons against false/0 count as negations too
        if c0.get("kind") == "BinaryOperator" and c0.get("opcode") in ("==", "!="):
            l, r = [strip_transparent(x) for x in inner(c0)]
            for x in (l, r):
                if x.get("kind") == "CXXBoolLiteralExpr" and ((x.get("value") is False) == (c0["opcode"] == "==")):
                    neg = not neg
        return {"neg": neg, "t": int(a0["value"]), "e": int(b0["value"]), "cond": qt(c0), "condKind": c0.get("kind")}

    static_exc = {}

    def walk(node, parents, in_handler):
        k = node.get("kind")
        if k in CALL_KINDS:
            st["calls"] += 1
        if k == "CallExpr" and callee_name(node) == "notify_error" and not in_handler:
            st["notifySeen"] += 1
        if k == "ReturnStmt" and not in_handler:
            ich = inner(node)
            r = ret_shape(ich[0]) if ich else {"k": "void"}
            if r["k"] == "err":
                r["notified"] = st["notifySeen"] > 0
            st["rets"].append(r)
        if k == "VarDecl" and node.get("storageClass") == "static":
            base = re.sub(r"\s*&$", "", qt(node).replace("const ", "")).strip()
            if base in STD_CLASSES:
                static_exc[node["id"]] = STD_CLASSES[base]
        if k == "CXXNewExpr" and re.search(r"Watchdog|Weightwatch|Threshold_Watcher", qt(node)):
            lhs = None
            for par in reversed(parents):
                if par.get("kind") == "BinaryOperator" and par.get("opcode") == "=":
                    l0 = strip_transparent(inner(par)[0])
                    if l0.get("kind") == "DeclRefExpr":
                        lhs = (l0.get("referencedDecl") or {}).get("name")
                    break
            thrown = []

            def refs(n):
                if n.get("kind") == "DeclRefExpr" and (n.get("referencedDecl") or {}).get("id") in static_exc:
                    thrown.append(static_exc[n["referencedDecl"]["id"]])
                for y in inner(n):
                    refs(y)
            refs(node)
            st["arms"].append({"object": lhs, "throws": thrown[0] if thrown else None,
                               "type": norm_type(short_class(qt(node)))})
        if k == "ConditionalOperator" and not in_handler:
            t = tern_shape(node)
            if t is not None:
                st["terns"].append(t)
        if k == "CXXDeleteExpr":
            st["deletes"] += 1
            p = param_of(inner(node)[0]) if inner(node) else None
            st["deleteParams"].append(plist.index(p) if p is not None else -1)
        if k == "CXXNewExpr":
            st["news"] += 1
            st["callees"].append("new " + norm_type(short_class(qt(node))))
        if k == "CXXThrowExpr" and not in_handler:
            st["throws"] += 1
        if k == "CXXConstCastExpr":
            st["constcast"] += 1
        if k in ("CStyleCastExpr", "CXXReinterpretCastExpr", "CXXFunctionalCastExpr") and inner(node):
            src, dst = dqt(strip_transparent(inner(node)[0])), dqt(node)
            if ("*" in dst or "&" in dst) and "const" in src and "const" not in dst:
                st["constcast"] += 1
        if k in ("CallExpr", "CXXMemberCallExpr", "CXXOperatorCallExpr") and not in_handler:
            nm = callee_name(node)
            if nm and nm not in CONV_FUNS:
                st["callees"].append(nm)
            if qt(node) == "bool":
                st["boolcalls"] += 1
        if k in ("CXXConstructExpr", "CXXTemporaryObjectExpr") and not in_handler:
            st["callees"].append("ctor " + short_class(qt(node)))
        if k == "DeclRefExpr":
            rd = node.get("referencedDecl") or {}
            if rd.get("id") in pinfo:
                d = pinfo[rd["id"]]
                # climb through transparent parents
                j = len(parents) - 1
                while j >= 0 and parents[j].get("kind") in TRANSPARENT:
                    j -= 1
                par = parents[j] if j >= 0 else None
                child = parents[j + 1] if j + 1 < len(parents) else node
                cn = callee_name(par) if par is not None and par.get("kind") == "CallExpr" else None
                if cn in CONV_FUNS and len(inner(par)) == 2:
                    # to_const must yield a pointer to const, to_nonconst a pointer to non-const
                    isconst = qt(par).startswith("const ")
                    if (cn == "to_const") == isconst:
                        d["convs"].append(cn)
                    else:
                        d["other"] += 1
                elif cn and cn.startswith("ppl_"):
                    args = inner(par)[1:]
                    idx = [i for i, a in enumerate(args) if a is child]
                    ptypes = split_params(qt(strip_transparent(inner(par)[0])))
                    kind = classify_param(ptypes[idx[0]], "")[0] if idx and idx[0] < len(ptypes) else "other"
                    if kind == "constHandle":
                        d["convs"].append("pass_const")
                    elif kind == "handle":
                        d["convs"].append("pass_nonconst")
                    else:
                        d["other"] += 1
                else:
                    d["other"] += 1
        for x in inner(node):
            parents.append(node)
            walk(x, parents, in_handler)
            parents.pop()

    walk(main, [], False)
    catches = []
    for h in handlers:
        if not h or h.get("kind") != "CXXCatchStmt":
            catches.append({"exc": "?", "wf": False, "byref": False, "reset": None, "notify": None, "ret": None,
                            "notifyBeforeRet": False})
            continue
        raw = h.get("inner", [])
        var = raw[0] if raw else None
        blk = raw[1] if len(raw) > 1 else None
        if var and var.get("kind") == "VarDecl":
            t = qt(var)
            byref = t.rstrip().endswith("&")
            base = re.sub(r"\s*&$", "", t.replace("const ", "")).strip()
            exc = STD_CLASSES.get(base, "other:" + base)
        else:
            exc, byref = "ellipsis", True
        c = {"exc": exc, "byref": byref, "reset": None, "notify": None, "ret": None, "wf": True,
             "notifyBeforeRet": False}
        seen_ret = False
        for s in inner(blk) if blk else []:
            s0 = strip_transparent(s)
            sk = s0.get("kind")
            if sk == "CallExpr":
                nm = callee_name(s0)
                if nm == "notify_error":
                    a = strip_transparent(inner(s0)[1])
                    code = (a.get("referencedDecl") or {}).get("name") if a.get("kind") == "DeclRefExpr" else None
                    if c["notify"] is None and not seen_ret:
                        c["notify"] = code
                        c["notifyBeforeRet"] = True
                    else:
                        c["wf"] = False
                elif nm in ("reset_timeout", "reset_deterministic_timeout") and c["reset"] is None and not seen_ret:
                    c["reset"] = nm
                else:
                    c["wf"] = False
            elif sk == "ReturnStmt":
                if seen_ret:
                    c["wf"] = False
                seen_ret = True
                r = ret_shape(inner(s0)[0]) if inner(s0) else {"k": "void"}
                if r["k"] == "err":
                    c["ret"] = r["name"]
                elif r["k"] == "lit":
                    c["ret"] = "lit:%d" % r["v"]
                else:
                    c["wf"] = False
            elif sk == "NullStmt":
                pass
            else:
                c["wf"] = False
        if not seen_ret:
            c["wf"] = False
        catches.append(c)
        # the handler bodies may call things too (for the no-throw analysis they are irrelevant)
    rec["catches"] = catches
    rec.update(st)
    rec["callees"] = sorted(set(st["callees"]))
    return rec


def extract_tu(repo, src):
    """-> dict(functions=[...], decls=[names declared without body], enums={name: {const: value}})"""
    text = run_clang(repo, src)
    fname = os.path.basename(src)
    enums, fds, decls = {}, [], {}
    for o in iter_toplevel(text):
        k = o.get("kind")
        if k == "EnumDecl" and o.get("name"):
            vals = {}
            nxt = 0
            for c in inner(o):
                if c.get("kind") != "EnumConstantDecl":
                    continue
                v = None
                for e in inner(c):
                    e0 = e
                    if "value" in e0:
                        v = int(e0["value"])
                    else:
                        e1 = strip_transparent(e0)
                        if "value" in e1:
                            v = int(e1["value"])
                        elif e1.get("kind") == "UnaryOperator" and e1.get("opcode") == "-":
                            v = -int(strip_transparent(inner(e1)[0])["value"])
                if v is None:
                    v = nxt
                vals[c["name"]] = v
                nxt = v + 1
            enums[o["name"]] = vals
        elif k == "FunctionDecl":
            has_body = any(x and x.get("kind") in ("CXXTryStmt", "CompoundStmt") for x in o.get("inner", []))
            if has_body:
                fds.append(o)
            elif o.get("mangledName") == o.get("name") and o.get("name", "").startswith("ppl_"):
                f = ((o.get("loc") or {}).get("file") or (o.get("loc") or {}).get("includedFrom", {}).get("file") or "")
                decls[o["name"]] = qt(o)
    ev = enums.get("ppl_enum_error_code", {})
    funs = []
    for o in fds:
        r = analyse_function(o, fname, ev)
        if r is not None:
            funs.append(r)
    return {"functions": funs, "decls": decls, "enums": {"ppl_enum_error_code": ev}}


def extract_resets(repo, src):
    """reset_timeout / reset_deterministic_timeout: which global watchdog pointer each deletes, and whether
    it clears abandon_expensive_computations."""
    text = run_clang(repo, src, "reset_")
    out = {}
    for o in iter_toplevel(text):
        if o.get("kind") != "FunctionDecl" or o.get("name") not in ("reset_timeout", "reset_deterministic_timeout"):
            continue
        body = [x for x in inner(o) if x.get("kind") == "CompoundStmt"]
        if not body:
            continue
        info = {"deletes": [], "clearsFlag": False}

        def w(n):
            if n.get("kind") == "CXXDeleteExpr" and inner(n):
                d = strip_transparent(inner(n)[0])
                if d.get("kind") == "DeclRefExpr":
                    info["deletes"].append((d.get("referencedDecl") or {}).get("name"))
            if n.get("kind") == "BinaryOperator" and n.get("opcode") == "=":
                l0 = strip_transparent(inner(n)[0])
                if l0.get("kind") == "DeclRefExpr" and (l0.get("referencedDecl") or {}).get("name") == "abandon_expensive_computations":
                    info["clearsFlag"] = True
            for y in inner(n):
                w(y)
        w(body[0])
        out[o["name"]] = info
    return {"resets": out}


PROBE = """#include "ppl_c_implementation_common_defs.hh"
using namespace Parma_Polyhedra_Library;
using namespace Parma_Polyhedra_Library::Interfaces::C;
extern "C" int ppl_pplv_probe_catch_all(void) try { return 0; }
CATCH_ALL
"""


def cached(key, fn):
    os.makedirs(CACHE, exist_ok=True)
    p = os.path.join(CACHE, key + ".json")
    if os.path.exists(p):
        try:
            return json.load(open(p)), True
        except Exception:
            pass
    v = fn()
    tmp = p + ".%d.tmp" % os.getpid()
    with open(tmp, "w") as f:
        json.dump(v, f)
    os.replace(tmp, p)
    return v, False


def _one(args):
    repo, src, hh, what = args
    with open(src, "rb") as f:
        key = hashlib.sha256((EXTRACTOR_VERSION + hh + what + os.path.basename(src)).encode() + f.read()).hexdigest()[:24]
    if what == "resets":
        v, hit = cached(key, lambda: extract_resets(repo, src))
        return "#resets", v, hit
    v, hit = cached(key, lambda: extract_tu(repo, src))
    return os.path.basename(src), v, hit


def tu_list(repo):
    c = os.path.join(repo, "interfaces", "C")
    srcs = sorted(glob.glob(os.path.join(c, "ppl_c_*.cc")))
    return srcs


def build_table(repo, jobs=4):
    hh = headers_hash(repo)
    srcs = tu_list(repo)
    if not srcs:
        raise RuntimeError("no interfaces/C/ppl_c_*.cc under %s (run make -C interfaces/C)" % repo)
    os.makedirs(CACHE, exist_ok=True)
    # probe TU for the CATCH_ALL macro
    probe_dir = os.path.join(CACHE, "probe-%d" % os.getpid())
    os.makedirs(probe_dir, exist_ok=True)
    probe = os.path.join(probe_dir, "ppl_c_pplv_probe.cc")
    with open(probe, "w") as f:
        f.write(PROBE)
    common = os.path.join(repo, "interfaces", "C", "ppl_c_implementation_common.cc")
    work = [(repo, s, hh, "tu") for s in srcs] + [(repo, probe, hh, "tu"), (repo, common, hh, "resets")]
    res = {}
    hits = 0
    with concurrent.futures.ThreadPoolExecutor(max_workers=jobs) as ex:
        for name, v, hit in ex.map(_one, work):
            res[name] = v
            hits += 1 if hit else 0
    try:
        os.unlink(probe); os.rmdir(probe_dir)
    except OSError:
        pass
    resets = res.pop("#resets")["resets"]
    pv = res.pop("ppl_c_pplv_probe.cc")
    probe_fn = [f for f in pv["functions"] if f["name"] == "ppl_pplv_probe_catch_all"]
    if not probe_fn:
        raise RuntimeError("CATCH_ALL probe did not parse")
    catch_all = probe_fn[0]["catches"]
    error_codes = pv["enums"]["ppl_enum_error_code"]
    entries, skipped, decls = [], [], {}
    for name in sorted(res):
        v = res[name]
        decls.update(v["decls"])
        for f in v["functions"]:
            if f["static"] or not f["cLinkage"]:
                if f["name"].startswith("ppl_"):
                    skipped.append({"name": f["name"], "file": name, "static": f["static"], "cLinkage": f["cLinkage"]})
                continue
            entries.append(f)
    entries.sort(key=lambda f: (f["file"], f["line"], f["name"]))
    defined = set(f["name"] for f in entries)
    dup = sorted(n for n in defined if sum(1 for f in entries if f["name"] == n) > 1) if len(defined) != len(entries) else []
    undefined = sorted(n for n in decls if n not in defined)
    tab = {"repo": repo, "files": sorted(res), "errorCodes": error_codes, "catchAll": catch_all,
           "entries": entries, "skipped": skipped, "declaredNotDefined": undefined, "duplicates": dup,
           "resets": resets, "cacheHits": hits, "tus": len(work)}
    annotate(tab)
    return tab


# ----------------------------------------------------------------------------- naming
# name decomposition: ppl_<prefix-verb>_<Class>..., ppl_<Class>_<op>
def annotate(tab):
    """adds derived fields: kind (new/delete/assign/method/io/global), cls, op, retConv."""
    htypes = set()
    for f in tab["entries"]:
        for p in f["params"]:
            if p["htype"] and p["kind"] in ("handle", "constHandle", "outHandle", "outConstHandle"):
                htypes.add(p["htype"])
    # longest-first so that e.g. Constraint_System_const_iterator wins over Constraint
    hs = sorted(htypes, key=lambda s: (-len(s), s))
    for f in tab["entries"]:
        n = f["name"]
        kind, cls, op = "global", "", n[4:] if n.startswith("ppl_") else n
        if n.startswith("ppl_delete_"):
            kind, cls, op = "delete", n[len("ppl_delete_"):], "delete"
        elif n.startswith("ppl_new_"):
            kind, op = "new", n[len("ppl_new_"):]
            outs = [p["htype"] for p in f["params"] if p["kind"] == "outHandle"]
            cls = outs[0] if outs else ""
        elif n.startswith("ppl_assign_"):
            kind, op = "assign", n[len("ppl_assign_"):]
            hsn = [p["htype"] for p in f["params"] if p["kind"] == "handle"]
            cls = hsn[0] if hsn else ""
        elif n.startswith("ppl_io_"):
            kind, op = "io", n[len("ppl_io_"):]
        else:
            for h in hs:
                if n.startswith("ppl_" + h + "_"):
                    kind, cls, op = "method", h, n[len("ppl_" + h + "_"):]
                    break
        if kind == "delete" and f["params"] and f["params"][0]["htype"]:
            cls = f["params"][0]["htype"]
        f["kind"], f["cls"], f["op"] = kind, cls, op
        f["retInt"] = f["ret"] == "int"
        # return convention
        shapes = set()
        for r in f["rets"]:
            if r["k"] == "lit":
                shapes.add("lit%d" % r["v"] if r["v"] in (0, 1) else "litN")
            elif r["k"] == "err":
                shapes.add("err")
            elif r["k"] in ("tern", "boolv"):
                shapes.add("tern")
            elif r["k"] == "delegate":
                shapes.add("lit0")
            else:
                shapes.add("expr")
        if "expr" in shapes or "litN" in shapes:
            conv = "value"
        elif "tern" in shapes or "lit1" in shapes:
            conv = "bool"
        else:
            conv = "status"
        f["retConv"] = conv
    names = set(f["name"] for f in tab["entries"])
    vocab = sorted(set(hs) | set(NAMING.get("extra_classes", [])), key=lambda s: (-len(s), s))
    for f in tab["entries"]:
        f["promised"] = promised(f, names, vocab)


def class_token(op, vocab):
    for c in vocab:
        if op == c or op.startswith(c + "_"):
            return c
    return None


def promised(f, names, vocab):
    """the C++ callee(s) the name of entry point f promises, per gen/c20_naming.json ([] = no promise)."""
    n, op, kind = f["name"], f["op"], f["kind"]
    if n in NAMING.get("no_promise", []):
        return []
    if kind == "delete":
        return []                      # covered by C20.delete_once
    if kind == "assign":
        return [NAMING["assign"]]
    if kind == "new":
        c = class_token(op, vocab)
        return ["new " + c] if c else []
    if kind == "io":
        for pre, m in NAMING["io_prefix"].items():
            if op.startswith(pre):
                return [m]
        return []
    if kind == "global" and op in NAMING["global"]:
        return [NAMING["global"][op]]
    if kind == "method":
        key = f["cls"] + "::" + op
        if key in NAMING["method"] or op in NAMING["method"]:
            m = NAMING["method"].get(key, NAMING["method"].get(op))
            return m if isinstance(m, list) else [m]
        for pre, m in NAMING["method_prefix"].items():
            if op.startswith(pre):
                return [m]
        if not op.endswith("_with_tokens") and (n + "_with_tokens") in names:
            return [n + "_with_tokens"]    # delegation to the token-taking variant
    base = op
    changed = True
    while changed:
        changed = False
        for suf in NAMING.get("strip_suffixes", []):
            if base.endswith(suf) and len(base) > len(suf):
                if kind == "global" and suf == "_2":
                    continue               # termination_test_MS_<Class>_2 wraps termination_test_MS_2
                base = base[:-len(suf)]; changed = True
        if NAMING.get("strip_class_suffix"):
            for c in vocab:
                if base.endswith("_" + c):
                    base = base[:-len(c) - 1]; changed = True
                    break
                if kind == "global" and ("_" + c + "_") in base:
                    base = base.replace("_" + c + "_", "_"); changed = True
                    break
    return [base]


# ----------------------------------------------------------------------------- Lean emission
EXC_LEAN = {"bad_alloc": ".badAlloc", "invalid_argument": ".invalidArgument", "domain_error": ".domainError",
            "length_error": ".lengthError", "out_of_range": ".outOfRange", "logic_error": ".logicError",
            "overflow_error": ".overflowError", "underflow_error": ".underflowError", "range_error": ".rangeError",
            "runtime_error": ".runtimeError", "exception": ".stdException", "timeout": ".timeout",
            "det_timeout": ".detTimeout"}
PK_LEAN = {"handle": ".handle", "constHandle": ".constHandle", "outHandle": ".outHandle",
           "outConstHandle": ".outConstHandle", "dim": ".dim", "dimPtr": ".dimPtr", "int": ".int", "uint": ".uint",
           "intPtr": ".intPtr", "mpz": ".mpz", "file": ".file", "cstr": ".cstr", "strPtr": ".strPtr",
           "enum": ".enum", "fnPtr": ".fnPtr", "other": ".other"}
KIND_LEAN = {"new": ".new", "delete": ".delete", "assign": ".assign", "method": ".method", "io": ".io",
             "global": ".global"}
RC_LEAN = {"status": ".status", "bool": ".bool", "value": ".value"}


def lean_int(v):
    return str(v) if v >= 0 else "(%d)" % v


def clause_lean(c, codes):
    if c["exc"] == "ellipsis":
        ct = ".all"
    elif c["exc"] in EXC_LEAN:
        ct = "(.cls %s)" % EXC_LEAN[c["exc"]]
    else:
        ct = ".foreign"

    def code(nm):
        if nm is None:
            return "none"
        if nm.startswith("lit:"):
            return "(some %s)" % lean_int(int(nm[4:]))
        return "(some %s)" % lean_int(codes[nm]) if nm in codes else "none"
    reset = {"reset_timeout": ".timeout", "reset_deterministic_timeout": ".detTimeout", None: ".none"}[c["reset"]]
    return "⟨%s, %s, %s, %s, %s, %s⟩" % (ct, "true" if c["byref"] else "false", code(c["notify"] if c["notifyBeforeRet"] else None),
                                   code(c["ret"]), reset, "true" if c["wf"] else "false")


def emit_lean(tab, chunk=100):
    codes = tab["errorCodes"]
    strs = {}

    strs[""] = 0            # id 0 is reserved: "none"

    def sid(s):
        if s not in strs:
            strs[s] = len(strs)
        return strs[s]
    variants = []
    ca = [clause_lean(c, codes) for c in tab["catchAll"]]
    out = []
    out.append("/- GENERATED by gen/c20_table.py from the clang AST of interfaces/C — do not edit.\n"
               "   Data only.  Names are indices into `strTab`; catch lists are indices into `catchVariants`. -/")
    out.append("import PPLV.CIface.Model\n")
    out.append("namespace PPLV.Gen\nopen PPLV.CIface\n")
    out.append("/-- `enum ppl_enum_error_code` of ppl_c.h, in declaration order. -/")
    out.append("def errorCodeNames : List String := [%s]" % ", ".join('"%s"' % n for n in codes))
    out.append("def errorCodes : List Int := [%s]\n" % ", ".join(lean_int(v) for v in codes.values()))
    out.append("/-- the ordered clauses of `CATCH_ALL` as ppl_c_implementation_common_defs.hh expands now. -/")
    out.append("def catchAll : List Clause := [\n  %s]\n" % ",\n  ".join(ca))
    rows = []
    for f in tab["entries"]:
        cl = [clause_lean(c, codes) for c in f["catches"]]
        if f["try"]:
            if cl not in variants:
                variants.append(cl)
            cv = variants.index(cl)
        else:
            cv = 0
        ps = []
        for p in f["params"]:
            nc = sum(1 for c in p["convs"] if c == "to_const")
            nn = sum(1 for c in p["convs"] if c == "to_nonconst")
            pc = sum(1 for c in p["convs"] if c == "pass_const")
            pn = sum(1 for c in p["convs"] if c == "pass_nonconst")
            ps.append("⟨%s,%d,%d,%d,%d,%d,%d⟩" % (PK_LEAN[p["kind"]], sid(p["htype"]) if p["htype"] else 0, nc, nn, pc, pn, p["other"]))
        terns = ["⟨%s,%s,%s⟩" % ("true" if t["neg"] else "false", lean_int(t["t"]), lean_int(t["e"])) for t in f["terns"]]
        rets = []
        for r in f["rets"]:
            if r["k"] == "lit":
                rets.append("(.lit %s)" % lean_int(r["v"]))
            elif r["k"] == "err":
                rets.append("(.%s %s)" % ("errNotified" if r.get("notified") else "err", lean_int(r["v"])))
            elif r["k"] == "tern":
                rets.append("(.tern %s %s %s)" % ("true" if r["neg"] else "false", lean_int(r["t"]), lean_int(r["e"])))
            elif r["k"] == "boolv":
                rets.append("(.boolv %s)" % ("true" if r["neg"] else "false"))
            elif r["k"] == "delegate":
                rets.append(".delegate")
            else:
                rets.append(".expr")
        dels = "[%s]" % ",".join(str(d + 1) for d in f["deleteParams"])  # 0 = not a parameter, i+1 = parameter i
        # the promise is kept if one of the promised callees is called; the row carries that one (or the first)
        prom = [m for m in f["promised"] if m in f["callees"]] or f["promised"]
        rows.append("E %d %d %s %s %s %d [%s] %s %d [%s] [%s] %s %d %d %d %d %d %d [%s]" % (
            sid(f["name"]), sid(f["file"]), KIND_LEAN[f["kind"]], RC_LEAN[f["retConv"]], "true" if f["retInt"] else "false",
            sid(f["cls"]) if f["cls"] else 0,
            ",".join(ps), "true" if f["try"] else "false", cv,
            ",".join(rets), ",".join(terns), dels, f["news"], f["throws"], f["calls"], f["constcast"],
            sid(f["op"]), sid(prom[0]) if prom else 0, ",".join(str(sid(c)) for c in f["callees"])))
    objmap = {"p_timeout_object": ".timeout", "p_deterministic_timeout_object": ".detTimeout"}
    setters = []
    for f in tab["entries"]:
        for a in f["arms"]:
            setters.append("⟨%d, %s, %s⟩" % (sid(f["name"]), objmap.get(a["object"], ".none"),
                                          "(some %s)" % EXC_LEAN[a["throws"]] if a["throws"] in EXC_LEAN else "none"))
    kindmap = {"reset_timeout": ".timeout", "reset_deterministic_timeout": ".detTimeout"}
    rfs = []
    for nm in sorted(tab["resets"]):
        r = tab["resets"][nm]
        dl = objmap.get(r["deletes"][0], ".none") if len(r["deletes"]) == 1 else ".none"
        rfs.append("⟨%s, %s, %s⟩" % (kindmap[nm], dl, "true" if r["clearsFlag"] else "false"))
    out.append("/-- entry points that arm a watchdog: where it is stored, which exception class it will throw. -/")
    out.append("def timeoutSetters : List TimeoutSetter := [%s]" % ", ".join(setters))
    out.append("def resetFns : List ResetFn := [%s]\n" % ", ".join(rfs))
    if not variants:
        variants = [ca]
    out.append("/-- the distinct handler lists found after the function-try-blocks of the entry points. -/")
    out.append("def catchVariants : List (List Clause) := [\n  %s]\n" % ",\n  ".join("[" + ", ".join(v) + "]" for v in variants))
    nchunks = (len(rows) + chunk - 1) // chunk
    out.append("private abbrev E := EntryPoint.mk\n")
    for i in range(nchunks):
        out.append("def cEntryPoints_%d : List EntryPoint := [\n  %s]\n" % (i, ",\n  ".join(rows[i * chunk:(i + 1) * chunk])))
    out.append("/-- the table in chunks of %d (the theorems are checked chunk by chunk). -/" % chunk)
    out.append("def cEntryChunks : List (List EntryPoint) := [%s]\n" % ", ".join("cEntryPoints_%d" % i for i in range(nchunks)))
    out.append("def cEntryPoints : List EntryPoint := cEntryChunks.flatten\n")
    out.append("def numEntryPoints : Nat := %d\n" % len(rows))
    inv = sorted(strs.items(), key=lambda kv: kv[1])
    out.append("/-- legend: id ↦ name (never evaluated by a theorem). -/")
    lines = []
    for i in range(0, len(inv), 8):
        lines.append(", ".join('"%s"' % s.replace('"', '\\"') for s, _ in inv[i:i + 8]))
    out.append("def strTab : Array String := #[\n  %s]\n" % ",\n  ".join(lines))
    out.append("end PPLV.Gen")
    return "\n".join(out) + "\n", strs


def write_if_changed(path, text):
    if os.path.exists(path) and open(path).read() == text:
        return False
    os.makedirs(os.path.dirname(path), exist_ok=True)
    tmp = path + ".tmp%d" % os.getpid()
    with open(tmp, "w") as f:
        f.write(text)
    os.replace(tmp, path)
    return True


def main():
    ap = argparse.ArgumentParser()
    ap.add_argument("--repo", default=os.environ.get("VERIF_REPO", "/repo"))
    ap.add_argument("--lean", default=os.path.join(VERIF, "lean", "PPLV", "Gen", "CIfaceTable.lean"))
    ap.add_argument("--json", default=os.path.join(BUILD, "c20_table.json"))
    ap.add_argument("-j", type=int, default=4)
    a = ap.parse_args()
    tab = build_table(a.repo, a.j)
    text, strs = emit_lean(tab)
    tab["strIds"] = strs
    os.makedirs(os.path.dirname(a.json), exist_ok=True)
    with open(a.json, "w") as f:
        json.dump(tab, f, indent=0, sort_keys=True)
    ch = write_if_changed(a.lean, text)
    print("c20_table: %d entry points from %d TUs (%d cached), %d clauses in CATCH_ALL, %d error codes, lean %s" % (
        len(tab["entries"]), tab["tus"], tab["cacheHits"], len(tab["catchAll"]), len(tab["errorCodes"]),
        "rewritten" if ch else "unchanged"))


if __name__ == "__main__":
    main()
