#include "ppl.hh"
#include "../fx/interfaces/interfaced_boxes.hh"
#include <sstream>
#include <cstring>
#include <new>
using namespace Parma_Polyhedra_Library;
// two universe boxes of the same value built on memory with different previous contents
template <class B> std::string dump_on(unsigned char fill) {
  alignas(16) static unsigned char store[4096];
  typedef typename B::interval_type I;
  std::memset(store, fill, sizeof store);
  I* p = new (store) I();            // default construction, as Box(n) does for each interval
  p->assign(UNIVERSE);
  std::ostringstream os; p->ascii_dump(os);
  p->~I();
  return os.str();
}
int main() {
  std::string a = dump_on<Int32_Box>(0x00), b = dump_on<Int32_Box>(0x5a);
  std::cout << "Int32 interval, universe, memory 0x00: " << a << "Int32 interval, universe, memory 0x5a: " << b
            << (a == b ? "SAME" : "DIFFERENT dumps of the same value") << "\n";
  // the same through Box
  Int32_Box x(2); x.add_constraint(Variable(0) >= 3);
  x.ascii_dump(std::cout);
  return 0;
}
