#include "ppl.hh"
using namespace Parma_Polyhedra_Library;
int main() {
  Variable A(0), C(2);
  for (int empty = 0; empty < 2; ++empty) {
    Pointset_Powerset<C_Polyhedron> x(2, empty ? EMPTY : UNIVERSE), y(3, empty ? EMPTY : UNIVERSE);
    const char* st = empty ? "empty" : "universe";
    try { x.add_constraint(C >= 1); std::cout << st << ": add_constraint(C >= 1) on 2-dim: no exception\n"; }
    catch (std::invalid_argument&) { std::cout << st << ": add_constraint(C >= 1) on 2-dim: invalid_argument\n"; }
    try { x.intersection_assign(y); std::cout << st << ": intersection_assign(3-dim) on 2-dim: no exception\n"; }
    catch (std::invalid_argument&) { std::cout << st << ": intersection_assign(3-dim) on 2-dim: invalid_argument\n"; }
  }
}
