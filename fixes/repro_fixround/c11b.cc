#include "ppl.hh"
#include <cfloat>
#include <cmath>
using namespace Parma_Polyhedra_Library;
typedef Checked_Number<float, Extended_Number_Policy> N;
static void t(const char* what, bool sub, float to0, float x, float y, Rounding_Dir d) {
  N nt, nx, ny; nt.raw_value() = to0; nx.raw_value() = x; ny.raw_value() = y;
  Result r = sub ? sub_mul_assign_r(nt, nx, ny, d) : add_mul_assign_r(nt, nx, ny, d);
  std::cout << what << ": stored=" << nt.raw_value() << " result=" << (int) r << (r == V_EQ ? " (V_EQ)" : r == V_NAN ? " (V_NAN)" : "") << "\n";
}
int main() {
  float x = -963753.0f * std::ldexp(1.0f, 36), y = -2281729.0f * std::ldexp(1.0f, -77);
  t("add_mul(-inf, x, y) DOWN|STRICT   ", false, -HUGE_VALF, x, y, ROUND_DOWN | ROUND_STRICT_RELATION);
  t("add_mul(+inf, -FLT_MAX, FLT_MAX) DN", false, HUGE_VALF, -FLT_MAX, FLT_MAX, ROUND_DOWN);
  t("sub_mul(+inf, FLT_MAX, FLT_MAX) DN ", true, HUGE_VALF, FLT_MAX, FLT_MAX, ROUND_DOWN);
  t("add_mul(+inf, 2, 3) UP             ", false, HUGE_VALF, 2, 3, ROUND_UP);
  t("add_mul(+inf, -inf, 3) UP (inf-inf)", false, HUGE_VALF, -HUGE_VALF, 3, ROUND_UP);
  t("add_mul(+inf, nan, 3) UP           ", false, HUGE_VALF, NAN, 3, ROUND_UP);
  t("add_mul(1, 2, 3) UP                ", false, 1, 2, 3, ROUND_UP);
  return 0;
}
