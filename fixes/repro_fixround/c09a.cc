#include "ppl.hh"
using namespace Parma_Polyhedra_Library;
using namespace Parma_Polyhedra_Library::IO_Operators;
int main() {
  Variable A(0), B(1);
  {
    C_Polyhedron x(2); x.add_constraint(B >= 2);
    C_Polyhedron y(2); y.add_constraint(-2*A - B >= -4); y.add_constraint(2*A + 2*B >= -1);
    y.add_constraint(2*A - B >= 0); y.add_constraint(2*A + B >= 0);
    C_Polyhedron x0(x), m0(x); m0.intersection_assign(y);
    x.simplify_using_context_assign(y);
    C_Polyhedron m1(x); m1.intersection_assign(y);
    std::cout << "KF-C09-1: result " << x.constraints() << "  enlargement=" << x.contains(x0) << " meet_preserved=" << (m0 == m1) << "\n";
  }
  {
    NNC_Polyhedron x(2); x.add_constraint(-2*A - B >= -2); x.add_constraint(A >= 1);
    NNC_Polyhedron y(2); y.add_constraint(A - 2*B == 1); y.add_constraint(2*A >= -1);
    NNC_Polyhedron x0(x), m0(x); m0.intersection_assign(y);
    x.simplify_using_context_assign(y);
    NNC_Polyhedron m1(x); m1.intersection_assign(y);
    std::cout << "KF-C09-2: result " << x.constraints() << "  enlargement=" << x.contains(x0) << " meet_preserved=" << (m0 == m1) << "\n";
  }
}
