#include "ppl.hh"
using namespace Parma_Polyhedra_Library;
struct INF_Policy {
  const_bool_nodef(check_overflow, true); const_bool_nodef(check_inf_add_inf, true);
  const_bool_nodef(check_inf_sub_inf, true); const_bool_nodef(check_inf_mul_zero, true);
  const_bool_nodef(check_div_zero, true); const_bool_nodef(check_inf_div_inf, true);
  const_bool_nodef(check_inf_mod, true); const_bool_nodef(check_sqrt_neg, true);
  const_bool_nodef(has_nan, false); const_bool_nodef(has_infinity, true);
  const_bool_nodef(convertible, true); const_bool_nodef(check_fpu_inexact, true);
  const_bool_nodef(check_fpu_nan_result, true);
  static void handle_result(Result) {}
};
template <class P> void t(const char* nm, int to0, int x, int y, Rounding_Dir d, const char* dn) {
  typedef Checked_Number<signed char, P> N;
  N nt, nx, ny; nt.raw_value() = to0; nx.raw_value() = x; ny.raw_value() = y;
  Result r = lcm_assign_r(nt, nx, ny, d);
  std::cout << nm << ": lcm(" << x << "," << y << ") " << dn << " to_before=" << to0
            << " -> raw stored=" << (int) nt.raw_value() << " result=" << (int) r
            << "\n";
}
int main() {
  std::cout << "V_LT_PLUS_INFINITY=" << (int) V_LT_PLUS_INFINITY << " V_GT_SUP=" << (int) V_GT_SUP
            << " |V_UNREPRESENTABLE=" << (int) (V_LT_PLUS_INFINITY | V_UNREPRESENTABLE) << " V_EQ=" << (int) V_EQ << "\n";
  t<INF_Policy>("inf-only", 85, 1, -127, ROUND_UP, "UP");
  t<INF_Policy>("inf-only", 85, 1, -127, ROUND_DOWN, "DOWN");
  t<INF_Policy>("inf-only", 85, -127, 1, ROUND_UP, "UP");
  t<Check_Overflow_Policy<signed char> >("chk-ovf", 85, 3, -128, ROUND_DOWN, "DOWN");
  t<Check_Overflow_Policy<signed char> >("chk-ovf", 85, 3, -128, ROUND_UP, "UP");
  t<INF_Policy>("inf-only", 85, 6, -4, ROUND_UP, "UP");
  t<INF_Policy>("inf-only", 85, 63, -2, ROUND_UP, "UP");
  return 0;
}
