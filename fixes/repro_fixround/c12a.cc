#include "ppl.hh"
using namespace Parma_Polyhedra_Library;
struct Pol {
  const_bool_nodef(store_special, true); const_bool_nodef(store_open, true);
  const_bool_nodef(cache_empty, true); const_bool_nodef(cache_singleton, true);
  const_bool_nodef(cache_normalized, false); const_int_nodef(next_bit, 0);
  const_bool_nodef(may_be_empty, true); const_bool_nodef(may_contain_infinity, false);
  const_bool_nodef(check_empty_result, false); const_bool_nodef(check_inexact, false);
};
typedef Interval<mpq_class, Interval_Info_Bitset<unsigned int, Pol> > Itv;
static Itv mk(const char* lo, bool lopen, const char* hi, bool hopen) {
  Itv r; r.assign(UNIVERSE);
  if (lo) { Itv b; b.assign(mpq_class(lo)); r.refine_existential(lopen ? GREATER_THAN : GREATER_OR_EQUAL, b); }
  if (hi) { Itv b; b.assign(mpq_class(hi)); r.refine_existential(hopen ? LESS_THAN : LESS_OR_EQUAL, b); }
  return r;
}
static void t(Itv i, const Itv& j) {
  std::cout << i << " refine_universal(!=, " << j << ") = ";
  I_Result r = i.refine_universal(NOT_EQUAL, j);
  if (i.is_empty()) std::cout << "EMPTY"; else std::cout << i;
  std::cout << "   (result code " << r << ")\n";
}
int main() {
  t(mk("0", false, "2", false), mk("0", false, "1/2", false));   // expect (1/2, 2]
  t(mk(0, false, 0, false), mk(0, false, 0, false));             // expect EMPTY
  t(mk("0", false, "2", false), mk("1", true, "3", false));      // expect [0, 1]
  t(mk("0", false, "2", false), mk("1", false, "3/2", false));   // expect [0, 2]
  t(mk("0", false, "2", false), mk("0", false, "0", false));     // expect (0, 2]
  t(mk("0", false, "2", false), mk("5", false, "6", false));     // expect [0, 2]
  t(mk("0", false, "2", false), mk("-1", false, "2", true));     // expect [2, 2]
  return 0;
}
