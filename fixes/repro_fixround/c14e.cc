#include "ppl.hh"
#include <random>
using namespace Parma_Polyhedra_Library;
using namespace Parma_Polyhedra_Library::IO_Operators;
int main() {
  std::mt19937 g(1);
  int shown = 0;
  for (int it = 0; it < 20000 && shown < 3; ++it) {
    int n = 1 + g() % 3;
    Constraint_System cs;
    int m = 1 + g() % 5;
    for (int k = 0; k < m; ++k) {
      Linear_Expression e; for (int v = 0; v < n; ++v) e += (int(g() % 5) - 2) * Variable(v);
      e += int(g() % 7) - 3;
      switch (g() % 3) { case 0: cs.insert(e >= 0); break; case 1: cs.insert(e == 0); break; default: cs.insert(e <= 0); }
    }
    C_Polyhedron ph(n); ph.add_constraints(cs);
    try { Rational_Box b(ph, POLYNOMIAL_COMPLEXITY); Rational_Box e(ph, ANY_COMPLEXITY); if (!b.contains(e)) { std::cout << "NOT AN OVER-APPROXIMATION: " << cs << "\n"; ++shown; } }
    catch (std::exception& e) { std::cout << "n=" << n << " cs: " << cs << "\n  exception: " << e.what() << "\n"; ++shown; }
  }
  std::cout << "shown=" << shown << "\n";
}
