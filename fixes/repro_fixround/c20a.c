#include <stdio.h>
#include <gmp.h>
#include "ppl_c.h"
int main(void) {
  ppl_initialize();
  ppl_Linear_Expression_t le; ppl_new_Linear_Expression_with_dimension(&le, 2);
  ppl_Coefficient_t c; mpz_t z; mpz_init_set_si(z, 3); ppl_new_Coefficient_from_mpz_t(&c, z);
  ppl_Linear_Expression_add_to_coefficient(le, 1, c);
  ppl_Grid_Generator_t g; ppl_new_Grid_Generator(&g, le, PPL_GRID_GENERATOR_TYPE_PARAMETER, c);
  ppl_Linear_Expression_t le2;
  int r = ppl_new_Linear_Expression_from_Grid_Generator(&le2, g);
  printf("rc=%d dim=", r);
  ppl_dimension_type d; ppl_Linear_Expression_space_dimension(le2, &d); printf("%lu ", (unsigned long)d);
  ppl_Linear_Expression_coefficient(le2, 1, c); ppl_Coefficient_to_mpz_t(c, z); gmp_printf("coef(B)=%Zd\n", z);
  return 0;
}
