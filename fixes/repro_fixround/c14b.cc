#include "ppl.hh"
using namespace Parma_Polyhedra_Library;
int main() {
  Variable A(0), B(1);
  for (int empty = 0; empty < 2; ++empty) {
    Grid g(2, empty ? EMPTY : UNIVERSE);
    try { g.generalized_affine_image(A, LESS_THAN, B, 1, 3); std::cout << (empty ? "empty" : "universe") << ": gen_affine_image(A, <, B, 1, m=3): no exception\n"; }
    catch (std::invalid_argument&) { std::cout << (empty ? "empty" : "universe") << ": gen_affine_image(A, <, B, 1, m=3): invalid_argument\n"; }
    try { g.add_constraint(A >= 1); std::cout << (empty ? "empty" : "universe") << ": add_constraint(A >= 1): no exception\n"; }
    catch (std::invalid_argument&) { std::cout << (empty ? "empty" : "universe") << ": add_constraint(A >= 1): invalid_argument\n"; }
  }
}
