#include "ppl.hh"
using namespace Parma_Polyhedra_Library;
using namespace Parma_Polyhedra_Library::IO_Operators;
typedef Domain_Product<C_Polyhedron, Grid>::Direct_Product DP;
typedef Domain_Product<C_Polyhedron, Grid>::Constraints_Product CP;
template <class D> void tc(const char* nm, const Constraint& bad) {
  Variable A(0), B(1);
  D x(2); D before(x);
  Constraint_System cs; cs.insert(A == 1); cs.insert(bad); cs.insert(B == 2);
  try { x.add_constraints(cs); std::cout << nm << " add_constraints: no exception\n"; }
  catch (std::invalid_argument& e) { std::cout << nm << " add_constraints: invalid_argument, receiver " << (x == before ? "unchanged" : "CHANGED") << " OK=" << x.OK() << "\n"; }
}
template <class D> void tg(const char* nm) {
  Variable A(0), B(1);
  D x(2); D before(x);
  Congruence_System cgs; cgs.insert((A %= 1) / 0); cgs.insert((A + B %= 1) / 3); cgs.insert((B %= 2) / 0);
  try { x.add_congruences(cgs); std::cout << nm << " add_congruences: no exception\n"; }
  catch (std::invalid_argument& e) { std::cout << nm << " add_congruences: invalid_argument, receiver " << (x == before ? "unchanged" : "CHANGED") << " OK=" << x.OK() << "\n"; }
}
int main() {
  Variable A(0), B(1);
  tc<BD_Shape<mpq_class> >("BD_Shape", A + B <= 3);
  tc<Octagonal_Shape<mpq_class> >("Octagonal_Shape", A + 2*B <= 3);
  tc<Rational_Box>("Rational_Box", A + B <= 3);
  tc<Grid>("Grid", A + B <= 3);
  tc<DP>("Direct_Product<C,Grid>", A + B <= 3);
  tc<CP>("Constraints_Product<C,Grid>", A + B <= 3);
  tg<BD_Shape<mpq_class> >("BD_Shape");
  tg<Octagonal_Shape<mpq_class> >("Octagonal_Shape");
  tg<Rational_Box>("Rational_Box");
  return 0;
}
