#include "ppl.hh"
using namespace Parma_Polyhedra_Library;
int main() {
  Variable A(0);
  C_Polyhedron ph(1); ph.add_constraint(A == 0); ph.add_constraint(2*A == 1);
  try { Rational_Box b(ph, POLYNOMIAL_COMPLEXITY); std::cout << "ok empty=" << b.is_empty() << "\n"; }
  catch (std::exception& e) { std::cout << "exception: " << e.what() << "\n"; }
}
