#include <stdio.h>
#include <gmp.h>
#include "ppl_c.h"
static void eh(enum ppl_enum_error_code code, const char* d) { printf("handler: %d %s\n", code, d); }
int main(void) {
  ppl_initialize(); ppl_set_error_handler(eh);
  ppl_Rational_Box_t b; ppl_new_Rational_Box_from_space_dimension(&b, 2, 0);
  ppl_Coefficient_t n, d; ppl_new_Coefficient(&n); ppl_new_Coefficient(&d);
  int closed = -1;
  int r = ppl_Rational_Box_has_upper_bound(b, 7, n, d, &closed);
  printf("has_upper_bound(var=7) rc=%d\n", r);
  r = ppl_Rational_Box_has_lower_bound(b, 1000000, n, d, &closed);
  printf("has_lower_bound(var=1000000) rc=%d\n", r);
  r = ppl_Rational_Box_has_lower_bound(b, 1, n, d, &closed);
  printf("has_lower_bound(var=1) rc=%d\n", r);
  return 0;
}
