#!/bin/bash
# tools/confirm_seed.sh <id> <dir-with-patch.diff+demo.cc> <demo-extra-flags> <test-dir>...
# Confirms a seeded change in a fresh pre-built scratch worktree of /repo: applies, builds, demo must FAIL,
# the listed test directories must pass; reverts, rebuilds, demo must PASS.  Prints a JSON summary.
ID=$1; SRC=$2; FLAGS=$3; shift 3
W=/tmp/seed_chk_$ID
git -C /repo worktree remove --force $W >/dev/null 2>&1; rm -rf $W
/verif/tools/new_seed_worktree.sh chk_$ID >/dev/null || exit 2
cd $W || exit 2
git apply $SRC/patch.diff || { echo '{"applies": false}'; exit 1; }
make -C src -j10 libppl.la ppl.hh >/dev/null 2>&1 || { echo '{"compiles": false}'; exit 1; }
build_demo() { g++ -O1 -w -std=gnu++17 $FLAGS -I$W/src -I$W/interfaces -I$W/tests $SRC/demo.cc -o /tmp/demo_$ID -L$W/src/.libs -lppl -lgmpxx -lgmp 2>/tmp/demo_$ID.err; }
run_demo() { LD_LIBRARY_PATH=$W/src/.libs timeout 300 /tmp/demo_$ID > /tmp/demo_$ID.out 2>&1; echo $?; }
build_demo || { echo "{\"demo_compiles\": false}"; head -5 /tmp/demo_$ID.err; exit 1; }
RC_WITH=$(run_demo); FAILWORD_WITH=$(grep -c "FAIL" /tmp/demo_$ID.out)
TESTS=""
for d in "$@"; do
  if [ "$d" = "interfaces/C/tests" ]; then make -C interfaces/C -j8 SUBDIRS=. >/dev/null 2>&1; fi
  out=$(make -C $d check -j10 2>&1 | grep -E "^# (TOTAL|PASS|FAIL|XPASS|ERROR)|tests passed|tests? failed|^FAIL:|unexpectedly" | tr '\n' ';' | cut -c1-400)
  TESTS="$TESTS $d => $out |"
done
git checkout -q -- . ; make -C src -j10 libppl.la ppl.hh >/dev/null 2>&1
build_demo; RC_WITHOUT=$(run_demo); FAILWORD_WITHOUT=$(grep -c "FAIL" /tmp/demo_$ID.out)
echo "{\"id\": \"$ID\", \"demo_rc_with_change\": $RC_WITH, \"demo_FAIL_lines_with_change\": $FAILWORD_WITH, \"demo_rc_without_change\": $RC_WITHOUT, \"demo_FAIL_lines_without_change\": $FAILWORD_WITHOUT, \"tests_with_change\": \"$TESTS\"}"
cd /; git -C /repo worktree remove --force $W >/dev/null 2>&1; rm -rf $W /tmp/demo_$ID*
