#!/usr/bin/env python3
"""Regenerate the generated part of DESIGN.md (between the markers GENERATED-TABLES-BEGIN/END):
per-property status from evidence/, fix commits from /repo's git log, open known findings,
seeded changes from seeded/*/meta.json."""
import json, os, re, subprocess, glob
V = os.path.dirname(os.path.dirname(os.path.abspath(__file__)))


def sh(*a):
    return subprocess.run(a, capture_output=True, text=True).stdout


out = []
# ---- per property
out.append("#### Per-property status (from the last evidence files)\n")
out.append("| id | theorems audited | cases judged (last quick run) | distinct non-trivial | open findings met | wall s |")
out.append("|---|---|---|---|---|---|")
for i in range(1, 21):
    pid = "C%02d" % i
    p = os.path.join(V, "evidence", pid + ".json")
    if not os.path.exists(p):
        out.append("| %s | – | – | – | – | – |" % pid); continue
    e = json.load(open(p)); c = e["coverage"]
    out.append("| %s | %s/%s | %s | %s | %s | %s |" % (pid, c.get("discharged"), c.get("obligations"), c.get("evaluations"),
               c.get("distinct_nontrivial"), len(c.get("known_findings_met", [])), e.get("wall_s")))
# ---- fixes
out.append("\n#### `fix:` commits in /repo (oldest first)\n")
out.append("| commit | what was wrong |")
out.append("|---|---|")
log = sh("git", "-C", "/repo", "log", "--reverse", "--format=%h\t%s").splitlines()
for l in log:
    h, _, s = l.partition("\t")
    if s.startswith("fix:"):
        out.append("| `%s` | %s |" % (h, s[4:].strip().replace("|", "\\|")))
# ---- open findings
kf = json.load(open(os.path.join(V, "known_findings.json")))["findings"]
out.append("\n#### Open known findings (%d open, %d fixed)\n" % (sum(f["status"] == "open" for f in kf), sum(f["status"] == "fixed" for f in kf)))
out.append("| id | site | predicate | what fails |")
out.append("|---|---|---|---|")
for f in kf:
    if f["status"] != "open":
        continue
    out.append("| %s | `%s` | `%s` | %s |" % (f["id"], f.get("site") or "–", f.get("predicate") or "–",
               f["what"][:230].replace("|", "\\|").replace("\n", " ")))
# ---- seeded
out.append("\n#### Seeded changes (each compiles, passes the listed existing tests, fails its demonstration; see seeded/<id>/)\n")
out.append("| id | property | change | needs | caught by |")
out.append("|---|---|---|---|---|")
for m in sorted(glob.glob(os.path.join(V, "seeded", "*", "meta.json"))):
    d = json.load(open(m))
    out.append("| %s | %s | %s | %s | %s |" % (d["id"], d["property"], d["change"][:200].replace("|", "\\|"),
               d["needs"][:200].replace("|", "\\|"), d.get("caught_by", "?")))
# ---- trusted base per property (from the manifest entries)
me = json.load(open(os.path.join(V, "tools", "manifest_entries.json")))["checks"]
out.append("\n#### Trusted base, and what is modelled rather than verified, per property (the `note` of each MANIFEST entry)\n")
out.append("| id | technique | trusted / modelled / not covered |")
out.append("|---|---|---|")
for pid in sorted(me):
    out.append("| %s | %s | %s |" % (pid, me[pid].get("technique", "").replace("|", "\\|"), me[pid].get("note", "").replace("|", "\\|")))
text = "\n".join(out) + "\n"
p = os.path.join(V, "DESIGN.md")
s = open(p).read()
b, e = "<!-- GENERATED-TABLES-BEGIN -->", "<!-- GENERATED-TABLES-END -->"
if b in s:
    s = s[:s.index(b) + len(b)] + "\n" + text + s[s.index(e):]
else:
    s += "\n### 12.5 Generated status tables (tools/mkdesign_tables.py)\n\n" + b + "\n" + text + e + "\n"
open(p, "w").write(s)
print("DESIGN.md tables regenerated: %d lines" % len(out))
