#!/bin/bash
# tools/mutant_run.sh <scratch-repo> <patch-file> <check-id>...   : apply patch to the scratch copy, run checks, revert.
# The scratch copy is made with: rsync -a --exclude tests --exclude 'interfaces/*/tests' --exclude demos --exclude doc /repo/ <scratch>/
S=$1; P=$2; shift 2
cd "$S" || exit 2
git apply "$P" || { echo "patch does not apply"; exit 2; }
for id in "$@"; do
  echo "== $id on mutant $(basename $P)"
  (cd /verif && VERIF_REPO=$S VERIF_SEED=${VERIF_SEED:-1} bin/check $id 2>&1 | grep -E "^VIOLATION|^KNOWN|tier=|CHECK-ERROR" | cut -c1-200 | sort | uniq -c | sort -rn | head -6)
done
git apply -R "$P"
