#!/bin/bash
# tools/confirm_seed_c.sh <id> <dir-with-patch.diff+demo.c|demo.cc>: like confirm_seed.sh for changes to the C interface
# (demo linked against libppl_c; the C interface is rebuilt with and without the change; tests: interfaces/C/tests).
ID=$1; SRC=$2
W=/tmp/seed_chk_$ID
git -C /repo worktree remove --force $W >/dev/null 2>&1; rm -rf $W
/verif/tools/new_seed_worktree.sh chk_$ID >/dev/null || exit 2
cd $W || exit 2
git apply $SRC/patch.diff || { echo '{"applies": false}'; exit 1; }
bld() { make -C src -j10 libppl.la ppl.hh >/dev/null 2>&1 && make -C interfaces/C -j10 SUBDIRS=. >/dev/null 2>&1; }
bld || { echo '{"compiles": false}'; exit 1; }
I=$W/interfaces/C
build_demo() { if [ -f $SRC/demo.c ]; then gcc -O1 -w -I$I $SRC/demo.c -o /tmp/demo_$ID -L$I/.libs -L$W/src/.libs -lppl_c -lppl -lgmpxx -lgmp -lstdc++ -lm 2>/tmp/demo_$ID.err;
  else g++ -O1 -w -I$I $SRC/demo.cc -o /tmp/demo_$ID -L$I/.libs -L$W/src/.libs -lppl_c -lppl -lgmpxx -lgmp 2>/tmp/demo_$ID.err; fi; }
run_demo() { LD_LIBRARY_PATH=$I/.libs:$W/src/.libs timeout 300 /tmp/demo_$ID > /tmp/demo_$ID.out 2>&1; echo $?; }
build_demo || { echo "{\"demo_compiles\": false}"; head -5 /tmp/demo_$ID.err; exit 1; }
RC_WITH=$(run_demo); FAILWORD_WITH=$(grep -c "FAIL" /tmp/demo_$ID.out)
out=$(make -C interfaces/C/tests check -j10 2>&1 | grep -E "^# (TOTAL|PASS|FAIL|XPASS|ERROR)|tests passed|tests? failed|^FAIL:|unexpectedly" | tr '\n' ';' | cut -c1-400)
TESTS=" interfaces/C/tests => $out |"
git checkout -q -- . ; bld
build_demo; RC_WITHOUT=$(run_demo); FAILWORD_WITHOUT=$(grep -c "FAIL" /tmp/demo_$ID.out)
echo "{\"id\": \"$ID\", \"demo_rc_with_change\": $RC_WITH, \"demo_FAIL_lines_with_change\": $FAILWORD_WITH, \"demo_rc_without_change\": $RC_WITHOUT, \"demo_FAIL_lines_without_change\": $FAILWORD_WITHOUT, \"tests_with_change\": \"$TESTS\"}"
cd /; git -C /repo worktree remove --force $W >/dev/null 2>&1; rm -rf $W /tmp/demo_$ID*
