#!/bin/bash
# tools/new_seed_worktree.sh <name>: scratch git worktree of /repo at /tmp/seed_<name>, pre-populated with
# /repo's build products (so that only what a change touches is rebuilt).  Remove with:
#   git -C /repo worktree remove --force /tmp/seed_<name>
set -e
D=/tmp/seed_$1
git -C /repo worktree add --detach "$D" HEAD >/dev/null 2>&1
rsync -a --exclude .git /repo/ "$D"/ || [ $? -eq 24 ]
echo "$D"
