#!/usr/bin/env python3
"""Compose /verif/MANIFEST.json from tools/manifest_entries.json (claimed checks) — every property
without an entry is listed under not_applicable with the reason given in `unclaimed`."""
import json, os
V = os.path.dirname(os.path.dirname(os.path.abspath(__file__)))
ent = json.load(open(os.path.join(V, "tools", "manifest_entries.json")))
ids = ["C%02d" % i for i in range(1, 21)]
checks = []
for i in ids:
    e = ent["checks"].get(i)
    if not e:
        continue
    checks.append({
        "property_id": i,
        "quick_cmd": "bin/check %s --tier quick" % i,
        "thorough_cmd": "bin/check %s --tier thorough" % i,
        "evidence_file": "/verif/evidence/%s.json" % i,
        "replay_cmd_template": "bin/check %s --replay {path}" % i,
        "engine": e.get("engine", "pplv"),
        "level_claimed": {"category": e.get("category", "proof"), "text": e["text"], "design_ref": e.get("design_ref", "DESIGN.md §4 " + i)},
        "level_note": e["note"],
        "technique": e["technique"],
    })
m = {
    "version": 1,
    "setup_cmd": "bin/setup",
    "hooks": {"guard": "BUGSENG_PPL_VERIF",
              "enable": "none needed: no source hooks; internal state is read through ascii_dump, faults and timers are injected by link-time interposition",
              "baseline_off_cmd": "make -C /repo -k check", "source_commits": [], "add_only": True},
    "engines": ent["engines"],
    "checks": checks,
    "notes": ent.get("notes", ""),
    "not_applicable": [{"property_id": i, "reason": ent["unclaimed"].get(i, "check not yet registered (under construction)")}
                       for i in ids if i not in ent["checks"]],
}
json.dump(m, open(os.path.join(V, "MANIFEST.json"), "w"), indent=1)
print("claimed:", [c["property_id"] for c in checks])
