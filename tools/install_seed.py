#!/usr/bin/env python3
"""tools/install_seed.py <id> <property> <src-dir> <confirm.json> <caught_by> <change> <needs>
Copies patch.diff + demo + README into /verif/seeded/<id>/ and writes meta.json."""
import json, os, shutil, sys
sid, prop, src, conf, caught, change, needs = sys.argv[1:8]
V = os.path.dirname(os.path.dirname(os.path.abspath(__file__)))
d = os.path.join(V, "seeded", sid)
os.makedirs(d, exist_ok=True)
for f in os.listdir(src):
    if f in ("patch.diff", "README.md") or f.startswith("demo."):
        shutil.copy(os.path.join(src, f), os.path.join(d, f))
c = json.load(open(conf)) if os.path.exists(conf) else {}
meta = {"id": sid, "property": prop, "change": change, "needs": needs, "caught_by": caught,
        "origin": "fresh sub-agent given only the property text and a scratch worktree of /repo",
        "confirmed_by_lead": {
            "how": "tools/confirm_seed.sh: fresh pre-built scratch worktree of /repo HEAD, patch applied, library rebuilt, demo compiled and run (must fail), listed test directories run (must pass), patch reverted, rebuilt, demo run again (must pass)",
            "demo_exit_status_with_change": c.get("demo_rc_with_change"), "demo_FAIL_lines_with_change": c.get("demo_FAIL_lines_with_change"),
            "demo_exit_status_without_change": c.get("demo_rc_without_change"), "demo_FAIL_lines_without_change": c.get("demo_FAIL_lines_without_change"),
            "tests_with_change": c.get("tests_with_change")},
        "checks_run": "tools/mutant_run.sh <private built copy of /repo> seeded/%s/patch.diff %s  (VERIF_REPO=<copy> bin/check %s at VERIF_SEED=1..)" % (sid, prop, prop)}
json.dump(meta, open(os.path.join(d, "meta.json"), "w"), indent=1)
print("installed", sid)
