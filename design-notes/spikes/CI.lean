/-! Spike: checked signed-int division (checked_int_inlines.hh: div_signed_int) transliterated. -/
namespace CI
inductive Dir | down | up | ignore deriving DecidableEq, Repr
inductive Res | eq | lt | gt | lge | divZero deriving DecidableEq, Repr

def roundLtNoOv (to : Int) : Dir → Int × Res
  | .down => (to - 1, .gt)
  | _ => (to, .lt)
def roundGtNoOv (to : Int) : Dir → Int × Res
  | .up => (to + 1, .lt)
  | _ => (to, .gt)

/-- as written (y ≠ -1 path; overflow/neg path omitted in this spike) -/
def divSigned (x y : Int) (dir : Dir) : Int × Res :=
  if y == 0 then (0, .divZero)
  else
    let to := Int.tdiv x y
    if dir == .ignore then (to, .lge)
    else
      let m := Int.tmod x y
      if m < 0 then roundLtNoOv to dir
      else if m > 0 then roundGtNoOv to dir
      else (to, .eq)

/-- meaning of the result codes: relation of the EXACT result to the STORED value -/
def holds (r : Res) (stored : Int) (exact : Rat) : Bool :=
  match r with
  | .eq => exact == stored
  | .lt => exact < stored
  | .gt => exact > stored
  | .lge => true
  | .divZero => true
def directed (d : Dir) (stored : Int) (exact : Rat) : Bool :=
  match d with
  | .down => (stored : Rat) ≤ exact
  | .up => exact ≤ (stored : Rat)
  | .ignore => true

def bad (w : Nat) : List (Int × Int × Dir) := Id.run do
  let lo : Int := -(2 ^ (w-1)); let hi : Int := 2 ^ (w-1) - 1
  let mut out := []
  for xi in [0 : (hi - lo + 1).toNat] do
    for yi in [0 : (hi - lo + 1).toNat] do
      let x := lo + xi; let y := lo + yi
      if y != 0 && y != -1 then
        for d in [Dir.down, Dir.up] do
          let (to, r) := divSigned x y d
          let exact : Rat := (x : Rat) / (y : Rat)
          if !(holds r to exact && directed d to exact) then out := (x, y, d) :: out
  return out

#eval (bad 8).length
#eval (bad 8).reverse.take 5
#eval divSigned 7 (-2) .down
example : holds (divSigned 7 (-2) .down).2 (divSigned 7 (-2) .down).1 ((7:Rat)/(-2)) = false := by decide +kernel
end CI
