import Mathlib.Algebra.Module.LinearMap.Defs
import Mathlib.Algebra.Module.Rat
import Mathlib.Tactic.Linarith
import Mathlib.Tactic.Ring
import Mathlib.Tactic.FieldSimp
import Mathlib.Tactic.Module
import Mathlib.Data.Rat.Cast.Defs

/-! Spike for kernel K2: intersecting a generator-described grid with a congruence,
    case "some line has a non-zero product".  Abstract vector space version. -/
namespace K2
variable {V : Type} [AddCommGroup V] [Module ℚ V]

structure Grid (V : Type) where
  pt : V
  params : List V
  lines : List V

inductive Mem (G : Grid V) : V → Prop
  | pt : Mem G G.pt
  | param {x q : V} (k : ℤ) : q ∈ G.params → Mem G x → Mem G (x + (k : ℚ) • q)
  | line {x l : V} (c : ℚ) : l ∈ G.lines → Mem G x → Mem G (x + c • l)

/-- congruence  α x ≡_f b  (f = 0: equality) -/
def SatCg (α : V →ₗ[ℚ] ℚ) (b f : ℚ) (x : V) : Prop := ∃ t : ℤ, α x - b = t * f

variable (α : V →ₗ[ℚ] ℚ) (b f : ℚ) (l0 : V)

/-- projection along l0 onto the hyperplane α = b -/
noncomputable def projAff (x : V) : V := x - ((α x - b) / α l0) • l0
/-- projection of a direction along l0 onto ker α -/
noncomputable def projLin (g : V) : V := g - (α g / α l0) • l0

noncomputable def lineCase (G : Grid V) : Grid V :=
  { pt := projAff α b l0 G.pt
    params := G.params.map (projLin α l0) ++ (if f = 0 then [] else [(f / α l0) • l0])
    lines := G.lines.map (projLin α l0) }

theorem alpha_projLin (hβ : α l0 ≠ 0) (g : V) : α (projLin α l0 g) = 0 := by
  simp [projLin, map_sub, map_smul]; field_simp; ring

theorem alpha_projAff (hβ : α l0 ≠ 0) (x : V) : α (projAff α b l0 x) = b := by
  simp [projAff, map_sub, map_smul]; field_simp; ring

/-- every element of the new grid is in the old one -/
theorem lineCase_sub (G : Grid V) (hl0 : l0 ∈ G.lines) (x : V)
    (h : Mem (lineCase α b f l0 G) x) : Mem G x := by
  induction h with
  | pt =>
    have : (lineCase α b f l0 G).pt = G.pt + (-((α G.pt - b) / α l0)) • l0 := by
      simp [lineCase, projAff, sub_eq_add_neg]
    rw [this]; exact Mem.line _ hl0 Mem.pt
  | @param x q k hq _ ih =>
    simp only [lineCase, List.mem_append, List.mem_map] at hq
    rcases hq with ⟨g, hg, rfl⟩ | hq
    · have : x + (k:ℚ) • projLin α l0 g = (x + (k:ℚ) • g) + (-((k:ℚ) * (α g / α l0))) • l0 := by
        simp only [projLin]; module
      rw [this]; exact Mem.line _ hl0 (Mem.param k hg ih)
    · split at hq
      · simp at hq
      · simp only [List.mem_singleton] at hq
        subst hq
        have : x + (k:ℚ) • ((f / α l0) • l0) = x + ((k:ℚ) * (f / α l0)) • l0 := by module
        rw [this]; exact Mem.line _ hl0 ih
  | @line x l c hl _ ih =>
    simp only [lineCase, List.mem_map] at hl
    obtain ⟨g, hg, rfl⟩ := hl
    have : x + c • projLin α l0 g = (x + c • g) + (-(c * (α g / α l0))) • l0 := by
      simp only [projLin]; module
    rw [this]; exact Mem.line _ hl0 (Mem.line c hg ih)

/-- every element of the new grid satisfies the congruence -/
theorem lineCase_sat (hβ : α l0 ≠ 0) (G : Grid V) (x : V)
    (h : Mem (lineCase α b f l0 G) x) : SatCg α b f x := by
  induction h with
  | pt => exact ⟨0, by simp [lineCase, alpha_projAff α b l0 hβ]⟩
  | @param x q k hq _ ih =>
    obtain ⟨t, ht⟩ := ih
    simp only [lineCase, List.mem_append, List.mem_map] at hq
    rcases hq with ⟨g, _, rfl⟩ | hq
    · exact ⟨t, by simp [map_add, map_smul, alpha_projLin α l0 hβ, ht]⟩
    · split at hq
      · simp at hq
      · simp only [List.mem_singleton] at hq
        subst hq
        refine ⟨t + k, ?_⟩
        simp only [map_add, map_smul, smul_eq_mul, Int.cast_add]
        have : α x = b + t * f := by linarith
        rw [this]; field_simp; ring
  | @line x l c hl _ ih =>
    obtain ⟨t, ht⟩ := ih
    simp only [lineCase, List.mem_map] at hl
    obtain ⟨g, _, rfl⟩ := hl
    exact ⟨t, by simp [map_add, map_smul, alpha_projLin α l0 hβ, ht]⟩

/-- the affine projection of any element of G lies in the new grid -/
theorem proj_mem (hβ : α l0 ≠ 0) (G : Grid V) (x : V) (h : Mem G x) :
    Mem (lineCase α b f l0 G) (projAff α b l0 x) := by
  induction h with
  | pt => exact Mem.pt
  | @param x q k hq _ ih =>
    have : projAff α b l0 (x + (k:ℚ) • q) = projAff α b l0 x + (k:ℚ) • projLin α l0 q := by
      simp only [projAff, projLin, map_add, map_smul, smul_eq_mul]
      have : (α x + (k:ℚ) * α q - b) / α l0 = (α x - b) / α l0 + (k:ℚ) * (α q / α l0) := by
        field_simp; ring
      rw [this]; module
    rw [this]
    exact Mem.param k (by simp [lineCase]; exact Or.inl ⟨q, hq, rfl⟩) ih
  | @line x l c hl _ ih =>
    have : projAff α b l0 (x + c • l) = projAff α b l0 x + c • projLin α l0 l := by
      simp only [projAff, projLin, map_add, map_smul, smul_eq_mul]
      have : (α x + c * α l - b) / α l0 = (α x - b) / α l0 + c * (α l / α l0) := by
        field_simp; ring
      rw [this]; module
    rw [this]
    exact Mem.line c (by simp [lineCase]; exact ⟨l, hl, rfl⟩) ih

/-- K2, line case: the new grid is exactly the old grid intersected with the congruence. -/
theorem lineCase_spec (hβ : α l0 ≠ 0) (G : Grid V) (hl0 : l0 ∈ G.lines) (x : V) :
    Mem (lineCase α b f l0 G) x ↔ Mem G x ∧ SatCg α b f x := by
  constructor
  · intro h; exact ⟨lineCase_sub α b f l0 G hl0 x h, lineCase_sat α b f l0 hβ G x h⟩
  · rintro ⟨hx, t, ht⟩
    have hp := proj_mem α b f l0 hβ G x hx
    by_cases hf : f = 0
    · -- equality: x is its own projection
      have : projAff α b l0 x = x := by
        simp [projAff, ht, hf]
      rw [this] at hp; exact hp
    · -- x = proj x + t • ((f/β) • l0)
      have hx' : x = projAff α b l0 x + (t:ℚ) • ((f / α l0) • l0) := by
        simp only [projAff, ht]
        have : ((t:ℚ) * f / α l0) = (t:ℚ) * (f / α l0) := by ring
        rw [this]; module
      rw [hx']
      exact Mem.param t (by simp [lineCase, hf]) hp

#print axioms lineCase_spec
end K2
