/-! Spike: Watchdog bookkeeping (Watchdog.cc / Time_inlines.hh) as a transition system;
    atomic ctor/dtor in this first cut, timer expiry between them. -/
namespace WD

structure Time where (s : Nat) (us : Nat) deriving Repr, DecidableEq
def Time.ofCs (c : Nat) : Time := ⟨c / 100, (c % 100) * 10000⟩
def Time.toUs (t : Time) : Nat := t.s * 1000000 + t.us
def Time.ofUs (u : Nat) : Time := ⟨u / 1000000, u % 1000000⟩
def Time.add (x y : Time) : Time :=
  let us := x.us + y.us
  if us ≥ 1000000 then ⟨x.s + y.s + 1, us % 1000000⟩ else ⟨x.s + y.s, us⟩
/-- saturating subtraction, as `operator-=` -/
def Time.sub (x y : Time) : Time :=
  if x.toUs < y.toUs then ⟨0, 0⟩ else Time.ofUs (x.toUs - y.toUs)
def Time.lt (x y : Time) : Bool := x.s < y.s || (x.s == y.s && x.us < y.us)
/-- `operator==` AS WRITTEN in Time_inlines.hh: y.microseconds() == y.microseconds() -/
def Time.eqCode (x y : Time) : Bool := x.s == y.s && y.us == y.us
def Time.le (x y : Time) : Bool := x.lt y || x.eqCode y

structure St where
  pending : List (Time × Nat) := []      -- (deadline, id), sorted by deadline
  tsf : Time := ⟨0,0⟩                     -- time_so_far
  ltr : Time := ⟨0,0⟩                     -- last_time_requested
  running : Bool := false
  remaining : Nat := 0                    -- environment: µs until expiry, 0 = disarmed
  now : Nat := 0                          -- ghost real time (µs)
  born : List (Nat × Nat) := []           -- ghost: id ↦ earliest legal firing time
  fired : List (Nat × Nat) := []          -- ghost: (id, time)
  nextId : Nat := 0
deriving Repr

def insertSorted (d : Time) (id : Nat) : List (Time × Nat) → List (Time × Nat)
  | [] => [(d, id)]
  | (e, j) :: r => if e.lt d then (e, j) :: insertSorted d id r else (d, id) :: (e, j) :: r

def setTimer (σ : St) (t : Time) : St := { σ with ltr := t, remaining := t.toUs }

def create (σ : St) (cs : Nat) : St :=
  let id := σ.nextId
  let deadline := Time.ofCs cs
  let σ := { σ with nextId := id + 1, born := (id, σ.now + cs * 10000) :: σ.born }
  if !σ.running then
    let σ := { σ with pending := insertSorted deadline id σ.pending, tsf := ⟨0,0⟩ }
    { setTimer σ deadline with running := true }
  else
    let tts := Time.ofUs σ.remaining                    -- get_timer
    let elapsed := σ.ltr.sub tts
    let current := σ.tsf.add elapsed
    let real := deadline.add current
    let σ := { σ with pending := insertSorted real id σ.pending }
    if deadline.lt tts then setTimer { σ with tsf := current } deadline else σ

def destroy (σ : St) (id : Nat) : St :=
  if σ.fired.any (·.1 == id) then σ else
  match σ.pending with
  | [] => σ
  | (fd, fid) :: rest =>
    if fid == id then
      match rest with
      | (nd, _) :: _ =>
        let σ' :=
          if !(fd.eqCode nd) then
            let tts := Time.ofUs σ.remaining
            let elapsed := σ.ltr.sub tts
            let σ1 := { σ with tsf := σ.tsf.add elapsed }
            setTimer σ1 (tts.add (nd.sub fd))
          else σ
        { σ' with pending := rest }
      | [] => { σ with remaining := 0, running := false, pending := [] }
    else { σ with pending := σ.pending.filter (·.2 != id) }

/-- `handle_timeout` outside a critical section. -/
def handle (σ : St) : St :=
  let σ := { σ with tsf := σ.tsf.add σ.ltr }
  match σ.pending with
  | [] => { σ with running := false }
  | (_, id) :: rest =>
    -- do { act; erase } while (next.deadline <= time_so_far)
    let rec go (fuel : Nat) (fired : List (Nat × Nat)) (l : List (Time × Nat)) :=
      match fuel, l with
      | fuel+1, (d, j) :: r => if d.le σ.tsf then go fuel ((j, σ.now) :: fired) r else (fired, l)
      | _, l => (fired, l)
    let (fired, rest) := go rest.length ((id, σ.now) :: σ.fired) rest
    let σ := { σ with fired := fired, pending := rest }
    match rest with
    | [] => { σ with running := false }
    | (d, _) :: _ => setTimer σ (d.sub σ.tsf)

def advance (σ : St) (dt : Nat) : St :=
  let rec go (fuel : Nat) (σ : St) (dt : Nat) : St :=
    match fuel with
    | 0 => σ
    | fuel+1 =>
      if dt == 0 then σ
      else if σ.remaining == 0 then { σ with now := σ.now + dt }
      else
        let d := min dt σ.remaining
        let σ := { σ with now := σ.now + d, remaining := σ.remaining - d }
        if σ.remaining == 0 then go fuel (handle σ) (dt - d) else go fuel σ (dt - d)
  go 16 σ dt

inductive Op | create (cs : Nat) | destroy (id : Nat) | advance (us : Nat) deriving Repr
def step (σ : St) : Op → St
  | .create c => create σ c | .destroy i => destroy σ i | .advance u => advance σ u
def run (ops : List Op) : St := ops.foldl step {}

def neverEarly (σ : St) : Bool :=
  σ.fired.all fun (id, t) => σ.born.any fun (j, legal) => j == id && legal ≤ t

/-- the schedule replayed on the real library in the probe: W2 (0.50 s) fires at 0.10 s -/
def witness : List Op := [.create 10, .create 50, .advance 50000, .destroy 0, .advance 100000]
#eval (run witness).fired
example : neverEarly (run witness) = false := by decide
end WD
