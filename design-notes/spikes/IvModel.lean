/-! Spike: Interval::mul_assign (finite bounds, store_open policy) transliterated. -/
namespace Iv
structure Bd where
  v : Rat
  op : Bool        -- OPEN property
deriving Repr, DecidableEq

structure I where
  lo : Bd
  hi : Bd
deriving Repr, DecidableEq

def sgnR (q : Rat) : Int := if q < 0 then -1 else if q = 0 then 0 else 1

/-- Boundary_NS::mul_assign on finite bounds: value product, open if either is open -/
def bmul (a b : Bd) : Bd := ⟨a.v * b.v, a.op || b.op⟩

/-- Boundary_NS::mul_assign_z -/
def bmulz (a : Bd) (as : Int) (b : Bd) (bs : Int) : Bd :=
  if as != 0 then
    if bs != 0 then bmul a b
    else ⟨0, b.op⟩
  else ⟨0, a.op && (bs != 0 || b.op)⟩

/-- lt(LOWER, a, LOWER, b) / gt … on finite bounds of the same kind -/
def lowerGt (a b : Bd) : Bool :=   -- is lower bound a strictly tighter (greater) than b
  a.v > b.v || (a.v == b.v && a.op && !b.op)
def upperLt (a b : Bd) : Bool :=
  a.v < b.v || (a.v == b.v && a.op && !b.op)

/-- Interval::mul_assign AS WRITTEN (non-empty finite operands).  `buggy = true` keeps the
    open flag of the discarded candidate in the straddle/straddle case, as the C++ does. -/
def mul (buggy : Bool) (x y : I) : I :=
  let xls := sgnR x.lo.v
  let xus := if xls > 0 then 1 else sgnR x.hi.v
  let yls := sgnR y.lo.v
  let yus := if yls > 0 then 1 else sgnR y.hi.v
  if xls ≥ 0 then
    if yls ≥ 0 then ⟨bmulz x.lo xls y.lo yls, bmulz x.hi xus y.hi yus⟩
    else if yus ≤ 0 then ⟨bmulz x.hi xus y.lo yls, bmulz x.lo xls y.hi yus⟩
    else ⟨bmulz x.hi xus y.lo yls, bmulz x.hi xus y.hi yus⟩
  else if xus ≤ 0 then
    if yls ≥ 0 then ⟨bmulz x.lo xls y.hi yus, bmulz x.hi xus y.lo yls⟩
    else if yus ≤ 0 then ⟨bmulz x.hi xus y.hi yus, bmulz x.lo xls y.lo yls⟩
    else ⟨bmulz x.lo xls y.hi yus, bmulz x.lo xls y.lo yls⟩
  else if yls ≥ 0 then ⟨bmulz x.lo xls y.hi yus, bmulz x.hi xus y.hi yus⟩
  else if yus ≤ 0 then ⟨bmulz x.hi xus y.lo yls, bmulz x.lo xls y.lo yls⟩
  else
    let tmpL := bmul x.hi y.lo
    let toL := bmul x.lo y.hi
    let lo := if lowerGt toL tmpL then (if buggy then ⟨tmpL.v, toL.op⟩ else tmpL) else toL
    let tmpU := bmul x.hi y.hi
    let toU := bmul x.lo y.lo
    let hi := if upperLt toU tmpU then (if buggy then ⟨tmpU.v, toU.op⟩ else tmpU) else toU
    ⟨lo, hi⟩

def memB (i : I) (a : Rat) : Bool :=
  (if i.lo.op then i.lo.v < a else i.lo.v ≤ a) && (if i.hi.op then a < i.hi.v else a ≤ i.hi.v)

/-- search: small bounds, all open/closed combinations, sample members -/
def search (buggy : Bool) : List (I × I × Rat × Rat) := Id.run do
  let vals : List Rat := [-3, -1, 0, 1, 2]
  let pts : List Rat := [-3, -2, -1, -1/2, 0, 1/2, 1, 2]
  let mut out := []
  for xl in vals do for xu in vals do for yl in vals do for yu in vals do
    if xl < xu && yl < yu then
      for f in [0:16] do
        let x : I := ⟨⟨xl, f % 2 == 1⟩, ⟨xu, (f / 2) % 2 == 1⟩⟩
        let y : I := ⟨⟨yl, (f / 4) % 2 == 1⟩, ⟨yu, (f / 8) % 2 == 1⟩⟩
        let z := mul buggy x y
        for a in pts do for b in pts do
          if memB x a && memB y b && !(memB z (a * b)) then
            if out.length < 3 then out := (x, y, a, b) :: out
  return out

#eval (search true).length
#eval (search true).head?
#eval (search false).length
end Iv
