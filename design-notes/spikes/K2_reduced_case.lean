import Mathlib.Algebra.Module.LinearMap.Defs
import Mathlib.Algebra.Module.Rat
import Mathlib.Tactic.Linarith
import Mathlib.Tactic.Ring
import Mathlib.Tactic.FieldSimp
import Mathlib.Tactic.Module
import Mathlib.Data.Rat.Cast.Defs

/-! Spike for kernel K2, case "no line moves α; exactly one parameter q* has α q* ≠ 0"
    (reached after unimodular reduction of the parameters), and the unimodular step. -/
namespace K2
variable {V : Type} [AddCommGroup V] [Module ℚ V]

structure Grid (V : Type) where
  pt : V
  params : List V
  lines : List V

inductive Mem (G : Grid V) : V → Prop
  | pt : Mem G G.pt
  | param {x q : V} (k : ℤ) : q ∈ G.params → Mem G x → Mem G (x + (k : ℚ) • q)
  | line {x l : V} (c : ℚ) : l ∈ G.lines → Mem G x → Mem G (x + c • l)

def SatCg (α : V →ₗ[ℚ] ℚ) (b f : ℚ) (x : V) : Prop := ∃ t : ℤ, α x - b = t * f

/-- monotonicity: if G₂ contains G₁'s point and is closed under G₁'s generators, Mem G₁ ⊆ Mem G₂ -/
theorem mem_mono (G₁ G₂ : Grid V) (hpt : Mem G₂ G₁.pt)
    (hpar : ∀ q ∈ G₁.params, ∀ x (k : ℤ), Mem G₂ x → Mem G₂ (x + (k:ℚ) • q))
    (hlin : ∀ l ∈ G₁.lines, ∀ x (c : ℚ), Mem G₂ x → Mem G₂ (x + c • l))
    (x : V) (h : Mem G₁ x) : Mem G₂ x := by
  induction h with
  | pt => exact hpt
  | param k hq _ ih => exact hpar _ hq _ k ih
  | line c hl _ ih => exact hlin _ hl _ c ih

/-- one direction of the unimodular step -/
theorem pair_sub (p : V) (a1 b1 u1 v1 : V) (rest lines : List V) (s t c d : ℤ)
    (hu : u1 = (s:ℚ) • a1 + (t:ℚ) • b1) (hv : v1 = (c:ℚ) • a1 + (d:ℚ) • b1) (x : V)
    (hx : Mem ⟨p, u1 :: v1 :: rest, lines⟩ x) : Mem ⟨p, a1 :: b1 :: rest, lines⟩ x := by
  refine mem_mono ⟨p, u1 :: v1 :: rest, lines⟩ ⟨p, a1 :: b1 :: rest, lines⟩ Mem.pt ?_ ?_ x hx
  · intro q hq y k hy
    have hq' : q = u1 ∨ q = v1 ∨ q ∈ rest := by simpa using hq
    rcases hq' with hq | hq | hq
    · have e : y + (k:ℚ) • q = (y + ((k * s : ℤ):ℚ) • a1) + ((k * t : ℤ):ℚ) • b1 := by
        rw [hq, hu]; push_cast; module
      rw [e]
      exact Mem.param _ (by simp) (Mem.param _ (by simp) hy)
    · have e : y + (k:ℚ) • q = (y + ((k * c : ℤ):ℚ) • a1) + ((k * d : ℤ):ℚ) • b1 := by
        rw [hq, hv]; push_cast; module
      rw [e]
      exact Mem.param _ (by simp) (Mem.param _ (by simp) hy)
    · exact Mem.param k (by simp [hq]) hy
  · intro l hl y c hy; exact Mem.line c hl hy

/-- unimodular step on the first two parameters -/
theorem pair_step (p : V) (a1 b1 : V) (rest lines : List V) (s t c d s' t' c' d' : ℤ)
    (u1 v1 : V) (hu : u1 = (s:ℚ) • a1 + (t:ℚ) • b1) (hv : v1 = (c:ℚ) • a1 + (d:ℚ) • b1)
    (ha : a1 = (s':ℚ) • u1 + (t':ℚ) • v1) (hb : b1 = (c':ℚ) • u1 + (d':ℚ) • v1) (x : V) :
    Mem ⟨p, a1 :: b1 :: rest, lines⟩ x ↔ Mem ⟨p, u1 :: v1 :: rest, lines⟩ x :=
  ⟨pair_sub p u1 v1 a1 b1 rest lines s' t' c' d' ha hb x,
   pair_sub p a1 b1 u1 v1 rest lines s t c d hu hv x⟩

variable (α : V →ₗ[ℚ] ℚ) (b f : ℚ)

/-- Reduced case.  Hypotheses (all decidable on concrete data, computed by the executable):
    lines and the other parameters are in ker α; `k0` solves the congruence at the point;
    `m` is the period: m•q* keeps the congruence, and any integer shift along q* that keeps
    it is a multiple of m. -/
theorem reducedCase_spec (p qs : V) (rest lines : List V) (k0 m : ℤ)
    (hlines : ∀ l ∈ lines, α l = 0) (hrest : ∀ r ∈ rest, α r = 0)
    (hk0 : SatCg α b f (p + (k0:ℚ) • qs))
    (hm : ∃ t : ℤ, (m:ℚ) * α qs = t * f)
    (hmin : ∀ k : ℤ, (∃ t : ℤ, (k:ℚ) * α qs = t * f) → ∃ j : ℤ, k = j * m)
    (x : V) :
    Mem ⟨p + (k0:ℚ) • qs, ((m:ℚ) • qs) :: rest, lines⟩ x ↔
      Mem ⟨p, qs :: rest, lines⟩ x ∧ SatCg α b f x := by
  constructor
  · intro h
    constructor
    · refine mem_mono _ _ (Mem.param k0 (by simp) Mem.pt) ?_ ?_ x h
      · intro q hq y k hy
        simp only [List.mem_cons] at hq
        rcases hq with hq | hq
        · have : y + (k:ℚ) • q = y + ((k * m : ℤ):ℚ) • qs := by rw [hq]; push_cast; module
          rw [this]; exact Mem.param _ (by simp) hy
        · exact Mem.param k (by simp [hq]) hy
      · intro l hl y c hy; exact Mem.line c hl hy
    · induction h with
      | pt => exact hk0
      | @param y q k hq _ ih =>
        obtain ⟨t, ht⟩ := ih
        simp only [List.mem_cons] at hq
        rcases hq with hq | hq
        · obtain ⟨s, hs⟩ := hm
          refine ⟨t + k * s, ?_⟩
          rw [hq]
          simp only [map_add, map_smul, smul_eq_mul]
          push_cast
          have : α y = b + t * f := by linarith
          rw [this]
          have : (k:ℚ) * ((m:ℚ) * α qs) = (k:ℚ) * (s * f) := by rw [hs]
          linarith
        · exact ⟨t, by simp [map_add, map_smul, hrest _ hq, ht]⟩
      | @line y l c hl _ ih =>
        obtain ⟨t, ht⟩ := ih
        exact ⟨t, by simp [map_add, map_smul, hlines _ hl, ht]⟩
  · rintro ⟨hx, hsat⟩
    -- G'' : the shifted grid without the parameter q*
    have hker : ∀ z, Mem ⟨p + (k0:ℚ) • qs, rest, lines⟩ z → α z = α (p + (k0:ℚ) • qs) := by
      intro z hz
      induction hz with
      | pt => rfl
      | @param y q k hq _ ih => simp [map_add, map_smul, hrest _ hq, ih]
      | @line y l c hl _ ih => simp [map_add, map_smul, hlines _ hl, ih]
    have decomp : ∀ x, Mem ⟨p, qs :: rest, lines⟩ x →
        ∃ k : ℤ, Mem ⟨p + (k0:ℚ) • qs, rest, lines⟩ (x - ((k - k0 : ℤ):ℚ) • qs) := by
      intro x hx
      induction hx with
      | pt => exact ⟨0, by
          have : p - ((0 - k0 : ℤ):ℚ) • qs = p + (k0:ℚ) • qs := by push_cast; module
          rw [this]; exact Mem.pt⟩
      | @param y q k1 hq _ ih =>
        obtain ⟨k, hk⟩ := ih
        simp only [List.mem_cons] at hq
        rcases hq with hq | hq
        · refine ⟨k + k1, ?_⟩
          have : y + (k1:ℚ) • q - ((k + k1 - k0 : ℤ):ℚ) • qs = y - ((k - k0 : ℤ):ℚ) • qs := by
            rw [hq]; push_cast; module
          rw [this]; exact hk
        · refine ⟨k, ?_⟩
          have : y + (k1:ℚ) • q - ((k - k0 : ℤ):ℚ) • qs = (y - ((k - k0 : ℤ):ℚ) • qs) + (k1:ℚ) • q := by
            module
          rw [this]; exact Mem.param k1 hq hk
      | @line y l c hl _ ih =>
        obtain ⟨k, hk⟩ := ih
        refine ⟨k, ?_⟩
        have : y + c • l - ((k - k0 : ℤ):ℚ) • qs = (y - ((k - k0 : ℤ):ℚ) • qs) + c • l := by module
        rw [this]; exact Mem.line c hl hk
    obtain ⟨k, hz⟩ := decomp x hx
    obtain ⟨t, ht⟩ := hsat
    obtain ⟨t0, ht0⟩ := hk0
    have hαz := hker _ hz
    -- (k - k0) * α qs = (t - t0) * f
    have hshift : ((k - k0 : ℤ):ℚ) * α qs = ((t - t0 : ℤ):ℚ) * f := by
      have e1 : α (x - ((k - k0 : ℤ):ℚ) • qs) = α x - ((k - k0 : ℤ):ℚ) * α qs := by
        simp [map_sub, map_smul]
      push_cast at *
      linarith
    obtain ⟨j, hj⟩ := hmin (k - k0) ⟨t - t0, hshift⟩
    have hxz : x = (x - ((k - k0 : ℤ):ℚ) • qs) + (j:ℚ) • ((m:ℚ) • qs) := by
      rw [hj]; push_cast; module
    rw [hxz]
    refine Mem.param j (by simp) ?_
    exact mem_mono ⟨p + (k0:ℚ) • qs, rest, lines⟩ ⟨p + (k0:ℚ) • qs, ((m:ℚ) • qs) :: rest, lines⟩ Mem.pt
      (fun q hq y k hy => Mem.param k (by simp [hq]) hy)
      (fun l hl y c hy => Mem.line c hl hy) _ hz

#print axioms reducedCase_spec
#print axioms pair_step
end K2
