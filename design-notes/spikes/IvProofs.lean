import IvModel
import Mathlib.Tactic.Linarith
import Mathlib.Tactic.Ring
import Mathlib.Tactic.Positivity
import Mathlib.Algebra.Order.Field.Rat
namespace Iv

def lowerOk (c : Bd) (p : Rat) : Prop := if c.op then c.v < p else c.v ≤ p
def upperOk (c : Bd) (p : Rat) : Prop := if c.op then p < c.v else p ≤ c.v
def mem (i : I) (a : Rat) : Prop := lowerOk i.lo a ∧ upperOk i.hi a

theorem sgnR_zero {q : Rat} : sgnR q = 0 ↔ q = 0 := by
  unfold sgnR; split_ifs with h1 h2 <;> simp_all <;> linarith
theorem sgnR_neg {q : Rat} : sgnR q < 0 ↔ q < 0 := by
  unfold sgnR; split_ifs with h1 h2 <;> simp_all <;> linarith

/-- lower bound of the product, both lower bounds non-negative (first case of the table) -/
theorem lower_nn_nn (xl yl : Bd) (a b : Rat) (hx : 0 ≤ xl.v) (hy : 0 ≤ yl.v)
    (ha : lowerOk xl a) (hb : lowerOk yl b) :
    lowerOk (bmulz xl (sgnR xl.v) yl (sgnR yl.v)) (a * b) := by
  have ha0 : xl.v ≤ a := by unfold lowerOk at ha; split at ha <;> linarith
  have hb0 : yl.v ≤ b := by unfold lowerOk at hb; split at hb <;> linarith
  unfold bmulz
  by_cases hxz : xl.v = 0
  · -- xs = 0
    have : sgnR xl.v = 0 := sgnR_zero.mpr hxz
    simp only [this, bne_self_eq_false, Bool.false_eq_true, ↓reduceIte]
    unfold lowerOk; simp only
    by_cases hyz : yl.v = 0
    · have h2 : sgnR yl.v = 0 := sgnR_zero.mpr hyz
      simp only [h2, bne_self_eq_false, Bool.false_or]
      cases hxo : xl.op <;> cases hyo : yl.op <;> simp [hxo, hyo, lowerOk, hxz, hyz] at ha hb ⊢
      · exact mul_nonneg ha hb
      · exact mul_nonneg ha (le_of_lt hb)
      · exact mul_nonneg (le_of_lt ha) hb
      · exact mul_pos ha hb
    · have hypos : 0 < yl.v := lt_of_le_of_ne hy (Ne.symm hyz)
      have h2 : sgnR yl.v ≠ 0 := fun h => hyz (sgnR_zero.mp h)
      have hb' : 0 < b := lt_of_lt_of_le hypos hb0
      cases hxo : xl.op <;> simp [hxo, lowerOk, hxz, h2] at ha ⊢
      · exact mul_nonneg ha (le_of_lt hb')
      · exact mul_pos ha hb'
  · have hxpos : 0 < xl.v := lt_of_le_of_ne hx (Ne.symm hxz)
    have h1 : sgnR xl.v ≠ 0 := fun h => hxz (sgnR_zero.mp h)
    have ha' : 0 < a := lt_of_lt_of_le hxpos ha0
    by_cases hyz : yl.v = 0
    · have h2 : sgnR yl.v = 0 := sgnR_zero.mpr hyz
      simp only [h1, h2, bne_self_eq_false, ne_eq, not_false_eq_true, bne_iff_ne, ↓reduceIte, Bool.false_eq_true]
      unfold lowerOk; simp only
      cases hyo : yl.op <;> simp [hyo, lowerOk, hyz] at hb ⊢
      · exact mul_nonneg (le_of_lt ha') hb
      · exact mul_pos ha' hb
    · have hypos : 0 < yl.v := lt_of_le_of_ne hy (Ne.symm hyz)
      have h2 : sgnR yl.v ≠ 0 := fun h => hyz (sgnR_zero.mp h)
      simp only [h1, h2, ne_eq, not_false_eq_true, bne_iff_ne, ↓reduceIte]
      unfold bmul lowerOk; simp only
      have hb' : 0 < b := lt_of_lt_of_le hypos hb0
      cases hxo : xl.op <;> cases hyo : yl.op <;> simp [hxo, hyo, lowerOk] at ha hb ⊢
      · exact mul_le_mul ha hb (le_of_lt hypos) (le_of_lt ha')
      · exact mul_lt_mul' ha hb (le_of_lt hypos) ha'
      · exact mul_lt_mul ha hb hypos (le_of_lt ha')
      · exact mul_lt_mul'' ha hb (le_of_lt hxpos) (le_of_lt hypos)
#print axioms lower_nn_nn
end Iv
