import Std.Data.HashSet
/-! Spike: generators → constraints by FM with equality substitution, integer rows, gcd normalisation, dedupe. -/
namespace G2C
inductive Rel | eq | ge | gt deriving BEq, Repr, DecidableEq, Hashable
structure Row where
  c : Array Int      -- coefficients; last entry is the inhomogeneous term
  r : Rel
deriving BEq, Repr, Hashable

def gcdRow (a : Array Int) : Nat := a.foldl (fun g x => Nat.gcd g x.natAbs) 0
def norm (row : Row) : Row :=
  let g := gcdRow row.c
  let c := if g ≤ 1 then row.c else row.c.map (· / (g : Int))
  -- equalities: make first non-zero positive
  match row.r with
  | .eq => match c.find? (· != 0) with
           | some x => if x < 0 then ⟨c.map (- ·), .eq⟩ else ⟨c, .eq⟩
           | none => ⟨c, .eq⟩
  | r => ⟨c, r⟩
def comb (a : Int) (x : Row) (b : Int) (y : Row) (r : Rel) : Row :=
  norm ⟨(x.c.zip y.c).map fun (p, q) => a * p + b * q, r⟩
def trivialTrue (row : Row) (nv : Nat) : Bool :=
  (List.range nv).all (fun i => row.c[i]! == 0) &&
    (match row.r with | .eq => row.c[nv]! == 0 | .ge => row.c[nv]! ≥ 0 | .gt => row.c[nv]! > 0)
def dedupe (rs : List Row) : List Row := Id.run do
  let mut seen : Std.HashSet Row := {}
  let mut out := []
  for r in rs do
    if !seen.contains r then seen := seen.insert r; out := r :: out
  return out.reverse

/-- eliminate variable k (set its column to 0) -/
def elim (nv : Nat) (k : Nat) (rs : List Row) : List Row :=
  match rs.find? (fun r => r.r == .eq && r.c[k]! != 0) with
  | some e =>
    let ek := e.c[k]!
    let rest := rs.filter (fun r => !(r == e))
    dedupe <| (rest.map fun r =>
      let rk := r.c[k]!
      if rk == 0 then r else
        -- r*|ek| - sign(ek)*rk*e   keeps the direction of r
        let s : Int := if ek > 0 then 1 else -1
        comb ek.natAbs r (-(s * rk)) e r.r).filter (fun r => !trivialTrue r nv)
  | none =>
    let pos := rs.filter (fun r => r.c[k]! > 0)
    let neg := rs.filter (fun r => r.c[k]! < 0)
    let zer := rs.filter (fun r => r.c[k]! == 0)
    let combos := pos.flatMap fun l => neg.map fun u =>
      comb (-(u.c[k]!)) l (l.c[k]!) u (if l.r == .gt || u.r == .gt then .gt else .ge)
    dedupe <| (zer ++ combos).filter (fun r => !trivialTrue r nv)

/-- points only (closed polytope): x_j = Σ λ_i p_ij / d_i , λ ≥ 0, Σ λ = 1.  Variables: x_0..x_{n-1}, λ_0..λ_{k-1}. -/
def lifted (n : Nat) (pts : List (Array Int)) : List Row := Id.run do
  let k := pts.length
  let nv := n + k
  let mut rows : List Row := []
  for j in [0:n] do
    let mut c := Array.replicate (nv + 1) (0 : Int)
    c := c.set! j (-1)
    for (p, i) in pts.zipIdx do c := c.set! (n + i) p[j]!
    rows := norm ⟨c, .eq⟩ :: rows
  let mut s := Array.replicate (nv + 1) (0 : Int)
  for i in [0:k] do
    s := s.set! (n + i) 1
    rows := ⟨(Array.replicate (nv + 1) (0 : Int)).set! (n + i) 1, .ge⟩ :: rows
  s := s.set! nv (-1)
  return norm ⟨s, .eq⟩ :: rows

def gensToCons (n : Nat) (pts : List (Array Int)) : List Row × Nat := Id.run do
  let k := pts.length
  let mut rs := lifted n pts
  let mut peak := rs.length
  let mut todo : List Nat := (List.range k).map (n + ·)
  for _ in [0:k] do
    -- greedy order: equality available first, else minimal |pos|*|neg|
    let cost := fun (v : Nat) =>
      if rs.any (fun r => r.r == .eq && r.c[v]! != 0) then 0
      else 1 + (rs.filter (fun r => r.c[v]! > 0)).length * (rs.filter (fun r => r.c[v]! < 0)).length
    let best := todo.foldl (fun b v => if cost v < cost b then v else b) todo.head!
    rs := elim (n + k) best rs
    todo := todo.filter (· != best)
    peak := max peak rs.length
  return (rs, peak)
end G2C

open G2C in
def main (args : List String) : IO Unit := do
  let n := args[0]!.toNat!; let k := args[1]!.toNat!; let reps := args[2]!.toNat!
  let mut seed := 12345
  let mut worst := 0
  for _ in [0:reps] do
    let mut pts := []
    for _ in [0:k] do
      let mut p := #[]
      for _ in [0:n] do
        seed := (seed * 1103515245 + 12345) % 2147483648
        p := p.push ((((seed / 65536) % 11 : Nat) : Int) - 5)
      pts := p :: pts
    let (rs, peak) := gensToCons n pts
    worst := max worst peak
    if reps == 1 then IO.println s!"{rs.length} constraints, peak {peak}"
  IO.println s!"n={n} k={k} reps={reps} worst peak rows {worst}"
