/-! Spike: Fourier–Motzkin head elimination, model part (no Mathlib). -/
namespace FM

structure Con where
  coeffs : List Rat
  k : Rat
  strict : Bool
deriving Repr, BEq, DecidableEq

/-- valuation: variable i ↦ value -/
abbrev Val := Nat → Rat

def Val.tail (x : Val) : Val := fun i => x (i+1)
def Val.cons (v : Rat) (y : Val) : Val := fun i => match i with | 0 => v | i+1 => y i

def dot : List Rat → Val → Rat
  | [], _ => 0
  | a :: as, x => a * x 0 + dot as x.tail

def Con.eval (c : Con) (x : Val) : Rat := dot c.coeffs x + c.k
def Con.sat (c : Con) (x : Val) : Prop := if c.strict then 0 < c.eval x else 0 ≤ c.eval x

def Con.hd (c : Con) : Rat := c.coeffs.headD 0
def Con.tl (c : Con) : Con := { c with coeffs := c.coeffs.tail }

def addL : List Rat → List Rat → List Rat
  | [], ys => ys
  | xs, [] => xs
  | x :: xs, y :: ys => (x + y) :: addL xs ys

def smul (a : Rat) (xs : List Rat) : List Rat := xs.map (a * ·)

/-- lo.hd > 0, up.hd < 0 -/
def combine (lo up : Con) : Con :=
  { coeffs := addL (smul (-up.hd) lo.tl.coeffs) (smul lo.hd up.tl.coeffs),
    k := (-up.hd) * lo.k + lo.hd * up.k,
    strict := lo.strict || up.strict }

def elimHead (cs : List Con) : List Con :=
  let pos := cs.filter (fun c => decide (0 < c.hd))
  let neg := cs.filter (fun c => decide (c.hd < 0))
  let zer := cs.filter (fun c => decide (c.hd = 0))
  zer.map Con.tl ++ (pos.flatMap fun l => neg.map fun u => combine l u)

end FM
