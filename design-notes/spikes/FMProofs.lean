import FMModel
import Mathlib.Tactic.Linarith
import Mathlib.Tactic.Ring
import Mathlib.Tactic.FieldSimp
import Mathlib.Tactic.Positivity
import Mathlib.Algebra.Order.Field.Rat

namespace FM
open List

@[simp] theorem tail_cons (v : Rat) (y : Val) : (Val.cons v y).tail = y := by
  funext i; rfl
@[simp] theorem cons_zero (v : Rat) (y : Val) : (Val.cons v y) 0 = v := rfl

theorem dot_addL (xs ys : List Rat) (x : Val) : dot (addL xs ys) x = dot xs x + dot ys x := by
  induction xs generalizing ys x with
  | nil => simp [addL, dot]
  | cons a as ih =>
    cases ys with
    | nil => simp [addL, dot]
    | cons b bs => simp [addL, dot, ih]; ring

theorem dot_smul (a : Rat) (xs : List Rat) (x : Val) : dot (smul a xs) x = a * dot xs x := by
  induction xs generalizing x with
  | nil => simp [smul, dot]
  | cons b bs ih =>
    simp only [smul, List.map_cons, dot] at *
    rw [ih]; ring

theorem eval_cons (c : Con) (v : Rat) (y : Val) :
    c.eval (Val.cons v y) = c.hd * v + c.tl.eval y := by
  unfold Con.eval Con.hd Con.tl
  cases h : c.coeffs with
  | nil => simp [dot]
  | cons a as => simp [dot]; ring

theorem eval_combine (l u : Con) (y : Val) :
    (combine l u).eval y = (-u.hd) * l.tl.eval y + l.hd * u.tl.eval y := by
  simp only [combine, Con.eval, dot_addL, dot_smul, Con.tl]
  ring

theorem exists_max_image {α} (l : List α) (f : α → Rat) (h : l ≠ []) :
    ∃ x ∈ l, ∀ y ∈ l, f y ≤ f x := by
  induction l with
  | nil => exact absurd rfl h
  | cons a as ih =>
    by_cases has : as = []
    · subst has; exact ⟨a, by simp, by simp⟩
    · obtain ⟨m, hm, hmax⟩ := ih has
      by_cases hle : f m ≤ f a
      · refine ⟨a, by simp, ?_⟩
        intro y hy
        rcases List.mem_cons.mp hy with rfl | hy
        · exact le_refl _
        · exact le_trans (hmax y hy) hle
      · refine ⟨m, by simp [hm], ?_⟩
        intro y hy
        rcases List.mem_cons.mp hy with rfl | hy
        · exact le_of_lt (not_le.mp hle)
        · exact hmax y hy

theorem exists_min_image {α} (l : List α) (f : α → Rat) (h : l ≠ []) :
    ∃ x ∈ l, ∀ y ∈ l, f x ≤ f y := by
  obtain ⟨x, hx, hmax⟩ := exists_max_image l (fun a => - f a) h
  exact ⟨x, hx, fun y hy => by have := hmax y hy; linarith⟩

/-- lower bound value of a constraint with positive head: v ≥ -(e)/a -/
noncomputable def lb (c : Con) (y : Val) : Rat := -(c.tl.eval y) / c.hd

theorem sat_pos (c : Con) (v : Rat) (y : Val) (hp : 0 < c.hd) :
    c.sat (Val.cons v y) ↔ (if c.strict then lb c y < v else lb c y ≤ v) := by
  unfold Con.sat lb
  rw [eval_cons]
  split
  · rw [div_lt_iff₀ hp]; constructor <;> intro h <;> nlinarith
  · rw [div_le_iff₀ hp]; constructor <;> intro h <;> nlinarith

theorem sat_neg (c : Con) (v : Rat) (y : Val) (hn : c.hd < 0) :
    c.sat (Val.cons v y) ↔ (if c.strict then v < lb c y else v ≤ lb c y) := by
  unfold Con.sat lb
  rw [eval_cons]
  have hp : 0 < -c.hd := by linarith
  have e : -(c.tl.eval y) / c.hd = (c.tl.eval y) / (-c.hd) := by
    rw [neg_div, div_neg]
  rw [e]
  split
  · rw [lt_div_iff₀ hp]; constructor <;> intro h <;> nlinarith
  · rw [le_div_iff₀ hp]; constructor <;> intro h <;> nlinarith

theorem sat_zero (c : Con) (v : Rat) (y : Val) (hz : c.hd = 0) :
    c.sat (Val.cons v y) ↔ c.tl.sat y := by
  unfold Con.sat
  rw [eval_cons, hz]
  simp only [zero_mul, zero_add, Con.tl]
  exact Iff.rfl

theorem sat_combine (l u : Con) (y : Val) (hl : 0 < l.hd) (hu : u.hd < 0) :
    (combine l u).sat y ↔
      (if l.strict || u.strict then lb l y < lb u y else lb l y ≤ lb u y) := by
  unfold Con.sat
  rw [eval_combine]
  have hcs : (combine l u).strict = (l.strict || u.strict) := rfl
  rw [hcs]
  unfold lb
  have hp : 0 < -u.hd := by linarith
  have e : -(u.tl.eval y) / u.hd = (u.tl.eval y) / (-u.hd) := by rw [neg_div, div_neg]
  rw [e]
  split
  · rw [div_lt_div_iff₀ hl hp]; constructor <;> intro h <;> nlinarith
  · rw [div_le_div_iff₀ hl hp]; constructor <;> intro h <;> nlinarith

theorem elimHead_correct (cs : List Con) (y : Val) :
    (∃ v, ∀ c ∈ cs, c.sat (Val.cons v y)) ↔ (∀ c ∈ elimHead cs, c.sat y) := by
  constructor
  · rintro ⟨v, hv⟩ c hc
    simp only [elimHead, List.mem_append, List.mem_map, List.mem_filter, List.mem_flatMap,
      decide_eq_true_eq] at hc
    rcases hc with ⟨d, ⟨hd, hz⟩, rfl⟩ | ⟨l, ⟨hl, hlp⟩, u, ⟨hu, hun⟩, rfl⟩
    · exact (sat_zero d v y hz).mp (hv d hd)
    · rw [sat_combine l u y hlp hun]
      have h1 := (sat_pos l v y hlp).mp (hv l hl)
      have h2 := (sat_neg u v y hun).mp (hv u hu)
      cases hls : l.strict <;> cases hus : u.strict <;> simp [hls, hus] at h1 h2 ⊢ <;> linarith
  · intro h
    -- facts extracted from h
    have hz : ∀ c ∈ cs, c.hd = 0 → c.tl.sat y := by
      intro c hc hz
      apply h
      simp only [elimHead, List.mem_append, List.mem_map, List.mem_filter, decide_eq_true_eq]
      exact Or.inl ⟨c, ⟨hc, hz⟩, rfl⟩
    have hcomb : ∀ l ∈ cs, ∀ u ∈ cs, 0 < l.hd → u.hd < 0 →
        (if l.strict || u.strict then lb l y < lb u y else lb l y ≤ lb u y) := by
      intro l hl u hu hlp hun
      rw [← sat_combine l u y hlp hun]
      apply h
      simp only [elimHead, List.mem_append, List.mem_map, List.mem_filter, List.mem_flatMap,
        decide_eq_true_eq]
      exact Or.inr ⟨l, ⟨hl, hlp⟩, u, ⟨hu, hun⟩, rfl⟩
    -- reduce goal to bounds
    suffices hsuff : ∃ v, (∀ l ∈ cs, 0 < l.hd → (if l.strict then lb l y < v else lb l y ≤ v)) ∧
        (∀ u ∈ cs, u.hd < 0 → (if u.strict then v < lb u y else v ≤ lb u y)) by
      obtain ⟨v, hv1, hv2⟩ := hsuff
      refine ⟨v, fun c hc => ?_⟩
      rcases lt_trichotomy c.hd 0 with hn | hz' | hp
      · exact (sat_neg c v y hn).mpr (hv2 c hc hn)
      · exact (sat_zero c v y hz').mpr (hz c hc hz')
      · exact (sat_pos c v y hp).mpr (hv1 c hc hp)
    let pos := cs.filter (fun c => decide (0 < c.hd))
    let neg := cs.filter (fun c => decide (c.hd < 0))
    have mem_pos : ∀ c, c ∈ pos ↔ c ∈ cs ∧ 0 < c.hd := by
      intro c; simp [pos, List.mem_filter]
    have mem_neg : ∀ c, c ∈ neg ↔ c ∈ cs ∧ c.hd < 0 := by
      intro c; simp [neg, List.mem_filter]
    by_cases hpe : pos = []
    · by_cases hne : neg = []
      · refine ⟨0, ?_, ?_⟩
        · intro l hl hlp; have : l ∈ pos := (mem_pos l).mpr ⟨hl, hlp⟩; simp [hpe] at this
        · intro u hu hun; have : u ∈ neg := (mem_neg u).mpr ⟨hu, hun⟩; simp [hne] at this
      · obtain ⟨m, hm, hmin⟩ := exists_min_image neg (fun c => lb c y) hne
        refine ⟨lb m y - 1, ?_, ?_⟩
        · intro l hl hlp; have : l ∈ pos := (mem_pos l).mpr ⟨hl, hlp⟩; simp [hpe] at this
        · intro u hu hun
          have := hmin u ((mem_neg u).mpr ⟨hu, hun⟩)
          split <;> linarith
    · obtain ⟨M, hM, hmax⟩ := exists_max_image pos (fun c => lb c y) hpe
      have hMcs := ((mem_pos M).mp hM)
      by_cases hne : neg = []
      · refine ⟨lb M y + 1, ?_, ?_⟩
        · intro l hl hlp
          have := hmax l ((mem_pos l).mpr ⟨hl, hlp⟩)
          split <;> linarith
        · intro u hu hun; have : u ∈ neg := (mem_neg u).mpr ⟨hu, hun⟩; simp [hne] at this
      · obtain ⟨m, hm, hmin⟩ := exists_min_image neg (fun c => lb c y) hne
        have hmcs := ((mem_neg m).mp hm)
        have hMm := hcomb M hMcs.1 m hmcs.1 hMcs.2 hmcs.2
        have hle : lb M y ≤ lb m y := by
          split at hMm <;> linarith
        rcases lt_or_eq_of_le hle with hlt | heq
        · refine ⟨(lb M y + lb m y) / 2, ?_, ?_⟩
          · intro l hl hlp
            have := hmax l ((mem_pos l).mpr ⟨hl, hlp⟩)
            split <;> linarith
          · intro u hu hun
            have := hmin u ((mem_neg u).mpr ⟨hu, hun⟩)
            split <;> linarith
        · refine ⟨lb M y, ?_, ?_⟩
          · intro l hl hlp
            have h1 := hmax l ((mem_pos l).mpr ⟨hl, hlp⟩)
            have h2 := hcomb l hl m hmcs.1 hlp hmcs.2
            cases hls : l.strict <;> simp [hls] at h2 ⊢
            · exact h1
            · linarith
          · intro u hu hun
            have h1 := hmin u ((mem_neg u).mpr ⟨hu, hun⟩)
            have h2 := hcomb M hMcs.1 u hu hMcs.2 hun
            cases hus : u.strict <;> simp [hus] at h2 ⊢
            · linarith
            · linarith

#print axioms elimHead_correct
end FM
