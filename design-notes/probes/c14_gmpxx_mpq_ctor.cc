#include <gmpxx.h>
#include <new>
#include <cstdio>
#include <cstdlib>
static long cnt=0, fail_at=-1, live=0; static bool armed=false;
extern "C" void* m(size_t n){ if(armed && cnt++==fail_at) throw std::bad_alloc(); ++live; return malloc(n);} 
extern "C" void f(void*p,size_t){ --live; free(p);} 
extern "C" void* r(void*q,size_t o,size_t n){ if(n>o && armed && cnt++==fail_at) throw std::bad_alloc(); return realloc(q,n);} 
int main(){ mp_set_memory_functions(m,r,f);
  { mpq_class a("123456789012345678901234567890/987654321098765432109876543211");
    for (long k=0;k<4;++k){ long l0=live; cnt=0; fail_at=k; armed=true; try { mpq_class b(a); armed=false; printf("k=%ld completed\n",k);} catch(std::bad_alloc&){ armed=false; printf("k=%ld bad_alloc leaked=%ld\n",k,live-l0);} }
    for (long k=0;k<4;++k){ long l0=live; cnt=0; fail_at=k; armed=true; try { mpq_class b(a*a); armed=false; printf("expr k=%ld completed\n",k);} catch(std::bad_alloc&){ armed=false; printf("expr k=%ld bad_alloc leaked=%ld\n",k,live-l0);} }
  }
}
