// Throw-away design probe (round 0). Not part of the verification machinery.
// build: g++ -O1 -w -I/repo/src p9.cc -L/repo/src/.libs -lppl -lgmpxx -lgmp -o p9 ; run: LD_LIBRARY_PATH=/repo/src/.libs ./p9
#include "ppl.hh"
#include <iostream>
using namespace Parma_Polyhedra_Library;
using namespace Parma_Polyhedra_Library::IO_Operators;
int main() {
  Variable A(0), B(1), C(2);
  BD_Shape<mpq_class> x(3);
  x.add_constraint(3*B - 3*A <= 4);
  NNC_Polyhedron e(x);
  Linear_Expression l2 = -2*A - B + 1, r2 = Linear_Expression(2);
  x.generalized_affine_image(l2, LESS_OR_EQUAL, r2);
  e.generalized_affine_image(l2, LESS_OR_EQUAL, r2);
  NNC_Polyhedron r(x);
  std::cout << "bds=" << x << " poly=" << e << " sound=" << r.contains(e) << "\n";
  std::cout << "r=" << r << " r.dim=" << r.space_dimension() << " e.dim=" << e.space_dimension() << " x.is_universe=" << x.is_universe() << " x.empty=" << x.is_empty() << "\n";
  x.ascii_dump(std::cout);
  // rel=1 in my fuzzer enumerates Relation_Symbol values: print them
  std::cout << "LESS_THAN=" << LESS_THAN << " LESS_OR_EQUAL=" << LESS_OR_EQUAL << " EQUAL=" << EQUAL << " GE=" << GREATER_OR_EQUAL << " GT=" << GREATER_THAN << "\n";
}
