// independent confirmation (no harness): GMP allocation number k fails, as tests/Polyhedron/memory2.cc does
#include "ppl.hh"
#include <cstdio>
#include <cstdlib>
using namespace Parma_Polyhedra_Library;
static long cnt = 0, fail_at = -1, gm = 0, gf = 0; static bool armed = false;
extern "C" void* m(size_t n) { if (armed && cnt++ == fail_at) throw std::bad_alloc(); ++gm; return malloc(n); }
extern "C" void f(void* p, size_t) { ++gf; free(p); }
extern "C" void* r(void* q, size_t o, size_t n) { if (n > o && armed && cnt++ == fail_at) throw std::bad_alloc(); return realloc(q, n); }
extern "C" void ppl_set_GMP_memory_allocation_functions() { mp_set_memory_functions(m, r, f); }
int main() {
  Variable A(0), B(1), C(2);
  int notok = 0, changed = 0, total = 0;
  for (long k = 0; k < 400; ++k) {
    C_Polyhedron ph(3);
    ph.add_constraint(3 * A - 2 * B + C >= -7); ph.add_constraint(A + 5 * B <= 40); ph.add_constraint(C - A <= 11);
    ph.add_constraint(B + C >= 1); ph.add_constraint(A >= -3); ph.add_constraint(2 * C <= 25);
    const C_Polyhedron ref(ph);
    cnt = 0; fail_at = k; armed = true;
    bool thrown = false;
    try { (void)ph.minimized_generators(); } catch (const std::bad_alloc&) { thrown = true; }
    armed = false;
    if (!thrown) break;
    ++total;
    if (!ph.OK()) ++notok; else if (!(ph == ref)) ++changed;
  }
  printf("minimized_generators() on a C polyhedron, k-th GMP allocation failing: %d faults, receiver not OK() after %d of them, value changed after %d\n", total, notok, changed);
  // leak: Sparse_Row(const Dense_Row&)
  { Dense_Row d(4); for (int i = 0; i < 4; ++i) { d[i] = 1; d[i] <<= 100; }
    for (long k = 0; k < 6; ++k) { long m0 = gm - gf; cnt = 0; fail_at = k; armed = true; bool th = false;
      try { Sparse_Row s(d); } catch (const std::bad_alloc&) { th = true; } armed = false;
      printf("Sparse_Row(Dense_Row) k=%ld %s GMP blocks not released: %ld\n", k, th ? "bad_alloc" : "completed", gm - gf - m0); } }
  return 0;
}
