// Throw-away design probe (round 0). Not part of the verification machinery.
// build: g++ -O1 -w -I/repo/src p7.cc -L/repo/src/.libs -lppl -lgmpxx -lgmp -o p7 ; run: LD_LIBRARY_PATH=/repo/src/.libs ./p7
#include "ppl.hh"
#include <iostream>
#include <sstream>
#include <set>
#include <random>
using namespace Parma_Polyhedra_Library;
template <typename PH> std::string dump(const PH& p) { std::ostringstream s; p.ascii_dump(s); return s.str(); }
static std::string status_line(const std::string& d) {
  // second line of the dump holds the flags
  size_t a = d.find('\n'); size_t b = d.find('\n', a+1); return d.substr(a+1, b-a-1);
}
int main() {
  std::mt19937 rng(12345);
  std::set<std::string> states; int bad = 0, n = 0;
  for (int it = 0; it < 3000; ++it) {
    int dim = 1 + rng() % 3;
    bool nnc = rng() % 2;
    Polyhedron* p = nnc ? (Polyhedron*) new NNC_Polyhedron(dim) : (Polyhedron*) new C_Polyhedron(dim);
    int len = 1 + rng() % 8;
    for (int k = 0; k < len; ++k) {
      Linear_Expression e; for (int i = 0; i < dim; ++i) e += (int(rng() % 7) - 3) * Variable(i);
      e += int(rng() % 9) - 4;
      switch (rng() % 9) {
      case 0: p->add_constraint(e >= 0); break;
      case 1: p->add_constraint(e == 0); break;
      case 2: if (nnc) p->add_constraint(e > 0); break;
      case 3: (void) p->minimized_generators(); break;
      case 4: (void) p->minimized_constraints(); break;
      case 5: if (!p->is_empty()) { Linear_Expression q; for (int i = 0; i < dim; ++i) q += (int(rng() % 7) - 3) * Variable(i); p->add_generator(point(q, 1 + rng() % 3)); } break;
      case 6: if (!p->is_empty()) { Linear_Expression q; for (int i = 0; i < dim; ++i) q += (int(rng() % 7) - 3) * Variable(i); if (!q.all_homogeneous_terms_are_zero()) p->add_generator(ray(q)); } break;
      case 7: (void) p->generators(); break;
      case 8: (void) p->constraints(); break;
      }
      std::string d = dump(*p);
      states.insert(status_line(d));
      Polyhedron* q = nnc ? (Polyhedron*) new NNC_Polyhedron(0) : (Polyhedron*) new C_Polyhedron(0);
      std::istringstream is(d);
      bool ok = q->ascii_load(is);
      ++n;
      if (!ok || dump(*q) != d || !q->OK()) { if (bad++ < 3) std::cout << "ROUNDTRIP FAIL ok=" << ok << "\n" << d << "----\n" << dump(*q) << "\n"; }
      delete q;
    }
    delete p;
  }
  std::cout << n << " round trips, " << bad << " failures, " << states.size() << " distinct status lines\n";
  for (auto& s : states) std::cout << "  " << s << "\n";
}
