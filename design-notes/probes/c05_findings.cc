// Throw-away probe (not part of the machinery): the witnesses of KF-C05-1 … KF-C05-19, one line each.
// build: g++ -O1 -w -std=gnu++17 -I/repo/src c05_findings.cc -L/repo/src/.libs -Wl,-rpath,/repo/src/.libs -lppl -lgmpxx -lgmp
// run:   ./a.out            (every finding except the two crashes)
//        ./a.out 11 | 14    (the SIGSEGV witnesses of KF-C05-11 / KF-C05-14)
#include "ppl.hh"
#include <iostream>
using namespace Parma_Polyhedra_Library;
using namespace Parma_Polyhedra_Library::IO_Operators;
int main(int argc, char** argv) {
  Variable A(0), B(1), C(2), D(3);
  int only = argc > 1 ? atoi(argv[1]) : 0;
  if (only == 11) { Grid g(1); g.add_constraint(A == 0); g.add_constraint(A == 1); Grid_Generator_System gs; gs.insert(grid_point(A));
    std::cout << "KF11 inconsistent, not yet detected + add_grid_generators: " << std::flush; g.add_grid_generators(gs); std::cout << "survived\n"; return 0; }
  if (only == 14) { Grid g(4, EMPTY); g.add_grid_generator(grid_point(5*A, 4)); (void) g.minimized_grid_generators();
    g.remove_higher_space_dimensions(1); std::cout << "KF14 gens=[" << g.grid_generators() << "] then congruences(): " << std::flush;
    std::cout << g.congruences() << " survived\n"; return 0; }
  { Grid g(2, EMPTY); Grid c(g); std::cout << "KF1 copy of empty: cgs=[" << c.congruences() << "] gens=[" << c.grid_generators() << "] is_empty=" << c.is_empty() << "\n"; }
  { Grid g(1, EMPTY); g.add_grid_generator(grid_point(-A, 3)); std::cout << "KF2 {-1/3} rel (A = 2 mod 1): " << g.relation_with(((A - 2) %= 0) / 1) << "   (exact: IS_DISJOINT)\n"; }
  { Grid g(1, EMPTY); g.add_grid_generator(grid_point(-A, 2)); Grid h(1); h.add_congruence(((A + 1) %= 0) / 2); g.difference_assign(h);
    std::cout << "KF3 {-1/2} minus {A = -1 mod 2}: gens=[" << g.grid_generators() << "] empty=" << g.is_empty() << "   (exact: {-1/2})\n"; }
  { Grid g(0); Coefficient fn, fd, vn, vd; bool r = g.frequency(Linear_Expression(5), fn, fd, vn, vd); std::cout << "KF5 0-dim frequency(5): " << r << " freq " << fn << "/" << fd << " val " << vn << "/" << vd << "   (exact val 5)\n"; }
  { Grid g(0); Coefficient n, d; bool m; bool r = g.maximize(Linear_Expression(3), n, d, m); std::cout << "KF6 0-dim maximize(3): " << r << " " << n << "/" << d << "   (exact 3)\n"; }
  { Grid g(1, EMPTY); g.add_grid_generator(grid_point(A, 4)); Coefficient n, d; bool m; bool r = g.maximize(-A - 3, n, d, m); std::cout << "KF7 {1/4} maximize(-A-3): " << r << " " << n << "/" << d << "   (exact -13/4)\n"; }
  { Grid g(2, EMPTY); g.add_grid_generator(grid_point(0*B)); g.add_grid_generator(grid_line(A)); std::cout << "KF8 point+line(A): constrains(A)=" << g.constrains(A) << "   (exact 0)\n"; }
  { Grid g(0); g.add_space_dimensions_and_project(1); std::cout << "KF9 0-dim universe + project(1): gens=[" << g.grid_generators() << "]   (exact p(0))\n"; }
  { Grid g(1, EMPTY); g.add_grid_generator(grid_point(0*A)); g.generalized_affine_preimage(A, EQUAL, 2*A, 1, 1);
    std::cout << "KF10 {0}, preimage of A' = 2A (mod 1): gens=[" << g.grid_generators() << "]   (exact: p(0), q(A/2))\n"; }
  { Grid g(1); g.add_congruence((A %= 5) / 7); Coefficient fn, fd, vn, vd; bool r = g.frequency(-A + 4, fn, fd, vn, vd);
    std::cout << "KF12 {5 mod 7} frequency(-A+4): " << r << " freq " << fn << "/" << fd << " val " << vn << "/" << vd << "   (values -1 + 7Z: closest to zero is -1)\n"; }
  { Grid g(1); g.add_congruence((Linear_Expression(5) %= 0) / 6); std::cout << "KF15 {5 = 0 mod 6} rel parameter(A): " << (g.relation_with(parameter(A)) == Poly_Gen_Relation::subsumes() ? "SUBSUMES" : "NOTHING") << "   (exact NOTHING: the grid is empty)\n"; }
  { Grid x(1, EMPTY); x.add_grid_generator(grid_point(A, 2)); x.add_grid_generator(grid_point(3*A, 2)); (void) x.relation_with(A >= 0);
    std::cout << "KF16 {1/2, 3/2} after relation_with(A >= 0): mingens=[" << x.minimized_grid_generators() << "]   (exact p(A/2), q(2A/2))\n"; }
  { Grid x(1); x.add_congruence((Linear_Expression(-4) %= 0) / 30); std::cout << "KF17 univ + {-4 = 0 mod 30}: is_universe=" << x.is_universe() << " is_empty=" << x.is_empty() << "   (exact 0 1)\n"; }
  { Grid g(2, EMPTY); g.add_grid_generator(grid_point(0*B)); g.add_grid_generator(grid_point(B)); g.add_grid_generator(grid_line(A));
    Variables_Set vs; vs.insert(A); g.remove_space_dimensions(vs); std::cout << "KF18 gens=[" << g.grid_generators() << "] is_discrete=" << g.is_discrete() << "   (exact 1)\n"; }
  { Grid g(2, EMPTY); g.add_grid_generator(grid_point(0*B)); g.add_grid_generator(parameter(A));
    Variables_Set vs; vs.insert(A); g.remove_space_dimensions(vs); std::cout << "KF19 gens=[" << g.grid_generators() << "] is_bounded=" << g.is_bounded() << "   (exact 1)\n"; }
  { Grid_Generator_System gs; gs.insert(parameter(A)); gs.insert(grid_point(0*A)); Grid g(gs);
    std::cout << "KF20 {q(A), p(0)} rel (A = 0 mod 2): " << g.relation_with((A %= 0) / 2) << "   (exact STRICTLY_INTERSECTS)\n"; }
  { Grid_Generator_System gs; gs.insert(grid_line(A)); gs.insert(grid_point(0*A)); Grid g(gs);
    std::cout << "KF21 {l(A), p(0)} is_discrete=" << g.is_discrete() << "   (exact 0)\n"; }
  return 0;
}
