// Throw-away design probe (round 0). Not part of the verification machinery.
// build: g++ -O1 -w -I/repo/src p3.cc -L/repo/src/.libs -lppl -lgmpxx -lgmp -o p3 ; run: LD_LIBRARY_PATH=/repo/src/.libs ./p3
#include "ppl.hh"
#include <iostream>
using namespace Parma_Polyhedra_Library;
using namespace Parma_Polyhedra_Library::IO_Operators;
int main() {
  Rational_Interval x, y, z;
  // x = (-1, 2], y = [-3, 1)
  x.assign(UNIVERSE); y.assign(UNIVERSE);
  x.refine_existential(GREATER_THAN, mpq_class(-1));
  x.refine_existential(LESS_OR_EQUAL, mpq_class(2));
  y.refine_existential(GREATER_OR_EQUAL, mpq_class(-3));
  y.refine_existential(LESS_THAN, mpq_class(1));
  z.mul_assign(x, y);
  std::cout << x << " * " << y << " = " << z << std::endl;
  // mirrored for the upper bound: x = [-2, 1), y = [-3, 1)  : xl*yl = 6 closed ; xu*yu = 1 open
  Rational_Interval x2, y2, z2;
  x2.assign(UNIVERSE); y2.assign(UNIVERSE);
  x2.refine_existential(GREATER_OR_EQUAL, mpq_class(-2));
  x2.refine_existential(LESS_THAN, mpq_class(1));
  y2.refine_existential(GREATER_OR_EQUAL, mpq_class(-3));
  y2.refine_existential(LESS_THAN, mpq_class(1));
  z2.mul_assign(x2, y2);
  std::cout << x2 << " * " << y2 << " = " << z2 << std::endl;
}
