// Throw-away design probe (round 0). Not part of the verification machinery.
// build: g++ -O1 -w -I/repo/src p6.cc -L/repo/src/.libs -lppl -lgmpxx -lgmp -o p6 ; run: LD_LIBRARY_PATH=/repo/src/.libs ./p6
#include "ppl.hh"
#include <iostream>
using namespace Parma_Polyhedra_Library;
using namespace Parma_Polyhedra_Library::IO_Operators;
int main() {
  Variable x(0);
  {
    Rational_Box b(1);
    b.add_constraint(x >= 0); b.add_constraint(x <= 256);
    Variables_Set vs(x);
    b.wrap_assign(vs, BITS_8, UNSIGNED, OVERFLOW_WRAPS);
    std::cout << "Rational_Box [0,256] wrap u8: " << b << std::endl;
  }
  {
    C_Polyhedron p(1);
    p.add_constraint(x >= 0); p.add_constraint(x <= 256);
    Variables_Set vs(x);
    p.wrap_assign(vs, BITS_8, UNSIGNED, OVERFLOW_WRAPS);
    std::cout << "C_Polyhedron [0,256] wrap u8: " << p << std::endl;
  }
  {
    Rational_Box b(1);
    b.add_constraint(x >= 3); b.add_constraint(x <= 259);
    Variables_Set vs(x);
    b.wrap_assign(vs, BITS_8, UNSIGNED, OVERFLOW_WRAPS);
    std::cout << "Rational_Box [3,259] wrap u8: " << b << std::endl;
  }
}
