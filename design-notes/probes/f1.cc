// Throw-away design probe (round 0). Not part of the verification machinery.
// build: g++ -O1 -w -I/repo/src f1.cc -L/repo/src/.libs -lppl -lgmpxx -lgmp -o f1 ; run: LD_LIBRARY_PATH=/repo/src/.libs ./f1
// Throw-away differential probe: BD_Shape<mpq>, Octagonal_Shape<mpq>, Rational_Box vs NNC_Polyhedron.
#include "ppl.hh"
#include <iostream>
#include <random>
#include <map>
#include <sstream>
#include <csetjmp>
#include <csignal>
static sigjmp_buf jb; static void onsig(int){ siglongjmp(jb,1);} 
static std::map<std::string,int> crashes;
#include <unistd.h>
#include <sys/wait.h>
static std::string curop; static std::string curargs;
#define GUARD(nm, body) do { curop = nm; try { body } catch (std::exception& ex) { std::cout << "R EXC " << curop << " | " << ex.what() << "\n"; } } while(0)
using namespace Parma_Polyhedra_Library;
using namespace Parma_Polyhedra_Library::IO_Operators;
static std::mt19937 rng;
static int ri(int lo, int hi) { return lo + int(rng() % unsigned(hi - lo + 1)); }
static std::map<std::string,int> unsound, imprecise, total;

template <typename D> struct Gen;
// random constraint representable in the domain
static Constraint rnd_con(int dim, int kind /*0 box,1 bds,2 oct*/, bool allow_strict) {
  int i = ri(0, dim-1), j = ri(0, dim-1);
  Linear_Expression e;
  int b = ri(-6, 6);
  int shape = (kind == 0) ? 0 : ri(0, kind == 1 ? 1 : 2);
  int d = ri(1, 3);
  if (shape == 0 || i == j) e = (ri(0,1) ? 1 : -1) * d * Variable(i);
  else if (shape == 1) e = d * Variable(i) - d * Variable(j);
  else e = (ri(0,1)?1:-1) * d * Variable(i) + (ri(0,1)?1:-1) * d * Variable(j);
  int r = ri(0, 9);
  if (r == 0) return e == b;
  if (allow_strict && r == 1) return e < b;
  return e <= b;
}
template <typename D> static D rnd_shape(int dim, int kind) {
  D x(dim);
  int n = ri(0, 5);
  for (int k = 0; k < n; ++k) x.add_constraint(rnd_con(dim, kind, kind == 0));
  return x;
}
static Linear_Expression rnd_expr(int dim, int maxc) {
  Linear_Expression e;
  for (int i = 0; i < dim; ++i) if (ri(0, 2)) e += ri(-maxc, maxc) * Variable(i);
  e += ri(-4, 4);
  return e;
}
template <typename D>
static void check(const char* name, const D& res, const NNC_Polyhedron& exact, bool should_be_best) {
  std::cout << "R TOT " << name << "\n";
  NNC_Polyhedron r(res);
  if (!r.contains(exact)) { std::cout << "R UNSOUND " << name << " | " << curargs << " res=" << res << "  exact=" << exact << " r=" << r << " rdim=" << r.space_dimension() << " edim=" << exact.space_dimension() << "\n"; return; }
  if (should_be_best) { D best(exact); NNC_Polyhedron b(best); if (!b.contains(r)) { std::cout << "R NOTBEST " << name << " | res=" << res << "  best=" << best << "\n"; } }
}
template <typename D> static void run(const char* dn, int kind, int iters) {
  for (int it = 0; it < iters; ++it) {
    unsigned sd = rng();
    std::cout.flush();
    pid_t pid = fork();
    if (pid != 0) { int st; waitpid(pid, &st, 0); if (WIFSIGNALED(st)) std::cout << "R CRASH " << dn << " iter-seed " << sd << " sig " << WTERMSIG(st) << "\n"; continue; }
    rng.seed(sd);
    struct Fin { ~Fin() { std::cout.flush(); _exit(0); } } fin;
    int dim = ri(1, 3);
    D a = rnd_shape<D>(dim, kind), b = rnd_shape<D>(dim, kind);
    if (ri(0,1)) (void) a.minimized_constraints();
    NNC_Polyhedron pa(a), pb(b); (void) pa.is_empty(); (void) pb.is_empty();
    std::string p = dn;
    std::cout << std::unitbuf;
    GUARD((p+" meet"), { D x(a); x.intersection_assign(b); NNC_Polyhedron e(pa); e.intersection_assign(pb); check((p+" meet").c_str(), x, e, true); });
    GUARD((p+" join"), { D x(a); x.upper_bound_assign(b); NNC_Polyhedron e(pa); e.upper_bound_assign(pb); check((p+" join").c_str(), x, e, true); });
    GUARD((p+" diff"), { D x(a); x.difference_assign(b); NNC_Polyhedron e(pa); e.difference_assign(pb); check((p+" diff").c_str(), x, e, true); });
    Variable v(ri(0, dim-1)); Linear_Expression ex = rnd_expr(dim, 2); int den = ri(0,1) ? ri(1,3) : -ri(1,3);
    GUARD((p+" affine_image"), { D x(a); x.affine_image(v, ex, den); NNC_Polyhedron e(pa); e.affine_image(v, ex, den); check((p+" affine_image").c_str(), x, e, false); });
    GUARD((p+" affine_preimage"), { D x(a); x.affine_preimage(v, ex, den); NNC_Polyhedron e(pa); e.affine_preimage(v, ex, den); check((p+" affine_preimage").c_str(), x, e, false); });
    Relation_Symbol rs[] = {LESS_OR_EQUAL, GREATER_OR_EQUAL, EQUAL, LESS_THAN, GREATER_THAN};
    Relation_Symbol rel = rs[ri(0, kind == 0 ? 4 : 2)];
    GUARD((p+" gen_affine_image"), { D x(a); x.generalized_affine_image(v, rel, ex, den); NNC_Polyhedron e(pa); e.generalized_affine_image(v, rel, ex, den); check((p+" gen_affine_image").c_str(), x, e, false); });
    GUARD((p+" gen_affine_preimage"), { D x(a); x.generalized_affine_preimage(v, rel, ex, den); NNC_Polyhedron e(pa); e.generalized_affine_preimage(v, rel, ex, den); check((p+" gen_affine_preimage").c_str(), x, e, false); });
    Linear_Expression l2 = rnd_expr(dim, 2), r2 = rnd_expr(dim, 2);
    { std::ostringstream os; os << "a=[" << a << "] b=[" << b << "] v=" << v << " ex=" << ex << " den=" << den << " rel=" << int(rel) << " l2=" << l2 << " r2=" << r2; curargs = os.str(); }
    GUARD((p+" gen_affine_image2"), { D x(a); x.generalized_affine_image(l2, rel, r2); NNC_Polyhedron e(pa); e.generalized_affine_image(l2, rel, r2); check((p+" gen_affine_image2").c_str(), x, e, false); });
    GUARD((p+" gen_affine_preimage2"), { D x(a); x.generalized_affine_preimage(l2, rel, r2); NNC_Polyhedron e(pa); e.generalized_affine_preimage(l2, rel, r2); check((p+" gen_affine_preimage2").c_str(), x, e, false); });
    GUARD((p+" bounded_affine_image"), { D x(a); x.bounded_affine_image(v, l2, r2, den); NNC_Polyhedron e(pa); e.bounded_affine_image(v, l2, r2, den); check((p+" bounded_affine_image").c_str(), x, e, false); });
    GUARD((p+" bounded_affine_preimage"), { D x(a); x.bounded_affine_preimage(v, l2, r2, den); NNC_Polyhedron e(pa); e.bounded_affine_preimage(v, l2, r2, den); check((p+" bounded_affine_preimage").c_str(), x, e, false); });
    GUARD((p+" time_elapse"), { D x(a); x.time_elapse_assign(b); NNC_Polyhedron e(pa); e.time_elapse_assign(pb); check((p+" time_elapse").c_str(), x, e, false); });
    GUARD((p+" unconstrain"), { D x(a); x.unconstrain(v); NNC_Polyhedron e(pa); e.unconstrain(v); check((p+" unconstrain").c_str(), x, e, true); });
    GUARD((p+" refine"), { Constraint c = (rnd_expr(dim, 3) >= 0); D x(a); x.refine_with_constraint(c); NNC_Polyhedron e(pa); e.add_constraint(c); check((p+" refine").c_str(), x, e, false); });
    // predicates
    std::cout << "R TOT " << p << " pred\n";
    bool bad = false;
    if (a.is_empty() != pa.is_empty()) bad = true;
    if (a.contains(b) != pa.contains(pb)) bad = true;
    if (a.is_disjoint_from(b) != pa.is_disjoint_from(pb)) { std::cout << "R UNSOUND " << p << " is_disjoint | " << dn << ": " << a << " | " << b << " says " << a.is_disjoint_from(b) << "\n"; }
    if (a.is_bounded() != pa.is_bounded()) bad = true;
    if (a.is_universe() != pa.is_universe()) bad = true;
    if ((a == b) != (pa == pb)) bad = true;
    if (a.affine_dimension() != pa.affine_dimension()) bad = true;
    if (bad) { std::cout << "R UNSOUND " << p << " pred | " << a << " | " << b << "\n"; }
  }
}
int main(int argc, char** argv) {
  rng.seed(argc > 1 ? atoi(argv[1]) : 1); 
  int n = argc > 2 ? atoi(argv[2]) : 3000;
  run<Rational_Box>("Box", 0, n);
  run<BD_Shape<mpq_class> >("BDS", 1, n);
  run<Octagonal_Shape<mpq_class> >("Oct", 2, n);
}
