// Throw-away design probe (round 0). Not part of the verification machinery.
// build: g++ -O1 -w -I/repo/src p8.cc -L/repo/src/.libs -lppl -lgmpxx -lgmp -o p8 ; run: LD_LIBRARY_PATH=/repo/src/.libs ./p8
#include "ppl.hh"
#include <iostream>
using namespace Parma_Polyhedra_Library;
using namespace Parma_Polyhedra_Library::IO_Operators;
int main() {
  Variable A(0), B(1), C(2);
  for (int t = 0; t < 6; ++t) {
    BD_Shape<mpq_class> x(2);
    x.add_constraint(A - B <= 2);
    Linear_Expression lhs, rhs; Relation_Symbol rel = LESS_OR_EQUAL;
    switch (t) {
      case 0: lhs = A + B; rhs = Linear_Expression(4); rel = EQUAL; break;
      case 1: lhs = 2*A; rhs = B + 1; rel = LESS_OR_EQUAL; break;
      case 2: lhs = A - B; rhs = A + 1; rel = GREATER_OR_EQUAL; break;
      case 3: lhs = Linear_Expression(3); rhs = A; rel = EQUAL; break;
      case 4: lhs = -A; rhs = B; rel = LESS_OR_EQUAL; break;
      case 5: lhs = A + 2*B; rhs = A - B; rel = EQUAL; break;
    }
    NNC_Polyhedron e(x);
    x.generalized_affine_image(lhs, rel, rhs);
    e.generalized_affine_image(lhs, rel, rhs);
    NNC_Polyhedron r(x);
    std::cout << "case " << t << ": bds=" << x << " (dim " << x.space_dimension() << ", empty " << x.is_empty() << ")  poly=" << e << "  sound=" << r.contains(e) << " OK=" << x.OK() << std::endl;
  }
}
