// Throw-away design probe (round 0). Not part of the verification machinery.
// build: g++ -O1 -w -I/repo/src p10.cc -L/repo/src/.libs -lppl -lgmpxx -lgmp -o p10 ; run: LD_LIBRARY_PATH=/repo/src/.libs ./p10
#include "ppl.hh"
#include <iostream>
using namespace Parma_Polyhedra_Library;
using namespace Parma_Polyhedra_Library::IO_Operators;
int main() {
  Variable A(0), B(1);
  Variables_Set params(B);
  Constraint_System cs; cs.insert(A + B <= 0);
  PIP_Problem pip(2, cs.begin(), cs.end(), params);
  PIP_Problem_Status st = pip.solve();
  std::cout << "status=" << (st == UNFEASIBLE_PIP_PROBLEM ? "UNFEASIBLE" : "OPTIMIZED") << "\n";
  if (st == OPTIMIZED_PIP_PROBLEM) pip.print_solution(std::cout);
  // variant: A + B <= 1
  Constraint_System cs2; cs2.insert(A + B <= 1);
  PIP_Problem pip2(2, cs2.begin(), cs2.end(), params);
  st = pip2.solve();
  std::cout << "status2=" << (st == UNFEASIBLE_PIP_PROBLEM ? "UNFEASIBLE" : "OPTIMIZED") << "\n";
  if (st == OPTIMIZED_PIP_PROBLEM) pip2.print_solution(std::cout);
}
