// Throw-away design probe (round 0). Not part of the verification machinery.
// build: g++ -O1 -w -I/repo/src p1.cc -L/repo/src/.libs -lppl -lgmpxx -lgmp -o p1 ; run: LD_LIBRARY_PATH=/repo/src/.libs ./p1
#include "ppl.hh"
#include <iostream>
using namespace Parma_Polyhedra_Library;
using namespace Parma_Polyhedra_Library::IO_Operators;
int main() {
  Variable x(0);
  // C01 probe: segment [1/3,4/3] vs x = 0 mod 1
  C_Polyhedron ph(1, EMPTY);
  ph.add_generator(point(x, 3));
  ph.add_generator(point(4*x, 3));
  Poly_Con_Relation r = ph.relation_with((x %= 0) / 1);
  std::cout << "C01 rel: " << r << std::endl;
  C_Polyhedron ph2(1, EMPTY);
  ph2.add_generator(point(4*x, 3));
  ph2.add_generator(point(x, 3));
  std::cout << "C01 rel (other order): " << ph2.relation_with((x %= 0) / 1) << std::endl;
  // C05 probes
  Grid g(2, EMPTY);
  Grid g2(g);
  std::cout << "empty grid copy congruences: " << g2.congruences() << " | orig: " << g.congruences() << " is_empty=" << g2.is_empty() << std::endl;
  Grid h(1, EMPTY);
  h.add_grid_generator(grid_point(x, 2));
  h.add_grid_generator(grid_point(3*x, 2));
  std::cout << "half-int grid: " << h.congruences() << " rel with x=0 mod 1: " << h.relation_with((x %= 0)/1) << std::endl;
  Grid a(1); a.add_congruence((x %= 0) / 2);
  Grid b(1); b.add_congruence((x %= 1) / 2);
  Grid d(a); d.difference_assign(b);
  std::cout << "grid diff of disjoint: " << d.congruences() << " empty=" << d.is_empty() << std::endl;
  return 0;
}
