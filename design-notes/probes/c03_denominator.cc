// C03 finding (closure worker): the denominator of an affine (pre)image is rounded TOWARDS ZERO before
// `div_assign_r(sum, sum, down_sc_denom, ROUND_UP)` (BD_Shape_templates.hh ~3933, Octagonal_Shape_templates.hh ~5431
// and the sibling transformers).  That is an upper approximation only for sum >= 0; for a negative sum and a
// denominator that T cannot represent (|d| > 126 for int8_t, > 2^53 for double, …) the bound is too small.
//   g++ -O1 -w -std=gnu++17 -I/repo/src c03_denominator.cc -L/repo/src/.libs -lppl -lgmpxx -lgmp && LD_LIBRARY_PATH=/repo/src/.libs ./a.out
// BD_Shape<int8_t>: A == -126; affine_image(B, A, 200)  ->  B = -1, exact B = -0.63 (BD_Shape<mpz_class>: -1 <= B <= 0).
#include "ppl.hh"
#include <iostream>
using namespace Parma_Polyhedra_Library;
using namespace Parma_Polyhedra_Library::IO_Operators;
template <typename S> void run(const char* name, long a, long coeff, long den) {
  Variable A(0), B(1);
  S s(2);
  s.add_constraint(A == a);
  s.affine_image(B, coeff * A, den);
  std::cout << name << ": A==" << a << "; B := " << coeff << "*A/" << den << "  ->  " << s.constraints() << "   (exact B = " << (double)(coeff*a)/den << ")\n";
}
int main() {
  run<BD_Shape<int8_t> >("BD_Shape<int8_t>", -126, 1, 200);
  run<BD_Shape<int8_t> >("BD_Shape<int8_t>", -100, 1, 200);
  run<Octagonal_Shape<int8_t> >("Octagonal_Shape<int8_t>", -63, 2, 200);
  run<BD_Shape<mpz_class> >("BD_Shape<mpz_class>", -126, 1, 200);
  run<BD_Shape<int8_t> >("BD_Shape<int8_t>", 126, -1, 200);
  run<Octagonal_Shape<int8_t> >("Octagonal_Shape<int8_t>", 63, -2, 200);
}
