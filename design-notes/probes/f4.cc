// Throw-away design probe (round 0). Not part of the verification machinery.
// build: g++ -O1 -w -I/repo/src -I/repo/interfaces f4.cc -L/repo/src/.libs -lppl -lgmpxx -lgmp -o f4 ; run: LD_LIBRARY_PATH=/repo/src/.libs ./f4
// Throw-away probe: Sparse_Row / CO_Tree vs std::map under random operation sequences.
#include "ppl.hh"
#include <iostream>
#include <random>
#include <map>
using namespace Parma_Polyhedra_Library;
static std::mt19937 rng;
static int ri(int lo, int hi) { return lo + int(rng() % unsigned(hi - lo + 1)); }
int main(int argc, char** argv) {
  rng.seed(argc > 1 ? atoi(argv[1]) : 1); int iters = argc > 2 ? atoi(argv[2]) : 300;
  long ops = 0; int bad = 0;
  for (int it = 0; it < iters && bad < 5; ++it) {
    dimension_type size = ri(1, 80);
    Sparse_Row r(size); std::map<dimension_type, Coefficient> m;
    int len = ri(1, 300);
    for (int k = 0; k < len && bad < 5; ++k, ++ops) {
      int op = ri(0, 9); dimension_type i = ri(0, size - 1);
      switch (op) {
      case 0: case 1: case 2: { Coefficient c = ri(-5, 5); r.insert(i, c); m[i] = c; break; }
      case 3: { r.reset(i); m.erase(i); break; }
      case 4: { // hinted insert with a (possibly stale-ish) hint obtained from lower_bound of another index
        dimension_type j = ri(0, size - 1); Sparse_Row::iterator h = r.lower_bound(j); Coefficient c = ri(-5, 5); r.insert(h, i, c); m[i] = c; break; }
      case 5: { Coefficient g = r.get(i); Coefficient e = m.count(i) ? m[i] : Coefficient(0); if (g != e) { std::cout << "get mismatch at " << i << "\n"; ++bad; } break; }
      case 6: { if (size > 1) { dimension_type j = ri(0, size - 1); r.swap_coefficients(i, j); Coefficient a = m.count(i) ? m[i] : Coefficient(0), b = m.count(j) ? m[j] : Coefficient(0); m[i] = b; m[j] = a; } break; }
      case 7: { // reset a range
        dimension_type j = ri(0, size - 1); dimension_type lo = std::min(i, j), hi = std::max(i, j); r.reset(r.lower_bound(lo), r.lower_bound(hi)); for (dimension_type t = lo; t < hi; ++t) m.erase(t); break; }
      case 8: { if (size < 200) { dimension_type n = ri(1, 3); dimension_type at = ri(0, size); r.add_zeroes_and_shift(n, at); std::map<dimension_type, Coefficient> m2; for (auto& p : m) m2[p.first >= at ? p.first + n : p.first] = p.second; m.swap(m2); size += n; } break; }
      case 9: { if (size > 1) { dimension_type at = ri(0, size - 1); r.delete_element_and_shift(at); std::map<dimension_type, Coefficient> m2; for (auto& p : m) { if (p.first == at) continue; m2[p.first > at ? p.first - 1 : p.first] = p.second; } m.swap(m2); --size; } break; }
      }
      if (!r.OK()) { std::cout << "OK() false after op " << op << "\n"; ++bad; }
      // full comparison
      for (dimension_type t = 0; t < size; ++t) { Coefficient e = m.count(t) ? m[t] : Coefficient(0); if (r.get(t) != e) { std::cout << "content mismatch after op " << op << " at index " << t << " size " << size << "\n"; ++bad; break; } }
      // iteration order
      dimension_type prev = 0; bool first = true; for (Sparse_Row::const_iterator q = r.begin(); q != r.end(); ++q) { if (!first && q.index() <= prev) { std::cout << "iteration order broken\n"; ++bad; break; } prev = q.index(); first = false; }
    }
  }
  std::cout << ops << " ops, bad=" << bad << "\n";
}
