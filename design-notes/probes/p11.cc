// Throw-away design probe (round 0). Not part of the verification machinery.
// build: g++ -O1 -w -I/repo/src p11.cc -L/repo/src/.libs -lppl -lgmpxx -lgmp -o p11 ; run: LD_LIBRARY_PATH=/repo/src/.libs ./p11
#include "ppl.hh"
#include <iostream>
using namespace Parma_Polyhedra_Library;
using namespace Parma_Polyhedra_Library::IO_Operators;
int main() {
  C_Polyhedron p(0, UNIVERSE);
  std::cout << "0-dim universe: empty=" << p.is_empty() << " contains_integer_point=" << p.contains_integer_point() << "\n";
  p.drop_some_non_integer_points();
  std::cout << "after drop_some_non_integer_points: empty=" << p.is_empty() << "\n";
  // strict inequality tightening: x > 1/2 with 2x > 1 ; also equality 2x = 1
  Variable x(0), y(1);
  NNC_Polyhedron q(2);
  q.add_constraint(2*x + 2*y > 1); q.add_constraint(x < 3);
  q.drop_some_non_integer_points();
  std::cout << "NNC 2x+2y>1, x<3 -> " << q << "\n";
  C_Polyhedron r(1);
  r.add_constraint(3*x >= -4); r.add_constraint(3*x <= 4);
  r.drop_some_non_integer_points();
  std::cout << "C -4/3<=x<=4/3 -> " << r << "\n";
}
