// Throw-away design probe (round 0). Not part of the verification machinery.
// build: g++ -O1 -w -I/repo/src p2.cc -L/repo/src/.libs -lppl -lgmpxx -lgmp -o p2 ; run: LD_LIBRARY_PATH=/repo/src/.libs ./p2
#include "ppl.hh"
#include <iostream>
using namespace Parma_Polyhedra_Library;
int main() {
  typedef Checked_Number<signed char, WRD_Extended_Number_Policy> N;
  N x, y, z; assign_r(x, 7, ROUND_NOT_NEEDED); assign_r(y, -2, ROUND_NOT_NEEDED);
  Result r = div_assign_r(z, x, y, ROUND_DOWN);
  std::cout << "7 / -2 ROUND_DOWN -> " << z << " result=" << (int)r << " (V_LT=2,V_GT=4,V_EQ=1)\n";
  r = div_assign_r(z, x, y, ROUND_UP);
  std::cout << "7 / -2 ROUND_UP -> " << z << " result=" << (int)r << "\n";
  N a, b; assign_r(a, -7, ROUND_NOT_NEEDED); assign_r(b, 2, ROUND_NOT_NEEDED);
  r = div_assign_r(z, a, b, ROUND_DOWN);
  std::cout << "-7 / 2 ROUND_DOWN -> " << z << " result=" << (int)r << "\n";
  r = div_assign_r(z, a, b, ROUND_UP);
  std::cout << "-7 / 2 ROUND_UP -> " << z << " result=" << (int)r << "\n";
  typedef Checked_Number<int, WRD_Extended_Number_Policy> M;
  M x2, y2, z2; assign_r(x2, 7, ROUND_NOT_NEEDED); assign_r(y2, -2, ROUND_NOT_NEEDED);
  r = div_assign_r(z2, x2, y2, ROUND_DOWN);
  std::cout << "int 7 / -2 ROUND_DOWN -> " << z2 << " result=" << (int)r << "\n";
  typedef Checked_Number<long long, WRD_Extended_Number_Policy> L;
  L x3, y3, z3; assign_r(x3, 7, ROUND_NOT_NEEDED); assign_r(y3, -2, ROUND_NOT_NEEDED);
  r = div_assign_r(z3, x3, y3, ROUND_DOWN);
  std::cout << "ll 7 / -2 ROUND_DOWN -> " << z3 << " result=" << (int)r << "\n";
  r = div_assign_r(z3, x3, y3, ROUND_UP);
  std::cout << "ll 7 / -2 ROUND_UP -> " << z3 << " result=" << (int)r << "\n";
}
