// Throw-away design probe (round 0). Not part of the verification machinery.
// build: g++ -O1 -w -I/repo/src -I/repo/interfaces f6.cc -L/repo/src/.libs -lppl -lgmpxx -lgmp -o f6 ; run: LD_LIBRARY_PATH=/repo/src/.libs ./f6
// Throw-away probe: ascii_dump/ascii_load round trip for several classes in varied internal states.
#include "ppl.hh"
#include "interfaced_boxes.hh"
#include <iostream>
#include <sstream>
#include <random>
#include <map>
#include <set>
using namespace Parma_Polyhedra_Library;
using namespace Parma_Polyhedra_Library::IO_Operators;
static std::mt19937 rng;
static int ri(int lo, int hi) { return lo + int(rng() % unsigned(hi - lo + 1)); }
template <typename T> static std::string dump(const T& x) { std::ostringstream s; x.ascii_dump(s); return s.str(); }
static std::map<std::string,int> bad, tot;
template <typename T> static void rt(const char* nm, const T& x, T& fresh) {
  tot[nm]++;
  std::string d = dump(x);
  std::istringstream is(d);
  bool ok = fresh.ascii_load(is);
  std::string d2 = ok ? dump(fresh) : std::string("<load failed>");
  if (!ok || d2 != d || !fresh.OK()) { if (bad[nm]++ < 2) std::cout << "ROUNDTRIP " << nm << " load_ok=" << ok << "\n--- dump:\n" << d << "--- redump:\n" << d2 << "\n"; }
}
template <typename D> static D rnd_shape(int dim, int kind) {
  D x(dim); int n = ri(0, 5);
  for (int k = 0; k < n; ++k) {
    int i = ri(0, dim-1), j = ri(0, dim-1); Linear_Expression e; int b = ri(-6, 6);
    int shape = (kind == 0 || i == j) ? 0 : ri(0, kind);
    if (shape == 0) e = (ri(0,1) ? 1 : -1) * Variable(i); else if (shape == 1) e = Variable(i) - Variable(j); else e = Variable(i) + Variable(j);
    int r = ri(0, 9);
    if (r == 0) x.add_constraint(e == b); else x.add_constraint(e <= b);
  }
  return x;
}
template <typename D> static void shapes(const char* nm, int kind, int iters) {
  for (int it = 0; it < iters; ++it) {
    int dim = ri(0, 3); if (dim == 0) { D x(0, ri(0,1) ? UNIVERSE : EMPTY); D f(0); rt(nm, x, f); continue; }
    D x = rnd_shape<D>(dim, kind);
    for (int k = 0; k < 3; ++k) {
      switch (ri(0, 5)) { case 0: (void) x.is_empty(); break; case 1: (void) x.minimized_constraints(); break; case 2: x.affine_image(Variable(ri(0, dim-1)), Linear_Expression(Variable(ri(0,dim-1)) + ri(-2,2))); break; case 3: x.unconstrain(Variable(ri(0, dim-1))); break; case 4: (void) x.is_bounded(); break; case 5: x.add_constraint(Variable(ri(0,dim-1)) >= ri(-3,3)); break; }
      D f(0); rt(nm, x, f);
    }
  }
}
int main(int argc, char** argv) {
  rng.seed(argc > 1 ? atoi(argv[1]) : 1); int iters = argc > 2 ? atoi(argv[2]) : 500;
  shapes<BD_Shape<mpq_class> >("BDS<mpq>", 1, iters);
  shapes<BD_Shape<double> >("BDS<double>", 1, iters);
  shapes<BD_Shape<int8_t> >("BDS<int8>", 1, iters);
  shapes<Octagonal_Shape<mpq_class> >("Oct<mpq>", 2, iters);
  shapes<Octagonal_Shape<float> >("Oct<float>", 2, iters);
  shapes<Rational_Box>("Rational_Box", 0, iters);
  shapes<Double_Box>("Double_Box", 0, iters);
  shapes<Z_Box>("Z_Box", 0, iters);
  // grids
  for (int it = 0; it < iters; ++it) {
    int dim = ri(0, 3); Grid g(dim, ri(0, 4) ? UNIVERSE : EMPTY);
    for (int k = 0; k < 3 && dim > 0; ++k) {
      Linear_Expression e; for (int i = 0; i < dim; ++i) e += ri(-3, 3) * Variable(i);
      switch (ri(0, 4)) { case 0: g.add_congruence((e %= ri(-3, 3)) / ri(0, 4)); break; case 1: (void) g.minimized_grid_generators(); break; case 2: (void) g.minimized_congruences(); break; case 3: if (!g.is_empty()) g.add_grid_generator(grid_point(e, ri(1, 3))); break; case 4: (void) g.grid_generators(); break; }
      Grid f(0); rt("Grid", g, f);
    }
    Grid f(0); rt("Grid", g, f);
  }
  // MIP problems before/after solve
  for (int it = 0; it < iters; ++it) {
    int dim = ri(1, 3); MIP_Problem m(dim);
    int n = ri(0, 4); for (int k = 0; k < n; ++k) { Linear_Expression e; for (int i = 0; i < dim; ++i) e += ri(-3, 3) * Variable(i); e += ri(-4, 4); m.add_constraint(ri(0, 4) ? Constraint(e >= 0) : Constraint(e == 0)); }
    Linear_Expression o; for (int i = 0; i < dim; ++i) o += ri(-3, 3) * Variable(i); m.set_objective_function(o);
    if (ri(0,1)) { Variables_Set vs; vs.insert(Variable(ri(0, dim-1))); m.add_to_integer_space_dimensions(vs); }
    MIP_Problem f; rt("MIP(unsolved)", m, f);
    (void) m.solve(); MIP_Problem f2; rt("MIP(solved)", m, f2);
    Linear_Expression e; for (int i = 0; i < dim; ++i) e += ri(-3, 3) * Variable(i); m.add_constraint(e >= ri(-3, 3)); MIP_Problem f3; rt("MIP(pending)", m, f3);
  }
  // PIP problems
  for (int it = 0; it < iters; ++it) {
    int dim = ri(1, 3); Variables_Set params; if (dim > 1) params.insert(Variable(dim - 1));
    Constraint_System cs; int n = ri(0, 3); for (int k = 0; k < n; ++k) { Linear_Expression e; for (int i = 0; i < dim; ++i) e += ri(-2, 2) * Variable(i); e += ri(-3, 3); cs.insert(e >= 0); }
    PIP_Problem p(dim, cs.begin(), cs.end(), params);
    PIP_Problem f; rt("PIP(unsolved)", p, f);
    (void) p.solve(); PIP_Problem f2; rt("PIP(solved)", p, f2);
  }
  for (auto& t : tot) std::cout << t.first << ": bad " << bad[t.first] << " / " << t.second << "\n";
}
