// Throw-away design probe (round 0). Not part of the verification machinery.
// build: g++ -O1 -w -I/repo/src -I/repo/interfaces f3.cc -L/repo/src/.libs -lppl -lgmpxx -lgmp -o f3 ; run: LD_LIBRARY_PATH=/repo/src/.libs ./f3
// Throw-away probe: MIP_Problem vs brute force on tiny bounded problems, incremental vs fresh.
#include "ppl.hh"
#include <iostream>
#include <random>
#include <map>
using namespace Parma_Polyhedra_Library;
using namespace Parma_Polyhedra_Library::IO_Operators;
static std::mt19937 rng;
static int ri(int lo, int hi) { return lo + int(rng() % unsigned(hi - lo + 1)); }
struct Row { std::vector<int> a; int b; int rel; }; // a.x + b rel 0 ; rel 0: >=, 1: ==
static bool sat(const Row& r, const std::vector<mpq_class>& x) { mpq_class v = r.b; for (size_t i = 0; i < x.size(); ++i) v += r.a[i] * x[i]; return r.rel ? v == 0 : v >= 0; }
int main(int argc, char** argv) {
  rng.seed(argc > 1 ? atoi(argv[1]) : 1); int iters = argc > 2 ? atoi(argv[2]) : 3000;
  std::map<std::string,int> bad; int n = 0;
  for (int it = 0; it < iters; ++it) {
    int dim = ri(1, 3);
    std::vector<Row> rows;
    // box -B..B on every var so that brute force over half-integers is meaningful for integer vars
    int B = 3;
    for (int i = 0; i < dim; ++i) { Row r; r.a.assign(dim, 0); r.a[i] = 1; r.b = B; r.rel = 0; rows.push_back(r); Row s; s.a.assign(dim, 0); s.a[i] = -1; s.b = B; s.rel = 0; rows.push_back(s); }
    int m = ri(0, 4);
    for (int k = 0; k < m; ++k) { Row r; r.a.resize(dim); for (int i = 0; i < dim; ++i) r.a[i] = ri(-3, 3); r.b = ri(-5, 5); r.rel = (ri(0, 5) == 0); rows.push_back(r); }
    std::vector<int> obj(dim); for (int i = 0; i < dim; ++i) obj[i] = ri(-3, 3); int obj0 = ri(-2, 2);
    bool maxim = ri(0, 1);
    // all variables integer -> brute force over integer points in the box
    bool found = false; mpq_class best;
    std::vector<int> idx(dim, -B);
    while (true) {
      std::vector<mpq_class> x(dim); for (int i = 0; i < dim; ++i) x[i] = idx[i];
      bool ok = true; for (auto& r : rows) if (!sat(r, x)) { ok = false; break; }
      if (ok) { mpq_class v = obj0; for (int i = 0; i < dim; ++i) v += obj[i] * x[i]; if (!found || (maxim ? v > best : v < best)) { best = v; found = true; } }
      int j = 0; while (j < dim && ++idx[j] > B) { idx[j] = -B; ++j; } if (j == dim) break;
    }
    auto mk = [&](const Row& r) { Linear_Expression e; for (int i = 0; i < dim; ++i) e += r.a[i] * Variable(i); e += r.b; return r.rel ? Constraint(e == 0) : Constraint(e >= 0); };
    Linear_Expression oe; for (int i = 0; i < dim; ++i) oe += obj[i] * Variable(i); oe += obj0;
    Variables_Set ivars; for (int i = 0; i < dim; ++i) ivars.insert(Variable(i));
    // fresh
    MIP_Problem fresh(dim); for (auto& r : rows) fresh.add_constraint(mk(r)); fresh.add_to_integer_space_dimensions(ivars);
    fresh.set_objective_function(oe); fresh.set_optimization_mode(maxim ? MAXIMIZATION : MINIMIZATION);
    MIP_Problem_Status fs = fresh.solve();
    // incremental: add constraints in two batches with solves in between, set integer vars late
    MIP_Problem inc(dim); size_t half = rows.size() / 2;
    for (size_t k = 0; k < half; ++k) inc.add_constraint(mk(rows[k]));
    inc.set_objective_function(oe); inc.set_optimization_mode(maxim ? MAXIMIZATION : MINIMIZATION);
    (void) inc.solve();
    for (size_t k = half; k < rows.size(); ++k) inc.add_constraint(mk(rows[k]));
    if (ri(0,1)) (void) inc.is_satisfiable();
    inc.add_to_integer_space_dimensions(ivars);
    MIP_Problem_Status is = inc.solve();
    ++n;
    std::string desc; { std::ostringstream os; os << "dim=" << dim << " obj=" << oe << (maxim ? " max" : " min"); for (auto& r : rows) os << " ; " << mk(r); desc = os.str(); }
    if ((fs == UNFEASIBLE_MIP_PROBLEM) != !found) { if (bad["fresh_status"]++ < 2) std::cout << "fresh status wrong: " << desc << " found=" << found << " status=" << fs << "\n"; continue; }
    if (fs != is) { if (bad["inc_status"]++ < 2) std::cout << "inc status != fresh: " << desc << " fresh=" << fs << " inc=" << is << "\n"; continue; }
    if (found) {
      Coefficient nu, de; fresh.optimal_value(nu, de); mpq_class v(nu, de); v.canonicalize();
      if (v != best) { if (bad["fresh_opt"]++ < 2) std::cout << "fresh optimum wrong: " << desc << " got " << v << " expected " << best << "\n"; }
      Coefficient nu2, de2; inc.optimal_value(nu2, de2); mpq_class v2(nu2, de2); v2.canonicalize();
      if (v2 != best) { if (bad["inc_opt"]++ < 2) std::cout << "inc optimum wrong: " << desc << " got " << v2 << " expected " << best << "\n"; }
    }
  }
  std::cout << n << " problems\n"; for (auto& b : bad) std::cout << b.first << ": " << b.second << "\n";
}
