// Throw-away design probe (round 0). Not part of the verification machinery.
// build: g++ -O1 -w -I/repo/src -I/repo/interfaces f5.cc -L/repo/src/.libs -lppl -lgmpxx -lgmp -o f5 ; run: LD_LIBRARY_PATH=/repo/src/.libs ./f5
// Throw-away probe: Pointset_Powerset<NNC_Polyhedron / C_Polyhedron> unions checked by window membership.
#include "ppl.hh"
#include <iostream>
#include <random>
#include <map>
using namespace Parma_Polyhedra_Library;
using namespace Parma_Polyhedra_Library::IO_Operators;
static std::mt19937 rng;
static int ri(int lo, int hi) { return lo + int(rng() % unsigned(hi - lo + 1)); }
typedef std::vector<mpq_class> Pt;
static std::vector<Pt> W;
static bool satc(const Constraint& c, const Pt& p) { mpq_class v = c.inhomogeneous_term(); for (size_t i = 0; i < p.size() && i < c.space_dimension(); ++i) v += mpq_class(c.coefficient(Variable(i))) * p[i]; return c.is_equality() ? v == 0 : c.is_strict_inequality() ? v > 0 : v >= 0; }
template <typename PH> static bool inph(const PH& ph, const Pt& p) { if (ph.is_empty()) return false; const Constraint_System& cs = ph.constraints(); for (auto i = cs.begin(); i != cs.end(); ++i) if (!satc(*i, p)) return false; return true; }
template <typename PS> static bool inps(const PS& ps, const Pt& p) { for (auto i = ps.begin(); i != ps.end(); ++i) if (inph(i->pointset(), p)) return true; return false; }
template <typename PH> static PH rnd_ph(bool nnc) {
  PH p(2); int n = ri(1, 4);
  for (int k = 0; k < n; ++k) { Linear_Expression e = ri(-2, 2) * Variable(0) + ri(-2, 2) * Variable(1) + ri(-4, 4); int t = ri(0, 7); if (t == 0) p.add_constraint(e == 0); else if (nnc && t == 1) p.add_constraint(e > 0); else p.add_constraint(e >= 0); }
  return p;
}
template <typename PH> static void run(const char* nm, bool nnc, int iters) {
  std::map<std::string,int> bad, tot;
  for (int it = 0; it < iters; ++it) {
    Pointset_Powerset<PH> a(2, EMPTY), b(2, EMPTY);
    int na = ri(0, 3), nb = ri(0, 3);
    for (int k = 0; k < na; ++k) a.add_disjunct(rnd_ph<PH>(nnc));
    for (int k = 0; k < nb; ++k) b.add_disjunct(rnd_ph<PH>(nnc));
    Pointset_Powerset<PH> a0(a), b0(b);
    auto same = [&](const Pointset_Powerset<PH>& x, const Pointset_Powerset<PH>& y) { for (auto& p : W) if (inps(x, p) != inps(y, p)) return false; return true; };
#define T(name, cond, msg) do { tot[name]++; if (!(cond)) { if (bad[name]++ < 2) std::cout << nm << " BAD " << name << ": " << msg << "\n"; } } while (0)
    { Pointset_Powerset<PH> x(a); x.omega_reduce(); T("omega_reduce", same(x, a0), "a=" << a0 << " res=" << x); }
    { Pointset_Powerset<PH> x(a); x.pairwise_reduce(); T("pairwise_reduce", same(x, a0), "a=" << a0 << " res=" << x); }
    { Pointset_Powerset<PH> x(a); x.intersection_assign(b); bool ok = true; for (auto& p : W) if (inps(x, p) != (inps(a0, p) && inps(b0, p))) ok = false; T("meet", ok, "a=" << a0 << " b=" << b0 << " res=" << x); }
    { Pointset_Powerset<PH> x(a); x.upper_bound_assign(b); bool ok = true; for (auto& p : W) if (inps(x, p) != (inps(a0, p) || inps(b0, p))) ok = false; T("join", ok, "a=" << a0 << " b=" << b0 << " res=" << x); }
    { Pointset_Powerset<PH> x(a); x.difference_assign(b); bool ok = true; for (auto& p : W) { bool e = inps(a0, p) && !inps(b0, p); bool g = inps(x, p); if (nnc ? (e != g) : (e && !g)) ok = false; } T("difference", ok, "a=" << a0 << " b=" << b0 << " res=" << x); }
    { bool cov = a.geometrically_covers(b); bool sub = true; for (auto& p : W) if (inps(b0, p) && !inps(a0, p)) sub = false; if (cov) T("covers_true", sub, "a=" << a0 << " b=" << b0); else tot["covers_false"]++; }
    { bool ge = a.geometrically_equals(b); if (ge) T("geq_true", same(a0, b0), "a=" << a0 << " b=" << b0); }
    { bool ent = b.definitely_entails(a); bool sub = true; for (auto& p : W) if (inps(b0, p) && !inps(a0, p)) sub = false; if (ent) T("entails_true", sub, "a=" << a0 << " b=" << b0); }
    { Pointset_Powerset<PH> x(a); bool r = x.simplify_using_context_assign(b); Pointset_Powerset<PH> y(x); y.intersection_assign(b); Pointset_Powerset<PH> z(a); z.intersection_assign(b); T("simplify_ctx", same(y, z) && x.size() <= std::max<size_t>(a0.size(), 1), "a=" << a0 << " b=" << b0 << " res=" << x << " ret=" << r); }
    T("args_unchanged", same(a, a0) && same(b, b0), "a=" << a0 << " b=" << b0);
  }
  for (auto& t : tot) std::cout << nm << " " << t.first << ": bad " << bad[t.first] << " / " << t.second << "\n";
}
int main(int argc, char** argv) {
  rng.seed(argc > 1 ? atoi(argv[1]) : 1); int iters = argc > 2 ? atoi(argv[2]) : 800;
  for (int a = -6; a <= 6; ++a) for (int b = -6; b <= 6; ++b) W.push_back({mpq_class(a, 2), mpq_class(b, 2)});
  run<C_Polyhedron>("C", false, iters);
  run<NNC_Polyhedron>("NNC", true, iters);
}
