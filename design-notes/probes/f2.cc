// Throw-away design probe (round 0). Not part of the verification machinery.
// build: g++ -O1 -w -I/repo/src f2.cc -L/repo/src/.libs -lppl -lgmpxx -lgmp -o f2 ; run: LD_LIBRARY_PATH=/repo/src/.libs ./f2
// Throw-away probe for grids: congruence-evaluated membership on a window of rational points.
#include "ppl.hh"
#include <iostream>
#include <random>
#include <map>
#include <sstream>
using namespace Parma_Polyhedra_Library;
using namespace Parma_Polyhedra_Library::IO_Operators;
static std::mt19937 rng;
static int ri(int lo, int hi) { return lo + int(rng() % unsigned(hi - lo + 1)); }
typedef std::vector<mpq_class> Pt;
static std::vector<Pt> window(int dim) {
  std::vector<mpq_class> vals;
  for (int n = -8; n <= 8; ++n) for (int d = 1; d <= 3; ++d) { mpq_class q(n, d); q.canonicalize(); bool dup = false; for (auto& v : vals) if (v == q) dup = true; if (!dup && q >= -3 && q <= 3) vals.push_back(q); }
  std::vector<Pt> out;
  if (dim == 1) for (auto& a : vals) out.push_back({a});
  else for (auto& a : vals) for (auto& b : vals) out.push_back({a, b});
  return out;
}
static bool sat(const Congruence& c, const Pt& p) {
  mpq_class v = c.inhomogeneous_term();
  for (size_t i = 0; i < p.size(); ++i) if (i < c.space_dimension()) v += mpq_class(c.coefficient(Variable(i))) * p[i];
  if (c.modulus() == 0) return v == 0;
  mpq_class q = v / mpq_class(c.modulus());
  return q.get_den() == 1;
}
static bool in_cgs(const Congruence_System& cs, const Pt& p) { for (auto i = cs.begin(); i != cs.end(); ++i) if (!sat(*i, p)) return false; return true; }
static bool member(const Grid& g, const Pt& p) { if (g.is_empty()) return false; return in_cgs(g.congruences(), p); }
static Grid rnd_grid(int dim) {
  Grid g(dim);
  if (ri(0, 2) == 0) {
    Grid h(dim, EMPTY);
    Linear_Expression e; for (int i = 0; i < dim; ++i) e += ri(-3, 3) * Variable(i);
    h.add_grid_generator(grid_point(e, ri(1, 3)));
    int n = ri(0, 2);
    for (int k = 0; k < n; ++k) { Linear_Expression q; for (int i = 0; i < dim; ++i) q += ri(-3, 3) * Variable(i); int t = ri(0, 2);
      if (t == 0) h.add_grid_generator(grid_point(q, ri(1, 3))); else if (t == 1) h.add_grid_generator(parameter(q, ri(1, 3))); else if (!q.all_homogeneous_terms_are_zero()) h.add_grid_generator(grid_line(q)); }
    return h;
  }
  int n = ri(0, 3);
  for (int k = 0; k < n; ++k) { Linear_Expression e; for (int i = 0; i < dim; ++i) e += ri(-3, 3) * Variable(i); g.add_congruence((e %= ri(-3, 3)) / ri(0, 4)); }
  return g;
}
static std::map<std::string,int> bad, tot;
#define REPORT(nm, cond, msg) do { tot[nm]++; if (!(cond)) { if (bad[nm]++ < 2) { std::cout << "BAD " << nm << ": " << msg << "\n"; } } } while (0)
int main(int argc, char** argv) {
  rng.seed(argc > 1 ? atoi(argv[1]) : 1);
  int iters = argc > 2 ? atoi(argv[2]) : 2000;
  for (int it = 0; it < iters; ++it) {
    int dim = ri(1, 2);
    std::vector<Pt> W = window(dim);
    Grid a = rnd_grid(dim), b = rnd_grid(dim);
    // descriptions agree: every generator-derived point satisfies the congruences; minimized = non-minimized
    {
      Grid c(a);
      std::ostringstream s; s << "a=[" << a.congruences() << "] copy=[" << c.congruences() << "]";
      bool same = true; for (auto& p : W) if (member(a, p) != member(c, p)) same = false;
      REPORT("copy", same && a.is_empty() == c.is_empty(), s.str());
      Grid m(a); Congruence_System mc = m.minimized_congruences();
      bool same2 = true; for (auto& p : W) if (!a.is_empty() && in_cgs(mc, p) != member(a, p)) same2 = false;
      REPORT("min_cgs", same2, s.str());
      Grid fromgens(a.grid_generators());
      bool same3 = true; for (auto& p : W) if (member(fromgens, p) != member(a, p)) same3 = false;
      REPORT("gens_roundtrip", same3, s.str() << " gens=[" << a.grid_generators() << "]");
    }
    { Grid x(a); x.intersection_assign(b); bool ok = true; for (auto& p : W) if (member(x, p) != (member(a, p) && member(b, p))) ok = false;
      REPORT("meet", ok, "a=[" << a.congruences() << "] b=[" << b.congruences() << "] res=[" << x.congruences() << "]"); }
    { Grid x(a); x.upper_bound_assign(b); bool ok = true; for (auto& p : W) if ((member(a, p) || member(b, p)) && !member(x, p)) ok = false;
      REPORT("join_sound", ok, "a=[" << a.congruences() << "] b=[" << b.congruences() << "] res=[" << x.congruences() << "]"); }
    { Grid x(a); x.difference_assign(b); bool ok = true; for (auto& p : W) if ((member(a, p) && !member(b, p)) && !member(x, p)) ok = false;
      bool sub = true; for (auto& p : W) if (member(x, p) && !member(a, p)) sub = false;
      REPORT("diff_sound", ok && sub, "a=[" << a.congruences() << "] b=[" << b.congruences() << "] res=[" << x.congruences() << "] empty=" << x.is_empty()); }
    { // relation_with congruence
      Linear_Expression e; for (int i = 0; i < dim; ++i) e += ri(-2, 2) * Variable(i);
      Congruence cg = (e %= ri(-2, 2)) / ri(0, 3);
      Poly_Con_Relation r = a.relation_with(cg);
      int in = 0, out = 0; for (auto& p : W) if (member(a, p)) { if (sat(cg, p)) ++in; else ++out; }
      bool ok = true;
      if (r.implies(Poly_Con_Relation::is_disjoint()) && in > 0) ok = false;
      if (r.implies(Poly_Con_Relation::is_included()) && out > 0) ok = false;
      if (r.implies(Poly_Con_Relation::strictly_intersects()) && !a.is_empty() && (false)) ok = false;
      REPORT("rel_cg", ok, "a=[" << a.congruences() << "] gens=[" << a.grid_generators() << "] cg=" << cg << " rel=" << r << " in=" << in << " out=" << out); }
    { // contains / equality via window
      bool sub = true; for (auto& p : W) if (member(b, p) && !member(a, p)) sub = false;
      if (a.contains(b)) REPORT("contains_true", sub, "a=[" << a.congruences() << "] b=[" << b.congruences() << "]");
      bool dj = true; for (auto& p : W) if (member(b, p) && member(a, p)) dj = false;
      if (a.is_disjoint_from(b)) REPORT("disjoint_true", dj, "a=[" << a.congruences() << "] b=[" << b.congruences() << "]");
    }
    { // invertible affine image: x0' = (c0*x0 + c1*x1 + k)/d, c0 != 0
      int c0 = ri(0,1) ? ri(1,3) : -ri(1,3); int c1 = ri(-2, 2); int k = ri(-3, 3); int d = ri(0,1) ? ri(1,3) : -ri(1,3);
      Linear_Expression e = c0 * Variable(0); if (dim > 1) e += c1 * Variable(1); e += k;
      Grid x(a); x.affine_image(Variable(0), e, d);
      bool ok = true;
      for (auto& p : W) { // preimage point: x0 = (d*p0 - c1*p1 - k)/c0
        Pt q = p; mpq_class v = mpq_class(d) * p[0] - mpq_class(k); if (dim > 1) v -= mpq_class(c1) * p[1]; q[0] = v / mpq_class(c0);
        if (member(x, p) != member(a, q)) ok = false; }
      REPORT("affine_image_inv", ok, "a=[" << a.congruences() << "] expr=" << e << " d=" << d << " res=[" << x.congruences() << "]");
      Grid y(a); y.affine_preimage(Variable(0), e, d);
      bool ok2 = true;
      for (auto& p : W) { Pt q = p; mpq_class v = mpq_class(c0) * p[0] + mpq_class(k); if (dim > 1) v += mpq_class(c1) * p[1]; q[0] = v / mpq_class(d);
        if (member(y, p) != member(a, q)) ok2 = false; }
      REPORT("affine_preimage_inv", ok2, "a=[" << a.congruences() << "] expr=" << e << " d=" << d << " res=[" << y.congruences() << "]");
    }
  }
  for (auto& t : tot) std::cout << t.first << ": bad " << bad[t.first] << " / " << t.second << "\n";
}
