// Throw-away design probe (round 0). Not part of the verification machinery.
// build: g++ -O1 -w -I/repo/src p5.cc -L/repo/src/.libs -lppl -lgmpxx -lgmp -o p5 ; run: LD_LIBRARY_PATH=/repo/src/.libs ./p5
#include "ppl.hh"
#include <iostream>
#include <csignal>
#include <sys/time.h>
using namespace Parma_Polyhedra_Library;

// ---- virtual timer (interposes libc for libppl.so as well) ----
static long long vremain_us = 0;       // 0 = disarmed
static long long vnow_us = 0;
static void (*handler)(int) = nullptr;
static int ncalls_set = 0, ncalls_get = 0;
extern "C" int setitimer(__itimer_which_t, const struct itimerval* v, struct itimerval*) {
  ++ncalls_set;
  vremain_us = v->it_value.tv_sec * 1000000LL + v->it_value.tv_usec;
  std::cout << "  [setitimer " << vremain_us << "us at t=" << vnow_us << "]\n";
  return 0;
}
extern "C" int getitimer(__itimer_which_t, struct itimerval* v) {
  ++ncalls_get;
  v->it_value.tv_sec = vremain_us / 1000000; v->it_value.tv_usec = vremain_us % 1000000;
  v->it_interval.tv_sec = 0; v->it_interval.tv_usec = 0;
  return 0;
}
extern "C" int sigaction(int sig, const struct sigaction* a, struct sigaction*) {
  if (a) { handler = a->sa_handler; std::cout << "  [sigaction sig=" << sig << "]\n"; }
  return 0;
}
static void advance(long long us) {
  while (us > 0) {
    if (vremain_us == 0) { vnow_us += us; return; }
    long long d = us < vremain_us ? us : vremain_us;
    vnow_us += d; vremain_us -= d; us -= d;
    if (vremain_us == 0) { std::cout << "  [signal at t=" << vnow_us << "]\n"; handler(0); }
  }
}
static void f1() { std::cout << "  ** W1 fired at t=" << vnow_us << "\n"; }
static void f2() { std::cout << "  ** W2 fired at t=" << vnow_us << " (deadline 500000)\n"; }
int main() {
  Watchdog::initialize();   // in case the library init did not go through our sigaction
  {
    Watchdog* w1 = new Watchdog(10, f1);   // 0.10 s
    Watchdog* w2 = new Watchdog(50, f2);   // 0.50 s
    advance(50000);                        // t = 0.05
    delete w1;                             // first removed; next deadline has same seconds
    advance(100000);                       // up to t = 0.15
    std::cout << "t=" << vnow_us << "\n";
    advance(500000);
    delete w2;
  }
  std::cout << "set calls " << ncalls_set << " get calls " << ncalls_get << "\n";
}
