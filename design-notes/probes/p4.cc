// Throw-away design probe (round 0). Not part of the verification machinery.
// build: g++ -O1 -w -I/repo/src p4.cc -L/repo/src/.libs -lppl -lgmpxx -lgmp -o p4 ; run: LD_LIBRARY_PATH=/repo/src/.libs ./p4
#include "ppl.hh"
#include <iostream>
using namespace Parma_Polyhedra_Library;
using namespace Parma_Polyhedra_Library::IO_Operators;
int main() {
  Variable x(0), y(1);
  {
    C_Polyhedron ph(2);
    ph.add_constraint(x >= 1);
    ph.add_constraint(x <= 0); // empty but not yet detected
    std::cout << "before\n";
    ph.bounded_affine_image(x, y, y + 1);
    std::cout << "bounded_affine_image ok: " << ph.is_empty() << "\n";
  }
  {
    C_Polyhedron ph(2);
    ph.add_constraint(x >= 1);
    ph.add_constraint(x <= 0);
    ph.generalized_affine_preimage(x + y, LESS_OR_EQUAL, y + 1);
    std::cout << "generalized_affine_preimage ok: " << ph.is_empty() << "\n";
  }
}
