// Throw-away design probe (round 0). Not part of the verification machinery.
// build: g++ -O1 -w -I/repo/src f7.cc -L/repo/src/.libs -lppl -lgmpxx -lgmp -o f7 ; run: LD_LIBRARY_PATH=/repo/src/.libs ./f7
// Throw-away probe: x.op(x) versus x.op(copy of x) for the binary operations of the common interface.
#include "ppl.hh"
#include <iostream>
#include <random>
#include <map>
#include <sstream>
using namespace Parma_Polyhedra_Library;
using namespace Parma_Polyhedra_Library::IO_Operators;
static std::mt19937 rng;
static int ri(int lo, int hi) { return lo + int(rng() % unsigned(hi - lo + 1)); }
static std::map<std::string,int> bad, tot;
template <typename D> static D rnd(int dim, int kind) {
  D x(dim); int n = ri(0, 4);
  for (int k = 0; k < n; ++k) {
    int i = ri(0, dim-1), j = ri(0, dim-1); Linear_Expression e; int b = ri(-5, 5);
    if (kind == 3) { for (int t = 0; t < dim; ++t) e += ri(-2, 2) * Variable(t); }
    else { int shape = (kind == 0 || i == j) ? 0 : ri(0, kind); if (shape == 0) e = (ri(0,1) ? 1 : -1) * Variable(i); else if (shape == 1) e = Variable(i) - Variable(j); else e = Variable(i) + Variable(j); }
    if (ri(0, 6) == 0) x.add_constraint(e == b); else x.add_constraint(e <= b);
  }
  return x;
}
template <typename D, typename F> static void one(const std::string& nm, const D& a, F f) {
  tot[nm]++;
  try {
    D x(a); D c(a); f(x, c);      // with a copy
    D y(a); f(y, y);              // aliased
    if (!(x == y) || !y.OK()) { if (bad[nm]++ < 2) { std::cout << "ALIAS " << nm << ": a=" << a << "  with copy=" << x << "  aliased=" << y << "\n"; } }
  } catch (std::exception& e) { if (bad[nm + " exc"]++ < 1) std::cout << "EXC " << nm << ": " << e.what() << "\n"; }
}
template <typename D> static void run(const char* dn, int kind, int iters) {
  std::string p = dn;
  for (int it = 0; it < iters; ++it) {
    int dim = ri(1, 3); D a = rnd<D>(dim, kind);
    if (ri(0,1)) (void) a.minimized_constraints();
    one(p + " intersection", a, [](D& x, const D& y) { x.intersection_assign(y); });
    one(p + " upper_bound", a, [](D& x, const D& y) { x.upper_bound_assign(y); });
    one(p + " difference", a, [](D& x, const D& y) { x.difference_assign(y); });
    one(p + " time_elapse", a, [](D& x, const D& y) { x.time_elapse_assign(y); });
    one(p + " concatenate", a, [](D& x, const D& y) { x.concatenate_assign(y); });
    one(p + " widening", a, [](D& x, const D& y) { x.widening_assign(y); });
    one(p + " ub_if_exact", a, [](D& x, const D& y) { (void) x.upper_bound_assign_if_exact(y); });
    one(p + " simplify_ctx", a, [](D& x, const D& y) { (void) x.simplify_using_context_assign(y); });
    one(p + " m_swap", a, [](D& x, D const& y) { x.m_swap(const_cast<D&>(y)); });
    one(p + " assign", a, [](D& x, const D& y) { x = y; });
    tot[p + " contains/eq"]++; if (!a.contains(a) || !(a == a) || a.strictly_contains(a) || (a.is_disjoint_from(a) != a.is_empty())) { if (bad[p + " contains/eq"]++ < 2) std::cout << "SELFPRED " << p << ": " << a << "\n"; }
  }
}
int main(int argc, char** argv) {
  rng.seed(argc > 1 ? atoi(argv[1]) : 1); int iters = argc > 2 ? atoi(argv[2]) : 400;
  run<C_Polyhedron>("C_Poly", 3, iters);
  run<NNC_Polyhedron>("NNC_Poly", 3, iters);
  run<BD_Shape<mpq_class> >("BDS", 1, iters);
  run<Octagonal_Shape<mpq_class> >("Oct", 2, iters);
  run<Rational_Box>("Box", 0, iters);
  for (auto& t : tot) if (bad.count(t.first) || bad.count(t.first + " exc")) std::cout << t.first << ": bad " << bad[t.first] << " exc " << bad[t.first + " exc"] << " / " << t.second << "\n";
  std::cout << "checked " << tot.size() << " op kinds\n";
}
