// C18 harness: generated loop relations through every termination-analysis entry point.
//   c18_term --seed S --first A --last B [--per P] [--maxn N] [--cpu SEC]
//   c18_term --replay-file F      (F: the `case` line and the R0 / B0 / A0 lines of a recorded case)
// Journal (one event per line; systems in the encoding of poly_io.hh / Lin/Parse.lean):
//   case <id> <kind> <form> <n> <template>        kind: C NNC BDS OS BOX GRID; form: 1 | 2
//   R <cs over 2n>            form 1: pset.minimized_constraints() (what the library reads)
//   R0 <cs over 2n>           form 1: pset.constraints()
//   B <cs over n>  A <cs over 2n>   form 2: minimized_constraints() of pset_before / pset_after
//   B0 .. A0 ..               form 2: constraints() of the two
//   gens <gs over 2n>         hint: generators of the closure of the relation (untrusted)
//   t <M> <0|1>               termination_test_<M>[_2]                      M: MS | PR
//   o <M> <0|1> <dim> <gen>   one_affine_ranking_function_<M>[_2]  (generator only when 1)
//   s <M> <dim> <cs> <gs>     all_affine_ranking_functions_<M>[_2]: constraints, generators
//   qd <dim> <cs> <gs> / qb <dim> <cs> <gs>   all_affine_quasi_ranking_functions_MS[_2]
//   x <what> <exception class>
//   end
// A child that dies appends `crash <signal>` + `end` (common.hh); SIGXCPU = inconclusive.
#include "ppl.hh"
#include "common.hh"
#include "poly_io.hh"

using namespace Parma_Polyhedra_Library;
using namespace pplv_io;
using pplv::Rng;

static pplv::Journal J(1);

typedef BD_Shape<mpq_class> BDS;
typedef Octagonal_Shape<mpq_class> OSH;

// ---- relation templates ------------------------------------------------------------------
struct Rel {
  dimension_type n;
  Constraint_System before;   // over x   = 0..n-1
  Constraint_System after;    // over x'  = 0..n-1, x = n..2n-1
  std::string tmpl;
};

static Variable XP(dimension_type i) { return Variable(i); }
static Variable XX(dimension_type n, dimension_type i) { return Variable(n + i); }

static Constraint maybe_strict(Rng& r, bool nnc, const Linear_Expression& e) {
  // e >= 0, or e > 0 for NNC kinds sometimes
  if (nnc && r.chance(2, 5)) return e > 0;
  return e >= 0;
}

static Linear_Expression lin_x(Rng& r, dimension_type n, bool after_space, long b) {
  // random linear form over the unprimed variables (placed at n.. when after_space)
  Linear_Expression e;
  for (dimension_type i = 0; i < n; ++i) {
    Coefficient c = small(r, b);
    e += c * (after_space ? XX(n, i) : Variable(i));
  }
  return e;
}

static void fix_dims(Rel& R) {
  if (R.n > 0) {
    R.before.insert(0 * Variable(R.n - 1) >= -1);
    R.after.insert(0 * Variable(2 * R.n - 1) >= -1);
  }
}

static Rel gen_rel(Rng& r, dimension_type n, bool nnc, int domain /*0 poly,1 bds,2 os,3 box,4 grid*/) {
  Rel R; R.n = n;
  unsigned t = r.below(100);
  if (n == 0) {
    R.tmpl = "zero_dim";
    if (r.chance(1, 2)) R.after.insert(Linear_Expression(0) >= 1);   // empty
    return R;
  }
  if (domain == 3) {           // boxes: only interval constraints can matter
    if (t < 45) {
      R.tmpl = "box_gap";
      dimension_type i = r.below(n);
      long lo = r.range(-3, 4), gap = r.range(-1, 3);
      Coefficient den = r.chance(1, 4) ? 2 : 1;
      R.before.insert(maybe_strict(r, nnc, den * Variable(i) - lo));
      R.after.insert(maybe_strict(r, nnc, -den * XP(i) + (lo - gap)));
      if (r.chance(1, 2)) R.after.insert(XX(n, i) >= lo - r.range(0, 2));
      for (dimension_type j = 0; j < n; ++j) if (j != i && r.chance(1, 2)) {
        R.after.insert(XP(j) <= r.range(-2, 5));
        if (r.chance(1, 2)) R.before.insert(Variable(j) >= r.range(-5, 2));
      }
      fix_dims(R); return R;
    }
  }
  if (domain == 1 || domain == 2) {
    if (t < 45) {
      R.tmpl = "diff_planted";
      dimension_type i = r.below(n);
      long c = r.range(-1, 3);
      R.after.insert(maybe_strict(r, nnc, XX(n, i) - XP(i) - c));      // x_i - x'_i >= c
      if (r.chance(5, 6)) R.before.insert(maybe_strict(r, nnc, Variable(i) - r.range(-3, 3)));
      for (dimension_type j = 0; j < n; ++j) if (j != i) {
        unsigned k = r.below(4);
        if (k == 0) R.after.insert(XP(j) - XX(n, j) == r.range(-2, 2));
        else if (k == 1) R.after.insert(XP(j) - XX(n, i) <= r.range(-2, 2));
        else if (k == 2 && domain == 2) R.after.insert(XP(j) + XX(n, j) <= r.range(-2, 4));
      }
      fix_dims(R); return R;
    }
  }
  if (t < 30) {
    // planted: mu.x - mu.x' >= c, mu.x >= lo, plus optional deterministic updates
    R.tmpl = "planted";
    Linear_Expression mx, mxp;
    bool nz = false;
    std::vector<long> mu(n);
    for (dimension_type i = 0; i < n; ++i) { mu[i] = r.range(-2, 2); if (mu[i]) nz = true; }
    if (!nz) mu[r.below(n)] = 1;
    for (dimension_type i = 0; i < n; ++i) { mx += Coefficient(mu[i]) * XX(n, i); mxp += Coefficient(mu[i]) * XP(i); }
    long c = r.range(-1, 3);
    Coefficient sc = r.chance(1, 4) ? 2 : 1;                          // decrease of 1/2 ...
    R.after.insert(maybe_strict(r, nnc, sc * (mx - mxp) - c));
    if (r.chance(6, 7)) {
      Linear_Expression mb;
      for (dimension_type i = 0; i < n; ++i) mb += Coefficient(mu[i]) * Variable(i);
      R.before.insert(maybe_strict(r, nnc, mb - r.range(-4, 4)));
    }
    unsigned extra = r.below(3);
    for (unsigned k = 0; k < extra; ++k) {
      if (r.chance(1, 2)) R.before.insert(maybe_strict(r, nnc, lin_x(r, n, false, 2) + r.range(-3, 5)));
      else { Linear_Expression e = rnd_expr(r, 2 * n, 2, false); R.after.insert(maybe_strict(r, nnc, e)); }
    }
    if (r.chance(1, 3)) { dimension_type j = r.below(n); R.after.insert(XP(j) == XX(n, j) + r.range(-2, 2)); }
  }
  else if (t < 50) {
    // deterministic update x' = x - d with mu.d >= 1 for a planted mu, guard mu.x >= lo
    R.tmpl = "det_planted";
    std::vector<long> mu(n), d(n);
    long md = 0;
    for (dimension_type i = 0; i < n; ++i) { mu[i] = r.range(-2, 2); d[i] = r.range(-2, 2); md += mu[i] * d[i]; }
    if (md < 1) { dimension_type i = r.below(n); if (mu[i] == 0) mu[i] = 1; d[i] += (1 - md) * (mu[i] > 0 ? 1 : -1); }
    for (dimension_type i = 0; i < n; ++i) R.after.insert(XP(i) == XX(n, i) - d[i]);
    Linear_Expression mb;
    for (dimension_type i = 0; i < n; ++i) mb += Coefficient(mu[i]) * Variable(i);
    if (r.chance(5, 6)) R.before.insert(maybe_strict(r, nnc, mb - r.range(-4, 4)));
    if (r.chance(1, 3)) R.before.insert(maybe_strict(r, nnc, lin_x(r, n, false, 2) + r.range(-3, 5)));
  }
  else if (t < 62) {
    // affine deterministic loop x' = A x + b with random guards
    R.tmpl = "affine";
    for (dimension_type i = 0; i < n; ++i) {
      Linear_Expression e = lin_x(r, n, true, 2) + r.range(-2, 2);
      R.after.insert(XP(i) == e);
    }
    unsigned g = r.below(4);
    for (unsigned k = 0; k < g; ++k) R.before.insert(maybe_strict(r, nnc, lin_x(r, n, false, 2) + r.range(-3, 5)));
  }
  else if (t < 72) {
    // non-terminating classics
    unsigned k = r.below(5);
    if (k == 0) { R.tmpl = "identity"; for (dimension_type i = 0; i < n; ++i) R.after.insert(XP(i) == XX(n, i));
                  if (r.chance(1, 2)) R.before.insert(Variable(0) >= 0); }
    else if (k == 1) { R.tmpl = "flip"; R.after.insert(XP(0) == -XX(n, 0)); R.before.insert(Variable(0) >= -2); R.before.insert(Variable(0) <= 2); }
    else if (k == 2) { R.tmpl = "unbounded_below"; R.after.insert(XP(0) == XX(n, 0) - 1); }
    else if (k == 3) { R.tmpl = "count_up"; R.after.insert(XP(0) == XX(n, 0) + 1); R.before.insert(Variable(0) <= r.range(0, 9)); }
    else { R.tmpl = "universe"; }
  }
  else if (t < 82) {
    // bounded boxes with a decreasing component
    R.tmpl = "bounded";
    for (dimension_type i = 0; i < n; ++i) { R.before.insert(Variable(i) >= r.range(-3, 0)); R.before.insert(Variable(i) <= r.range(1, 4)); }
    dimension_type i = r.below(n);
    R.after.insert(maybe_strict(r, nnc, XX(n, i) - XP(i) - r.range(0, 2)));
    for (dimension_type j = 0; j < n; ++j) if (r.chance(1, 2)) { R.after.insert(XP(j) >= -4); R.after.insert(XP(j) <= 5); }
  }
  else if (t < 90) {
    // empty or lower-dimensional
    R.tmpl = "degenerate";
    unsigned k = r.below(3);
    if (k == 0) { R.before.insert(Variable(0) >= 1); R.before.insert(Variable(0) <= 0); R.after.insert(XP(0) == XX(n, 0) - 1); }
    else if (k == 1) { for (dimension_type i = 0; i < n; ++i) { R.after.insert(XX(n, i) == r.range(0, 5)); R.after.insert(XP(i) == r.range(0, 5)); } }
    else { R.after.insert(XP(0) == XX(n, 0) - 1); R.before.insert(Variable(0) == r.range(-2, 2)); if (n > 1) R.after.insert(XP(1) + XX(n, 1) == 3); }
  }
  else {
    R.tmpl = "random";
    R.before = rnd_cs(r, n, nnc, 2, false);
    R.after = rnd_cs(r, 2 * n, nnc, 4, false);
  }
  fix_dims(R);
  return R;
}

// the same constraints over variables shifted up by `k` (x_i -> x_{k+i})
static Constraint_System shifted(const Constraint_System& cs, dimension_type n, dimension_type k) {
  Constraint_System out;
  for (Constraint_System::const_iterator i = cs.begin(); i != cs.end(); ++i) {
    Linear_Expression e;
    for (dimension_type j = 0; j < n && j < i->space_dimension(); ++j) e += i->coefficient(Variable(j)) * Variable(k + j);
    e += i->inhomogeneous_term();
    if (i->is_equality()) out.insert(e == 0);
    else if (i->is_strict_inequality()) out.insert(e > 0);
    else out.insert(e >= 0);
  }
  return out;
}

// ---- printing ------------------------------------------------------------------------------
static void line_cs(const char* tag, const Constraint_System& cs, dimension_type d) {
  OS o; o << tag; put_cs(o, cs, d); J.line(o.str());
}

template <class SPACE>
static void put_space(OS& o, const SPACE& sp) {
  dimension_type d = sp.space_dimension();
  o << " " << d;
  put_cs(o, sp.minimized_constraints(), d);
  put_gs(o, sp.minimized_generators(), d);
}

// closure generators of the relation described by cs (2n dims) as a hint for the judge
static void emit_gens(const Constraint_System& cs, dimension_type d) {
  OS o; o << "gens";
  try {
    NNC_Polyhedron ph(d);
    ph.add_constraints(cs);
    if (ph.is_empty()) { o << " 0"; }
    else {
      Constraint_System cl;
      for (Constraint_System::const_iterator i = cs.begin(); i != cs.end(); ++i) {
        if (i->is_strict_inequality()) cl.insert(Linear_Expression(i->expression()) >= 0);
        else cl.insert(*i);
      }
      C_Polyhedron c(d);
      c.add_constraints(cl);
      put_gs(o, c.minimized_generators(), d);
    }
  } catch (...) { o.str(""); o << "gens 0 #exc"; }
  J.line(o.str());
}

#define GUARD(what, ...) try { __VA_ARGS__ } catch (...) { J.line(std::string("x ") + what + " " + pplv::exc_class()); }

template <class P>
static void run_form1(const P& p, dimension_type n) {
  const dimension_type d = 2 * n;
  line_cs("R", p.minimized_constraints(), d);
  line_cs("R0", p.constraints(), d);
  emit_gens(p.minimized_constraints(), d);
  GUARD("t_MS", { bool b = termination_test_MS(p); J.line(std::string("t MS ") + (b ? "1" : "0")); })
  GUARD("t_PR", { bool b = termination_test_PR(p); J.line(std::string("t PR ") + (b ? "1" : "0")); })
  GUARD("o_MS", { Generator mu(point()); bool b = one_affine_ranking_function_MS(p, mu);
    OS o; o << "o MS " << b; if (b) { o << " " << mu.space_dimension(); put_gen(o, mu, mu.space_dimension()); } J.line(o.str()); })
  GUARD("o_PR", { Generator mu(point()); bool b = one_affine_ranking_function_PR(p, mu);
    OS o; o << "o PR " << b; if (b) { o << " " << mu.space_dimension(); put_gen(o, mu, mu.space_dimension()); } J.line(o.str()); })
  GUARD("s_MS", { C_Polyhedron sp; all_affine_ranking_functions_MS(p, sp); OS o; o << "s MS"; put_space(o, sp); J.line(o.str()); })
  GUARD("s_PR", { NNC_Polyhedron sp; all_affine_ranking_functions_PR(p, sp); OS o; o << "s PR"; put_space(o, sp); J.line(o.str()); })
  GUARD("q_MS", { C_Polyhedron a, b; all_affine_quasi_ranking_functions_MS(p, a, b);
    { OS o; o << "qd"; put_space(o, a); J.line(o.str()); } { OS o; o << "qb"; put_space(o, b); J.line(o.str()); } })
}

template <class P>
static void run_form2(const P& pb, const P& pa, dimension_type n) {
  const dimension_type d = 2 * n;
  line_cs("B", pb.minimized_constraints(), n);
  line_cs("A", pa.minimized_constraints(), d);
  line_cs("B0", pb.constraints(), n);
  line_cs("A0", pa.constraints(), d);
  {
    Constraint_System all;
    if (d > 0) all.insert(0 * Variable(d - 1) >= -1);
    Constraint_System b = shifted(pb.minimized_constraints(), n, n);
    for (Constraint_System::const_iterator i = b.begin(); i != b.end(); ++i) all.insert(*i);
    Constraint_System a = pa.minimized_constraints();
    for (Constraint_System::const_iterator i = a.begin(); i != a.end(); ++i) all.insert(*i);
    emit_gens(all, d);
  }
  GUARD("t_MS", { bool b = termination_test_MS_2(pb, pa); J.line(std::string("t MS ") + (b ? "1" : "0")); })
  GUARD("t_PR", { bool b = termination_test_PR_2(pb, pa); J.line(std::string("t PR ") + (b ? "1" : "0")); })
  GUARD("o_MS", { Generator mu(point()); bool b = one_affine_ranking_function_MS_2(pb, pa, mu);
    OS o; o << "o MS " << b; if (b) { o << " " << mu.space_dimension(); put_gen(o, mu, mu.space_dimension()); } J.line(o.str()); })
  GUARD("o_PR", { Generator mu(point()); bool b = one_affine_ranking_function_PR_2(pb, pa, mu);
    OS o; o << "o PR " << b; if (b) { o << " " << mu.space_dimension(); put_gen(o, mu, mu.space_dimension()); } J.line(o.str()); })
  GUARD("s_MS", { C_Polyhedron sp; all_affine_ranking_functions_MS_2(pb, pa, sp); OS o; o << "s MS"; put_space(o, sp); J.line(o.str()); })
  GUARD("s_PR", { NNC_Polyhedron sp; all_affine_ranking_functions_PR_2(pb, pa, sp); OS o; o << "s PR"; put_space(o, sp); J.line(o.str()); })
  GUARD("q_MS", { C_Polyhedron a, b; all_affine_quasi_ranking_functions_MS_2(pb, pa, a, b);
    { OS o; o << "qd"; put_space(o, a); J.line(o.str()); } { OS o; o << "qb"; put_space(o, b); J.line(o.str()); } })
}

// ---- building the pointsets ----------------------------------------------------------------
template <class P> static P build(const Constraint_System& cs, dimension_type d, bool exact) {
  P p(d);
  if (exact) p.add_constraints(cs); else p.refine_with_constraints(cs);
  return p;
}

static Constraint_System closed_only(const Constraint_System& cs, dimension_type d) {
  Constraint_System out;
  if (d > 0) out.insert(0 * Variable(d - 1) >= -1);
  for (Constraint_System::const_iterator i = cs.begin(); i != cs.end(); ++i) {
    if (i->is_strict_inequality()) out.insert(Linear_Expression(i->expression()) >= 0);
    else out.insert(*i);
  }
  return out;
}

static Constraint_System joined(const Rel& R) {
  Constraint_System all;
  const dimension_type d = 2 * R.n;
  if (d > 0) all.insert(0 * Variable(d - 1) >= -1);
  Constraint_System b = shifted(R.before, R.n, R.n);
  for (Constraint_System::const_iterator i = b.begin(); i != b.end(); ++i) all.insert(*i);
  for (Constraint_System::const_iterator i = R.after.begin(); i != R.after.end(); ++i) all.insert(*i);
  return all;
}

static Grid build_grid(Rng& r, const Constraint_System& cs, dimension_type d) {
  Grid g(d);
  g.refine_with_constraints(cs);       // equalities only survive
  if (d > 0 && r.chance(1, 2)) {
    Linear_Expression e;
    for (dimension_type i = 0; i < d; ++i) e += Coefficient(small(r, 2)) * Variable(i);
    g.add_congruence((e %= r.range(0, 1)) / r.range(2, 3));
  }
  return g;
}

// Planted family "guarded_decrement": x_i' = x_i - (positive combination of other variables), the
// guard (= pset_before exactly) bounds those variables from below by a positive constant and x_i
// from below; the remaining variables may increase (x_j' = x_j + k, x_j' >= x_j) or are free.
// The size of the decrement is known only through the guard, so the Farkas multipliers of the
// guard rows are necessarily non-zero in every encoding.  mu = x_i (scaled) is a ranking function.
static Rel gen_guarded(Rng& r, dimension_type n, bool nnc) {
  Rel R; R.n = n; R.tmpl = "guarded_decrement";
  dimension_type i = r.below(n);
  std::vector<long> a(n, 0);
  bool any = false;
  for (dimension_type j = 0; j < n; ++j) if (j != i && r.chance(1, 2)) { a[j] = r.range(1, 2); any = true; }
  if (!any) { dimension_type j = (i + 1 + r.below(n - 1)) % n; a[j] = r.range(1, 2); }
  Linear_Expression dec;
  for (dimension_type j = 0; j < n; ++j) if (a[j]) dec += Coefficient(a[j]) * XX(n, j);
  unsigned variant = r.below(16);           // 0: decrement may vanish (no ranking); 1: x_i unbounded below
  if (r.chance(3, 4)) R.after.insert(XP(i) == XX(n, i) - dec);
  else R.after.insert(XP(i) <= XX(n, i) - dec);
  for (dimension_type j = 0; j < n; ++j) if (j != i) {
    unsigned k = r.below(5);
    if (k == 0) R.after.insert(XP(j) == XX(n, j) + r.range(0, 2));
    else if (k == 1) R.after.insert(XP(j) >= XX(n, j));
    else if (k == 2) R.after.insert(XP(j) == XX(n, j));
    else if (k == 3 && n > 2) { dimension_type l = (j + 1) % n; if (l != i) R.after.insert(XP(j) >= XX(n, j) + XX(n, l)); }
    // k == 4: x_j' unconstrained
  }
  for (dimension_type j = 0; j < n; ++j) if (a[j]) {
    long g = (variant == 0) ? 0 : r.range(1, 2);
    Coefficient den = (variant != 0 && r.chance(1, 5)) ? 2 : 1;   // x_j >= 1/2: decrease >= a_j/2
    Linear_Expression e = den * Variable(j) - g;
    R.before.insert((nnc && variant != 0 && r.chance(1, 4)) ? (e > 0) : (e >= 0));
  }
  if (variant != 1) R.before.insert(Variable(i) >= r.range(-2, 2));
  if (r.chance(1, 4)) {                      // an extra guard on a variable that is not involved
    dimension_type j = r.below(n);
    if (j != i && !a[j]) R.before.insert(Variable(j) <= r.range(0, 5));
  }
  fix_dims(R);
  return R;
}

static void emit_case(Rng& r, long id, int kc, const char* kind, const Rel& R, unsigned form) {
  const dimension_type n = R.n;
  {
    OS o; o << "case " << id << " " << kind << " " << form << " " << n << " " << R.tmpl;
    J.line(o.str());
  }
  const dimension_type d = 2 * n;
  try {
    if (form == 1) {
      Constraint_System all = joined(R);
      switch (kc) {
        case 0: run_form1(build<C_Polyhedron>(closed_only(all, d), d, true), n); break;
        case 1: run_form1(build<NNC_Polyhedron>(all, d, true), n); break;
        case 2: run_form1(build<BDS>(closed_only(all, d), d, false), n); break;
        case 3: run_form1(build<OSH>(closed_only(all, d), d, false), n); break;
        case 4: run_form1(build<Rational_Box>(all, d, false), n); break;
        default: run_form1(build_grid(r, all, d), n); break;
      }
    } else {
      switch (kc) {
        case 0: run_form2(build<C_Polyhedron>(closed_only(R.before, n), n, true), build<C_Polyhedron>(closed_only(R.after, d), d, true), n); break;
        case 1: run_form2(build<NNC_Polyhedron>(R.before, n, true), build<NNC_Polyhedron>(R.after, d, true), n); break;
        case 2: run_form2(build<BDS>(closed_only(R.before, n), n, false), build<BDS>(closed_only(R.after, d), d, false), n); break;
        case 3: run_form2(build<OSH>(closed_only(R.before, n), n, false), build<OSH>(closed_only(R.after, d), d, false), n); break;
        case 4: run_form2(build<Rational_Box>(R.before, n, false), build<Rational_Box>(R.after, d, false), n); break;
        default: { Grid gb = build_grid(r, R.before, n); Grid ga = build_grid(r, R.after, d); run_form2(gb, ga, n); break; }
      }
    }
  } catch (...) {
    J.line(std::string("x build ") + pplv::exc_class());
  }
  J.line("end");
}

// one generated relation; returns the number of cases emitted (the planted family is shown in BOTH forms)
static long one_case(Rng& r, long id, dimension_type maxn) {
  if (r.chance(1, 6)) {
    bool nnc = r.chance(1, 4);
    dimension_type n = 2 + r.below(2);       // n = 2 or 3, also in the quick tier
    Rel R = gen_guarded(r, n, nnc);
    emit_case(r, id, nnc ? 1 : 0, nnc ? "NNC" : "C", R, 2);
    emit_case(r, id + 1, nnc ? 1 : 0, nnc ? "NNC" : "C", R, 1);
    return 2;
  }
  unsigned kd = r.below(20);
  // kinds: C 6/20, NNC 4/20, BDS 3/20, OS 3/20, BOX 3/20, GRID 1/20
  const char* kind; int domain; bool nnc = false;
  if (kd < 6) { kind = "C"; domain = 0; }
  else if (kd < 10) { kind = "NNC"; domain = 0; nnc = true; }
  else if (kd < 13) { kind = "BDS"; domain = 1; }
  else if (kd < 16) { kind = "OS"; domain = 2; }
  else if (kd < 19) { kind = "BOX"; domain = 3; nnc = r.chance(1, 3); }
  else { kind = "GRID"; domain = 4; }
  dimension_type n = (r.chance(1, 40)) ? 0 : 1 + r.below(maxn);
  if (n > 2 && domain != 0 && r.chance(1, 2)) n = 2;
  Rel R = gen_rel(r, n, nnc, domain);
  unsigned form = 1 + r.below(2);
  emit_case(r, id, kd < 6 ? 0 : kd < 10 ? 1 : kd < 13 ? 2 : kd < 16 ? 3 : kd < 19 ? 4 : 5, kind, R, form);
  return 1;
}

// ---- replay: rebuild the pointsets of a recorded case from its constraints() lines -----------
static Constraint_System parse_cs(std::istringstream& in, dimension_type d) {
  Constraint_System cs;
  if (d > 0) cs.insert(0 * Variable(d - 1) >= -1);
  long m = 0; in >> m;
  for (long i = 0; i < m; ++i) {
    std::string rel; in >> rel;
    mpz_class k; in >> k;
    Linear_Expression e; e += Coefficient(k);
    for (dimension_type j = 0; j < d; ++j) { mpz_class a; in >> a; e += Coefficient(a) * Variable(j); }
    if (rel == "=") cs.insert(e == 0); else if (rel == ">") cs.insert(e > 0); else cs.insert(e >= 0);
  }
  return cs;
}

template <class P> static void replay_kind(int form, dimension_type n, const Constraint_System& r,
                                           const Constraint_System& b, const Constraint_System& a) {
  const dimension_type d = 2 * n;
  if (form == 1) { P p(d); p.refine_with_constraints(r); run_form1(p, n); }
  else { P pb(n); pb.refine_with_constraints(b); P pa(d); pa.refine_with_constraints(a); run_form2(pb, pa, n); }
}

static int replay_file(const char* path) {
  FILE* f = fopen(path, "r");
  if (!f) { perror(path); return 2; }
  std::string kind, tmpl; int form = 1; dimension_type n = 0; long id = 0;
  Constraint_System r, b, a;
  char buf[1 << 16];
  while (fgets(buf, sizeof buf, f)) {
    std::istringstream in(buf);
    std::string tag; in >> tag;
    if (tag == "case") { in >> id >> kind >> form >> n >> tmpl; }
    else if (tag == "R0") r = parse_cs(in, 2 * n);
    else if (tag == "B0") b = parse_cs(in, n);
    else if (tag == "A0") a = parse_cs(in, 2 * n);
  }
  fclose(f);
  { OS o; o << "case " << id << " " << kind << " " << form << " " << n << " " << tmpl; J.line(o.str()); }
  try {
    if (kind == "C") replay_kind<C_Polyhedron>(form, n, r, b, a);
    else if (kind == "NNC") replay_kind<NNC_Polyhedron>(form, n, r, b, a);
    else if (kind == "BDS") replay_kind<BDS>(form, n, r, b, a);
    else if (kind == "OS") replay_kind<OSH>(form, n, r, b, a);
    else if (kind == "BOX") replay_kind<Rational_Box>(form, n, r, b, a);
    else replay_kind<Grid>(form, n, r, b, a);
  } catch (...) { J.line(std::string("x build ") + pplv::exc_class()); }
  J.line("end");
  return 0;
}

int main(int argc, char** argv) {
  const char* rp = pplv::arg_str(argc, argv, "--replay-file", 0);
  if (rp) return replay_file(rp);
  long seed = pplv::arg_long(argc, argv, "--seed", 1);
  long first = pplv::arg_long(argc, argv, "--first", 0);
  long last = pplv::arg_long(argc, argv, "--last", 10);
  long per = pplv::arg_long(argc, argv, "--per", 20);
  long maxn = pplv::arg_long(argc, argv, "--maxn", 2);
  long cpu = pplv::arg_long(argc, argv, "--cpu", 60);
  return pplv::run_batches(first, last, [&](long b) {
    // splitmix64 streams of nearby seeds are the same stream shifted: keep batches 2^20 steps apart
    Rng r(((uint64_t)seed << 40) + ((uint64_t)b << 20));
    long id = b * per * 2;
    for (long k = 0; k < per; ++k) id += one_case(r, id, (dimension_type)maxn);
  }, (int)cpu);
}
