// C03/C04 harness: seeded histories over a pool of weakly-relational shapes (Box / BD_Shape /
// Octagonal_Shape over every coefficient type), every argument and every result journalled
// through constraints() / minimized_constraints() with bounds as exact rationals.
// Grammar of the journal: see lean/Driver/WR.lean (pplv_wr).
//   c04_shapes --type bds_mpq --seed S --first A --last B --len L --maxdim D [--batch N]
// One source, several translation units: -DPPLV_TU=k selects the instantiations compiled in.
#include "ppl.hh"
#include "interfaced_boxes.hh"
#include "common.hh"
#include "poly_io.hh"
#include <memory>
#include <limits>
#include <type_traits>
#include <sys/mman.h>
#include <cfenv>

using namespace Parma_Polyhedra_Library;
using pplv::Rng;
using namespace pplv_io;

static pplv::Journal J(1);

// ---- the Box instantiations of tests/ppl_test.hh (typedefs copied) ---------------------------
struct Floating_Real_Open_Interval_Info_Policy {
  const_bool_nodef(store_special, false);
  const_bool_nodef(store_open, true);
  const_bool_nodef(cache_empty, true);
  const_bool_nodef(cache_singleton, true);
  const_bool_nodef(cache_normalized, false);
  const_int_nodef(next_bit, 0);
  const_bool_nodef(may_be_empty, true);
  const_bool_nodef(may_contain_infinity, false);
  const_bool_nodef(check_empty_result, false);
  const_bool_nodef(check_inexact, false);
};
typedef Interval_Info_Bitset<unsigned int, Floating_Real_Open_Interval_Info_Policy> Floating_Real_Open_Interval_Info;
typedef Interval<float, Floating_Real_Open_Interval_Info> fl_r_oc;
typedef Interval<double, Floating_Real_Open_Interval_Info> db_r_oc;
typedef Interval<long double, Floating_Real_Open_Interval_Info> ld_r_oc;
struct Rational_Real_Open_Interval_Info_Policy {
  const_bool_nodef(store_special, true);
  const_bool_nodef(store_open, true);
  const_bool_nodef(cache_empty, true);
  const_bool_nodef(cache_singleton, true);
  const_bool_nodef(cache_normalized, false);
  const_int_nodef(next_bit, 0);
  const_bool_nodef(may_be_empty, true);
  const_bool_nodef(may_contain_infinity, false);
  const_bool_nodef(check_empty_result, false);
  const_bool_nodef(check_inexact, false);
};
typedef Interval_Info_Bitset<unsigned int, Rational_Real_Open_Interval_Info_Policy> Rational_Real_Open_Interval_Info;
typedef Interval<mpq_class, Rational_Real_Open_Interval_Info> rt_r_oc;

// ---- traits ----------------------------------------------------------------------------------
template <typename B> struct Lim {   // magnitude of the largest finite bound of the base type, as an integer
  static void get(mpz_class& hi, bool& is_float, bool& is_int, bool& is_unsigned) {
    is_float = std::is_floating_point<B>::value; is_int = std::is_integral<B>::value;
    is_unsigned = std::is_unsigned<B>::value;
    if (is_int) {
      // (uint64_t does not fit a long: go through a string)
      std::ostringstream s;
      if (std::is_signed<B>::value) s << (long long)std::numeric_limits<B>::max(); else s << (unsigned long long)std::numeric_limits<B>::max();
      hi = mpz_class(s.str());
    }
    else { mpq_class q; assign_r(q, std::numeric_limits<B>::max(), ROUND_NOT_NEEDED); hi = q.get_num() / q.get_den(); }
  }
};
template <> struct Lim<mpq_class> { static void get(mpz_class& hi, bool& f, bool& i, bool& u) { f = i = u = false; hi = 0; } };
template <> struct Lim<mpz_class> { static void get(mpz_class& hi, bool& f, bool& i, bool& u) { f = u = false; i = true; hi = 0; } };

template <typename S> struct Tr;
template <typename T> struct Tr<BD_Shape<T> > { enum { kind = 1, open = 0 }; typedef T base; };
template <typename T> struct Tr<Octagonal_Shape<T> > { enum { kind = 2, open = 0 }; typedef T base; };
template <typename I> struct Tr<Box<I> > { enum { kind = 0, open = I::info_type::store_open ? 1 : 0 }; typedef typename I::boundary_type base; };

static const char* kind_name(int k) { return k == 0 ? "box" : k == 1 ? "bds" : "oct"; }
static const char* cplx_name(Complexity_Class c) { return c == POLYNOMIAL_COMPLEXITY ? "poly" : c == SIMPLEX_COMPLEXITY ? "simplex" : "any"; }

// ---- random data in the shape of a domain -----------------------------------------------------
struct Profile {
  mpz_class hi; bool is_float, is_int, is_unsigned;
  bool limits;          // this history places bounds (and denominators) at / beyond the finite range of T
  mpz_class big_den;    // a denominator that T cannot represent exactly (0: none)
  Profile() : hi(0), is_float(false), is_int(false), is_unsigned(false), limits(false), big_den(0) {}
};

// a numerator for a bound `num/den`
static Coefficient rnd_bound(Rng& r, const Profile& pf, long den) {
  unsigned k = r.below(24);
  if (k < 15 || pf.hi == 0 && k < 22 || (pf.hi != 0 && !pf.limits)) {
    // (bounded T outside a limit history: moderate magnitudes only, far from the range limit)
    if (pf.hi != 0 && k >= 15 && pf.hi > 100000) return Coefficient(r.range(-3000, 3000));
    return Coefficient(r.range(-6, 6));
  }
  if (pf.hi == 0) {   // unbounded types: occasionally very large
    Coefficient c = r.range(-9, 9); c *= 1000003; c *= 998244353; c *= 1000000007; c *= 1000000009; return c;
  }
  Coefficient h = pf.hi;
  switch (r.below(9)) {
    case 0: return h * den - den;            // max - 1
    case 1: return h * den;                  // max
    case 2: return -(h * den) + 2 * den;     // min + 2 (the native minimum is -max-1, extended numbers use it for NaN/-inf)
    case 3: return -(h * den);
    case 4: return h * den + den;            // max + 1
    case 5: return h / 2 * den + den;        // two of these overflow when added
    case 6: return -(h / 2 * den) - den;
    case 7: return 2 * h * den;              // beyond the range
    default: return h * den - r.range(0, 3);
  }
}
static long rnd_den(Rng& r, const Profile& pf) {
  // floating-point bounds: non-representable rationals most of the time, so that every rounding matters
  if (pf.is_float && r.chance(1, 2)) { static const long d[] = {3, 5, 7, 10, 3, 6}; return d[r.below(6)]; }
  unsigned k = r.below(10);
  if (k < 6) return 1;
  if (k < 8) return 2;
  if (k < 9) return 3;             // non-representable in binary floating point
  return r.range(4, 7);
}

// a constraint of the domain `kind` (0 interval, 1 bounded difference, 2 octagonal)
static Constraint tmpl_con(Rng& r, dimension_type n, int kind, bool allow_strict, const Profile& pf) {
  long d = rnd_den(r, pf);
  Coefficient b = rnd_bound(r, pf, d);
  Linear_Expression e;
  if (n > 0) e += 0 * Variable(n - 1);
  if (n > 0) {
    dimension_type i = r.below(n), j = r.below(n);
    int shape = (kind == 0 || i == j) ? 0 : (int)r.below(kind == 1 ? 3 : 4);  // 0,1: one variable
    long si = r.chance(1, 2) ? 1 : -1, sj = r.chance(1, 2) ? 1 : -1;
    if (shape <= 1) e += Coefficient(si * d) * Variable(i);
    else if (kind == 1) { e += Coefficient(si * d) * Variable(i); e -= Coefficient(si * d) * Variable(j); }
    else { e += Coefficient(si * d) * Variable(i); e += Coefficient(sj * d) * Variable(j); }
  }
  unsigned k = r.below(20);
  if (k < 3) return e == b;
  if (allow_strict && k < 7) return e < b;
  return e <= b;
}
static Constraint_System tmpl_cs(Rng& r, dimension_type n, int kind, bool allow_strict, unsigned maxm, const Profile& pf) {
  Constraint_System cs;
  if (n > 0) cs.insert(0 * Variable(n - 1) >= -1);
  unsigned m = r.below(maxm + 1);
  for (unsigned i = 0; i < m; ++i) cs.insert(tmpl_con(r, n, kind, allow_strict, pf));
  return cs;
}
// a general constraint with small coefficients
static Constraint gen_con(Rng& r, dimension_type n, bool allow_strict, const Profile& pf) {
  Linear_Expression e = rnd_expr(r, n, 3, false);
  if (r.chance(1, 6)) e += rnd_bound(r, pf, 1);
  unsigned k = r.below(20);
  if (k < 3) return e == 0;
  if (allow_strict && k < 7) return e > 0;
  return e >= 0;
}
static void put_cg(OS& o, const Congruence& cg, dimension_type n) {
  o << " " << cg.modulus() << " " << cg.inhomogeneous_term();
  for (dimension_type i = 0; i < n; ++i) o << " " << (i < cg.space_dimension() ? cg.coefficient(Variable(i)) : Coefficient(0));
}

template <typename S>
struct Run {
  enum { K = Tr<S>::kind, OPEN = Tr<S>::open };
  Rng r;
  std::unique_ptr<S> slot[4];
  dimension_type maxdim;
  Profile pf;
  const char* tname;
  Run(uint64_t seed, const char* tn) : r(seed), tname(tn) {
    Lim<typename Tr<S>::base>::get(pf.hi, pf.is_float, pf.is_int, pf.is_unsigned);
    if (pf.hi != 0) {
      if (pf.is_float) {   // 2^p + 1 with p the precision of T
        int p = std::numeric_limits<typename std::conditional<std::is_floating_point<typename Tr<S>::base>::value, typename Tr<S>::base, double>::type>::digits;
        pf.big_den = 1; pf.big_den <<= p; pf.big_den += 1;
      }
      else pf.big_den = pf.hi + 73;
    }
  }
  // operators whose behaviour at the range limit of a floating-point T is understood (comparisons, min/max,
  // closure sums): the only ones applied in a limit history of a floating-point instantiation
  bool float_limit_ok(unsigned k) const {
    switch (k) { case 0: case 1: case 5: case 6: case 7: case 8: case 9: case 10: case 11: case 14: case 29: case 30: case 31: case 32:
      case 33: case 34: case 35: case 36: case 37: case 40: case 41: case 42: case 43: case 44: case 45: return true; default: return false; }
  }

  bool live(int s) const { return (bool)slot[s]; }
  dimension_type dim(int s) { return slot[s]->space_dimension(); }
  int pick_live() { int c[4], k = 0; for (int i = 0; i < 4; ++i) if (live(i)) c[k++] = i; return c[r.below(k)]; }
  int pick_compatible(int s) {
    int c[4], k = 0;
    for (int i = 0; i < 4; ++i) if (live(i) && dim(i) == dim(s)) c[k++] = i;
    return c[r.below(k)];
  }

  // ---- reports ---------------------------------------------------------------------------------
  // the class invariant is broken: report it and replace the object (anything computed from it would
  // only repeat the same defect)
  bool check_ok(int s) {
    bool ok = true;
    try { ok = slot[s]->OK(); } catch (...) { ok = false; }
    if (ok) return false;
    dimension_type n = dim(s);
    { OS o; o << "note okfalse slot " << s; J.line(o.str()); }
    { OS o; bool thrown = false; try { slot[s]->ascii_dump(o); } catch (...) { thrown = true; }
      if (thrown || o.str().find("nan") != std::string::npos) { OS l; l << "note nan slot " << s; J.line(l.str()); } }
    { OS o; o << "reset " << s << " " << n; J.line(o.str()); }
    slot[s].reset(new S(n, UNIVERSE));
    return true;
  }
  void status_line(int s) {
    OS o;
    try { slot[s]->ascii_dump(o); } catch (...) { OS l; l << "st " << s << " +DUMP_THROWS"; J.line(l.str()); return; }
    std::string t = o.str(); size_t b = 0, a = t.find('\n');
    while (a != std::string::npos && t[b] != '-' && t[b] != '+') { b = a + 1; a = t.find('\n', b); }
    OS l; l << "st " << s << " " << t.substr(b, a == std::string::npos ? a : a - b);
    J.line(l.str());
  }
  // For an inexact T the shortest-path reduction of a BD shape can flag as redundant a constraint that the rounded
  // closure does not imply, so that constraints() of a shape marked reduced (= minimized_constraints()) is a weaker
  // reading than the matrix the operators work on.  The matrix itself is read from a copy whose reduced flag has
  // been cleared by adding and removing a space dimension (the copy is closed already: nothing else changes).
  Constraint_System full_constraints(const S& x) {
    if (K == 1 && !std::is_same<typename Tr<S>::base, mpq_class>::value) {
      OS d; x.ascii_dump(d);
      if (d.str().find("+SPR") != std::string::npos) {
        S c(x); dimension_type n = c.space_dimension();
        c.add_space_dimensions_and_embed(1); c.remove_higher_space_dimensions(n);
        return c.constraints();
      }
    }
    return x.constraints();
  }
  // the set as the library reports it now; constraints() is const and does not touch the lazy state
  void arg(int s) {
    OS o; dimension_type n = dim(s);
    o << "arg " << s << " " << n << " cons"; put_cs(o, full_constraints(*slot[s]), n);
    J.line(o.str());
    status_line(s);     // the lazy state at this very moment (an operand of a const method may have been closed meanwhile)
  }
  // The library sets the FPU rounding direction to upward at initialization and relies on it in all floating-point
  // bound arithmetic: an operation that leaves it changed makes every later result unreliable.
  void check_rounding_mode() {
    int m = fegetround();
    if (m != FE_UPWARD) {
      OS o; o << "note rounding-mode " << (m == FE_DOWNWARD ? "downward" : m == FE_TONEAREST ? "to-nearest" : m == FE_TOWARDZERO ? "toward-zero" : "other");
      J.line(o.str());
      fesetround(FE_UPWARD);
    }
  }
  void res(int s) {
    check_rounding_mode();
    dimension_type n = dim(s);
    try { OS o; o << "res " << s << " " << n << " cons"; put_cs(o, full_constraints(*slot[s]), n); J.line(o.str()); }
    catch (...) {
      // constraints() throws on a Not-a-Number bound
      { OS o; o << "note nan slot " << s; J.line(o.str()); }
      { OS o; o << "reset " << s << " " << n; J.line(o.str()); }
      slot[s].reset(new S(n, UNIVERSE));
      return;
    }
    if (check_ok(s)) return;
    { S c(*slot[s]); OS o; o << "res " << s << " " << n << " mcons"; put_cs(o, c.minimized_constraints(), n); J.line(o.str()); }
    if (K == 0) {   // Polyhedron(Topology, const Box&) builds from the intervals directly: a third reading
      OS o; o << "res " << s << " " << n << " poly";
      S c(*slot[s]);    // (the conversion asks the box whether it is empty, which would cache the answer in the original)
      if (OPEN) { NNC_Polyhedron ph(c); put_cs(o, ph.constraints(), n); }
      else { C_Polyhedron ph(c); put_cs(o, ph.constraints(), n); }
      J.line(o.str());
    }
    status_line(s);
  }

  // ---- queries ---------------------------------------------------------------------------------
  template <typename Q> void box_bound_query(OS& o, const Q& q, dimension_type n, std::true_type) {
    // (has_lower_bound / has_upper_bound require a box that is not marked empty)
    { Q c(q); if (c.is_empty()) { o << "is_empty " << q.is_empty(); return; } }
    dimension_type v = r.below(n); bool up = r.chance(1, 2);
    Coefficient num, den; bool closed = false;
    bool has = up ? q.has_upper_bound(Variable(v), num, den, closed) : q.has_lower_bound(Variable(v), num, den, closed);
    o << (up ? "has_ub " : "has_lb ") << v;
    if (!has) o << " none"; else o << " " << num << " " << den << " " << closed;
  }
  template <typename Q> void box_bound_query(OS& o, const Q& q, dimension_type n, std::false_type) {
    o << "is_empty " << q.is_empty();
  }
  void query(int s, const S& q) {
    OS o; dimension_type n = q.space_dimension();
    o << "q " << s << " ";
    switch (r.below(19)) {
      case 0: o << "is_empty " << q.is_empty(); break;
      case 1: o << "is_universe " << q.is_universe(); break;
      case 2: o << "is_bounded " << q.is_bounded(); break;
      case 3: o << "is_closed " << q.is_topologically_closed(); break;
      case 4: { int t = pick_compatible(s); arg(t); o << "contains " << t << " " << q.contains(*slot[t]); break; }
      case 5: { int t = pick_compatible(s); arg(t); o << "strictly_contains " << t << " " << q.strictly_contains(*slot[t]); break; }
      case 6: case 16: { int t = pick_compatible(s); arg(t); o << "disjoint " << t << " " << q.is_disjoint_from(*slot[t]); break; }
      case 7: { int t = pick_compatible(s); arg(t); o << "equals " << t << " " << (q == *slot[t]) << " " << (q != *slot[t]); break; }
      case 8: { if (n == 0) { o << "is_empty " << q.is_empty(); break; }
                dimension_type v = r.below(n); o << "constrains " << v << " " << q.constrains(Variable(v)); break; }
      case 9: o << "affdim " << q.affine_dimension(); break;
      case 10: case 11: {
        Constraint c = r.chance(1, 2) ? tmpl_con(r, n, K == 0 ? 0 : K, true, pf) : gen_con(r, n, true, pf);
        o << "relcon"; put_con(o, c, n);
        Poly_Con_Relation rel = q.relation_with(c);
        o << " " << rel.implies(Poly_Con_Relation::is_disjoint()) << " " << rel.implies(Poly_Con_Relation::strictly_intersects())
          << " " << rel.implies(Poly_Con_Relation::is_included()) << " " << rel.implies(Poly_Con_Relation::saturates());
        break; }
      case 12: {
        Generator g = rnd_gen(r, n, OPEN, false);
        o << "relgen"; put_gen(o, g, n);
        Poly_Gen_Relation rel = q.relation_with(g);
        o << " " << rel.implies(Poly_Gen_Relation::subsumes());
        break; }
      case 13: { Linear_Expression e = r.chance(1, 2) ? rnd_expr(r, n, 3, false) : Linear_Expression(tmpl_con(r, n, K, false, pf).expression());
        bool up = r.chance(1, 2);
        o << (up ? "bounds_above" : "bounds_below"); put_expr(o, e, n);
        o << " " << (up ? q.bounds_from_above(e) : q.bounds_from_below(e)); break; }
      case 14: {
        Linear_Expression e = rnd_expr(r, n, 2, false);
        Coefficient m = r.range(0, 3);
        Congruence cg = (e %= 0) / m;
        o << "relcg"; put_cg(o, cg, n);
        Poly_Con_Relation rel = q.relation_with(cg);
        o << " " << rel.implies(Poly_Con_Relation::is_disjoint()) << " " << rel.implies(Poly_Con_Relation::strictly_intersects())
          << " " << rel.implies(Poly_Con_Relation::is_included()) << " " << rel.implies(Poly_Con_Relation::saturates());
        break; }
      case 15: { if (n == 0) { o << "is_empty " << q.is_empty(); break; }
        box_bound_query(o, q, n, std::integral_constant<bool, K == 0>()); break; }
      default: {
        Linear_Expression e = r.chance(1, 2) ? rnd_expr(r, n, 3, false) : Linear_Expression(tmpl_con(r, n, K, false, pf).expression());
        bool mx = r.chance(1, 2);
        Coefficient num, den; bool incl; Generator g = point();
        bool with_point = r.chance(2, 3);
        bool ok = with_point ? (mx ? q.maximize(e, num, den, incl, g) : q.minimize(e, num, den, incl, g))
                             : (mx ? q.maximize(e, num, den, incl) : q.minimize(e, num, den, incl));
        o << (mx ? "max" : "min") << (with_point ? "p" : ""); put_expr(o, e, n);
        if (!ok) o << " none";
        else { o << " " << num << " " << den << " " << incl; if (with_point) put_gen(o, g, n); }
        break; }
    }
    J.line(o.str());
  }
  void observe(int s) {
    arg(s);
    bool on_copy = r.chance(2, 5);
    std::unique_ptr<S> cp;
    const S* q = slot[s].get();
    if (on_copy) { cp.reset(new S(*slot[s])); q = cp.get(); }
    unsigned k = 1 + r.below(3);
    for (unsigned i = 0; i < k; ++i) {
      unsigned w = r.below(8);
      dimension_type n = q->space_dimension();
      if (w == 0) { OS o; o << "obs " << s << " " << n << " cons"; put_cs(o, q->constraints(), n); J.line(o.str()); }
      else if (w == 1) { OS o; o << "obs " << s << " " << n << " mcons"; put_cs(o, q->minimized_constraints(), n); J.line(o.str()); }
      else query(s, *q);
    }
    status_line(s);
    check_rounding_mode();
    if (!on_copy) check_ok(s);
  }

  // ---- creation ----------------------------------------------------------------------------------
  Complexity_Class rnd_cplx() { unsigned k = r.below(4); return k == 0 ? POLYNOMIAL_COMPLEXITY : k == 1 ? SIMPLEX_COMPLEXITY : ANY_COMPLEXITY; }

  void create(int s, dimension_type n) {
    OS o; o << "new " << s << " " << n << " ";
    unsigned k = r.below(20);
    // (limit history of a floating-point T: constructors from constraint systems only, see float_limit_ok)
    if (pf.limits && pf.is_float && k >= 10) { OS q; q << "note limit-skip-ctor " << k; J.line(q.str()); k = 2 + r.below(8); }
    if (k == 0) { o << "univ"; J.line(o.str()); slot[s].reset(new S(n, UNIVERSE)); }
    else if (k == 1) { o << "empty"; J.line(o.str()); slot[s].reset(new S(n, EMPTY)); }
    else if (k < 10) {
      Constraint_System cs = tmpl_cs(r, n, K, OPEN, 5, pf);
      o << "cons"; put_cs(o, cs, n); J.line(o.str());
      if (r.chance(1, 4)) { slot[s].reset(new S(n, UNIVERSE)); slot[s]->add_constraints(cs); }
      else {
        slot[s].reset(new S(cs));
        if (slot[s]->space_dimension() < n) slot[s]->add_space_dimensions_and_embed(n - slot[s]->space_dimension());
      }
    }
    else if (k < 12) {
      Generator_System gs = rnd_gs(r, n, OPEN, n <= 2 ? 5 : 4);
      o << "gens"; put_gs(o, gs, n); J.line(o.str());
      slot[s].reset(new S(gs));
      if (slot[s]->space_dimension() < n) slot[s]->add_space_dimensions_and_embed(n - slot[s]->space_dimension());
    }
    else if (k < 15) {   // from a polyhedron
      bool nnc = r.chance(1, 3);
      Constraint_System cs = rnd_cs(r, n, nnc, 4, false);
      if (r.chance(1, 2)) { Constraint_System t = tmpl_cs(r, n, 2, nnc, 3, pf); for (Constraint_System::const_iterator i = t.begin(); i != t.end(); ++i) cs.insert(*i); }
      Complexity_Class c = rnd_cplx();
      unsigned prep = r.below(4);
      o << "poly " << (nnc ? "N " : "C ") << cplx_name(c) << " " << prep; put_cs(o, cs, n); J.line(o.str());
      std::unique_ptr<Polyhedron> ph(nnc ? (Polyhedron*)new NNC_Polyhedron(cs) : (Polyhedron*)new C_Polyhedron(cs));
      if (ph->space_dimension() < n) ph->add_space_dimensions_and_embed(n - ph->space_dimension());
      if (prep == 1) (void)ph->minimized_generators(); else if (prep == 2) (void)ph->is_empty(); else if (prep == 3) (void)ph->minimized_constraints();
      slot[s].reset(new S(*ph, c));
    }
    else if (k < 16) {   // from a grid given by generators: the convex hull of a grid is its affine hull
      Grid_Generator_System ggs; Linear_Expression pe; if (n > 0) pe += 0 * Variable(n - 1);
      for (dimension_type i = 0; i < n; ++i) pe += Coefficient(small(r, 4)) * Variable(i);
      Coefficient pd = r.chance(1, 3) ? 2 : 1;
      OS g; unsigned m = r.below(3), cnt = 1;
      g << " p " << pd; for (dimension_type i = 0; i < n; ++i) g << " " << pe.coefficient(Variable(i));
      ggs.insert(grid_point(pe, pd));
      for (unsigned t = 0; t < m; ++t) {
        Linear_Expression le; if (n > 0) le += 0 * Variable(n - 1);
        for (dimension_type i = 0; i < n; ++i) le += Coefficient(small(r, 2)) * Variable(i);
        if (all_zero(le, n)) continue;
        ++cnt; g << " l 1"; for (dimension_type i = 0; i < n; ++i) g << " " << le.coefficient(Variable(i));
        if (r.chance(1, 2)) ggs.insert(grid_line(le)); else ggs.insert(parameter(le, r.range(1, 2)));
      }
      Complexity_Class c = rnd_cplx();
      o << "grid " << cplx_name(c) << " " << cnt << g.str(); J.line(o.str());
      Grid gr(ggs);
      if (gr.space_dimension() < n) gr.add_space_dimensions_and_embed(n - gr.space_dimension());
      slot[s].reset(new S(gr, c));
    }
    else {   // from another weakly-relational domain over the rationals
      unsigned src = r.below(3);
      Complexity_Class c = rnd_cplx();
      Profile q;
      const Profile& sp = r.chance(1, 2) ? pf : q;    // bounds near the limits of the *target* type
      Constraint_System cs = tmpl_cs(r, n, src, src == 0, 5, sp);
      unsigned prep = r.below(3);
      o << "from " << kind_name(src) << " " << cplx_name(c);
      if (src == 0) { Rational_Box b(cs); if (b.space_dimension() < n) b.add_space_dimensions_and_embed(n - b.space_dimension());
        if (prep == 1) (void)b.is_empty();
        put_cs(o, b.constraints(), n); J.line(o.str()); slot[s].reset(new S(b, c)); }
      else if (src == 1) { BD_Shape<mpq_class> b(cs); if (b.space_dimension() < n) b.add_space_dimensions_and_embed(n - b.space_dimension());
        if (prep == 1) (void)b.is_empty(); else if (prep == 2) (void)b.minimized_constraints();
        put_cs(o, b.constraints(), n); J.line(o.str()); slot[s].reset(new S(b, c)); }
      else { Octagonal_Shape<mpq_class> b(cs); if (b.space_dimension() < n) b.add_space_dimensions_and_embed(n - b.space_dimension());
        if (prep == 1) (void)b.is_empty(); else if (prep == 2) (void)b.minimized_constraints();
        put_cs(o, b.constraints(), n); J.line(o.str()); slot[s].reset(new S(b, c)); }
    }
    res(s);
  }

  // two shapes whose intersection is empty only through a cycle alternating between them
  void create_alt_cycle(int a, int b, dimension_type n) {
    if (n < 2) { create(a, n); create(b, n); return; }
    // nodes: variables 0..n-1 and (with some probability) the constant 0 as node n
    std::vector<int> nodes; for (dimension_type i = 0; i < n; ++i) nodes.push_back((int)i);
    if (K == 0 || r.chance(2, 3)) nodes.push_back(-1);
    for (size_t i = nodes.size(); i > 1; --i) std::swap(nodes[i - 1], nodes[r.below(i)]);
    size_t len = nodes.size() & ~(size_t)1; if (len > 4 && r.chance(1, 2)) len = 4;
    if (len < 2) { create(a, n); create(b, n); return; }
    Constraint_System ca, cb; ca.insert(0 * Variable(n - 1) >= -1); cb.insert(0 * Variable(n - 1) >= -1);
    long total = r.chance(3, 4) ? -1 - (long)r.below(3) : (long)r.below(2);   // negative: empty intersection
    for (size_t i = 0; i < len; ++i) {
      int u = nodes[i], v = nodes[(i + 1) % len];
      long w = (i + 1 == len) ? total : r.range(-3, 3); if (i + 1 != len) total -= w;
      Linear_Expression e; e += 0 * Variable(n - 1);
      if (u >= 0) e += Variable(u); if (v >= 0) e -= Variable(v);
      if (K == 2 && r.chance(1, 3) && u >= 0 && v >= 0) { /* keep differences: sums are found by the random search */ }
      ((i & 1) ? cb : ca).insert(e <= w);
    }
    if (K == 0) { create(a, n); create(b, n); return; }
    { OS o; o << "new " << a << " " << n << " cons"; put_cs(o, ca, n); J.line(o.str()); slot[a].reset(new S(ca));
      if (slot[a]->space_dimension() < n) slot[a]->add_space_dimensions_and_embed(n - slot[a]->space_dimension()); res(a); }
    { OS o; o << "new " << b << " " << n << " cons"; put_cs(o, cb, n); J.line(o.str()); slot[b].reset(new S(cb));
      if (slot[b]->space_dimension() < n) slot[b]->add_space_dimensions_and_embed(n - slot[b]->space_dimension()); res(b); }
    // drive the closure state of either side at random, then ask
    if (r.chance(1, 2)) (void)slot[a]->is_empty();
    if (r.chance(1, 2)) (void)slot[b]->minimized_constraints();
    arg(a); arg(b);
    { OS o; o << "q " << a << " disjoint " << b << " " << slot[a]->is_disjoint_from(*slot[b]); J.line(o.str()); }
  }

  // ---- empty operands in every lazy state ---------------------------------------------------------------------
  // A constraint system that is unsatisfiable because of one variable (box: crossing bounds; BD shapes / octagons:
  // a negative cycle that only the closure finds), the other variables unconstrained or with wide bounds sticking
  // out of any ordinary operand.
  Constraint_System contradictory_cs(dimension_type n) {
    Constraint_System cs; cs.insert(0 * Variable(n - 1) >= -1);
    dimension_type i = r.below(n);
    long a = r.range(-4, 4);
    unsigned how = r.below(K == 0 ? 2 : (n >= 2 ? (K == 1 ? 4 : 5) : 2));
    if (how == 0) { cs.insert(Variable(i) >= a + 1 + (long)r.below(3)); cs.insert(Variable(i) <= a); }
    else if (how == 1) {
      if (OPEN) { cs.insert(Variable(i) > a); cs.insert(Variable(i) < a); }
      else { cs.insert(2 * Variable(i) >= 2 * a + 1); cs.insert(2 * Variable(i) <= 2 * a - 1); }
    }
    else {
      dimension_type j = (i + 1 + r.below(n - 1)) % n;
      if (how == 2) { cs.insert(Variable(i) - Variable(j) <= -1); cs.insert(Variable(j) - Variable(i) <= 0); }
      else if (how == 3) {     // a cycle through the zero node: x_i <= a, x_j - x_i <= 0, x_j >= a + 1
        cs.insert(Variable(i) <= a); cs.insert(Variable(j) - Variable(i) <= 0); cs.insert(Variable(j) >= a + 1); }
      else { cs.insert(Variable(i) + Variable(j) <= a); cs.insert(-Variable(i) - Variable(j) <= -a - 1); }
    }
    for (dimension_type k = 0; k < n; ++k) if (k != i && r.chance(1, 2)) {
      if (r.chance(1, 2)) cs.insert(Variable(k) <= 100 + (long)r.below(50)); else cs.insert(Variable(k) >= -100 - (long)r.below(50));
    }
    return cs;
  }
  // slot e := an empty element in one of three lazy states: 0 emptiness not detected, 1 detected (cached), 2 built EMPTY
  void make_empty_operand(int e, dimension_type n, const Constraint_System& cs, unsigned state) {
    if (state == 2) { OS o; o << "new " << e << " " << n << " empty"; J.line(o.str()); slot[e].reset(new S(n, EMPTY)); res(e); return; }
    { OS o; o << "new " << e << " " << n << " cons"; put_cs(o, cs, n); J.line(o.str()); }
    slot[e].reset(new S(n, UNIVERSE)); slot[e]->add_constraints(cs); res(e);
    if (state == 1) { arg(e); OS o; o << "q " << e << " is_empty " << slot[e]->is_empty(); J.line(o.str()); status_line(e); }
  }
  void binary_query(int s, int t, unsigned which) {
    arg(s); arg(t);
    OS o; o << "q " << s << " ";
    const S& q = *slot[s]; const S& y = *slot[t];
    switch (which) {
      case 0: o << "contains " << t << " " << q.contains(y); break;
      case 1: o << "strictly_contains " << t << " " << q.strictly_contains(y); break;
      case 2: o << "disjoint " << t << " " << q.is_disjoint_from(y); break;
      default: o << "equals " << t << " " << (q == y) << " " << (q != y); break;
    }
    J.line(o.str());
  }
  void binary_op(int s, int t, unsigned which) {
    S& P = *slot[s];
    static const char* nm[] = {"meet", "join", "diff", "join_if_exact", "concat", "time_elapse"};
    if (which == 4 && dim(s) + dim(t) > maxdim) which = 0;
    if (pf.limits && pf.is_float && (which == 2 || which == 5)) which = 0;    // (see float_limit_ok)
    arg(s); arg(t);
    { OS o; o << "op " << s << " " << nm[which] << " " << t; J.line(o.str()); }
    try {
      switch (which) {
        case 0: P.intersection_assign(*slot[t]); break;
        case 1: P.upper_bound_assign(*slot[t]); break;
        case 2: P.difference_assign(*slot[t]); break;
        case 3: { bool b = P.upper_bound_assign_if_exact(*slot[t]); OS q; q << "ret " << b; J.line(q.str()); break; }
        case 4: { S cp(*slot[t]); P.concatenate_assign(cp); break; }
        default: P.time_elapse_assign(*slot[t]); break;
      }
    } catch (...) { J.line("exc " + pplv::exc_class()); }
    res(s);
  }
  // binary predicates and operators between an ordinary element `s' and an empty one in slot `e', in both roles
  void empty_battery(int s) {
    dimension_type n = dim(s);
    if (n == 0) return;
    int e = (s + 1 + (int)r.below(3)) % 4;
    Constraint_System cs = contradictory_cs(n);
    unsigned reps = 2 + r.below(3);
    for (unsigned i = 0; i < reps; ++i) {
      unsigned state = r.below(5); if (state > 2) state = 0;      // mostly: emptiness not yet detected
      make_empty_operand(e, n, cs, state);
      bool empty_is_receiver = r.chance(1, 2);
      int a = empty_is_receiver ? e : s, b = empty_is_receiver ? s : e;
      if (r.chance(1, 2)) binary_query(a, b, r.below(4));
      else {
        // (the operator changes its receiver: work on a copy of `s' kept in the fourth role when `s' is the receiver)
        if (!empty_is_receiver) { S saved(*slot[s]); binary_op(a, b, r.below(6)); if (dim(s) != n) { OS o; o << "new " << s << " " << n << " cons"; put_cs(o, saved.constraints(), n); J.line(o.str()); slot[s].reset(new S(saved)); res(s); } }
        else binary_op(a, b, r.below(6));
      }
      if (dim(e) != n || dim(s) != n) return;
    }
  }

  Relation_Symbol rnd_rel() {
    static const Relation_Symbol rs[] = {LESS_OR_EQUAL, EQUAL, GREATER_OR_EQUAL, LESS_THAN, GREATER_THAN};
    return rs[r.below(OPEN ? 5 : 3)];
  }
  // an expression whose transfer relation the domain can express, or an arbitrary one
  Linear_Expression img_expr(dimension_type n, dimension_type v, Coefficient& d) {
    d = r.chance(1, 4) ? r.range(-3, -1) : r.range(1, 3);
    // a denominator that T cannot represent: in limit histories, and (floating-point T) now and then elsewhere
    if (pf.big_den != 0 && ((pf.limits && r.chance(1, 4)) || (!pf.limits && pf.is_float && r.chance(1, 10)))) {
      d = pf.big_den; if (r.chance(1, 3)) d = -d;
    }
    unsigned k = r.below(10);
    if (k < 2) { Linear_Expression e; e += 0 * Variable(n - 1); e += Coefficient(r.range(-5, 5)); return e; }      // constant
    if (k < 6) { dimension_type w = r.chance(1, 3) ? v : r.below(n); Linear_Expression e; e += 0 * Variable(n - 1);
      Coefficient a = d; if (K == 2 && r.chance(1, 2)) a = -d; if (r.chance(1, 6)) a *= 2;
      e += a * Variable(w); e += Coefficient(r.chance(1, 8) ? rnd_bound(r, pf, 1) : Coefficient(r.range(-5, 5))); return e; }
    return rnd_expr(r, n, 3, false);
  }

  void mutate() {
    int s = pick_live();
    S& P = *slot[s];
    dimension_type n = P.space_dimension();
    OS o;
    unsigned k = r.below(46);
    if (pf.limits && pf.is_float && !float_limit_ok(k)) {
      // counted in the evidence: operators not yet understood at the range limit of a floating-point T
      OS q; q << "note limit-skip " << k; J.line(q.str());
      return;
    }
    bool reported = false;   // `op` line written
    try {
      switch (k) {
      case 0: case 1: { Constraint_System cs = tmpl_cs(r, n, K, OPEN, 2, pf);
        arg(s); o << "op " << s << " add_cons"; put_cs(o, cs, n); J.line(o.str()); reported = true;
        if (r.chance(1, 2)) P.add_constraints(cs); else for (Constraint_System::const_iterator i = cs.begin(); i != cs.end(); ++i) P.add_constraint(*i);
        break; }
      case 2: case 3: { Constraint_System cs;
        if (n > 0) cs.insert(0 * Variable(n - 1) >= -1);
        unsigned m = 1 + r.below(2);
        for (unsigned i = 0; i < m; ++i) cs.insert(r.chance(1, 3) ? tmpl_con(r, n, 2, true, pf) : gen_con(r, n, true, pf));
        arg(s); o << "op " << s << " refine_cons"; put_cs(o, cs, n); J.line(o.str()); reported = true;
        if (r.chance(1, 2)) P.refine_with_constraints(cs); else for (Constraint_System::const_iterator i = cs.begin(); i != cs.end(); ++i) P.refine_with_constraint(*i);
        break; }
      case 4: { // congruences: equalities of the domain for add_*, anything for refine_*
        bool refine = r.chance(1, 2);
        Congruence_System cgs; OS t; unsigned m = 1 + r.below(2), cnt = 0;
        for (unsigned i = 0; i < m; ++i) {
          if (!refine || r.chance(1, 2)) {
            Constraint c = tmpl_con(r, n, K, false, pf);
            Linear_Expression e(c.expression());
            Congruence cg = (e %= 0) / 0;
            cgs.insert(cg); put_cg(t, cg, n); ++cnt;
          } else {
            Linear_Expression e = rnd_expr(r, n, 2, false);
            Congruence cg = (e %= 0) / Coefficient(r.range(0, 3));
            cgs.insert(cg); put_cg(t, cg, n); ++cnt;
          }
        }
        arg(s); o << "op " << s << (refine ? " refine_cgs " : " add_cgs ") << cnt << t.str(); J.line(o.str()); reported = true;
        if (refine) { if (r.chance(1, 2)) P.refine_with_congruences(cgs); else for (Congruence_System::const_iterator i = cgs.begin(); i != cgs.end(); ++i) P.refine_with_congruence(*i); }
        else { if (r.chance(1, 2)) P.add_congruences(cgs); else for (Congruence_System::const_iterator i = cgs.begin(); i != cgs.end(); ++i) P.add_congruence(*i); }
        break; }
      case 5: case 6: { int t = pick_compatible(s);
        arg(s); arg(t); o << "op " << s << " meet " << t; J.line(o.str()); reported = true;
        P.intersection_assign(*slot[t]); break; }
      case 7: case 8: case 9: { int t = pick_compatible(s);
        arg(s); arg(t); o << "op " << s << " join " << t; J.line(o.str()); reported = true;
        P.upper_bound_assign(*slot[t]); break; }
      case 10: case 11: { int t = pick_compatible(s);
        arg(s); arg(t); o << "op " << s << " join_if_exact " << t; J.line(o.str()); reported = true;
        bool b = P.upper_bound_assign_if_exact(*slot[t]);
        OS q; q << "ret " << b; J.line(q.str()); break; }
      case 12: case 13: { int t = pick_compatible(s);
        arg(s); arg(t); o << "op " << s << " diff " << t; J.line(o.str()); reported = true;
        P.difference_assign(*slot[t]); break; }
      case 14: { int t = pick_live(); if (n + dim(t) > maxdim) return;
        arg(s); arg(t); o << "op " << s << " concat " << t; J.line(o.str()); reported = true;
        S cp(*slot[t]); P.concatenate_assign(cp); break; }
      case 15: { int t = pick_compatible(s);
        arg(s); arg(t); o << "op " << s << " time_elapse " << t; J.line(o.str()); reported = true;
        P.time_elapse_assign(*slot[t]); break; }
      case 16: case 17: case 18: { if (n == 0) return; dimension_type v = r.below(n); Coefficient d;
        Linear_Expression e = img_expr(n, v, d);
        arg(s); o << "op " << s << " aff_img " << v << " " << d; put_expr(o, e, n); J.line(o.str()); reported = true;
        P.affine_image(Variable(v), e, d); break; }
      case 19: case 20: case 21: { if (n == 0) return; dimension_type v = r.below(n); Coefficient d;
        Linear_Expression e = img_expr(n, v, d);
        arg(s); o << "op " << s << " aff_pre " << v << " " << d; put_expr(o, e, n); J.line(o.str()); reported = true;
        P.affine_preimage(Variable(v), e, d); break; }
      case 22: case 23: { if (n == 0) return; dimension_type v = r.below(n); Coefficient d;
        Relation_Symbol rs = rnd_rel();
        Linear_Expression e = img_expr(n, v, d);
        bool img = (k == 22);
        arg(s); o << "op " << s << (img ? " gen_img " : " gen_pre ") << v << " " << relsym_str(rs) << " " << d; put_expr(o, e, n); J.line(o.str()); reported = true;
        if (img) P.generalized_affine_image(Variable(v), rs, e, d); else P.generalized_affine_preimage(Variable(v), rs, e, d);
        break; }
      case 24: case 25: {
        Relation_Symbol rs = rnd_rel();
        Linear_Expression lhs = rnd_expr(r, n, 2, false), rhs = rnd_expr(r, n, 3, false);
        if (n > 0 && r.chance(1, 2)) { lhs = Linear_Expression(); lhs += 0 * Variable(n - 1); lhs += Coefficient(r.range(-2, 2)) * Variable(r.below(n)); lhs += Coefficient(r.range(-2, 2)); }
        bool img = (k == 24);
        arg(s); o << "op " << s << (img ? " gen_img2 " : " gen_pre2 ") << relsym_str(rs); put_expr(o, lhs, n); put_expr(o, rhs, n); J.line(o.str()); reported = true;
        if (img) P.generalized_affine_image(lhs, rs, rhs); else P.generalized_affine_preimage(lhs, rs, rhs);
        break; }
      case 26: case 27: { if (n == 0) return; dimension_type v = r.below(n);
        Linear_Expression lb = rnd_expr(r, n, 3, false), ub = rnd_expr(r, n, 3, false);
        if (r.chance(1, 2)) { lb = Linear_Expression(); lb += 0 * Variable(n - 1); lb += Coefficient(r.range(-4, 4)); }
        if (r.chance(1, 2)) { ub = Linear_Expression(); ub += 0 * Variable(n - 1); ub += Coefficient(r.range(-4, 4)); }
        Coefficient d = r.chance(1, 4) ? r.range(-3, -1) : r.range(1, 3);
        bool img = (k == 26);
        arg(s); o << "op " << s << (img ? " bnd_img " : " bnd_pre ") << v << " " << d; put_expr(o, lb, n); put_expr(o, ub, n); J.line(o.str()); reported = true;
        if (img) P.bounded_affine_image(Variable(v), lb, ub, d); else P.bounded_affine_preimage(Variable(v), lb, ub, d);
        break; }
      case 28: { if (n == 0) return; unsigned cnt = 1 + r.below(2); Variables_Set vs;
        for (unsigned i = 0; i < cnt; ++i) vs.insert(Variable(r.below(n)));
        arg(s); o << "op " << s << " unconstrain " << vs.size();
        for (Variables_Set::const_iterator i = vs.begin(); i != vs.end(); ++i) o << " " << *i;
        J.line(o.str()); reported = true;
        if (vs.size() == 1 && r.chance(1, 2)) P.unconstrain(Variable(*vs.begin())); else P.unconstrain(vs);
        break; }
      case 29: { arg(s); o << "op " << s << " closure"; J.line(o.str()); reported = true; P.topological_closure_assign(); break; }
      case 30: { int d = r.below(4); if (d == s) return;
        o << "copy " << d << " " << s; J.line(o.str());
        slot[d].reset(new S(P)); arg(d); return; }
      case 31: { int d = pick_live(); if (d == s) return;
        o << "swap " << s << " " << d; J.line(o.str());
        P.m_swap(*slot[d]); arg(s); arg(d); return; }
      case 32: { int d = pick_live(); if (d == s) return;
        o << "copy " << d << " " << s; J.line(o.str());
        *slot[d] = P; arg(d); return; }
      case 33: { if (n >= maxdim) return; dimension_type m = 1 + (n + 2 <= maxdim && r.chance(1, 4) ? 1 : 0);
        bool emb = r.chance(1, 2);
        arg(s); o << "op " << s << (emb ? " add_dims_embed " : " add_dims_project ") << m; J.line(o.str()); reported = true;
        if (emb) P.add_space_dimensions_and_embed(m); else P.add_space_dimensions_and_project(m); break; }
      case 34: { if (n == 0) return; Variables_Set vs; vs.insert(Variable(r.below(n)));
        if (r.chance(1, 3)) vs.insert(Variable(r.below(n)));
        arg(s); o << "op " << s << " remove_dims " << vs.size();
        for (Variables_Set::const_iterator i = vs.begin(); i != vs.end(); ++i) o << " " << *i;
        J.line(o.str()); reported = true; P.remove_space_dimensions(vs); break; }
      case 35: { if (n == 0) return; dimension_type m = r.below(n + 1);
        arg(s); o << "op " << s << " remove_higher " << m; J.line(o.str()); reported = true; P.remove_higher_space_dimensions(m); break; }
      case 36: { if (n == 0) return;
        Partial_Function pf_; std::vector<std::pair<dimension_type, dimension_type> > pr;
        dimension_type keep = 0; std::vector<bool> kept(n, false);
        for (dimension_type i = 0; i < n; ++i) if (!r.chance(1, 4)) { kept[i] = true; ++keep; }
        if (keep == 0) { kept[0] = true; keep = 1; }
        std::vector<dimension_type> perm; for (dimension_type i = 0; i < keep; ++i) perm.push_back(i);
        for (dimension_type i = keep; i > 1; --i) std::swap(perm[i - 1], perm[r.below(i)]);
        dimension_type c = 0;
        for (dimension_type i = 0; i < n; ++i) if (kept[i]) { pf_.insert(i, perm[c]); pr.push_back(std::make_pair(i, perm[c])); ++c; }
        arg(s); o << "op " << s << " map_dims " << keep << " " << pr.size();
        for (size_t i = 0; i < pr.size(); ++i) o << " " << pr[i].first << " " << pr[i].second;
        J.line(o.str()); reported = true; P.map_space_dimensions(pf_); break; }
      case 37: { if (n == 0 || n >= maxdim) return; dimension_type v = r.below(n);
        arg(s); o << "op " << s << " expand " << v << " 1"; J.line(o.str()); reported = true;
        P.expand_space_dimension(Variable(v), 1); break; }
      case 38: { if (n < 2) return; dimension_type v = r.below(n); Variables_Set vs;
        unsigned cnt = 1 + r.below(2);
        for (unsigned i = 0; i < cnt; ++i) { dimension_type w = r.below(n); if (w != v) vs.insert(Variable(w)); }
        if (vs.empty() && r.chance(2, 3)) return;
        arg(s); o << "op " << s << " fold " << v << " " << vs.size();
        for (Variables_Set::const_iterator i = vs.begin(); i != vs.end(); ++i) o << " " << *i;
        J.line(o.str()); reported = true; P.fold_space_dimensions(vs, Variable(v)); break; }
      case 39: { int t = pick_compatible(s);
        arg(s); arg(t); o << "op " << s << " simplify_ctx " << t; J.line(o.str()); reported = true;
        bool b = P.simplify_using_context_assign(*slot[t]);
        OS q; q << "ret " << b; J.line(q.str()); break; }
      case 40: { int d = r.below(4); if (live(d) && r.chance(1, 2)) return;
        create(d, n); return; }
      case 41: { // a second route to the same set: rebuild from the reported constraints
        int d = r.below(4); if (d == s) return;
        Constraint_System cs = r.chance(1, 2) ? P.constraints() : P.minimized_constraints();
        o << "new " << d << " " << n << " cons"; put_cs(o, cs, n); J.line(o.str());
        slot[d].reset(new S(n, UNIVERSE)); slot[d]->add_constraints(cs); res(d);
        arg(s); arg(d);
        { OS q; q << "q " << s << " equals " << d << " " << (P == *slot[d]) << " " << (P != *slot[d]); J.line(q.str()); }
        { OS q; q << "q " << s << " contains " << d << " " << P.contains(*slot[d]); J.line(q.str()); }
        { OS q; q << "q " << d << " contains " << s << " " << slot[d]->contains(P); J.line(q.str()); }
        return; }
      case 42: { int a = r.below(4), b = r.below(4); if (a == b) return;
        if (n > maxdim) return;
        create_alt_cycle(a, b, n); return; }
      default: { empty_battery(s); return; }
      }
    } catch (...) {
      J.line("exc " + pplv::exc_class());
    }
    if (reported) res(s);
  }

  void history(long h, long seed, long len, dimension_type md) {
    maxdim = md;
    dimension_type n = r.below((unsigned)std::min<long>(md, 3) + 1);
    if (n < md && r.chance(1, 6)) ++n;
    pf.limits = (pf.hi != 0) && r.chance(1, 4);
    { OS o; o << "hist " << h << " " << seed << " " << kind_name(K) << " " << tname << " " << (OPEN ? 1 : 0) << " lim=" << (pf.limits ? 1 : 0); J.line(o.str()); }
    try { create(0, n); create(1, n); if (r.chance(1, 2)) create(2, n); }
    catch (...) { J.line("exc " + pplv::exc_class()); }
    for (int i = 0; i < 2; ++i) if (!live(i)) { OS o; o << "new " << i << " " << n << " univ"; J.line(o.str()); slot[i].reset(new S(n, UNIVERSE)); res(i); }
    for (long i = 0; i < len; ++i) {
      mutate();
      if (r.chance(3, 5)) { int s = pick_live(); observe(s); }
    }
    for (int s = 0; s < 4; ++s) if (live(s)) observe(s);
    J.line("end");
  }
};

// Batches of histories in forked children; after a crash the parent resumes with the history that
// follows the crashed one (the child publishes its progress in shared memory).
template <typename S>
static int go(const char* tname, long seed, long first, long last, long len, long maxdim, long batch) {
  uint64_t th = 1469598103934665603ull; for (const char* p = tname; *p; ++p) th = (th ^ (unsigned char)*p) * 1099511628211ull;
  volatile long* cur = (volatile long*)mmap(nullptr, sizeof(long), PROT_READ | PROT_WRITE, MAP_SHARED | MAP_ANONYMOUS, -1, 0);
  if (cur == MAP_FAILED) { perror("mmap"); return 2; }
  for (long h0 = first; h0 < last; ) {
    long h1 = std::min(last, h0 + batch);
    *cur = h0;
    fflush(stdout);
    pid_t pid = fork();
    if (pid < 0) { perror("fork"); return 2; }
    if (pid == 0) {
      struct rlimit rl; rl.rlim_cur = 60; rl.rlim_max = 65; setrlimit(RLIMIT_CPU, &rl);
      struct rlimit core; core.rlim_cur = core.rlim_max = 0; setrlimit(RLIMIT_CORE, &core);
      for (long h = h0; h < h1; ++h) {
        *cur = h;
        Run<S> R(((uint64_t)seed * 1000003ull + (uint64_t)h) ^ th, tname);
        R.history(h, seed, len, (dimension_type)maxdim);
      }
      _exit(0);
    }
    int st = 0; waitpid(pid, &st, 0);
    if (WIFSIGNALED(st)) { J.line(std::string("crash ") + pplv::signal_name(WTERMSIG(st))); J.line("end"); h0 = *cur + 1; }
    else if (WIFEXITED(st) && WEXITSTATUS(st) != 0) { J.line("crash exit " + std::to_string(WEXITSTATUS(st))); J.line("end"); h0 = *cur + 1; }
    else h0 = h1;
  }
  return 0;
}

#ifndef PPLV_TU
#define PPLV_TU 0
#endif

#define TYPE(nm, ...) if (!strcmp(type, nm)) return go<__VA_ARGS__ >(nm, seed, first, last, len, maxdim, batch);

int main(int argc, char** argv) {
  long seed = pplv::arg_long(argc, argv, "--seed", 1);
  long first = pplv::arg_long(argc, argv, "--first", 0);
  long last = pplv::arg_long(argc, argv, "--last", 10);
  long len = pplv::arg_long(argc, argv, "--len", 10);
  long maxdim = pplv::arg_long(argc, argv, "--maxdim", 3);
  long batch = pplv::arg_long(argc, argv, "--batch", 25);
  const char* type = pplv::arg_str(argc, argv, "--type", "bds_mpq");
#if PPLV_TU == 0
  TYPE("bds_mpq", BD_Shape<mpq_class>)
#elif PPLV_TU == 1
  TYPE("oct_mpq", Octagonal_Shape<mpq_class>)
#elif PPLV_TU == 2
  TYPE("box_mpq", Rational_Box)
#elif PPLV_TU == 3
  TYPE("bds_mpz", BD_Shape<mpz_class>)
  TYPE("bds_int8", BD_Shape<int8_t>)
#elif PPLV_TU == 4
  TYPE("bds_int16", BD_Shape<int16_t>)
  TYPE("bds_int32", BD_Shape<int32_t>)
#elif PPLV_TU == 5
  TYPE("bds_int64", BD_Shape<int64_t>)
  TYPE("bds_float", BD_Shape<float>)
#elif PPLV_TU == 6
  TYPE("bds_double", BD_Shape<double>)
  TYPE("bds_ldouble", BD_Shape<long double>)
#elif PPLV_TU == 7
  TYPE("oct_mpz", Octagonal_Shape<mpz_class>)
  TYPE("oct_int8", Octagonal_Shape<int8_t>)
#elif PPLV_TU == 8
  TYPE("oct_int16", Octagonal_Shape<int16_t>)
  TYPE("oct_int32", Octagonal_Shape<int32_t>)
#elif PPLV_TU == 9
  TYPE("oct_int64", Octagonal_Shape<int64_t>)
  TYPE("oct_float", Octagonal_Shape<float>)
#elif PPLV_TU == 10
  TYPE("oct_double", Octagonal_Shape<double>)
  TYPE("oct_ldouble", Octagonal_Shape<long double>)
#elif PPLV_TU == 11
  TYPE("box_z", Z_Box)
  TYPE("box_int8", Int8_Box)
  TYPE("box_int16", Int16_Box)
#elif PPLV_TU == 12
  TYPE("box_int32", Int32_Box)
  TYPE("box_int64", Int64_Box)
  TYPE("box_uint8", Uint8_Box)
#elif PPLV_TU == 13
  TYPE("box_uint16", Uint16_Box)
  TYPE("box_uint32", Uint32_Box)
  TYPE("box_uint64", Uint64_Box)
#elif PPLV_TU == 14
  TYPE("box_float", Float_Box)
  TYPE("box_double", Double_Box)
  TYPE("box_ldouble", Long_Double_Box)
#elif PPLV_TU == 15
  TYPE("box_rt_r_oc", Box<rt_r_oc>)
  TYPE("box_fl_r_oc", Box<fl_r_oc>)
  TYPE("box_db_r_oc", Box<db_r_oc>)
  TYPE("box_ld_r_oc", Box<ld_r_oc>)
#endif
  fprintf(stderr, "unknown --type %s in translation unit %d\n", type, PPLV_TU);
  return 2;
}
