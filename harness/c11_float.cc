// C11 float harness: calls the real Checked_Number<float|double|long double, Policy> operations
// (checked_float_inlines.hh; the float <-> mpz/mpq conversions of checked_mpz/mpq_inlines.hh) in-process
// and journals operands, the stored value and the result code EXACTLY.
//
//   c11_float --mode cfg
//   c11_float --mode float --seed n --count n [--fmt f32|f64|f80|all]
//
// A value token is   nan | +inf | -inf | <m>:<k>   (the number m * 2^-k, k may be negative; -0 is 0:0)
//                    or <n>/<d> for a rational.
// Journal lines (the driver recomputes the exact result of the operation from the operand tokens):
//   cfg float <F> <p> <emax> <emin_normal>                       format: significand bits, exponents
//   cfg fpolicy <P> <check_overflow> <check_inf_add_inf> <check_inf_sub_inf> <check_inf_mul_zero> <check_div_zero>
//               <check_inf_div_inf> <check_inf_mod> <check_sqrt_neg> <has_nan> <has_infinity> <check_fpu_inexact> <check_fpu_nan_result>
//   f <id> <F> <P> <op> <dir> <to0> <x> <y> <e> <stored> <result>
//        op = neg abs sqrt floor ceil trunc | add sub mul div idiv rem addMul subMul
//             | add2exp sub2exp mul2exp div2exp smod2exp umod2exp (exponent e)
//             | assignI (x = integer as m:0, e = bit width of the C type, negative = signed) | assignZ | assignQ (x = n/d)
//             | assignF (from another float width; x exact) | toZ | toQ (stored = integer / rational of the mpz/mpq target)
//   fq <id> <F> <P> cmp|sgn|isint|classify <x> <y> <aux> <answer>
#include "ppl.hh"
#include "common.hh"
#include <type_traits>
#include <limits>
#include <cmath>

using namespace Parma_Polyhedra_Library;

static std::string g_buf;
static long g_id = 0;
static void flush_buf() { if (!g_buf.empty()) { ::write(1, g_buf.data(), g_buf.size()); g_buf.clear(); } }
static void out(const std::string& s) { g_buf += s; g_buf.push_back('\n'); if (g_buf.size() > (1u << 18)) flush_buf(); }

template <typename F> struct FName;
template <> struct FName<float> { static const char* name() { return "f32"; } };
template <> struct FName<double> { static const char* name() { return "f64"; } };
template <> struct FName<long double> { static const char* name() { return "f80"; } };

// ---- exact printing ---------------------------------------------------------------------------
template <typename F> static std::string tok(F x) {
  if (x != x) return "nan";
  if (x == std::numeric_limits<F>::infinity()) return "+inf";
  if (x == -std::numeric_limits<F>::infinity()) return "-inf";
  if (x == 0) return "0:0";
  int e; long double fr = frexpl((long double) x, &e);        // x = fr * 2^e, 0.5 <= |fr| < 1 (exact)
  long double sc = ldexpl(fr, 64);                             // a 64-bit integer, exactly
  bool neg = sc < 0; if (neg) sc = -sc;
  unsigned long hi32 = (unsigned long) (sc / 4294967296.0L);
  unsigned long lo32 = (unsigned long) (sc - (long double) hi32 * 4294967296.0L);
  mpz_class mm = hi32; mm <<= 32; mm += lo32; if (neg) mm = -mm;
  long k = 64 - (long) e;                                      // x = mm * 2^-k
  while (mpz_even_p(mm.get_mpz_t())) { mm >>= 1; --k; }
  return mm.get_str() + ":" + std::to_string(k);
}
static std::string tokz(const mpz_class& z) { return z.get_str() + ":0"; }

// ---- operand generators --------------------------------------------------------------------------
template <typename F> static F rnd_mant(pplv::Rng& rng, int e) {
  // a full-precision value in [2^e, 2^(e+1))
  const int p = std::numeric_limits<F>::digits;
  long double m = 1.0L;
  long double u = (long double) (rng.next() >> 1) / 9223372036854775808.0L;   // [0,1)
  m += u;
  F v = (F) ldexpl(m, e);
  (void) p;
  return v;
}

template <typename F> static F gen(pplv::Rng& rng) {
  typedef std::numeric_limits<F> L;
  const int p = L::digits;
  F v;
  switch (rng.below(20)) {
  case 0: v = 0; break;
  case 1: v = L::denorm_min() * (F) (1 + rng.below(3)); break;
  case 2: v = nextafter(L::min(), (F) 0); break;                    // largest denormal
  case 3: v = L::min(); break;
  case 4: v = L::max(); break;
  case 5: v = nextafter(L::max(), (F) 0); break;
  case 6: v = L::infinity(); break;
  case 7: v = L::quiet_NaN(); break;
  case 8: { F one = 1; v = rng.chance(1, 3) ? one : (rng.chance(1, 2) ? nextafter(one, (F) 2) : nextafter(one, (F) 0)); break; }
  case 9: case 10: {     // powers of two and their neighbours, over the whole exponent range
    int e = (int) rng.range(L::min_exponent - p - 1, L::max_exponent - 1);
    v = (F) ldexpl(1.0L, e);
    int w = (int) rng.below(3);
    if (w == 1) v = nextafter(v, L::infinity()); else if (w == 2) v = nextafter(v, (F) 0);
    break; }
  case 11: {             // integers with exactly p, p-1, p+1 .. significant bits (rounded into F if needed)
    static const int PS[] = { 24, 53, 64 };
    int q = rng.chance(1, 2) ? p : PS[rng.below(3)];          // also the significand sizes of the other formats
    int b = q - 2 + (int) rng.below(5);
    if (b > 64) b = 64;
    unsigned long long u = (1ull << (b - 1)) | 1ull | (rng.next() & ((1ull << (b - 1)) - 1));
    v = (F) (long double) u;
    break; }
  case 12: {             // halfway between two consecutive values of a narrower format
    int q = rng.chance(1, 2) ? 24 : 53;
    unsigned long long u = ((1ull << (q - 1)) | (rng.next() & ((1ull << (q - 1)) - 1))) * 2 + 1;   // q+1 bits, odd
    int e = (int) rng.range(-70, 60);
    v = (F) ldexpl((long double) u, e);
    break; }
  case 13: v = (F) ((long) rng.range(-20, 20)); break;
  case 14: v = (F) ((long) rng.range(-100000, 100000)) / (F) 8; break;
  case 15: case 16: v = rnd_mant<F>(rng, (int) rng.range(-40, 40)); break;
  case 17: v = rnd_mant<F>(rng, (int) rng.range(L::min_exponent - p, L::max_exponent - 1)); break;
  case 18: v = (F) 1 / (F) (1 + rng.below(20)); break;
  default: v = rnd_mant<F>(rng, (int) rng.range(-4, 4)); break;
  }
  if (rng.chance(1, 2)) v = -v;
  return v;
}

// a second operand related to the first one (cancellation, absorption, overflow, underflow)
template <typename F> static F gen2(pplv::Rng& rng, F x) {
  typedef std::numeric_limits<F> L;
  if (x != x || x == L::infinity() || x == -L::infinity()) return gen<F>(rng);
  switch (rng.below(8)) {
  case 0: return x;
  case 1: return -x;
  case 2: return nextafter(x, L::infinity());
  case 3: return -nextafter(x, -L::infinity());
  case 4: return x * (F) ldexpl(1.0L, -(int) rng.below(2 * L::digits));       // absorbed or nearly
  case 5: return (F) 3 * x;
  case 6: return x == 0 ? x : (F) 1 / x;
  default: return gen<F>(rng);
  }
}

static mpz_class gen_mpz(pplv::Rng& rng, int p, int emax) {
  // an integer with b significant bits followed by z zero bits
  int b;
  switch (rng.below(6)) {
  case 0: b = p; break; case 1: b = p + 1; break; case 2: b = p + 2; break; case 3: b = p - 1; break;
  case 4: b = 1 + (int) rng.below(2 * p); break;
  default: b = 1 + (int) rng.below(8); break;
  }
  mpz_class v = 1;
  for (int i = 1; i < b; ++i) { v <<= 1; if (i == b - 1 || rng.chance(1, 2)) v += 1; }   // top and bottom bits set
  int z;
  switch (rng.below(6)) {
  case 0: z = 0; break;
  case 1: z = (int) rng.below(70); break;
  case 2: z = emax + 1 - b + (int) rng.below(5) - 2; break;        // around the overflow threshold
  case 3: z = emax - b + 1; break;
  default: z = (int) rng.below(8); break;
  }
  if (z < 0) z = 0;
  v <<= z;
  if (rng.chance(1, 2)) v = -v;
  if (rng.chance(1, 40)) v = 0;
  return v;
}

// ---- policies ------------------------------------------------------------------------------------
template <typename P> static void cfg_policy(const char* pn) {
  out(std::string("cfg fpolicy ") + pn + " " + std::to_string((int) P::check_overflow) + " " + std::to_string((int) P::check_inf_add_inf)
      + " " + std::to_string((int) P::check_inf_sub_inf) + " " + std::to_string((int) P::check_inf_mul_zero)
      + " " + std::to_string((int) P::check_div_zero) + " " + std::to_string((int) P::check_inf_div_inf)
      + " " + std::to_string((int) P::check_inf_mod) + " " + std::to_string((int) P::check_sqrt_neg)
      + " " + std::to_string((int) P::has_nan) + " " + std::to_string((int) P::has_infinity)
      + " " + std::to_string((int) P::check_fpu_inexact) + " " + std::to_string((int) P::check_fpu_nan_result));
}
template <typename F> static void cfg_float() {
  typedef typename Float<F>::Binary B;
  out(std::string("cfg float ") + FName<F>::name() + " " + std::to_string(std::numeric_limits<F>::digits) + " "
      + std::to_string((int) B::EXPONENT_MAX) + " " + std::to_string((int) B::EXPONENT_MIN) + " "
      + std::to_string((unsigned) B::MANTISSA_BITS));
}
static void cfg() {
  cfg_float<float>(); cfg_float<double>(); cfg_float<long double>();
  cfg_policy<Check_Overflow_Policy<double> >("CO");
  cfg_policy<Extended_Number_Policy>("EN");
  cfg_policy<WRD_Extended_Number_Policy>("WRD");
  cfg_policy<Debug_WRD_Extended_Number_Policy>("DBG");
}

static const unsigned DIRS[] = { 0, 1, 6, 8, 9, 14, 7 };   // DOWN, UP, IGNORE, DOWN|STRICT, UP|STRICT, IGNORE|STRICT, NOT_NEEDED

enum FOp { NEG, ABS, SQRT, FLOOR, CEIL, TRUNC, ADD, SUB, MUL, DIV, IDIV, REM, ADDMUL, SUBMUL,
           ADD2, SUB2, MUL2, DIV2, SMOD2, UMOD2, ASGI, ASGZ, ASGQ, ASGF, TOZ, TOQ, CMP, SGN, ISINT, CLS, NFOPS };
static const char* fop_name[] = { "neg", "abs", "sqrt", "floor", "ceil", "trunc", "add", "sub", "mul", "div", "idiv", "rem",
  "addMul", "subMul", "add2exp", "sub2exp", "mul2exp", "div2exp", "smod2exp", "umod2exp", "assignI", "assignZ", "assignQ",
  "assignF", "toZ", "toQ", "cmp", "sgn", "isint", "classify" };

template <typename F, typename P, typename T>
static void asg_int(const char* pn, pplv::Rng& rng, Rounding_Dir d) {
  typedef Checked_Number<F, P> N;
  const int p = std::numeric_limits<F>::digits;
  const int bits = sizeof(T) * 8;
  typedef typename std::make_unsigned<T>::type U;
  T v;
  switch (rng.below(6)) {
  case 0: v = std::numeric_limits<T>::max() - (T) rng.below(3); break;
  case 1: v = std::numeric_limits<T>::min() + (T) rng.below(3); break;
  case 2: case 3: {   // exactly b significant bits, b around p
    int b = p - 1 + (int) rng.below(4);
    int lim = bits - (std::is_signed<T>::value ? 1 : 0);
    if (b > lim) b = lim;
    if (b < 1) b = 1;
    U u = (U) (((U) 1 << (b - 1)) | (U) 1 | (U) (rng.next() & ((((unsigned long long) 1) << (b - 1)) - 1)));
    int z = (int) rng.below(lim - b + 1);
    u = (U) (u << z);
    v = (T) u;
    if (std::is_signed<T>::value && rng.chance(1, 2)) v = (T) -v;
    break; }
  case 4: v = (T) rng.next(); break;
  default: v = (T) rng.range(-50, 50); break;
  }
  N nt; nt.raw_value() = (F) 85;
  Result r = assign_r(nt, v, d);
  std::string vs = std::is_signed<T>::value ? std::to_string((long long) v) : std::to_string((unsigned long long) v);
  out("f " + std::to_string(++g_id) + " " + FName<F>::name() + " " + pn + " assignI " + std::to_string((unsigned) d) + " 85:0 "
      + vs + ":0 0:0 " + std::to_string(std::is_signed<T>::value ? -bits : bits) + " " + tok(nt.raw_value()) + " " + std::to_string((unsigned) r));
}

template <typename F, typename P>
static void one_case(const char* pn, pplv::Rng& rng) {
  typedef Checked_Number<F, P> N;
  typedef std::numeric_limits<F> L;
  typedef typename Float<F>::Binary B;
  FOp op = (FOp) rng.below(NFOPS);
  Rounding_Dir d = static_cast<Rounding_Dir>(DIRS[rng.below(rng.chance(1, 12) ? 7 : 6)]);
  F x = gen<F>(rng);
  F y = gen2<F>(rng, x);
  F to0 = rng.chance(1, 2) ? gen<F>(rng) : (F) 85;
  unsigned e = 0;
  N nt, nx, ny;
  nt.raw_value() = to0; nx.raw_value() = x; ny.raw_value() = y;
  Result r = V_EMPTY;
  std::string head = "f " + std::to_string(++g_id) + " " + FName<F>::name() + " " + pn + " ";
  std::string ds = std::to_string((unsigned) d);
  switch (op) {
  case NEG: r = neg_assign_r(nt, nx, d); break;
  case ABS: r = abs_assign_r(nt, nx, d); break;
  case SQRT: r = sqrt_assign_r(nt, nx, d); break;
  case FLOOR: r = floor_assign_r(nt, nx, d); break;
  case CEIL: r = ceil_assign_r(nt, nx, d); break;
  case TRUNC: r = trunc_assign_r(nt, nx, d); break;
  case ADD: r = add_assign_r(nt, nx, ny, d); break;
  case SUB: r = sub_assign_r(nt, nx, ny, d); break;
  case MUL: r = mul_assign_r(nt, nx, ny, d); break;
  case DIV: r = div_assign_r(nt, nx, ny, d); break;
  case IDIV: r = div_assign_r(nt, nx, ny, d); op = DIV; break;   // idiv is not instantiated for floating point types
  case REM: r = rem_assign_r(nt, nx, ny, d); break;
  case ADDMUL: r = add_mul_assign_r(nt, nx, ny, d); break;
  case SUBMUL: r = sub_mul_assign_r(nt, nx, ny, d); break;
  case ADD2: case SUB2: case MUL2: case DIV2: case SMOD2: case UMOD2:
    e = rng.chance(1, 3) ? rng.below(64) : rng.below(12);
    if ((op == SMOD2) && e == 0) e = 1;
    if (op == ADD2) r = add_2exp_assign_r(nt, nx, e, d);
    else if (op == SUB2) r = sub_2exp_assign_r(nt, nx, e, d);
    else if (op == MUL2) r = mul_2exp_assign_r(nt, nx, e, d);
    else if (op == DIV2) r = div_2exp_assign_r(nt, nx, e, d);
    else if (op == SMOD2) r = smod_2exp_assign_r(nt, nx, e, d);
    else r = umod_2exp_assign_r(nt, nx, e, d);
    break;
  case ASGI:
    --g_id;
    switch (rng.below(8)) {
    case 0: asg_int<F, P, int8_t>(pn, rng, d); break; case 1: asg_int<F, P, uint8_t>(pn, rng, d); break;
    case 2: asg_int<F, P, int16_t>(pn, rng, d); break; case 3: asg_int<F, P, uint16_t>(pn, rng, d); break;
    case 4: asg_int<F, P, int32_t>(pn, rng, d); break; case 5: asg_int<F, P, uint32_t>(pn, rng, d); break;
    case 6: asg_int<F, P, int64_t>(pn, rng, d); break; default: asg_int<F, P, uint64_t>(pn, rng, d); break;
    }
    return;
  case ASGZ: {
    if (round_dir(d) == ROUND_NOT_NEEDED) d = ROUND_IGNORE;
    mpz_class z = gen_mpz(rng, L::digits, B::EXPONENT_MAX);
    r = assign_r(nt, z, d);
    out(head + "assignZ " + std::to_string((unsigned) d) + " " + tok(to0) + " " + tokz(z) + " 0:0 0 " + tok(nt.raw_value()) + " " + std::to_string((unsigned) r));
    return; }
  case ASGQ: {
    if (round_dir(d) == ROUND_NOT_NEEDED) d = ROUND_IGNORE;
    mpz_class n = gen_mpz(rng, L::digits, B::EXPONENT_MAX), dd;
    switch (rng.below(6)) {
    case 0: dd = 1; dd <<= rng.below(L::digits + 80); break;                              // dyadic
    case 1: {   // towards denormals / zero, with a denominator that is not a power of two half of the time
      dd = rng.chance(1, 2) ? mpz_class(1) : mpz_class(abs(gen_mpz(rng, L::digits, 0)) + 1);
      dd <<= (unsigned) (-B::EXPONENT_MIN - (int) rng.below(12) + (int) rng.below(L::digits + 30)); break; }
    case 2: dd = gen_mpz(rng, L::digits, 200); break;
    case 3: dd = 3; break;
    case 4: { dd = gen_mpz(rng, L::digits, B::EXPONENT_MAX); break; }
    default: dd = (unsigned long) (1 + rng.below(1000)); break;
    }
    if (dd == 0) dd = 7;
    mpq_class q(n, dd); q.canonicalize();
    r = assign_r(nt, q, d);
    out(head + "assignQ " + std::to_string((unsigned) d) + " " + tok(to0) + " " + q.get_num().get_str() + "/" + q.get_den().get_str()
        + " 0:0 0 " + tok(nt.raw_value()) + " " + std::to_string((unsigned) r));
    return; }
  case ASGF: {
    std::string xs; int which = (int) rng.below(3);
    if (which == 0) { float g = gen<float>(rng); r = assign_r(nt, g, d); xs = tok(g); e = 32; }
    else if (which == 1) { double g = gen<double>(rng); r = assign_r(nt, g, d); xs = tok(g); e = 64; }
    else { long double g = gen<long double>(rng); r = assign_r(nt, g, d); xs = tok(g); e = 80; }
    out(head + "assignF " + ds + " " + tok(to0) + " " + xs + " 0:0 " + std::to_string(e) + " " + tok(nt.raw_value()) + " " + std::to_string((unsigned) r));
    return; }
  case TOZ: {
    Checked_Number<mpz_class, Extended_Number_Policy> z;
    r = assign_r(z, nx, d);
    std::string st = is_not_a_number(z) ? "nan" : (is_minus_infinity(z) ? "-inf" : (is_plus_infinity(z) ? "+inf" : tokz(z.raw_value())));
    out(head + "toZ " + ds + " 0:0 " + tok(x) + " 0:0 0 " + st + " " + std::to_string((unsigned) r));
    return; }
  case TOQ: {
    Checked_Number<mpq_class, Extended_Number_Policy> q;
    r = assign_r(q, nx, d);
    std::string st = is_not_a_number(q) ? "nan" : (is_minus_infinity(q) ? "-inf" : (is_plus_infinity(q) ? "+inf"
                     : q.raw_value().get_num().get_str() + "/" + q.raw_value().get_den().get_str()));
    out(head + "toQ " + ds + " 0:0 " + tok(x) + " 0:0 0 " + st + " " + std::to_string((unsigned) r));
    return; }
  case CMP: {
    Result_Relation rr = Checked::cmp_ext<P, P>(x, y);
    out("fq " + std::to_string(g_id) + " " + FName<F>::name() + " " + pn + " cmp " + tok(x) + " " + tok(y) + " 0 " + std::to_string((unsigned) rr));
    return; }
  case SGN: {
    Result_Relation rr = Checked::sgn_ext<P>(x);
    out("fq " + std::to_string(g_id) + " " + FName<F>::name() + " " + pn + " sgn " + tok(x) + " 0:0 0 " + std::to_string((unsigned) rr));
    return; }
  case ISINT: {
    bool b = is_integer(nx);
    out("fq " + std::to_string(g_id) + " " + FName<F>::name() + " " + pn + " isint " + tok(x) + " 0:0 0 " + (b ? "1" : "0"));
    return; }
  case CLS: {
    unsigned k = rng.below(8);
    Result rr = nx.classify((k & 4) != 0, (k & 2) != 0, (k & 1) != 0);
    out("fq " + std::to_string(g_id) + " " + FName<F>::name() + " " + pn + " classify " + tok(x) + " 0:0 " + std::to_string(k) + " " + std::to_string((unsigned) rr));
    return; }
  default: return;
  }
  bool binary = op >= ADD && op <= SUBMUL;
  out(head + fop_name[op] + " " + ds + " " + tok(to0) + " " + tok(x) + " " + (binary ? tok(y) : std::string("0:0")) + " "
      + std::to_string(e) + " " + tok(nt.raw_value()) + " " + std::to_string((unsigned) r));
}

template <typename F>
static void fmt_cases(pplv::Rng& rng, long count) {
  for (long i = 0; i < count; ++i) {
    switch (rng.below(4)) {
    case 0: one_case<F, Check_Overflow_Policy<F> >("CO", rng); break;
    case 1: one_case<F, Extended_Number_Policy>("EN", rng); break;
    case 2: one_case<F, WRD_Extended_Number_Policy>("WRD", rng); break;
    default: one_case<F, Debug_WRD_Extended_Number_Policy>("DBG", rng); break;
    }
  }
}

int main(int argc, char** argv) {
  std::string mode = pplv::arg_str(argc, argv, "--mode", "cfg");
  long seed = pplv::arg_long(argc, argv, "--seed", 1);
  long count = pplv::arg_long(argc, argv, "--count", 10000);
  std::string fmt = pplv::arg_str(argc, argv, "--fmt", "all");
  cfg(); flush_buf();
  if (mode == "cfg") return 0;
  std::vector<std::string> fs;
  for (const char* f : { "f32", "f64", "f80" }) if (fmt == "all" || fmt == f) fs.push_back(f);
  return pplv::run_batches(0, (long) fs.size(), [&](long b) {
    g_id = 700000000L + (b + 1) * 10000000L;
    pplv::Rng rng((uint64_t) (seed * 131 + b));
    if (fs[b] == "f32") fmt_cases<float>(rng, count);
    else if (fs[b] == "f64") fmt_cases<double>(rng, count);
    else fmt_cases<long double>(rng, count);
    flush_buf();
  }, 600);
}
