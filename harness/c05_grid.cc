// C05 harness: seeded histories over a pool of PPL Grids; every operation is logged with
// explicit arguments *before* it runs, every observation with its result.
//   c05_grid --seed S --first A --last B --len L [--focus name]
// Journal grammar: see lean/Driver/Grid.lean.
#include "ppl.hh"
#include "common.hh"
#include <sstream>
#include <memory>
#include <set>

using namespace Parma_Polyhedra_Library;
typedef Grid_Generator GG;

static pplv::Journal J(1);
static const int NSLOT = 4;

// ---------------------------------------------------------------------------------- printing
static std::string zs(const Coefficient& c) { std::ostringstream s; s << c; return s.str(); }

// "n a0..a_{n-1}"
static std::string vec_str(const Linear_Expression& e, dimension_type n) {
  std::ostringstream s; s << n;
  for (dimension_type i = 0; i < n; ++i)
    s << ' ' << (i < e.space_dimension() ? zs(e.coefficient(Variable(i))) : std::string("0"));
  return s.str();
}
// congruence: "n a.. b f" meaning a.x + b = 0 (mod f)
static std::string cg_str(const Congruence& c, dimension_type n) {
  std::ostringstream s; s << n;
  for (dimension_type i = 0; i < n; ++i)
    s << ' ' << (i < c.space_dimension() ? zs(c.coefficient(Variable(i))) : std::string("0"));
  s << ' ' << zs(c.inhomogeneous_term()) << ' ' << zs(c.modulus());
  return s.str();
}
static std::string cgs_str(const Congruence_System& cs, dimension_type n) {
  std::ostringstream s; size_t m = 0;
  for (Congruence_System::const_iterator i = cs.begin(); i != cs.end(); ++i) ++m;
  s << m;
  for (Congruence_System::const_iterator i = cs.begin(); i != cs.end(); ++i) s << ' ' << cg_str(*i, n);
  return s.str();
}
// generator: "kind n c.. d", kind 0 line, 1 parameter, 2 point
static std::string gen_str(const GG& g, dimension_type n) {
  std::ostringstream s;
  int kind = g.is_line() ? 0 : (g.is_parameter() ? 1 : 2);
  s << kind << ' ' << n;
  for (dimension_type i = 0; i < n; ++i)
    s << ' ' << (i < g.space_dimension() ? zs(g.coefficient(Variable(i))) : std::string("0"));
  s << ' ' << (g.is_line() ? std::string("1") : zs(g.divisor()));
  return s.str();
}
static std::string gens_str(const Grid_Generator_System& gs, dimension_type n) {
  std::ostringstream s; size_t m = 0;
  for (Grid_Generator_System::const_iterator i = gs.begin(); i != gs.end(); ++i) ++m;
  s << m;
  for (Grid_Generator_System::const_iterator i = gs.begin(); i != gs.end(); ++i) s << ' ' << gen_str(*i, n);
  return s.str();
}
static std::string status_line(const Grid& g) {
  std::ostringstream s; g.ascii_dump(s);
  std::string all = s.str();
  size_t a = all.find('\n'); if (a == std::string::npos) return "?";
  size_t b = all.find('\n', a + 1);
  std::string l = all.substr(a + 1, b - a - 1);
  // collapse double spaces
  std::string o; for (char ch : l) { if (ch == ' ' && !o.empty() && o.back() == ' ') continue; o.push_back(ch); }
  // divisor of the first point of gen_sys, when the generators are up to date (read from the dump:
  // no observer is called, so the lazy state is not disturbed)
  std::string div = "?";
  std::string row0 = "?";     // kind of the first generator row (P, Q or L)
  int zero_lines = 0, zero_params = 0;
  size_t gpos = all.find("gen_sys (up-to-date)");
  if (gpos != std::string::npos) {
    size_t q = gpos;
    for (;;) {
      size_t r = all.find("size ", q);
      if (r == std::string::npos) break;
      size_t e = all.find('\n', r);
      std::string row = all.substr(r, e - r);
      if (!row.empty() && row0 == "?") row0 = std::string(1, row.back());
      if (!row.empty() && row.back() == 'P' && div == "?") {
        std::istringstream is(row); std::string w, sz, d; is >> w >> sz >> d; div = d;
      }
      if (!row.empty() && row.back() == 'L') {
        std::istringstream is(row); std::string w; is >> w >> w; bool allz = true;
        while (is >> w) { if (w == "L") break; if (w != "0") allz = false; }
        if (allz) ++zero_lines;
      }
      if (!row.empty() && row.back() == 'Q') {
        // "size N 0 c.. d Q": all coordinates zero (the last number is the divisor)
        std::istringstream is(row); std::string w; is >> w >> w; std::vector<std::string> v;
        while (is >> w) { if (w == "Q") break; v.push_back(w); }
        bool allz = true;
        for (size_t i = 0; i + 1 < v.size(); ++i) if (v[i] != "0") allz = false;
        if (allz) ++zero_params;
      }
      q = e;
    }
  }
  return o + " div=" + div + " zl=" + std::to_string(zero_lines) + " zq=" + std::to_string(zero_params) + " r0=" + row0;
}

// ---------------------------------------------------------------------------------- random data
struct Gen {
  pplv::Rng& R;
  explicit Gen(pplv::Rng& r) : R(r) {}
  Coefficient coef() {
    unsigned k = R.below(100);
    if (k < 30) return 0;
    if (k < 85) return Coefficient((long)R.range(-4, 4));
    if (k < 95) return Coefficient((long)R.range(-30, 30));
    if (k < 98) return Coefficient((long)R.range(-1000003, 1000003));
    Coefficient c = 1; c <<= 40; c += (long)R.range(-5, 5); if (R.chance(1, 2)) c = -c; return c;
  }
  Coefficient modulus() {
    static const long ms[] = {0, 1, 1, 2, 2, 3, 3, 4, 5, 6, 7, 12, 30, 1000003};
    unsigned k = R.below(100);
    if (k < 92) return Coefficient(ms[R.below(sizeof(ms) / sizeof(ms[0]))]);
    if (k < 96) { Coefficient c = 1; c <<= 33; return c; }
    return Coefficient(-(long)R.range(1, 6));      // negative moduli are normalised by PPL
  }
  Coefficient divisor() {
    static const long ds[] = {1, 1, 1, 2, 2, 3, 4, 6, 10};
    return Coefficient(ds[R.below(sizeof(ds) / sizeof(ds[0]))]);
  }
  Linear_Expression lin(dimension_type n, bool inhomo = false) {
    Linear_Expression e;
    if (n > 0) e += 0 * Variable(n - 1);
    for (dimension_type i = 0; i < n; ++i) e += coef() * Variable(i);
    if (inhomo) e += coef();
    return e;
  }
  Congruence cg(dimension_type n) {
    Linear_Expression e = lin(n);
    Coefficient b = coef();
    Coefficient m = modulus();
    return ((e + b) %= 0) / m;
  }
  Congruence_System cgs(dimension_type n, unsigned max) {
    Congruence_System cs(n);
    unsigned k = R.below(max + 1);
    for (unsigned i = 0; i < k; ++i) cs.insert(cg(n));
    return cs;
  }
  // kind: 0 line, 1 parameter, 2 point
  GG gen(dimension_type n, int kind) {
    for (;;) {
      Linear_Expression e = lin(n);
      if (kind == 2) return grid_point(e, divisor());
      if (e.all_homogeneous_terms_are_zero()) {
        if (n == 0) return grid_point(e);
        e += Variable(R.below(n));
      }
      if (kind == 1) return parameter(e, divisor());
      return grid_line(e);
    }
  }
  // rows in arbitrary order: the point, if one is required, is not necessarily the first row
  Grid_Generator_System gens(dimension_type n, unsigned max, bool need_point) {
    std::vector<GG> rows;
    if (need_point) rows.push_back(gen(n, 2));
    unsigned k = R.below(max + 1);
    for (unsigned i = 0; i < k; ++i) {
      unsigned t = R.below(10);
      int kind = n == 0 ? 2 : (t < 4 ? 2 : (t < 8 ? 1 : 0));
      rows.push_back(gen(n, kind));
    }
    for (size_t i = rows.size(); i > 1; --i) std::swap(rows[i - 1], rows[R.below(i)]);
    Grid_Generator_System gs(n);
    for (size_t i = 0; i < rows.size(); ++i) gs.insert(rows[i]);
    return gs;
  }
};

// ---------------------------------------------------------------------------------- history
struct Hist {
  pplv::Rng R;
  Gen G;
  std::unique_ptr<Grid> slot[NSLOT];
  std::string focus;
  explicit Hist(uint64_t seed, const std::string& f) : R(seed), G(R), focus(f) {}

  dimension_type dim(int s) { return slot[s]->space_dimension(); }
  void st(int s) { J.line("st " + std::to_string(s) + " " + status_line(*slot[s])); }
  void op(int s, const std::string& body) { J.line("op " + std::to_string(s) + " " + body); }
  void obs(int s, const std::string& body) { J.line("obs " + std::to_string(s) + " " + body); }

  template <typename F> void guarded(F f) {
    try { f(); }
    catch (...) { J.line("exc " + pplv::exc_class()); }
  }

  // a slot with the same dimension as s (other than s if possible); creates one if needed
  int partner(int s) {
    std::vector<int> c;
    for (int t = 0; t < NSLOT; ++t) if (t != s && slot[t] && dim(t) == dim(s)) c.push_back(t);
    if (!c.empty() && !R.chance(1, 8)) return c[R.below(c.size())];
    if (R.chance(1, 6)) return s;                   // x.op(x)
    int t = (s + 1 + R.below(NSLOT - 1)) % NSLOT;
    fresh(t, dim(s));
    return t;
  }

  void fresh(int s, dimension_type n) {
    unsigned k = R.below(10);
    if (k < 1) { op(s, "new_univ " + std::to_string(n) + " # api=Grid(n,UNIVERSE)"); slot[s].reset(new Grid(n)); }
    else if (k < 2) { op(s, "new_empty " + std::to_string(n) + " # api=Grid(n,EMPTY)"); slot[s].reset(new Grid(n, EMPTY)); }
    else if (k < 6) {
      Congruence_System cs = G.cgs(n, n + 1);
      op(s, "new_cgs " + std::to_string(n) + " " + cgs_str(cs, n) + " # api=Grid(cgs)");
      guarded([&] { slot[s].reset(new Grid(cs)); });
    }
    else {
      Grid_Generator_System gs = G.gens(n, n + 2, true);
      op(s, "new_gens " + std::to_string(n) + " " + gens_str(gs, n) + " # api=Grid(ggs)");
      guarded([&] { slot[s].reset(new Grid(gs)); });
    }
    if (!slot[s]) { op(s, "new_univ " + std::to_string(n)); slot[s].reset(new Grid(n)); }
    // sometimes query the new grid at once, before anything minimizes its description
    if (R.chance(1, 2)) observe_query(s);
  }

  std::string expr_str(const Linear_Expression& e, dimension_type n) {
    return vec_str(e, n) + " " + zs(e.inhomogeneous_term());
  }

  // ---- observers
  void observe_desc(int s, unsigned which) {
    Grid& g = *slot[s]; dimension_type n = dim(s);
    st(s);
    J.line("try " + std::to_string(s) + " desc");
    switch (which) {
      case 0: obs(s, "cgs = " + cgs_str(g.congruences(), n)); break;
      case 1: obs(s, "gens = " + gens_str(g.grid_generators(), n)); break;
      case 2: obs(s, "mincgs = " + cgs_str(g.minimized_congruences(), n)); break;
      default: obs(s, "mingens = " + gens_str(g.minimized_grid_generators(), n)); break;
    }
  }
  static std::string relbits(const Poly_Con_Relation& r) {
    std::string o;
    o += r.implies(Poly_Con_Relation::is_disjoint()) ? '1' : '0';
    o += r.implies(Poly_Con_Relation::strictly_intersects()) ? '1' : '0';
    o += r.implies(Poly_Con_Relation::is_included()) ? '1' : '0';
    o += r.implies(Poly_Con_Relation::saturates()) ? '1' : '0';
    return o;
  }
  void observe_query(int s) {
    Grid& g = *slot[s]; dimension_type n = dim(s);
    st(s);
    J.line("try " + std::to_string(s) + " query");
    unsigned k = R.below(24);
    if (!focus.empty()) {
      if (focus == "rel_cg") k = 12; else if (focus == "frequency") k = 15; else if (focus == "constrains") k = 8;
      else if (focus == "rel_gen") k = 13; else if (focus == "rel_con") k = 14; else if (focus == "maxmin") k = 17;
    }
    try {
      switch (k) {
        case 0: obs(s, std::string("is_empty = ") + (g.is_empty() ? "1" : "0")); break;
        case 1: obs(s, std::string("is_universe = ") + (g.is_universe() ? "1" : "0")); break;
        case 2: obs(s, std::string("is_discrete = ") + (g.is_discrete() ? "1" : "0")); break;
        case 3: obs(s, std::string("is_bounded = ") + (g.is_bounded() ? "1" : "0")); break;
        case 4: obs(s, std::string("is_topologically_closed = ") + (g.is_topologically_closed() ? "1" : "0")); break;
        case 5: obs(s, std::string("contains_integer_point = ") + (g.contains_integer_point() ? "1" : "0")); break;
        case 6: obs(s, "space_dim = " + std::to_string(g.space_dimension())); break;
        case 7: obs(s, "affine_dim = " + std::to_string(g.affine_dimension())); break;
        case 8: if (n > 0) { dimension_type v = R.below(n);
                  obs(s, "constrains " + std::to_string(v) + " = " + (g.constrains(Variable(v)) ? "1" : "0")); } break;
        case 9: case 10: case 11: case 18: {
          int t = partner_ro(s); if (t < 0) break;
          const Grid& h = *slot[t];
          if (k == 9) obs(s, "contains " + std::to_string(t) + " = " + (g.contains(h) ? "1" : "0"));
          else if (k == 10) obs(s, "strictly_contains " + std::to_string(t) + " = " + (g.strictly_contains(h) ? "1" : "0"));
          else if (k == 11) obs(s, "is_disjoint_from " + std::to_string(t) + " = " + (g.is_disjoint_from(h) ? "1" : "0"));
          else obs(s, "equals " + std::to_string(t) + " = " + ((g == h) ? "1" : "0"));
          break; }
        case 12: case 19: case 20: { Congruence c = G.cg(n);
          obs(s, "rel_cg " + cg_str(c, n) + " = " + relbits(g.relation_with(c))); break; }
        case 13: case 21: { int kind = n == 0 ? 2 : (int)R.below(3); GG x = G.gen(n, kind);
          obs(s, "rel_gen " + gen_str(x, n) + " = " + (g.relation_with(x) == Poly_Gen_Relation::subsumes() ? "1" : "0")); break; }
        case 14: case 22: { Linear_Expression e = G.lin(n); Coefficient b = G.coef(); unsigned kind = R.below(3);
          Constraint c = kind == 0 ? (e + b == 0) : (kind == 1 ? (e + b >= 0) : (e + b > 0));
          obs(s, "rel_con " + std::to_string(kind) + " " + vec_str(e, n) + " " + zs(b) + " = " + relbits(g.relation_with(c))); break; }
        case 15: case 23: { Linear_Expression e = G.lin(n); Coefficient b = G.coef(); e += b;
          Coefficient fn, fd, vn, vd;
          bool ok = g.frequency(e, fn, fd, vn, vd);
          obs(s, "frequency " + vec_str(e, n) + " " + zs(b) + " = " + (ok ? "1 " + zs(fn) + " " + zs(fd) + " " + zs(vn) + " " + zs(vd) : std::string("0")));
          break; }
        case 16: { Linear_Expression e = G.lin(n); bool up = R.chance(1, 2);
          bool r = up ? g.bounds_from_above(e) : g.bounds_from_below(e);
          obs(s, "bounds " + vec_str(e, n) + " = " + (r ? "1" : "0")); break; }
        case 17: { Linear_Expression e = G.lin(n); Coefficient b = G.coef(); e += b;
          Coefficient num, den; bool att; bool up = R.chance(1, 2);
          bool r = up ? g.maximize(e, num, den, att) : g.minimize(e, num, den, att);
          obs(s, "maxmin " + vec_str(e, n) + " " + zs(b) + " = " + (r ? "1 " + zs(num) + " " + zs(den) + " " + (att ? "1" : "0") : std::string("0")));
          break; }
      }
    } catch (...) { J.line("obsexc " + std::to_string(s) + " " + pplv::exc_class()); }
    J.line("sta " + std::to_string(s) + " " + status_line(*slot[s]));
  }
  // description of every live slot taken from a COPY: the slot itself (and its lazy state) is not
  // touched, and the reference model is synchronised after every operation, so that a wrong result
  // is attributed to the operation that produced it
  void observe_copies() {
    for (int s = 0; s < NSLOT; ++s) if (slot[s]) {
      J.line("try " + std::to_string(s) + " copy");
      try {
        Grid tmp(*slot[s]);
        obs(s, "cgens = " + gens_str(tmp.grid_generators(), dim(s)));
      } catch (...) { J.line("obsexc " + std::to_string(s) + " " + pplv::exc_class()); }
    }
  }
  int partner_ro(int s) {
    std::vector<int> c;
    for (int t = 0; t < NSLOT; ++t) if (slot[t] && dim(t) == dim(s)) c.push_back(t);
    return c.empty() ? -1 : c[R.below(c.size())];
  }

  // ---- one random mutation of slot s
  void mutate(int s) {
    Grid& g = *slot[s]; dimension_type n = dim(s);
    st(s);
    unsigned k = R.below(40);
    if (focus == "diff") k = 14; else if (focus == "rel_image") k = 20 + R.below(4);
    switch (k) {
      case 0: case 1: { Congruence c = G.cg(n); bool ref = R.chance(1, 3);
        op(s, std::string(ref ? "refine_cg " : "add_cg ") + cg_str(c, n) + (ref ? " # api=refine_with_congruence" : " # api=add_congruence"));
        guarded([&] { if (ref) g.refine_with_congruence(c); else g.add_congruence(c); }); break; }
      case 2: { Congruence_System cs = G.cgs(n, 3); unsigned w = R.below(3);
        op(s, std::string(w == 0 ? "add_cgs " : (w == 1 ? "refine_cgs " : "add_recycled_cgs ")) + cgs_str(cs, n) + (w == 0 ? " # api=add_congruences" : (w == 1 ? " # api=refine_with_congruences" : " # api=add_recycled_congruences")));
        guarded([&] { if (w == 0) g.add_congruences(cs); else if (w == 1) g.refine_with_congruences(cs); else g.add_recycled_congruences(cs); }); break; }
      case 3: { Linear_Expression e = G.lin(n); Coefficient b = G.coef(); unsigned kind = R.chance(2, 3) ? 0 : 1 + R.below(2);
        if (kind != 0 && R.chance(1, 2)) e = Linear_Expression(0);    // trivial inequalities
        Constraint c = kind == 0 ? (e + b == 0) : (kind == 1 ? (e + b >= 0) : (e + b > 0));
        bool ref = kind != 0 || R.chance(1, 2);
        op(s, std::string(ref ? "refine_con " : "add_con ") + std::to_string(kind) + " " + vec_str(e, n) + " " + zs(b) + (ref ? " # api=refine_with_constraint" : " # api=add_constraint"));
        guarded([&] { if (ref) g.refine_with_constraint(c); else g.add_constraint(c); }); break; }
      case 4: case 5: case 6: { int kind = n == 0 ? 2 : (int)R.below(3); GG x = G.gen(n, kind);
        op(s, "add_gen " + gen_str(x, n) + " # api=add_grid_generator");
        guarded([&] { g.add_grid_generator(x); }); break; }
      case 7: { Grid_Generator_System gs = G.gens(n, 3, R.chance(1, 2)); bool rec = R.chance(1, 3);
        // sometimes a generator system of space dimension 0 (legal: smaller dimensions are embedded)
        bool gs0 = n > 0 && R.chance(1, 6);
        if (gs0) { Grid_Generator_System z; z.insert(grid_point()); if (R.chance(1, 3)) z.insert(grid_point()); gs = z; }
        op(s, std::string(rec ? "add_recycled_gens " : "add_gens ") + gens_str(gs, n) + (rec ? " # api=add_recycled_grid_generators" : " # api=add_grid_generators")
              + (gs0 ? " gsdim=0" : ""));
        guarded([&] { if (rec) g.add_recycled_grid_generators(gs); else g.add_grid_generators(gs); }); break; }
      case 8: case 9: { int t = partner(s); op(s, "inter " + std::to_string(t) + " # api=intersection_assign");
        guarded([&] { slot[s]->intersection_assign(*slot[t]); }); break; }
      case 10: case 11: { int t = partner(s); op(s, "join " + std::to_string(t) + " # api=upper_bound_assign");
        guarded([&] { slot[s]->upper_bound_assign(*slot[t]); }); break; }
      case 12: case 13: case 14: { int t = partner(s); op(s, "diff " + std::to_string(t) + " # api=difference_assign");
        guarded([&] { slot[s]->difference_assign(*slot[t]); }); break; }
      case 15: { int t = partner(s); op(s, "time_elapse " + std::to_string(t) + " # api=time_elapse_assign");
        guarded([&] { slot[s]->time_elapse_assign(*slot[t]); }); break; }
      case 16: case 17: if (n > 0) { dimension_type v = R.below(n); Linear_Expression e = G.lin(n); Coefficient b = G.coef();
        Coefficient d = R.chance(1, 10) ? Coefficient(0) : (R.chance(1, 2) ? Coefficient(1) : Coefficient((long)R.range(-4, 4)));
        op(s, "affine_image " + std::to_string(v) + " " + vec_str(e, n) + " " + zs(b) + " " + zs(d) + " # api=affine_image");
        guarded([&] { g.affine_image(Variable(v), e + b, d); }); } break;
      case 18: case 19: if (n > 0) { dimension_type v = R.below(n); Linear_Expression e = G.lin(n); Coefficient b = G.coef();
        Coefficient d = R.chance(1, 10) ? Coefficient(0) : (R.chance(1, 2) ? Coefficient(1) : Coefficient((long)R.range(-4, 4)));
        op(s, "affine_preimage " + std::to_string(v) + " " + vec_str(e, n) + " " + zs(b) + " " + zs(d) + " # api=affine_preimage");
        guarded([&] { g.affine_preimage(Variable(v), e + b, d); }); } break;
      case 20: case 21: if (n > 0) {
        // generalized_affine_(pre)image(var, EQUAL, expr, denom, modulus): d*var' = expr + b (mod d*m)
        dimension_type v = R.below(n); Linear_Expression e = G.lin(n); Coefficient b = G.coef();
        Coefficient d = R.chance(1, 2) ? Coefficient(1) : Coefficient((long)R.range(-3, 3)); if (d == 0) d = 2;
        Coefficient m = G.modulus(); bool pre = (k == 21);
        Coefficient f = d * m;
        Linear_Expression lhs = d * Variable(v);
        op(s, std::string(pre ? "rel_preimage " : "rel_image ") + vec_str(lhs, n) + " 0 " + vec_str(e, n) + " " + zs(b) + " " + zs(f)
              + (pre ? " # api=generalized_affine_preimage_var" : " # api=generalized_affine_image_var") + " var=" + std::to_string(v) + " d=" + zs(d) + " m=" + zs(m) + " ev=" + zs(e.coefficient(Variable(v))));
        guarded([&] { if (pre) g.generalized_affine_preimage(Variable(v), EQUAL, e + b, d, m);
                      else g.generalized_affine_image(Variable(v), EQUAL, e + b, d, m); }); } break;
      case 22: case 23: {
        // generalized_affine_(pre)image(lhs, EQUAL, rhs, modulus)
        Linear_Expression lhs = G.lin(n); Coefficient lb = G.coef(); Linear_Expression rhs = G.lin(n); Coefficient rb = G.coef();
        Coefficient m = G.modulus(); bool pre = (k == 23);
        op(s, std::string(pre ? "rel_preimage " : "rel_image ") + vec_str(lhs, n) + " " + zs(lb) + " " + vec_str(rhs, n) + " " + zs(rb) + " " + zs(m) + (pre ? " # api=generalized_affine_preimage_lhs_rhs" : " # api=generalized_affine_image_lhs_rhs"));
        guarded([&] { if (pre) g.generalized_affine_preimage(lhs + lb, EQUAL, rhs + rb, m);
                      else g.generalized_affine_image(lhs + lb, EQUAL, rhs + rb, m); }); break; }
      case 24: if (n > 0) {
        // relation symbols other than EQUAL: the least grid containing the image adds line(var)
        dimension_type v = R.below(n); Linear_Expression e = G.lin(n, true);
        static const Relation_Symbol rs[] = {LESS_THAN, LESS_OR_EQUAL, GREATER_OR_EQUAL, GREATER_THAN};
        Relation_Symbol r = rs[R.below(4)]; unsigned w = R.below(4);
        op(s, "unconstrain 1 " + std::to_string(v) + " # api=" + (w == 0 ? "generalized_affine_image_relsym" : (w == 1 ? "generalized_affine_preimage_relsym" : (w == 2 ? "bounded_affine_image" : "bounded_affine_preimage"))));
        guarded([&] {
          if (w == 0) g.generalized_affine_image(Variable(v), r, e);
          else if (w == 1) g.generalized_affine_preimage(Variable(v), r, e);
          else if (w == 2) g.bounded_affine_image(Variable(v), e, e + 1);
          else g.bounded_affine_preimage(Variable(v), e, e + 1); }); } break;
      case 25: if (n > 0) { dimension_type v = R.below(n);
        op(s, "unconstrain 1 " + std::to_string(v) + " # api=unconstrain_var"); guarded([&] { g.unconstrain(Variable(v)); }); } break;
      case 26: { Variables_Set vs; std::ostringstream o; unsigned cnt = 0;
        for (dimension_type i = 0; i < n; ++i) if (R.chance(1, 3)) { vs.insert(Variable(i)); o << ' ' << i; ++cnt; }
        op(s, "unconstrain " + std::to_string(cnt) + o.str() + " # api=unconstrain_set"); guarded([&] { g.unconstrain(vs); }); break; }
      case 27: if (n < 5) { unsigned m = R.below(3); if (n + m > 5) m = 5 - n;
        op(s, "add_embed " + std::to_string(m) + " # api=add_space_dimensions_and_embed"); guarded([&] { g.add_space_dimensions_and_embed(m); }); } break;
      case 28: if (n < 5) { unsigned m = R.below(3); if (n + m > 5) m = 5 - n;
        op(s, "add_project " + std::to_string(m) + " # api=add_space_dimensions_and_project"); guarded([&] { g.add_space_dimensions_and_project(m); }); } break;
      case 29: { Variables_Set vs; std::ostringstream o; unsigned cnt = 0;
        for (dimension_type i = 0; i < n; ++i) if (R.chance(1, 3)) { vs.insert(Variable(i)); o << ' ' << i; ++cnt; }
        op(s, "remove_dims " + std::to_string(cnt) + o.str() + " # api=remove_space_dimensions"); guarded([&] { g.remove_space_dimensions(vs); }); break; }
      case 30: { dimension_type m = R.below(n + 1);
        op(s, "remove_higher " + std::to_string(m) + " # api=remove_higher_space_dimensions"); guarded([&] { g.remove_higher_space_dimensions(m); }); break; }
      case 31: if (n > 0) {
        // random partial injective map
        std::vector<long> img(n, -1); std::vector<dimension_type> perm;
        for (dimension_type i = 0; i < n; ++i) if (!R.chance(1, 4)) perm.push_back(i);
        std::vector<dimension_type> tgt(perm.size()); for (size_t i = 0; i < tgt.size(); ++i) tgt[i] = i;
        for (size_t i = tgt.size(); i > 1; --i) std::swap(tgt[i - 1], tgt[R.below(i)]);
        Partial_Function pf;
        std::ostringstream o; o << n;
        for (size_t i = 0; i < perm.size(); ++i) { img[perm[i]] = (long)tgt[i]; pf.insert(perm[i], tgt[i]); }
        for (dimension_type i = 0; i < n; ++i) o << ' ' << img[i];
        op(s, "map_dims " + o.str() + " # api=map_space_dimensions"); guarded([&] { g.map_space_dimensions(pf); }); } break;
      case 32: if (n > 0 && n < 5) { dimension_type v = R.below(n); unsigned m = 1 + R.below(2); if (n + m > 5) m = 5 - n;
        op(s, "expand " + std::to_string(v) + " " + std::to_string(m) + " # api=expand_space_dimension"); guarded([&] { g.expand_space_dimension(Variable(v), m); }); } break;
      case 33: if (n > 1) { dimension_type dest = R.below(n); Variables_Set vs; std::ostringstream o; unsigned cnt = 0;
        for (dimension_type i = 0; i < n; ++i) if (i != dest && R.chance(1, 2)) { vs.insert(Variable(i)); o << ' ' << i; ++cnt; }
        op(s, "fold " + std::to_string(cnt) + o.str() + " " + std::to_string(dest) + " # api=fold_space_dimensions"); guarded([&] { g.fold_space_dimensions(vs, Variable(dest)); }); } break;
      case 34: { int t = (s + 1 + R.below(NSLOT - 1)) % NSLOT; if (!slot[t]) break;
        if (dim(s) + dim(t) > 5) break;
        op(s, "concat " + std::to_string(t) + " # api=concatenate_assign"); guarded([&] { slot[s]->concatenate_assign(*slot[t]); }); break; }
      case 35: { int t = (s + 1 + R.below(NSLOT - 1)) % NSLOT; if (!slot[t]) break;
        op(s, "swap " + std::to_string(t) + " # api=m_swap"); slot[s]->m_swap(*slot[t]); break; }
      case 36: case 37: { int t = (s + 1 + R.below(NSLOT - 1)) % NSLOT; if (!slot[t]) break;
        // copy construction / assignment INTO t from s, then t is observed too
        bool asg = R.chance(1, 2);
        op(t, std::string(asg ? "assign " : "copy ") + std::to_string(s) + (asg ? " # api=operator=" : " # api=copy_constructor"));
        if (asg) *slot[t] = *slot[s]; else slot[t].reset(new Grid(*slot[s]));
        observe_desc(t, R.below(4));
        break; }
      case 38: op(s, "nop # api=topological_closure_assign"); g.topological_closure_assign(); break;
      default: fresh(s, R.chance(3, 4) ? n : R.below(5)); break;
    }
  }

  void run(long id, int len) {
    J.line("hist " + std::to_string(id));
    static const dimension_type dims[] = {0, 1, 1, 2, 2, 2, 3, 3, 3, 4, 4};
    dimension_type n = dims[R.below(sizeof(dims) / sizeof(dims[0]))];
    for (int s = 0; s < 2; ++s) fresh(s, n);
    for (int step = 0; step < len; ++step) {
      std::vector<int> live; for (int s = 0; s < NSLOT; ++s) if (slot[s]) live.push_back(s);
      int s = live[R.below(live.size())];
      // keep the pool lively: a slot that is empty (tested on a copy, the slot itself is not touched)
      // is usually rebuilt instead of being mutated further
      if (R.chance(2, 3)) { Grid tmp(*slot[s]); if (tmp.is_empty()) fresh(s, dim(s)); }
      mutate(s);
      observe_copies();
      // observers chosen to drive the lazy state: none / a query / a description
      unsigned o = R.below(10);
      if (o < 3) {}
      else if (o < 6) observe_query(s);
      else if (o < 9) observe_desc(s, R.below(4));
      else { observe_desc(s, R.below(4)); observe_query(s); }
      if (R.chance(1, 6)) { int t = live[R.below(live.size())]; if (slot[t]) observe_query(t); }
    }
    // final: every description of every slot, and a few queries
    for (int s = 0; s < NSLOT; ++s) if (slot[s]) {
      unsigned a = R.below(4);
      for (unsigned i = 0; i < 4; ++i) observe_desc(s, (a + i) % 4);
      observe_query(s); observe_query(s);
    }
    J.line("end");
  }
};

int main(int argc, char** argv) {
  long seed = pplv::arg_long(argc, argv, "--seed", 1);
  long first = pplv::arg_long(argc, argv, "--first", 0);
  long last = pplv::arg_long(argc, argv, "--last", 100);
  int len = (int)pplv::arg_long(argc, argv, "--len", 12);
  long per = pplv::arg_long(argc, argv, "--per-batch", 50);
  std::string focus = pplv::arg_str(argc, argv, "--focus", "");
  long nb = (last - first + per - 1) / per;
  return pplv::run_batches(0, nb, [&](long b) {
    for (long h = first + b * per; h < std::min(last, first + (b + 1) * per); ++h) {
      Hist H((uint64_t)seed * 1000003ull + (uint64_t)h, focus);
      H.run(h, len);
    }
  }, 120);
}
