// C15 harness: ascii_dump / ascii_load round trips of every class that has the pair, in every internal
// state a seeded *history* of operations reaches.
//
//   c15_dumpload --seed S --first A --last B [--len L] [--batch N] [--only-class NAME] [--verbose 1]
//
// One "case" = one history of one class.  After every step of the history:
//   d = dump(x);  for each receiver r in { default-constructed object, objects with other prior content/state }:
//       ok = r.ascii_load(d) ; ok must be true ; r.OK() ; dump(r) must equal d byte for byte
//   then the next operation of the history is applied in lock-step to x and to a "twin" obtained by such a load
//   (twins live for a few steps): same exception class, same dump, same answers to queries.
// The status lines / Linear_System headers / Bit_Matrix / DB / OR matrix texts / Box dumps / keyword fields of
// the real dumps are journalled (deduplicated per batch) for the Lean side (Driver/C15.lean).
//
// Journal (one event per line, fields separated by '|', raw text escaped: \n -> \\n , '|' -> \\p):
//   case <id> <class> <seed>
//   st|<cls>|<recv>|<prior status>|<text status>|<result status>      cls in ph grid bds og box
//   hdr|<Linear_System header text>          bm|<Bit_Matrix text>
//   dbm|<T>|<text>   orm|<T>|<text>          box|<T>|<prior status>|<dump>|<result status>
//   enum|<kind>|<word>
//   fail|<class>|<recv>|<what>|<tags>|<status lines of the receiver before the load ;;-separated>|<differing lines a=>b ;;-separated, or "structural">|<detail>
//        what: load_false load_exception not_ok redump_differs suffix_exc suffix_dump suffix_query section_* history_exception
//        tags (computed on the real texts): appended_to_prior_content:a+b=c  dead_parts_only  bad_negative_float:<word>
//   cstat|digest=<hash of the dumps of the history>|dumps=<distinct dumps>|states=<distinct status texts>|rt=<n>|lock=<n>
//   state|<class>|<status text>            (deduplicated per batch)
//   sum|<class>|states=<n>|rt=<n>|lock=<n>        (per batch; lost for a batch that crashed)
//   crash|<signal>|<case id>|<phase>|<note about the text the twin was loaded from>      phase: orig_make orig_op orig_dump orig_OK orig_view orig_query receiver_make (the history itself)
//                                                load loaded_dump loaded_OK section_load twin_op twin_view tiebreak twin_query (C15's business)
//   end
#include "ppl.hh"
#include "interfaced_boxes.hh"
#include "common.hh"
#include "poly_io.hh"
#include <memory>
#include <set>
#include <map>
#include <functional>

using namespace Parma_Polyhedra_Library;
using pplv::Rng;
using namespace pplv_io;

#include <sys/mman.h>
static pplv::Journal J(1);
static bool g_verbose = false;
// what the child is doing right now (shared with the parent, which reports it when the child dies)
struct Shared { volatile long case_id; char phase[40]; char note[64]; };
static Shared* g_sh = 0;
static void phase(const char* p) { if (g_sh) { strncpy(g_sh->phase, p, sizeof(g_sh->phase) - 1); } }
static void note(const std::string& n) { if (g_sh) { memset(g_sh->note, 0, sizeof(g_sh->note)); strncpy(g_sh->note, n.c_str(), sizeof(g_sh->note) - 1); } }

// ------------------------------------------------------------------------------------------ text helpers
template <class T> static std::string dump(const T& x) { std::ostringstream s; x.ascii_dump(s); return s.str(); }
template <class T> static bool load(T& x, const std::string& d) { std::istringstream s(d); return x.ascii_load(s); }

static std::string esc(const std::string& t) {
  std::string o;
  for (char c : t) { if (c == '\n') o += "\\n"; else if (c == '|') o += "\\p"; else if (c == '\\') o += "\\\\"; else o.push_back(c); }
  return o;
}
static std::string line_of(const std::string& d, int k) {      // k-th line (0-based), without '\n'
  size_t a = 0;
  for (int i = 0; i < k; ++i) { a = d.find('\n', a); if (a == std::string::npos) return ""; ++a; }
  size_t b = d.find('\n', a);
  return d.substr(a, b == std::string::npos ? std::string::npos : b - a);
}
// text between the line that starts with `from` (exclusive) and the line "\n<to>" (exclusive)
static bool section(const std::string& d, const std::string& from, const std::string& to, std::string& out, size_t* endpos = 0, size_t start = 0) {
  size_t a = d.find(from, start); if (a == std::string::npos) return false;
  a = d.find('\n', a); if (a == std::string::npos) return false; ++a;
  size_t b = to.empty() ? d.size() : d.find(to, a); if (b == std::string::npos) return false;
  out = d.substr(a, b - a); if (endpos) *endpos = b; return true;
}
static std::string first_diff(const std::string& a, const std::string& b) {
  std::istringstream sa(a), sb(b); std::string la, lb; int n = 0;
  for (;;) {
    bool ea = !std::getline(sa, la), eb = !std::getline(sb, lb);
    if (ea && eb) return "none";
    if (ea != eb || la != lb) { std::ostringstream o; o << "line " << n << ": [" << (ea ? "<eof>" : la) << "] vs [" << (eb ? "<eof>" : lb) << "]"; return o.str(); }
    ++n;
  }
}


// a line whose leading words are flag tokens [+-][A-Z]+ (at least two): a status line of one of the five classes
static bool is_flag_tok(const std::string& w) {
  if (w.size() < 3 || (w[0] != '+' && w[0] != '-')) return false;
  for (size_t i = 1; i < w.size(); ++i) if (w[i] < 'A' || w[i] > 'Z') return false;
  return true;
}
static bool is_flag_line(const std::string& l) {
  std::istringstream is(l); std::string w; int n = 0;
  while (is >> w) { if (!is_flag_tok(w)) break; ++n; }
  return n >= 2;
}
static std::string flag_lines(const std::string& d) {
  std::istringstream is(d); std::string l, out; std::set<std::string> seen;
  while (std::getline(is, l)) if (is_flag_line(l) && seen.insert(l).second) { if (!out.empty()) out += ";;"; out += l; }
  return out;
}
static std::string diff_lines(const std::string& a, const std::string& b) {
  std::vector<std::string> la, lb; std::string l;
  { std::istringstream is(a); while (std::getline(is, l)) la.push_back(l); }
  { std::istringstream is(b); while (std::getline(is, l)) lb.push_back(l); }
  if (la.size() != lb.size()) return "structural";
  std::string out; int n = 0;
  for (size_t i = 0; i < la.size(); ++i) if (la[i] != lb[i]) {
    if (++n > 12) return "structural";
    if (!out.empty()) out += ";;"; out += la[i] + "=>" + lb[i];
  }
  return out;
}
// Remove from a (concatenation of) Polyhedron / Grid / BD_Shape dump(s) the parts the object itself declares
// dead: a system marked "(not_up-to-date)", a saturation matrix whose flag is '-', the redundancy matrix of a
// BD shape that is not marked reduced.  Used only to *classify* a difference and to compare twins of powersets.
static std::string canon_dead(const std::string& d) {
  std::vector<std::string> L; { std::istringstream is(d); std::string l; while (std::getline(is, l)) L.push_back(l); }
  std::string out; bool sc = true, sg = true;
  size_t i = 0;
  while (i < L.size()) {
    const std::string& l = L[i];
    if (is_flag_line(l)) {
      sc = l.find("+SC") != std::string::npos; sg = l.find("+SG") != std::string::npos;
      out += l + "\n"; ++i;
      if (l.find("SPC") != std::string::npos && i < L.size()) {        // BD shape: dbm, blank, redundancy matrix
        bool spr = l.find("+SPR") != std::string::npos;
        size_t n = (size_t)atol(L[i].c_str()); size_t stop = std::min(L.size(), i + 1 + n);
        for (; i < stop; ++i) out += L[i] + "\n";
        if (i < L.size() && L[i].empty()) { out += "\n"; ++i; }
        if (i < L.size()) { size_t r = (size_t)atol(L[i].c_str()); size_t stop2 = std::min(L.size(), i + 1 + r);
          for (; i < stop2; ++i) if (spr) out += L[i] + "\n"; }
      }
      continue;
    }
    if (l.compare(0, 9, "con_sys (") == 0 || l.compare(0, 9, "gen_sys (") == 0) {
      bool dead = l.find("(not_up-to-date)") != std::string::npos; bool is_con = l[0] == 'c';
      out += l + "\n"; ++i;
      while (i < L.size() && L[i].compare(0, 9, "gen_sys (") != 0 && L[i] != "sat_c" && L[i].compare(0, 15, "dimension_kinds") != 0
             && !(is_con && false)) { if (!dead) out += L[i] + "\n"; ++i; }
      continue;
    }
    if (l == "sat_c" || l == "sat_g") {
      bool dead = (l == "sat_c") ? !sc : !sg;
      out += l + "\n"; ++i;
      if (i < L.size()) { size_t r = (size_t)atol(L[i].c_str()); size_t stop = std::min(L.size(), i + 1 + r);
        for (; i < stop; ++i) if (!dead) out += L[i] + "\n"; }
      continue;
    }
    out += l + "\n"; ++i;
  }
  return out;
}

static std::set<std::string> g_seen;             // per-batch dedup of harvested texts
static void harvest(const std::string& l) { if (g_seen.size() < 200000 && g_seen.insert(l).second) J.line(l); }

struct Counters { long states = 0, rt = 0, lock = 0, orig_not_ok = 0; };

// ------------------------------------------------------------------------------------------ random data
static Coefficient big_coeff(Rng& r) {
  Coefficient c = r.range(-9, 9); c *= 1000003; c *= 998244353; c *= 1000000007; c *= 1000000009; c += r.range(-5, 5); return c;
}
static Variables_Set rnd_vars(Rng& r, dimension_type n, unsigned maxk) {
  Variables_Set vs; unsigned k = 1 + r.below(maxk);
  for (unsigned i = 0; i < k; ++i) vs.insert(Variable(r.below(n)));
  return vs;
}
// constraint usable by every weakly-relational domain: +-x_i +-x_j <= c or +-x_i <= c (or equality)
static Constraint rnd_oct_con(Rng& r, dimension_type n, bool bd_only, bool frac) {
  Linear_Expression e; e += 0 * Variable(n - 1);
  dimension_type i = r.below(n), j = r.below(n);
  int si = r.chance(1, 2) ? 1 : -1, sj = r.chance(1, 2) ? 1 : -1;
  if (bd_only) sj = -si;
  Coefficient den = 1;
  if (frac) { static const long ds[] = {1, 2, 3, 7, 10}; den = ds[r.below(5)];
    if (r.chance(1, 12)) { den = 10; for (int k = 0; k < 30; ++k) den *= 10; }
    else if (r.chance(1, 25)) { den = 10; for (int k = 0; k < 318; ++k) den *= 10; } }     // bounds below DBL_MIN: denormals (float: underflow)
  e += den * si * Variable(i);
  if (i != j && r.chance(2, 3)) e += den * sj * Variable(j);
  Coefficient c = r.range(-6, 9); if (r.chance(1, 15)) c = big_coeff(r);
  unsigned k = r.below(10);
  if (k == 0) return e == c;
  if (k < 5) return e >= c;
  return e <= c;
}
static Congruence rnd_cg(Rng& r, dimension_type n) {
  Linear_Expression e = rnd_expr(r, n, 3, r.chance(1, 25));
  static const long ms[] = {0, 1, 2, 2, 3, 5, 6};
  return (e %= Coefficient(r.range(-3, 3))) / Coefficient(ms[r.below(7)]);
}
static Grid_Generator rnd_gg(Rng& r, dimension_type n, bool must_point) {
  Linear_Expression e; if (n > 0) e += 0 * Variable(n - 1);
  for (dimension_type i = 0; i < n; ++i) e += Coefficient(small(r, 4)) * Variable(i);
  unsigned k = must_point ? 0 : r.below(10);
  Coefficient d = r.chance(1, 3) ? r.range(2, 4) : 1;
  if (k < 4) return grid_point(e, d);
  if (k < 8 || all_zero(e, n)) return parameter(e, d);
  return grid_line(e);
}

// ------------------------------------------------------------------------------------------ the engine
// A driver D provides:
//   typedef T; static const char* name(); static const char* cls();   (cls: status class or "")
//   static T fresh();                       default-constructed receiver
//   static T make(Rng&);                    start of a history
//   static T dirty(Rng&, std::string& kind);   receiver with other prior content; kind describes it
//   static void op(Rng&, T&);               one random mutator / lazy-state driver (may throw)
//   static std::string query(const T&);     observations (works on a copy)
//   static std::string status(const std::string& dump);    raw status text or ""
//   static void harvest_parts(const std::string& dump, Counters&, ...);  journal sub-grammars, standalone section loads
template <class D> struct Engine {
  typedef typename D::T T;
  Counters cnt;
  std::string name, twin_note_;
  Engine() : name(D::name()) {}

  // fail|class|recv|what|tags|prior flag lines|differing lines|detail
  void fail(const std::string& recv, const std::string& what, const std::string& tags, const std::string& prior_dump,
            const std::string& a, const std::string& b, const std::string& detail) {
    J.line("fail|" + name + "|" + recv + "|" + what + "|" + tags + "|" + esc(flag_lines(prior_dump + D::extra_prior())) + "|" +
           esc((a.empty() && b.empty()) ? std::string("") : diff_lines(a, b)) + "|" + esc(detail));
  }
  // returns 2 iff the round trip is perfect, 1 iff it differs only in parts the object declares dead, else 0
  int roundtrip(const std::string& d, T& recv, const std::string& kind, bool orig_ok) {
    ++cnt.rt;
    std::string pd = dump(recv);
    std::string prior = D::status(pd), text = D::status(d);
    bool ok = false;
    phase("load");
    try { ok = load(recv, d); }
    catch (...) { fail(kind, "load_exception", "", pd, "", "", pplv::exc_class()); return 0; }
    if (!ok) { fail(kind, "load_false", D::diagnose(pd, d, ""), pd, "", "", ""); if (g_verbose) J.line("verbose dump|" + esc(d)); return 0; }
    phase("loaded_dump");
    std::string d2 = dump(recv), result = D::status(d2);
    if (*D::cls()) {
      harvest(std::string("st|") + D::cls() + "|" + kind + "|" + esc(prior) + "|" + esc(text) + "|" + esc(result));
      D::harvest_box(prior, d, result);
    }
    if (d2 != d) {
      std::string tags = D::diagnose(pd, d, d2);
      fail(kind, "redump_differs", tags, pd, d, d2, first_diff(d, d2));
      if (g_verbose) { J.line("verbose prior|" + esc(pd)); J.line("verbose dump|" + esc(d)); J.line("verbose redump|" + esc(d2)); }
      return tags == "dead_parts_only" ? 1 : 0;
    }
    bool okk = false;
    phase("loaded_OK");
    try { okk = recv.OK(); } catch (...) { okk = false; }
    if (!okk && orig_ok) { fail(kind, "not_ok", "", pd, "", "", ""); if (g_verbose) J.line("verbose dump|" + esc(d)); return 0; }
    return 2;
  }
  // dump of the object the history works on; a dump that throws is a failure unless the object's invariant is broken
  bool orig_dump(const T& x, std::string& d) {
    try { d = dump(x); return true; }
    catch (...) {
      std::string e = pplv::exc_class(); bool ok = false;
      try { ok = x.OK(); } catch (...) {}
      if (ok) fail("-", "dump_exception", "", "", "", "", e);
      else harvest("note|original_with_broken_invariant_cannot_be_dumped|" + name + "|" + e);
      return false;
    }
  }
  static std::string apply(T& x, uint64_t opseed) {
    Rng r(opseed);
    try { D::op(r, x); return "ok"; } catch (...) { return "exc:" + pplv::exc_class(); }
  }
  static std::string safe_query(const T& x) {
    try { return D::query(x); } catch (...) { return "exc:" + pplv::exc_class(); }
  }
  void history(uint64_t seed, long len) {
    Rng r(seed);
    phase("orig_make");
    T x = D::make(r);
    std::unique_ptr<T> twin; int twin_age = 0; std::string twin_kind; bool twin_canon = false;
    std::set<std::string> states;
    std::set<uint64_t> dumps; uint64_t digest = 1469598103934665603ull;
    long rt0 = cnt.rt, lock0 = cnt.lock;
    for (long step = 0; step <= len; ++step) {
      phase("orig_dump");
      std::string d;
      if (!orig_dump(x, d)) break;
      { uint64_t h = 1469598103934665603ull; for (char c : d) { h ^= (unsigned char)c; h *= 1099511628211ull; }
        dumps.insert(h); digest = (digest ^ h) * 1099511628211ull; }
      if (!D::status(d).empty()) states.insert(D::status(d));
      phase("section_load");
      D::harvest_parts(d, *this);
      phase("orig_OK");
      bool orig_ok = false; try { orig_ok = x.OK(); } catch (...) {}
      if (!orig_ok) ++cnt.orig_not_ok;
      phase("receiver_make");
      std::unique_ptr<T> a(new T(D::fresh()));
      int oka = roundtrip(d, *a, "fresh", orig_ok);
      std::string kind;
      phase("receiver_make");
      std::unique_ptr<T> b(new T(D::dirty(r, kind)));
      int okb = roundtrip(d, *b, kind, orig_ok);
      if (step == len) break;
      // (re)choose the twin among the loaded objects that round-tripped
      if (!twin || twin_age >= 3 || r.chance(1, 3)) {
        twin.reset(); twin_age = 0;
        if (okb && (!oka || r.chance(1, 2))) { twin = std::move(b); twin_kind = kind; twin_canon = okb == 1; }
        else if (oka) { twin = std::move(a); twin_kind = "fresh"; twin_canon = oka == 1; }
        twin_note_ = twin ? D::twin_note(d) : std::string("");
        note(twin_note_);
      }
      uint64_t opseed = r.next();
      phase("orig_op");
      std::string ex = apply(x, opseed);
      if (twin) {
        ++cnt.lock; ++twin_age;
        phase("twin_op");
        std::string ey = apply(*twin, opseed);
        if (ex != ey) { fail(twin_kind, "suffix_exc", twin_note_, "", "", "", ex + " vs " + ey); twin.reset(); continue; }
        phase("orig_view");
        std::string dx;
        try { dx = D::lock_view(x, twin_canon); }
        catch (...) { std::string probe; if (!orig_dump(x, probe)) break; throw; }
        phase("twin_view");
        std::string dy = D::lock_view(*twin, twin_canon);
        bool differs = dx != dy;
        if (differs) { phase("tiebreak"); if (D::lock_tiebreak(x, *twin)) differs = false; }
        if (differs) { fail(twin_kind, "suffix_dump", twin_canon ? "twin_with_dead_parts" : twin_note_, "", dx, dy, first_diff(dx, dy));
          if (g_verbose) { J.line("verbose x|" + esc(dx)); J.line("verbose twin|" + esc(dy)); }
          twin.reset(); continue; }
        if (r.chance(1, 2)) {
          phase("orig_query");
          std::string qx = safe_query(x);
          phase("twin_query");
          std::string qy = safe_query(*twin);
          if (qx != qy) { fail(twin_kind, "suffix_query", twin_note_, "", qx, qy, first_diff(qx, qy)); twin.reset(); continue; }
        }
      }
    }
    { std::ostringstream o; o << "cstat|digest=" << std::hex << digest << std::dec << "|dumps=" << dumps.size() << "|states=" << states.size()
        << "|rt=" << (cnt.rt - rt0) << "|lock=" << (cnt.lock - lock0); J.line(o.str()); }
    cnt.states += (long)states.size();
    for (std::set<std::string>::const_iterator i = states.begin(); i != states.end(); ++i)
      harvest("state|" + name + "|" + esc(*i));
  }
  void summary() {
    std::ostringstream o; o << "sum|" << name << "|states=" << cnt.states << "|rt=" << cnt.rt << "|lock=" << cnt.lock << "|orig_not_ok=" << cnt.orig_not_ok;
    J.line(o.str());
  }
  // standalone load of a sub-object's text taken out of a bigger dump
  template <class S> void section_check(const char* what, const std::string& text, S fresh_obj) {
    ++cnt.rt;
    bool ok = false;
    try { ok = load(fresh_obj, text); } catch (...) { fail("fresh", std::string("section_exception_") + what, "", "", "", "", pplv::exc_class()); return; }
    if (!ok) { fail("fresh", std::string("section_load_false_") + what, "", "", "", "", text.substr(0, 200)); return; }
    std::string d2 = dump(fresh_obj);
    if (d2 != text) fail("fresh", std::string("section_redump_") + what, "", "", text, d2, first_diff(text, d2));
  }
};

struct Hooks {
  // lock-step comparison of the original and its loaded twin after an operation: 0 equal, 1 different.
  // Default: the complete dumps (every internal detail).  `canon`: the twin was loaded with dead parts dropped.
  template <class T> static std::string lock_view(const T& x, bool canon) { return canon ? canon_dead(dump(x)) : dump(x); }
  template <class T> static bool lock_tiebreak(const T&, const T&) { return false; }
  // a structural fact about the text a twin was loaded from (reported with a crash of the twin)
  static std::string twin_note(const std::string&) { return ""; }
  static std::string extra_prior() { return ""; }
  static std::string diagnose(const std::string&, const std::string&, const std::string&) { return ""; }
};
struct NoParts : Hooks {
  template <class E> static void harvest_parts(const std::string&, E&) {}
  static void harvest_box(const std::string&, const std::string&, const std::string&) {}
};

// journal the Linear_System header at the start of `ls` (3 lines)
static void harvest_ls_header(const std::string& ls) {
  size_t p = 0; for (int i = 0; i < 3; ++i) { p = ls.find('\n', p); if (p == std::string::npos) return; ++p; }
  harvest("hdr|" + esc(ls.substr(0, p)));
}

// ------------------------------------------------------------------------------------------ Polyhedron
template <class PH, bool NNC> struct PolyD : Hooks {
  typedef PH T;
  static const char* name() { return NNC ? "NNC_Polyhedron" : "C_Polyhedron"; }
  static const char* cls() { return "ph"; }
  static T fresh() { return T(); }
  static T rnd(Rng& r, dimension_type n) {
    unsigned k = r.below(10);
    if (k == 0) return T(n, UNIVERSE);
    if (k == 1) return T(n, EMPTY);
    bool big = r.chance(1, 12);
    if (k < 6) { T p(rnd_cs(r, n, NNC, 4, big)); if (p.space_dimension() < n) p.add_space_dimensions_and_embed(n - p.space_dimension()); return p; }
    T p(rnd_gs(r, n, NNC, n <= 2 ? 5 : 4)); if (p.space_dimension() < n) p.add_space_dimensions_and_embed(n - p.space_dimension()); return p;
  }
  static T make(Rng& r) { return rnd(r, r.below(4)); }
  static T dirty(Rng& r, std::string& kind) {
    unsigned k = r.below(5);
    if (k == 0) { kind = "empty"; return T(r.below(4), EMPTY); }
    if (k == 1) { kind = "universe"; return T(1 + r.below(3), UNIVERSE); }
    T p = rnd(r, 1 + r.below(3));
    if (k == 2) { kind = "other_minimized"; (void) p.minimized_constraints(); (void) p.minimized_generators(); }
    else if (k == 3) { kind = "other_pending"; (void) p.minimized_generators(); (void) p.minimized_constraints();
      try { p.add_constraint(rnd_con(r, p.space_dimension(), NNC, false)); } catch (...) {} }
    else kind = "other_raw";
    if (status(dump(p)).find("+EM") != std::string::npos) kind += "_EM";
    return p;
  }
  static void op(Rng& r, T& P) {
    dimension_type n = P.space_dimension();
    bool big = r.chance(1, 20);
    switch (r.below(26)) {
    case 0: case 1: P.add_constraints(rnd_cs(r, n, NNC, 2, big)); break;
    case 2: P.add_constraint(rnd_con(r, n, NNC, big)); break;
    case 3: case 4: { bool emp = P.is_empty(); P.add_generator(rnd_gen(r, n, NNC, emp)); break; }
    case 5: P.intersection_assign(rnd(r, n)); break;
    case 6: P.poly_hull_assign(rnd(r, n)); break;
    case 7: if (n) { dimension_type v = r.below(n); P.affine_image(Variable(v), rnd_expr(r, n, 3, big), r.chance(1, 4) ? -2 : 1 + (long)r.below(2)); } break;
    case 8: if (n) { dimension_type v = r.below(n); P.affine_preimage(Variable(v), rnd_expr(r, n, 3, big), 1 + (long)r.below(2)); } break;
    case 9: if (n) P.unconstrain(rnd_vars(r, n, 2)); break;
    case 10: P.topological_closure_assign(); break;
    case 11: if (n < 4) { if (r.chance(1, 2)) P.add_space_dimensions_and_embed(1); else P.add_space_dimensions_and_project(1); } break;
    case 12: if (n) P.remove_space_dimensions(rnd_vars(r, n, 2)); break;
    case 13: if (n) P.remove_higher_space_dimensions(r.below(n + 1)); break;
    case 14: (void) P.minimized_constraints(); break;
    case 15: (void) P.minimized_generators(); break;
    case 16: (void) P.constraints(); break;
    case 17: (void) P.generators(); break;
    case 18: (void) P.is_empty(); break;
    case 19: P.time_elapse_assign(rnd(r, n)); break;
    case 20: if (n && n < 4) P.expand_space_dimension(Variable(r.below(n)), 1); break;
    case 21: { T y(P); P.poly_hull_assign(rnd(r, n)); if (r.chance(1, 2)) P.H79_widening_assign(y); else P.BHRZ03_widening_assign(y); break; }
    case 22: if (n) { dimension_type v = r.below(n); P.generalized_affine_image(Variable(v), r.chance(1, 2) ? LESS_OR_EQUAL : GREATER_OR_EQUAL, rnd_expr(r, n, 3, false), 1); } break;
    case 23: { T q = rnd(r, n); (void) P.contains(q); (void) (P == q); break; }
    case 24: { T q = rnd(r, n); P.m_swap(q); P.poly_hull_assign(q); break; }
    default: { Constraint c = rnd_con(r, n, NNC, false); (void) P.relation_with(c); break; }
    }
  }
  static std::string query(const T& x) {
    T c(x); std::ostringstream o; using namespace IO_Operators;
    o << c.is_empty() << " " << c.is_universe() << " " << c.is_bounded() << " " << c.affine_dimension() << "\n";
    o << c.minimized_constraints() << "\n" << c.minimized_generators() << "\n" << c.is_topologically_closed() << "\n";
    return o.str();
  }
  static std::string status(const std::string& d) { return line_of(d, 1); }
  static void harvest_box(const std::string&, const std::string&, const std::string&) {}
  template <class E> static void harvest_parts(const std::string& d, E& eng) {
    std::string cs, gs, sc, sg; size_t p = 0;
    if (!section(d, "con_sys (", "\ngen_sys (", cs, &p)) return;
    if (!section(d, "gen_sys (", "\nsat_c\n", gs, &p, p)) return;
    if (!section(d, "sat_c", "\nsat_g\n", sc, &p, p)) return;
    if (!section(d, "sat_g", "", sg, 0, p)) return;
    if (!sg.empty() && sg[sg.size() - 1] == '\n') sg.erase(sg.size() - 1);   // the final "\n" belongs to Polyhedron
    harvest_ls_header(cs); harvest_ls_header(gs);
    if (sc.size() < 400) harvest("bm|" + esc(sc));
    if (sg.size() < 400) harvest("bm|" + esc(sg));
    eng.section_check("Constraint_System", cs, Constraint_System());
    eng.section_check("Generator_System", gs, Generator_System());
    eng.section_check("Bit_Matrix", sc, Bit_Matrix());
    eng.section_check("Bit_Matrix", sg, Bit_Matrix());
  }
};
// ------------------------------------------------------------------------------------------ Grid
struct GridD : Hooks {
  typedef Grid T;
  static const char* name() { return "Grid"; }
  static const char* cls() { return "grid"; }
  static T fresh() { return T(); }
  static T rnd(Rng& r, dimension_type n) {
    unsigned k = r.below(10);
    if (k == 0) return T(n, UNIVERSE);
    if (k == 1) return T(n, EMPTY);
    if (k < 6) { T g(n); unsigned m = r.below(4); for (unsigned i = 0; i < m; ++i) g.add_congruence(rnd_cg(r, n)); return g; }
    Grid_Generator_System gs; gs.insert(rnd_gg(r, n, true)); unsigned m = r.below(4);
    for (unsigned i = 0; i < m; ++i) gs.insert(rnd_gg(r, n, false));
    T g(gs); if (g.space_dimension() < n) g.add_space_dimensions_and_embed(n - g.space_dimension()); return g;
  }
  static T make(Rng& r) { return rnd(r, r.below(4)); }
  static T dirty(Rng& r, std::string& kind) {
    unsigned k = r.below(4);
    if (k == 0) { kind = "empty"; return T(r.below(4), EMPTY); }
    if (k == 1) { kind = "universe"; return T(1 + r.below(3), UNIVERSE); }
    T g = rnd(r, 1 + r.below(3));
    if (k == 2) { kind = "other_minimized"; (void) g.minimized_congruences(); (void) g.minimized_grid_generators(); }
    else kind = "other_raw";
    if (line_of(dump(g), 1).find("+EM") != std::string::npos) kind += "_EM";
    return g;
  }
  static void op(Rng& r, T& G) {
    dimension_type n = G.space_dimension();
    switch (r.below(20)) {
    case 0: case 1: G.add_congruence(rnd_cg(r, n)); break;
    case 2: { Congruence_System cgs; cgs.insert(rnd_cg(r, n)); cgs.insert(rnd_cg(r, n)); G.add_congruences(cgs); break; }
    case 3: case 4: { bool emp = G.is_empty(); G.add_grid_generator(rnd_gg(r, n, emp)); break; }
    case 5: G.intersection_assign(rnd(r, n)); break;
    case 6: G.upper_bound_assign(rnd(r, n)); break;
    case 7: if (n) G.affine_image(Variable(r.below(n)), rnd_expr(r, n, 3, false), 1 + (long)r.below(2)); break;
    case 8: if (n) G.affine_preimage(Variable(r.below(n)), rnd_expr(r, n, 3, false), 1 + (long)r.below(2)); break;
    case 9: if (n) G.unconstrain(rnd_vars(r, n, 2)); break;
    case 10: if (n < 4) { if (r.chance(1, 2)) G.add_space_dimensions_and_embed(1); else G.add_space_dimensions_and_project(1); } break;
    case 11: if (n) G.remove_space_dimensions(rnd_vars(r, n, 2)); break;
    case 12: (void) G.minimized_congruences(); break;
    case 13: (void) G.minimized_grid_generators(); break;
    case 14: (void) G.congruences(); break;
    case 15: (void) G.grid_generators(); break;
    case 16: (void) G.is_empty(); break;
    case 17: { T y(G); G.upper_bound_assign(rnd(r, n)); if (r.chance(1, 2)) G.congruence_widening_assign(y); else G.generator_widening_assign(y); break; }
    case 18: G.add_constraint(rnd_expr(r, n, 3, false) == 0); break;
    default: { T q = rnd(r, n); (void) G.contains(q); break; }
    }
  }
  static std::string query(const T& x) {
    T c(x); std::ostringstream o; using namespace IO_Operators;
    o << c.is_empty() << " " << c.is_universe() << " " << c.is_bounded() << " " << c.is_discrete() << " " << c.affine_dimension() << "\n";
    o << c.minimized_congruences() << "\n" << c.minimized_grid_generators() << "\n";
    return o.str();
  }
  static std::string status(const std::string& d) { return line_of(d, 1) + "\n"; }
  static void harvest_box(const std::string&, const std::string&, const std::string&) {}
  template <class E> static void harvest_parts(const std::string& d, E& eng) {
    std::string cs, gs; size_t p = 0;
    if (!section(d, "con_sys (", "gen_sys (", cs, &p)) return;
    if (!section(d, "gen_sys (", "dimension_kinds", gs, &p, p)) return;
    harvest_ls_header(gs);
    eng.section_check("Congruence_System", cs, Congruence_System());
    eng.section_check("Grid_Generator_System", gs, Grid_Generator_System());
  }
};

// ------------------------------------------------------------------------------------------ BD_Shape / Octagonal_Shape
template <class N> struct NumName { static const char* s() { return "?"; } };
template <> struct NumName<mpz_class> { static const char* s() { return "mpz"; } };
template <> struct NumName<mpq_class> { static const char* s() { return "mpq"; } };
template <> struct NumName<double> { static const char* s() { return "double"; } };
template <> struct NumName<float> { static const char* s() { return "float"; } };
template <> struct NumName<int32_t> { static const char* s() { return "int32"; } };
template <> struct NumName<int8_t> { static const char* s() { return "int8"; } };

// a negative floating point entry printed by float_mpq_to_string with the sign after leading zeros
static std::string bad_negative_float(const std::string& d) {
  std::istringstream is(d); std::string w;
  while (is >> w) {
    if (w.size() > 3 && w[0] == '0' && w[1] == '.') {
      size_t k = 2; while (k < w.size() && w[k] == '0') ++k;
      if (k < w.size() && w[k] == '-') return w;
    }
  }
  return "";
}
template <class SH, class N, bool OCT> struct ShapeD : Hooks {
  static std::string diagnose(const std::string&, const std::string& text, const std::string& result) {
    if (!result.empty() || std::numeric_limits<N>::is_exact) return "";
    std::string w = bad_negative_float(text);
    return w.empty() ? "" : "bad_negative_float:" + w.substr(0, 60);
  }
  typedef SH T;
  static std::string nm() { return std::string(OCT ? "Octagonal_Shape<" : "BD_Shape<") + NumName<N>::s() + ">"; }
  static const char* name() { static std::string s = nm(); return s.c_str(); }
  static const char* cls() { return OCT ? "og" : "bds"; }
  static bool use_frac() { return !std::numeric_limits<N>::is_integer; }
  static T fresh() { return T(); }
  static T rnd(Rng& r, dimension_type n) {
    unsigned k = r.below(8);
    if (k == 0 || n == 0) return T(n, r.chance(1, 4) ? EMPTY : UNIVERSE);
    if (k == 1) return T(n, EMPTY);
    T s(n); unsigned m = r.below(5);
    for (unsigned i = 0; i < m; ++i) s.add_constraint(rnd_oct_con(r, n, !OCT, use_frac()));
    return s;
  }
  static T make(Rng& r) { return rnd(r, r.below(4)); }
  static T dirty(Rng& r, std::string& kind) {
    unsigned k = r.below(4);
    if (k == 0) { kind = "empty"; return T(r.below(4), EMPTY); }
    if (k == 1) { kind = "universe"; return T(1 + r.below(3), UNIVERSE); }
    T s = rnd(r, 1 + r.below(3));
    if (k == 2) { kind = "other_closed"; (void) s.is_empty(); (void) s.minimized_constraints(); } else kind = "other_raw";
    if (status(dump(s)).find("+EM") != std::string::npos) kind += "_EM";
    return s;
  }
  static void op(Rng& r, T& S) {
    dimension_type n = S.space_dimension();
    switch (r.below(20)) {
    case 0: case 1: case 2: if (n) S.add_constraint(rnd_oct_con(r, n, !OCT, use_frac())); break;
    case 3: S.intersection_assign(rnd(r, n)); break;
    case 4: S.upper_bound_assign(rnd(r, n)); break;
    case 5: if (n) S.affine_image(Variable(r.below(n)), rnd_expr(r, n, 2, false), 1 + (long)r.below(2)); break;
    case 6: if (n) S.affine_preimage(Variable(r.below(n)), rnd_expr(r, n, 2, false), 1); break;
    case 7: if (n) S.unconstrain(rnd_vars(r, n, 2)); break;
    case 8: if (n < 4) { if (r.chance(1, 2)) S.add_space_dimensions_and_embed(1); else S.add_space_dimensions_and_project(1); } break;
    case 9: if (n) S.remove_space_dimensions(rnd_vars(r, n, 2)); break;
    case 10: (void) S.is_empty(); break;
    case 11: (void) S.minimized_constraints(); break;
    case 12: (void) S.constraints(); break;
    case 13: { T y(S); S.upper_bound_assign(rnd(r, n)); S.CC76_extrapolation_assign(y); break; }
    case 14: if (n) S.generalized_affine_image(Variable(r.below(n)), r.chance(1, 2) ? LESS_OR_EQUAL : GREATER_OR_EQUAL, rnd_expr(r, n, 2, false), 1); break;
    case 15: S.time_elapse_assign(rnd(r, n)); break;
    case 16: if (n) S.refine_with_constraint(rnd_con(r, n, false, false)); break;
    case 17: { T q = rnd(r, n); (void) S.contains(q); break; }
    case 18: if (n) S.remove_higher_space_dimensions(r.below(n + 1)); break;
    default: { T y(S); S.upper_bound_assign(rnd(r, n)); S.BHMZ05_widening_assign(y); break; }
    }
  }
  static std::string query(const T& x) {
    T c(x); std::ostringstream o; using namespace IO_Operators;
    o << c.is_empty() << " " << c.is_universe() << " " << c.is_bounded() << " " << c.affine_dimension() << "\n" << c.minimized_constraints() << "\n";
    return o.str();
  }
  static std::string status(const std::string& d) { return line_of(d, OCT ? 1 : 0); }
  static void harvest_box(const std::string&, const std::string&, const std::string&) {}
  template <class E> static void harvest_parts(const std::string& d, E&) {
    if (!std::numeric_limits<N>::is_exact) {
      std::istringstream is(d); std::string w;
      while (is >> w) {
        if (w == "nan" || w == "-inf") harvest(std::string("note|special_value_stored_") + w + "|" + name());
        else if (w.size() > 310 && w.compare(0, 2, "0.") == 0 && w.find_first_not_of('0', 2) > 300) harvest(std::string("note|denormal_stored|") + name());
        else if (w.size() > 20 && w.find('.') != std::string::npos) harvest(std::string("note|needs_more_than_17_digits|") + name());
      }
    }
    if (d.size() > 700) return;
    if (OCT) { size_t p = d.find('\n'); p = d.find('\n', p + 1); harvest(std::string("orm|") + NumName<N>::s() + "|" + esc(d.substr(p + 1))); }
    else {
      size_t p = d.find('\n'); std::string rest = d.substr(p + 1);   // dbm "\n" redundancy bit matrix
      // the DB matrix has n+1 rows after its size line
      std::istringstream is(rest); size_t nr = 0; is >> nr;
      size_t q = 0; for (size_t i = 0; i < nr + 1; ++i) { q = rest.find('\n', q); if (q == std::string::npos) return; ++q; }
      harvest(std::string("dbm|") + NumName<N>::s() + "|" + esc(rest.substr(0, q)));
      if (q < rest.size() && rest[q] == '\n') harvest("bm|" + esc(rest.substr(q + 1)));
    }
  }
};

// ------------------------------------------------------------------------------------------ Box
template <class BX> struct BoxName { static const char* s() { return "?"; } };
template <> struct BoxName<Rational_Box> { static const char* s() { return "Rational_Box"; } };
template <> struct BoxName<Z_Box> { static const char* s() { return "Z_Box"; } };
template <> struct BoxName<Double_Box> { static const char* s() { return "Double_Box"; } };
template <> struct BoxName<Float_Box> { static const char* s() { return "Float_Box"; } };
template <> struct BoxName<Int32_Box> { static const char* s() { return "Int32_Box"; } };

template <class BX, bool EXACT, bool STRICT> struct BoxD : Hooks {
  typedef BX T;
  static const char* name() { return BoxName<BX>::s(); }
  static const char* cls() { return "box"; }
  static T fresh() { return T(); }
  static Constraint itv_con(Rng& r, dimension_type n) {
    Coefficient den = 1;
    if (STRICT || !EXACT) { static const long ds[] = {1, 1, 2, 3, 7, 10}; den = ds[r.below(6)]; if (r.chance(1, 15)) { den = 10; for (int k = 0; k < 40; ++k) den *= 10; } }
    Linear_Expression e = den * Variable(r.below(n)); e += 0 * Variable(n - 1);
    Coefficient c = r.range(-6, 9); if (r.chance(1, 15)) c = big_coeff(r);
    unsigned k = r.below(12);
    if (k == 0) return e == c;
    if (STRICT && k < 3) return e > c;
    if (STRICT && k < 5) return e < c;
    if (k < 8) return e >= c;
    return e <= c;
  }
  static T rnd(Rng& r, dimension_type n) {
    unsigned k = r.below(8);
    if (k == 0 || n == 0) return T(n, r.chance(1, 4) ? EMPTY : UNIVERSE);
    if (k == 1) return T(n, EMPTY);
    T b(n); unsigned m = r.below(5);
    for (unsigned i = 0; i < m; ++i) b.add_constraint(itv_con(r, n));
    return b;
  }
  static T make(Rng& r) { return rnd(r, r.below(4)); }
  static T dirty(Rng& r, std::string& kind) {
    unsigned k = r.below(4);
    if (k == 0) { kind = "empty"; return T(r.below(4), EMPTY); }
    if (k == 1) { kind = "universe"; return T(1 + r.below(3), UNIVERSE); }
    T b = rnd(r, 1 + r.below(3));
    if (k == 2) { kind = "other_checked"; (void) b.is_empty(); } else kind = "other_raw";
    return b;
  }
  static void op(Rng& r, T& B) {
    dimension_type n = B.space_dimension();
    switch (r.below(16)) {
    case 0: case 1: case 2: if (n) B.add_constraint(itv_con(r, n)); break;
    case 3: if (n) B.refine_with_constraint(rnd_con(r, n, STRICT, false)); break;
    case 4: B.intersection_assign(rnd(r, n)); break;
    case 5: B.upper_bound_assign(rnd(r, n)); break;
    case 6: if (n) B.affine_image(Variable(r.below(n)), rnd_expr(r, n, 2, false), 1 + (long)r.below(2)); break;
    case 7: if (n) B.unconstrain(rnd_vars(r, n, 2)); break;
    case 8: if (n < 4) { if (r.chance(1, 2)) B.add_space_dimensions_and_embed(1); else B.add_space_dimensions_and_project(1); } break;
    case 9: if (n) B.remove_space_dimensions(rnd_vars(r, n, 2)); break;
    case 10: (void) B.is_empty(); break;
    case 11: (void) B.is_universe(); break;
    case 12: { T y(B); B.upper_bound_assign(rnd(r, n)); B.CC76_widening_assign(y); break; }
    case 13: if (n) B.affine_preimage(Variable(r.below(n)), rnd_expr(r, n, 2, false), 1); break;
    case 14: B.time_elapse_assign(rnd(r, n)); break;
    default: { T q = rnd(r, n); (void) B.contains(q); break; }
    }
  }
  static std::string query(const T& x) {
    T c(x); std::ostringstream o; using namespace IO_Operators;
    o << c.is_empty() << " " << c.is_universe() << " " << c.is_bounded() << " " << c.affine_dimension() << "\n" << c << "\n";
    return o.str();
  }
  static std::string status(const std::string& d) { size_t p = d.find("space_dim"); return p == std::string::npos ? "" : d.substr(0, p); }
  static void harvest_box(const std::string& prior, const std::string& d, const std::string& result) {
    if (EXACT && d.size() < 500) harvest(std::string("box|") + name() + "|" + esc(prior) + "|" + esc(d) + "|" + esc(result));
  }
  template <class E> static void harvest_parts(const std::string&, E&) {}
};

// ------------------------------------------------------------------------------------------ Pointset_Powerset
template <class PD> struct PowersetD : Hooks {
  static std::string extra_prior() { return dump(typename PD::T()); }
  // Pointset_Powerset does not dump its `reduced` flag (a loaded powerset is always "not reduced"), so after an
  // omega_reduce() the lazy states of the disjuncts of original and twin may legitimately differ: the lock-step
  // comparison is on the *set of disjuncts up to their minimized descriptions*, with geometric equality as tie-break.
  static std::string view(const Pointset_Powerset<typename PD::T>& x) {
    Pointset_Powerset<typename PD::T> c(x); c.omega_reduce();
    std::vector<std::string> v;
    for (typename Pointset_Powerset<typename PD::T>::const_iterator i = c.begin(); i != c.end(); ++i) v.push_back(PD::query(i->pointset()));
    std::sort(v.begin(), v.end());
    std::ostringstream o; o << "space_dim " << c.space_dimension() << " size " << v.size() << "\n";
    for (size_t k = 0; k < v.size(); ++k) o << "disjunct\n" << v[k];
    return o.str();
  }
  static std::string lock_view(const Pointset_Powerset<typename PD::T>& x, bool) { return view(x); }
  static bool lock_tiebreak(const Pointset_Powerset<typename PD::T>& x, const Pointset_Powerset<typename PD::T>& y) {
    bool geq = false;
    try { geq = x.space_dimension() == y.space_dimension() && x.geometrically_equals(y); } catch (...) { geq = false; }
    if (geq) harvest("note|powerset_views_differ_but_geometrically_equal");
    return geq;
  }
  static std::string diagnose(const std::string&, const std::string& text, const std::string& result) {
    if (result.empty()) return "";
    return canon_dead(text) == canon_dead(result) ? "dead_parts_only" : "";
  }
  typedef Pointset_Powerset<typename PD::T> T;
  static const char* name() { static std::string s = std::string("Pointset_Powerset<") + PD::name() + ">"; return s.c_str(); }
  static const char* cls() { return ""; }
  static T fresh() { return T(); }
  static T rnd(Rng& r, dimension_type n) {
    T ps(n, EMPTY); unsigned m = r.below(4);
    for (unsigned i = 0; i < m; ++i) ps.add_disjunct(PD::rnd(r, n));
    return ps;
  }
  static T make(Rng& r) { return rnd(r, r.below(3)); }
  static T dirty(Rng& r, std::string& kind) {
    unsigned k = r.below(3);
    if (k == 0) { kind = "empty"; return T(r.below(4), EMPTY); }
    if (k == 1) { kind = "universe"; return T(1 + r.below(3), UNIVERSE); }
    kind = "other"; return rnd(r, 1 + r.below(3));
  }
  static void op(Rng& r, T& P) {
    dimension_type n = P.space_dimension();
    switch (r.below(12)) {
    case 0: case 1: P.add_disjunct(PD::rnd(r, n)); break;
    case 2: P.omega_reduce(); break;
    case 3: P.pairwise_reduce(); break;
    case 4: P.intersection_assign(rnd(r, n)); break;
    case 5: P.upper_bound_assign(rnd(r, n)); break;
    case 6: if (n) P.affine_image(Variable(r.below(n)), rnd_expr(r, n, 2, false), 1); break;
    case 7: if (n < 3) P.add_space_dimensions_and_embed(1); break;
    case 8: if (n) P.remove_higher_space_dimensions(r.below(n + 1)); break;
    case 9: (void) P.is_empty(); break;
    case 10: if (n) P.unconstrain(Variable(r.below(n))); break;
    default: { typename T::iterator i = P.begin(); if (i != P.end()) P.drop_disjunct(i); break; }
    }
  }
  static std::string query(const T& x) {
    T c(x); std::ostringstream o; using namespace IO_Operators;
    o << c.size() << " " << c.is_empty() << " " << c.is_universe() << "\n";
    c.omega_reduce(); o << c.size() << " " << c.space_dimension() << "\n";     // (the disjuncts themselves: lock_view + tiebreak)
    return o.str();
  }
  static std::string status(const std::string&) { return ""; }
  static void harvest_box(const std::string&, const std::string&, const std::string&) {}
  template <class E> static void harvest_parts(const std::string&, E&) {}
};

// ------------------------------------------------------------------------------------------ products
template <class PR> struct ProductD : Hooks {
  typedef PR T;
  static const char* g_name;
  static const char* name() { return g_name; }
  static const char* cls() { return ""; }
  static T fresh() { return T(); }
  static T rnd(Rng& r, dimension_type n) {
    T p(n, r.chance(1, 8) ? EMPTY : UNIVERSE); unsigned m = r.below(4);
    for (unsigned i = 0; i < m; ++i) { if (r.chance(1, 2)) p.refine_with_constraint(rnd_con(r, n, false, false)); else p.refine_with_congruence(rnd_cg(r, n)); }
    return p;
  }
  static T make(Rng& r) { return rnd(r, r.below(4)); }
  static T dirty(Rng& r, std::string& kind) {
    unsigned k = r.below(3);
    if (k == 0) { kind = "empty"; return T(r.below(4), EMPTY); }
    if (k == 1) { kind = "universe"; return T(1 + r.below(3), UNIVERSE); }
    T p = rnd(r, 1 + r.below(3)); kind = "other"; if (r.chance(1, 2)) { (void) p.is_empty(); kind = "other_reduced"; } return p;
  }
  static void op(Rng& r, T& P) {
    dimension_type n = P.space_dimension();
    switch (r.below(12)) {
    case 0: case 1: P.refine_with_constraint(rnd_con(r, n, false, false)); break;
    case 2: case 3: P.refine_with_congruence(rnd_cg(r, n)); break;
    case 4: P.intersection_assign(rnd(r, n)); break;
    case 5: P.upper_bound_assign(rnd(r, n)); break;
    case 6: if (n) P.affine_image(Variable(r.below(n)), rnd_expr(r, n, 2, false), 1); break;
    case 7: if (n < 4) P.add_space_dimensions_and_embed(1); break;
    case 8: if (n) P.remove_higher_space_dimensions(r.below(n + 1)); break;
    case 9: (void) P.is_empty(); break;
    case 10: if (n) P.unconstrain(Variable(r.below(n))); break;
    default: (void) P.is_universe(); break;
    }
  }
  static std::string query(const T& x) {
    T c(x); std::ostringstream o; using namespace IO_Operators;
    o << c.is_empty() << " " << c.is_universe() << " " << c.affine_dimension() << "\n" << c << "\n";
    return o.str();
  }
  static std::string status(const std::string& d) { return line_of(d, 1); }
  static void harvest_box(const std::string&, const std::string&, const std::string&) {}
  template <class E> static void harvest_parts(const std::string&, E&) {}
};
template <class PR> const char* ProductD<PR>::g_name = "Product";

// ------------------------------------------------------------------------------------------ MIP_Problem
static void harvest_enum(const std::string& d, const char* key, const char* kind) {
  size_t p = d.find(key); if (p == std::string::npos) return;
  std::istringstream is(d.substr(p + strlen(key))); std::string w; if (is >> w) harvest(std::string("enum|") + kind + "|" + w);
}

static long count_after(const std::string& d, const char* key) {
  size_t p = d.find(key); return p == std::string::npos ? 0 : atol(d.c_str() + p + strlen(key));
}
// a MIP/PIP dump without the three sequences ascii_load appends to (input_cs, base, mapping)
static std::string strip_appendable(const std::string& d) {
  std::istringstream is(d); std::string l, out; int skip = 0;
  while (std::getline(is, l)) {
    if (l.compare(0, 9, "input_cs(") == 0 || l.compare(0, 5, "base(") == 0 || l.compare(0, 8, "mapping(") == 0) { skip = 1; continue; }
    if (l.compare(0, 22, "inherited_constraints:") == 0 || l.compare(0, 25, "first_pending_constraint:") == 0
        || l == "last_generator" || l.compare(0, 17, "integer_variables") == 0) skip = 0;
    if (!skip) out += l + "\n";
  }
  return out;
}
// the loaded object = the text plus what the receiver already held in input_cs / base / mapping, nothing else differs
static std::string diagnose_appended(const std::string& prior, const std::string& text, const std::string& result) {
  if (result.empty()) return "";
  long a = count_after(prior, "input_cs( "), b = count_after(text, "input_cs( "), c = count_after(result, "input_cs( ");
  long ba = count_after(prior, "\nbase( "), bb = count_after(text, "\nbase( "), bc = count_after(result, "\nbase( ");
  long ma = count_after(prior, "\nmapping( "), mb = count_after(text, "\nmapping( "), mc = count_after(result, "\nmapping( ");
  bool had = a > 0 || ba > 0 || ma > 0;
  bool sums = c == a + b && bc == ba + bb && mc >= mb && mc <= ma + mb + 1;
  if (had && sums && strip_appendable(text) == strip_appendable(result)) {
    std::ostringstream o; o << "appended_to_prior_content:input_cs=" << b << "+" << a << "=" << c << ",base=" << bb << "+" << ba << "=" << bc << ",mapping=" << mb << "+" << ma << "~" << mc; return o.str(); }
  return "";
}
struct MipD : Hooks {
  static std::string diagnose(const std::string& p, const std::string& t, const std::string& r) { return diagnose_appended(p, t, r); }
  typedef MIP_Problem T;
  static const char* name() { return "MIP_Problem"; }
  static const char* cls() { return ""; }
  static T fresh() { return T(); }
  static Constraint con(Rng& r, dimension_type n) {
    Linear_Expression e = rnd_expr(r, n, 3, r.chance(1, 30));
    unsigned k = r.below(8);
    if (k == 0) return e == 0;
    if (k < 5) return e >= 0;
    return e <= 0;
  }
  static T rnd(Rng& r, dimension_type n) {
    T m(n);
    for (dimension_type i = 0; i < n; ++i) if (r.chance(3, 4)) { m.add_constraint(Variable(i) >= -(long)r.below(4)); m.add_constraint(Variable(i) <= (long)r.below(9)); }
    unsigned k = r.below(4); for (unsigned i = 0; i < k; ++i) m.add_constraint(con(r, n));
    m.set_objective_function(rnd_expr(r, n, 3, false));
    if (r.chance(1, 2)) m.set_optimization_mode(MINIMIZATION);
    if (n && r.chance(1, 2)) m.add_to_integer_space_dimensions(rnd_vars(r, n, 2));
    return m;
  }
  static T make(Rng& r) { return rnd(r, r.below(4)); }
  static T dirty(Rng& r, std::string& kind) {
    unsigned k = r.below(3);
    if (k == 0) { kind = "zero_dim"; return T(); }
    if (k == 1) { kind = "universe"; return T(1 + r.below(3)); }
    T m = rnd(r, 1 + r.below(3)); kind = "other";
    if (r.chance(1, 2)) { try { (void) m.solve(); kind = "other_solved"; } catch (...) {} }
    return m;
  }
  static void op(Rng& r, T& M) {
    dimension_type n = M.space_dimension();
    switch (r.below(10)) {
    case 0: case 1: M.add_constraint(con(r, n)); break;
    case 2: case 3: (void) M.solve(); break;
    case 4: (void) M.is_satisfiable(); break;
    case 5: M.set_objective_function(rnd_expr(r, n, 3, false)); break;
    case 6: M.set_optimization_mode(r.chance(1, 2) ? MAXIMIZATION : MINIMIZATION); break;
    case 7: if (n < 4) M.add_space_dimensions_and_embed(1); break;
    case 8: if (n) M.add_to_integer_space_dimensions(rnd_vars(r, n, 1)); break;
    default: M.set_control_parameter(r.chance(1, 2) ? MIP_Problem::PRICING_TEXTBOOK : (r.chance(1, 2) ? MIP_Problem::PRICING_STEEPEST_EDGE_EXACT : MIP_Problem::PRICING_STEEPEST_EDGE_FLOAT)); break;
    }
  }
  static std::string query(const T& x) {
    T c(x); std::ostringstream o; using namespace IO_Operators;
    MIP_Problem_Status st = c.solve(); o << (int)st << "\n";
    if (st == OPTIMIZED_MIP_PROBLEM) { Coefficient nu, de; c.optimal_value(nu, de); o << nu << "/" << de << " " << c.optimizing_point() << "\n"; }
    else if (st == UNBOUNDED_MIP_PROBLEM) o << c.feasible_point() << "\n";
    o << dump(c);
    return o.str();
  }
  static std::string status(const std::string&) { return ""; }
  static void harvest_box(const std::string&, const std::string&, const std::string&) {}
  template <class E> static void harvest_parts(const std::string& d, E&) {
    harvest_enum(d, "\nstatus: ", "mip_status"); harvest_enum(d, "\npricing: ", "mip_pricing");
    harvest_enum(d, "\nopt_mode ", "opt_mode"); harvest_enum(d, "\ninitialized: ", "yes_no");
  }
};

// ------------------------------------------------------------------------------------------ PIP_Problem
struct PipD : Hooks {
  static std::string twin_note(const std::string& d) { return d.find("DECISION") != std::string::npos ? "loaded_pip_tree_has_decision_node" : ""; }
  static std::string diagnose(const std::string& p, const std::string& t, const std::string& r) { return diagnose_appended(p, t, r); }
  typedef PIP_Problem T;
  static const char* name() { return "PIP_Problem"; }
  static const char* cls() { return ""; }
  static T fresh() { return T(); }
  static T rnd(Rng& r, dimension_type n) {
    T p(n);
    if (n >= 2 && r.chance(4, 5)) { Variables_Set ps; ps.insert(Variable(n - 1)); if (n >= 3 && r.chance(1, 3)) ps.insert(Variable(n - 2)); p.add_to_parameter_space_dimensions(ps); }
    for (dimension_type i = 0; i < n; ++i) if (r.chance(2, 3)) p.add_constraint(Variable(i) <= (long)r.below(7));
    unsigned k = r.below(4); for (unsigned i = 0; i < k; ++i) p.add_constraint(MipD::con(r, n));
    return p;
  }
  static T make(Rng& r) { return rnd(r, r.below(4)); }
  static T dirty(Rng& r, std::string& kind) {
    unsigned k = r.below(3);
    if (k == 0) { kind = "zero_dim"; return T(); }
    if (k == 1) { kind = "universe"; return T(1 + r.below(3)); }
    T p = rnd(r, 1 + r.below(3)); kind = "other";
    if (r.chance(1, 2)) { try { (void) p.solve(); kind = "other_solved"; } catch (...) {} }
    return p;
  }
  static void op(Rng& r, T& P) {
    dimension_type n = P.space_dimension();
    switch (r.below(9)) {
    case 0: case 1: P.add_constraint(MipD::con(r, n)); break;
    case 2: case 3: case 4: (void) P.solve(); break;
    case 5: (void) P.is_satisfiable(); break;
    case 6: if (n < 4) P.add_space_dimensions_and_embed(r.chance(1, 2) ? 1 : 0, r.chance(1, 2) ? 1 : 0); break;
    case 7: P.set_control_parameter(r.chance(1, 2) ? PIP_Problem::CUTTING_STRATEGY_DEEPEST : (r.chance(1, 2) ? PIP_Problem::CUTTING_STRATEGY_ALL : PIP_Problem::CUTTING_STRATEGY_FIRST)); break;
    default: P.set_control_parameter(r.chance(1, 2) ? PIP_Problem::PIVOT_ROW_STRATEGY_MAX_COLUMN : PIP_Problem::PIVOT_ROW_STRATEGY_FIRST); break;
    }
  }
  static std::string query(const T& x) {
    T c(x); std::ostringstream o;
    PIP_Problem_Status st = c.solve(); o << (int)st << "\n";
    if (st == OPTIMIZED_PIP_PROBLEM) c.print_solution(o);
    o << dump(c);
    return o.str();
  }
  static std::string status(const std::string&) { return ""; }
  static void harvest_box(const std::string&, const std::string&, const std::string&) {}
  template <class E> static void harvest_parts(const std::string& d, E&) {
    harvest_enum(d, "\nstatus: ", "pip_status");
    size_t p = d.find("\ncontrol_parameters\n");
    if (p != std::string::npos) { std::istringstream is(d.substr(p + 20)); std::string w; for (int i = 0; i < 2 && (is >> w); ++i) harvest("enum|pip_control|" + w); }
  }
};

// ------------------------------------------------------------------------------------------ systems, rows, matrices
struct CsD : NoParts {
  typedef Constraint_System T;
  static const char* name() { return "Constraint_System"; }
  static const char* cls() { return ""; }
  static T fresh() { return T(); }
  static T rnd(Rng& r) { dimension_type n = r.below(4); bool nnc = r.chance(1, 2);
    T cs(r.chance(1, 2) ? SPARSE : DENSE); unsigned m = r.below(5); for (unsigned i = 0; i < m; ++i) cs.insert(rnd_con(r, n, nnc, r.chance(1, 10))); return cs; }
  static T make(Rng& r) { return rnd(r); }
  static T dirty(Rng& r, std::string& kind) { kind = "other"; return rnd(r); }
  static void op(Rng& r, T& S) {
    switch (r.below(4)) {
    case 0: case 1: S.insert(rnd_con(r, S.space_dimension(), true, false)); break;
    case 2: S.set_space_dimension(S.space_dimension() + 1); break;
    default: S.set_representation(S.representation() == DENSE ? SPARSE : DENSE); break;
    }
  }
  static std::string query(const T& x) { std::ostringstream o; using namespace IO_Operators; o << x << "\n" << x.has_strict_inequalities() << x.has_equalities(); return o.str(); }
  static std::string status(const std::string&) { return ""; }
  template <class E> static void harvest_parts(const std::string& d, E&) { harvest_ls_header(d); }
};
struct GsD : NoParts {
  typedef Generator_System T;
  static const char* name() { return "Generator_System"; }
  static const char* cls() { return ""; }
  static T fresh() { return T(); }
  static T rnd(Rng& r) { dimension_type n = r.below(4); bool nnc = r.chance(1, 2);
    T gs(r.chance(1, 2) ? SPARSE : DENSE); unsigned m = r.below(5); for (unsigned i = 0; i < m; ++i) gs.insert(rnd_gen(r, n, nnc, i == 0)); return gs; }
  static T make(Rng& r) { return rnd(r); }
  static T dirty(Rng& r, std::string& kind) { kind = "other"; return rnd(r); }
  static void op(Rng& r, T& S) {
    switch (r.below(4)) {
    case 0: case 1: S.insert(rnd_gen(r, S.space_dimension(), false, false)); break;
    case 2: S.set_space_dimension(S.space_dimension() + 1); break;
    default: S.set_representation(S.representation() == DENSE ? SPARSE : DENSE); break;
    }
  }
  static std::string query(const T& x) { std::ostringstream o; using namespace IO_Operators; o << x; return o.str(); }
  static std::string status(const std::string&) { return ""; }
  template <class E> static void harvest_parts(const std::string& d, E&) { harvest_ls_header(d); }
};
struct CgsD : NoParts {
  typedef Congruence_System T;
  static const char* name() { return "Congruence_System"; }
  static const char* cls() { return ""; }
  static T fresh() { return T(); }
  static T rnd(Rng& r) { dimension_type n = r.below(4); T cs(n, r.chance(1, 2) ? SPARSE : DENSE);
    unsigned m = r.below(5); for (unsigned i = 0; i < m; ++i) cs.insert(rnd_cg(r, n)); return cs; }
  static T make(Rng& r) { return rnd(r); }
  static T dirty(Rng& r, std::string& kind) { kind = "other"; return rnd(r); }
  static void op(Rng& r, T& S) { S.insert(rnd_cg(r, S.space_dimension())); }
  static std::string query(const T& x) { std::ostringstream o; using namespace IO_Operators; o << x; return o.str(); }
  static std::string status(const std::string&) { return ""; }
};
struct GgsD : NoParts {
  typedef Grid_Generator_System T;
  static const char* name() { return "Grid_Generator_System"; }
  static const char* cls() { return ""; }
  static T fresh() { return T(); }
  static T rnd(Rng& r) { dimension_type n = r.below(4); T gs(n);
    unsigned m = r.below(5); for (unsigned i = 0; i < m; ++i) gs.insert(rnd_gg(r, n, i == 0)); return gs; }
  static T make(Rng& r) { return rnd(r); }
  static T dirty(Rng& r, std::string& kind) { kind = "other"; return rnd(r); }
  static void op(Rng& r, T& S) { S.insert(rnd_gg(r, S.space_dimension(), false)); }
  static std::string query(const T& x) { std::ostringstream o; using namespace IO_Operators; o << x; return o.str(); }
  static std::string status(const std::string&) { return ""; }
  template <class E> static void harvest_parts(const std::string& d, E&) { harvest_ls_header(d); }
};
template <Representation REP> struct LexD : NoParts {
  typedef Linear_Expression T;
  static const char* name() { return REP == DENSE ? "Linear_Expression<DENSE>" : "Linear_Expression<SPARSE>"; }
  static const char* cls() { return ""; }
  static T fresh() { return T(REP); }
  static T rnd(Rng& r) { dimension_type n = r.below(6); return T(rnd_expr(r, n, 5, r.chance(1, 4)), REP); }
  static T make(Rng& r) { return rnd(r); }
  static T dirty(Rng& r, std::string& kind) { kind = "other"; return r.chance(1, 2) ? rnd(r) : T(rnd_expr(r, r.below(6), 5, false), REP == DENSE ? SPARSE : DENSE); }
  static void op(Rng& r, T& e) {
    switch (r.below(5)) {
    case 0: e += rnd_expr(r, e.space_dimension(), 4, false); break;
    case 1: e *= Coefficient(r.range(-3, 3)); break;
    case 2: e.set_space_dimension(e.space_dimension() + 1); break;
    case 3: if (e.space_dimension()) e.set_coefficient(Variable(r.below(e.space_dimension())), Coefficient(r.range(-4, 4))); break;
    default: e -= big_coeff(r) * Variable(r.below(4)); break;
    }
  }
  static std::string query(const T& x) { std::ostringstream o; using namespace IO_Operators; o << x << " " << x.space_dimension() << " " << x.all_homogeneous_terms_are_zero(); return o.str(); }
  static std::string status(const std::string&) { return ""; }
};
template <class ROW> struct RowD : NoParts {
  typedef ROW T;
  static const char* name();
  static const char* cls() { return ""; }
  static T fresh() { return T(); }
  static T rnd(Rng& r) { dimension_type n = r.below(9); T row(n);
    for (dimension_type i = 0; i < n; ++i) if (r.chance(1, 2)) row.insert(i, r.chance(1, 6) ? big_coeff(r) : Coefficient(r.range(-5, 5)));
    return row; }
  static T make(Rng& r) { return rnd(r); }
  static T dirty(Rng& r, std::string& kind) { kind = "other"; return rnd(r); }
  static void op(Rng& r, T& row) {
    dimension_type n = row.size();
    switch (r.below(6)) {
    case 0: case 1: if (n) row.insert(r.below(n), Coefficient(r.range(-9, 9))); break;
    case 2: if (n) row.reset(r.below(n)); break;
    case 3: row.resize(n + 1 + r.below(3)); break;
    case 4: if (n) row.resize(r.below(n + 1)); break;
    default: row.normalize(); break;
    }
  }
  static std::string query(const T& x) { std::ostringstream o; for (dimension_type i = 0; i < x.size(); ++i) o << x.get(i) << " "; return o.str(); }
  static std::string status(const std::string&) { return ""; }
};
template <> const char* RowD<Sparse_Row>::name() { return "Sparse_Row"; }
template <> const char* RowD<Dense_Row>::name() { return "Dense_Row"; }
struct BitD : NoParts {
  typedef Bit_Matrix T;
  static const char* name() { return "Bit_Matrix"; }
  static const char* cls() { return ""; }
  static T fresh() { return T(); }
  static T rnd(Rng& r) { dimension_type nr = r.below(5), nc = r.below(7); if (r.chance(1, 10)) nc = 60 + r.below(80);
    T m(nr, nc); for (dimension_type i = 0; i < nr; ++i) for (dimension_type j = 0; j < nc; ++j) if (r.chance(1, 3)) m[i].set(j); return m; }
  static T make(Rng& r) { return rnd(r); }
  static T dirty(Rng& r, std::string& kind) { kind = "other"; return rnd(r); }
  static void op(Rng& r, T& m) {
    switch (r.below(5)) {
    case 0: { Bit_Row row; for (dimension_type j = 0; j < m.num_columns(); ++j) if (r.chance(1, 2)) row.set(j); m.add_recycled_row(row); break; }
    case 1: m.transpose(); break;
    case 2: m.sort_rows(); break;
    case 3: m.resize(m.num_rows() + r.below(2), m.num_columns() + r.below(3)); break;
    default: if (m.num_rows() && m.num_columns()) m[r.below(m.num_rows())].clear(r.below(m.num_columns())); break;
    }
  }
  static std::string query(const T& x) { std::ostringstream o; o << x.num_rows() << "x" << x.num_columns(); for (dimension_type i = 0; i < x.num_rows(); ++i) o << " " << x[i].count_ones(); return o.str(); }
  static std::string status(const std::string&) { return ""; }
  template <class E> static void harvest_parts(const std::string& d, E&) { if (d.size() < 400) harvest("bm|" + esc(d)); }
};

// ------------------------------------------------------------------------------------------ registry
struct ClassRunner { std::string name; std::function<void(uint64_t, long)> run; std::function<void()> summary; long weight; };
static std::vector<ClassRunner> g_classes;
template <class D> static void reg(long weight, const char* override_name = 0) {
  std::shared_ptr<Engine<D> > e(new Engine<D>());
  if (override_name) e->name = override_name;
  ClassRunner c; c.name = e->name; c.weight = weight;
  c.run = [e](uint64_t seed, long len) { e->history(seed, len); };
  c.summary = [e]() { e->summary(); };
  g_classes.push_back(c);
}

typedef C_Polyhedron CPH;
typedef NNC_Polyhedron NPH;
typedef Domain_Product<C_Polyhedron, Grid>::Direct_Product DirectPG;
typedef Domain_Product<C_Polyhedron, Grid>::Smash_Product SmashPG;
typedef Domain_Product<C_Polyhedron, Grid>::Constraints_Product ConsPG;
typedef Domain_Product<Rational_Box, Grid>::Congruences_Product CongBG;
typedef Domain_Product<BD_Shape<mpq_class>, Grid>::Shape_Preserving_Product ShapeBG;

int main(int argc, char** argv) {
  long seed = pplv::arg_long(argc, argv, "--seed", 1);
  long first = pplv::arg_long(argc, argv, "--first", 0);
  long last = pplv::arg_long(argc, argv, "--last", 100);
  long len = pplv::arg_long(argc, argv, "--len", 8);
  long batch = pplv::arg_long(argc, argv, "--batch", 20);
  std::string only = pplv::arg_str(argc, argv, "--only-class", "");
  g_verbose = pplv::arg_long(argc, argv, "--verbose", 0) != 0;

  reg<PolyD<CPH, false> >(10); reg<PolyD<NPH, true> >(10);
  reg<GridD>(8);
  reg<ShapeD<BD_Shape<mpz_class>, mpz_class, false> >(4); reg<ShapeD<BD_Shape<mpq_class>, mpq_class, false> >(4);
  reg<ShapeD<BD_Shape<double>, double, false> >(4); reg<ShapeD<BD_Shape<int8_t>, int8_t, false> >(2);
  reg<ShapeD<Octagonal_Shape<mpz_class>, mpz_class, true> >(4); reg<ShapeD<Octagonal_Shape<mpq_class>, mpq_class, true> >(4);
  reg<ShapeD<Octagonal_Shape<double>, double, true> >(4); reg<ShapeD<Octagonal_Shape<float>, float, true> >(2);
  reg<BoxD<Rational_Box, true, true> >(5); reg<BoxD<Z_Box, true, false> >(4);
  reg<BoxD<Double_Box, false, true> >(4); reg<BoxD<Float_Box, false, true> >(2);
  // (native-integer boxes are left out: an unbounded boundary keeps an uninitialised value that the dump prints)
  reg<PowersetD<PolyD<C_Polyhedron, false> > >(3); reg<PowersetD<PolyD<NNC_Polyhedron, true> > >(3);
  reg<PowersetD<GridD> >(2); reg<PowersetD<ShapeD<BD_Shape<mpq_class>, mpq_class, false> > >(2);
  reg<PowersetD<BoxD<Rational_Box, true, true> > >(2);
  reg<ProductD<DirectPG> >(2, "Direct_Product<C_Polyhedron,Grid>"); reg<ProductD<SmashPG> >(2, "Smash_Product<C_Polyhedron,Grid>");
  reg<ProductD<ConsPG> >(2, "Constraints_Product<C_Polyhedron,Grid>"); reg<ProductD<CongBG> >(2, "Congruences_Product<Rational_Box,Grid>");
  reg<ProductD<ShapeBG> >(2, "Shape_Preserving_Product<BD_Shape<mpq>,Grid>");
  reg<MipD>(6); reg<PipD>(6);
  reg<CsD>(2); reg<GsD>(2); reg<CgsD>(2); reg<GgsD>(2);
  reg<LexD<DENSE> >(1); reg<LexD<SPARSE> >(1); reg<RowD<Sparse_Row> >(1); reg<RowD<Dense_Row> >(1); reg<BitD>(1);

  std::vector<int> wheel;
  for (size_t i = 0; i < g_classes.size(); ++i)
    if (only.empty() || g_classes[i].name == only) for (long k = 0; k < g_classes[i].weight; ++k) wheel.push_back((int)i);
  if (wheel.empty()) { fprintf(stderr, "no such class\n"); return 2; }

  g_sh = (Shared*)mmap(0, sizeof(Shared), PROT_READ | PROT_WRITE, MAP_SHARED | MAP_ANONYMOUS, -1, 0);
  if (g_sh == MAP_FAILED) { perror("mmap"); return 2; }
  // batches in forked children; after a crash the parent reports case and phase and resumes with the next case
  long next = first;
  while (next < last) {
    long bend = std::min(last, next + batch);
    fflush(stdout);
    g_sh->case_id = next; g_sh->phase[0] = 0;
    pid_t pid = fork();
    if (pid < 0) { perror("fork"); return 2; }
    if (pid == 0) {
      struct rlimit rl; rl.rlim_cur = 15; rl.rlim_max = 17; setrlimit(RLIMIT_CPU, &rl);   // a batch normally needs < 1 s
      struct rlimit core; core.rlim_cur = core.rlim_max = 0; setrlimit(RLIMIT_CORE, &core);
      for (long h = next; h < bend; ++h) {
        g_sh->case_id = h; note("");
        uint64_t hs = (uint64_t)seed * 1000003ull + (uint64_t)h;
        Rng pick(hs ^ 0xC15C15ull);
        ClassRunner& c = g_classes[wheel[pick.below((unsigned)wheel.size())]];
        { std::ostringstream o; o << "case " << h << " " << c.name << " " << seed; J.line(o.str()); }
        try { c.run(hs, len); }
        catch (...) { J.line("fail|" + c.name + "|-|history_exception||||" + pplv::exc_class() + " in phase " + g_sh->phase); }
        J.line("end");
      }
      for (size_t i = 0; i < g_classes.size(); ++i) g_classes[i].summary();
      _exit(0);
    }
    int st = 0; waitpid(pid, &st, 0);
    if (WIFSIGNALED(st) || (WIFEXITED(st) && WEXITSTATUS(st) != 0)) {
      std::ostringstream o;
      o << "crash|" << (WIFSIGNALED(st) ? pplv::signal_name(WTERMSIG(st)) : "exit") << "|" << g_sh->case_id << "|" << g_sh->phase << "|" << g_sh->note;
      J.line(o.str()); J.line("end");
      next = g_sh->case_id + 1;
    }
    else next = bend;
  }
  return 0;
}
