// C08 stage 2 — correspondence harness for the widenings of the weakly-relational domains as coded:
// BD_Shape<mpq_class>, BD_Shape<mpz_class>, Octagonal_Shape<mpq_class>, Rational_Box
// (model lean/PPLV/Widen/ImplShape.lean, driver pplv_widenimpl_shape = lean/Driver/WidenImplShape.lean).
//
//   g++ -O1 -w -std=gnu++17 -I/repo/src -I/verif/harness c08_impl_shape.cc -o c08_impl_shape -L/repo/src/.libs -lppl -lgmpxx -lgmp
//   LD_LIBRARY_PATH=/repo/src/.libs ./c08_impl_shape --seed 1 --first 0 --last 8 | /verif/lean/.lake/build/bin/pplv_widenimpl_shape
//
// Ascending chains y_0 ⊆ y_1 ⊆ …: at every step a larger argument x ⊇ y_k is produced (join with a point, with a
// translated copy, with a relaxed copy; re-represented through its constraints / reduced / with an idle
// constraint so that every combination of status flags reaches the functions), every variant is called on
// COPIES and journalled, then y_{k+1} = the plain result of the chain's operator.  Besides the chains: pairs of
// raw matrices written straight into `dbm` / `matrix` (y ≤ x entrywise) so that unclosed, inconsistent and
// redundant inputs reach the loops too.
// One line per call (fields separated by one space, `|` before the observed output):
//   <id> bd <q|z> <op> <n> <xflags> <xmat> <xred> <yflags> <ymat> <yred> <stops> <tp> <csd> <cs>
//        | <rflags> <rmat> <yflags'> <ymat'> <yred'> <tp'> <lim> <plain>
//   <id> oct q <op> <n> <xflags> <xmat> - <yflags> <ymat> - <stops> <tp> <csd> <cs> | <rflags> <rmat> <yflags'> <ymat'> - <tp'> <lim> <plain>
//   <id> box q <op> <n> <xempty> <xseq> - <yempty> <yseq> - <stops> <tp> <csd> <cs> | <rempty> <rseq> - - - <tp'> <lim> <plain>
// op ∈ cc76 (stops = `-`: the overload with the static stop points), bhmz, lcc76, lbhmz, getlim (the private
// get_limiting_shape / get_limiting_octagon / get_limiting_box called directly).  flags = empty,closed,reduced.
// `plain` (limited ops): the real plain widening on copies with the same token count.
// `begin <id>` precedes every call so that a crash is attributed.  `--only <id-prefix>` replays one chain.
#include <cstdio>
#include <cstdlib>
#include <cstring>
#include <cstdint>
#include <string>
#include <sstream>
#include <iostream>
#include <vector>
#include <map>
#include <set>
#include <list>
#include <deque>
#include <algorithm>
#include <limits>
#include <stdexcept>
#include <gmpxx.h>
#define private public
#define protected public
#include "ppl.hh"
#undef private
#undef protected
#include "common.hh"

using namespace Parma_Polyhedra_Library;
using namespace Parma_Polyhedra_Library::IO_Operators;

typedef BD_Shape<mpq_class> BQ;
typedef BD_Shape<mpz_class> BZ;
typedef Octagonal_Shape<mpq_class> OQ;
typedef Rational_Box XQ;

static pplv::Journal J(1);
template <typename N> static std::string show(const N& x) { std::ostringstream s; s << x; return s.str(); }

template <typename S> struct Tr;
template <> struct Tr<BQ> { static const bool oct = false, integer = false, box = false; static const char* dom() { return "bd q"; } };
template <> struct Tr<BZ> { static const bool oct = false, integer = true, box = false; static const char* dom() { return "bd z"; } };
template <> struct Tr<OQ> { static const bool oct = true, integer = false, box = false; static const char* dom() { return "oct q"; } };
template <> struct Tr<XQ> { static const bool oct = false, integer = false, box = true; static const char* dom() { return "box q"; } };

// ------------------------------------------------------------------------------------------ dumps
template <typename T> static std::string dump(const BD_Shape<T>& bd) {
  std::string r; dimension_type rows = bd.space_dimension() + 1;
  for (dimension_type i = 0; i < rows; ++i) {
    if (i) r += ";";
    for (dimension_type j = 0; j < rows; ++j) { if (j) r += ","; r += show(bd.dbm[i][j]); }
  }
  return r;
}
template <typename T> static std::string dump(const Octagonal_Shape<T>& oc) {
  std::string r; bool first = true;
  typedef typename Octagonal_Shape<T>::N N;
  for (typename OR_Matrix<N>::const_row_iterator i = oc.matrix.row_begin(), e = oc.matrix.row_end(); i != e; ++i) {
    if (!first) r += ";"; first = false;
    typename OR_Matrix<N>::const_row_reference_type row = *i;
    for (dimension_type j = 0, rs = i.row_size(); j < rs; ++j) { if (j) r += ","; r += show(row[j]); }
  }
  return r.empty() ? "-" : r;
}
static std::string dump(const XQ& b) {
  std::string r;
  for (size_t k = 0; k < b.seq.size(); ++k) {
    if (k) r += ";";
    const XQ::interval_type& I = b.seq[k];
    r += I.lower_is_boundary_infinity() ? std::string("-inf") : show(I.lower());
    r += ":"; r += (!I.lower_is_boundary_infinity() && I.lower_is_open()) ? "1" : "0"; r += ":";
    r += I.upper_is_boundary_infinity() ? std::string("+inf") : show(I.upper());
    r += ":"; r += (!I.upper_is_boundary_infinity() && I.upper_is_open()) ? "1" : "0";
  }
  return r.empty() ? "-" : r;
}
template <typename T> static std::string flags(const BD_Shape<T>& s) {
  std::string r; r += s.marked_empty() ? "1" : "0"; r += s.marked_shortest_path_closed() ? "1" : "0";
  r += s.marked_shortest_path_reduced() ? "1" : "0"; return r;
}
template <typename T> static std::string flags(const Octagonal_Shape<T>& s) {
  std::string r; r += s.marked_empty() ? "1" : "0"; r += s.marked_strongly_closed() ? "1" : "0"; r += "0"; return r;
}
static std::string flags(const XQ& b) { return b.marked_empty() ? "100" : "000"; }
template <typename T> static std::string red(const BD_Shape<T>& bd) {
  if (!bd.marked_shortest_path_reduced()) return "-";
  std::string r; dimension_type rows = bd.space_dimension() + 1;
  for (dimension_type i = 0; i < rows; ++i) {
    if (i) r += ";";
    for (dimension_type j = 0; j < rows; ++j) r += (i < bd.redundancy_dbm.num_rows() && bd.redundancy_dbm[i][j]) ? "1" : "0";
  }
  return r;
}
template <typename T> static std::string red(const Octagonal_Shape<T>&) { return "-"; }
static std::string red(const XQ&) { return "-"; }

static std::string dump_cs(const Constraint_System& cs, dimension_type n) {
  std::string r;
  for (Constraint_System::const_iterator i = cs.begin(), e = cs.end(); i != e; ++i) {
    if (!r.empty()) r += ";";
    r += i->is_equality() ? "E|" : (i->is_strict_inequality() ? "S|" : "G|");
    r += show(i->inhomogeneous_term()); r += "|";
    for (dimension_type k = 0; k < n; ++k) {
      if (k) r += ",";
      r += (k < i->space_dimension()) ? show(i->coefficient(Variable(k))) : std::string("0");
    }
  }
  return r.empty() ? "-" : r;
}

// ------------------------------------------------------------------------------------------ random data
static mpq_class rq(pplv::Rng& g, bool integer) {
  long num = g.range(-4, 5), den = (!integer && g.chance(1, 4)) ? 2 : 1;
  mpq_class q(num, den); q.canonicalize(); return q;
}
static Constraint bound(const Linear_Expression& e, const mpq_class& b, bool eq) {
  Linear_Expression l = e; l *= Coefficient(b.get_den());
  Linear_Expression r; r += Coefficient(b.get_num());
  return eq ? (l == r) : (l <= r);
}
static Linear_Expression dimfix(dimension_type n) { Linear_Expression e; if (n) e += 0 * Variable(n - 1); return e; }

// a random expression of the domain in dimension n (coefficients ±1), as a coefficient vector
template <typename S> static std::vector<int> rnd_dir(pplv::Rng& g, dimension_type n) {
  std::vector<int> c(n, 0);
  dimension_type a = g.below(n), b = g.below(n);
  int sa = g.chance(1, 2) ? 1 : -1;
  c[a] = sa;
  if (!Tr<S>::box && a != b && !g.chance(1, 3)) c[b] = Tr<S>::oct ? (g.chance(1, 2) ? 1 : -1) : -sa;
  return c;
}
static Linear_Expression expr_of(const std::vector<int>& c) {
  Linear_Expression e = dimfix(c.size());
  for (size_t i = 0; i < c.size(); ++i) if (c[i]) e += c[i] * Variable(i);
  return e;
}
static mpq_class eval(const std::vector<int>& c, const std::vector<mpq_class>& p) {
  mpq_class v = 0; for (size_t i = 0; i < c.size(); ++i) v += c[i] * p[i]; return v;
}
template <typename S> static S rnd_shape(pplv::Rng& g, dimension_type n) {
  if (n == 0) return g.chance(1, 3) ? S(0, EMPTY) : S(0, UNIVERSE);
  std::vector<mpq_class> p(n); for (dimension_type i = 0; i < n; ++i) p[i] = rq(g, Tr<S>::integer);
  Constraint_System cs; cs.insert(dimfix(n) <= 1);
  unsigned k = 1 + g.below(3 * n + 2);
  for (unsigned t = 0; t < k; ++t) {
    std::vector<int> c = rnd_dir<S>(g, n);
    bool eq = g.chance(1, 7);
    static const long nums[] = {0, 0, 1, 1, 2, 3}; static const long dens[] = {1, 1, 2, 1, 1, 1};
    unsigned w = g.below(6);
    mpq_class sl(nums[w], (Tr<S>::integer ? 1 : dens[w])); sl.canonicalize();
    mpq_class v = eval(c, p);
    cs.insert(bound(expr_of(c), eq ? v : mpq_class(v + sl), eq));
  }
  if (g.chance(1, Tr<S>::box ? 7 : 25)) { std::vector<int> c = rnd_dir<S>(g, n); cs.insert(bound(expr_of(c), eval(c, p) - 1, false)); cs.insert(bound(-expr_of(c), -eval(c, p) - 1, false)); }   // empty now and then (boxes: often — an undetected-empty receiver, not marked, reaches get_limiting_box)
  S s(n, UNIVERSE); s.refine_with_constraints(cs); return s;
}

// the same set with another history (flags)
template <typename S> static S rehist(pplv::Rng& g, const S& s) {
  dimension_type n = s.space_dimension();
  switch (g.below(5)) {
  case 0: return s;
  case 1: { S c(s); Constraint_System cs = c.constraints(); S t(n, UNIVERSE); t.refine_with_constraints(cs); if (t.is_empty() != S(s).is_empty()) return s; return t; }
  case 2: { S c(s); (void) c.minimized_constraints(); return c; }
  case 3: { S c(s); (void) c.is_empty(); return c; }
  default: { S c(s); if (n) c.refine_with_constraint(Variable(g.below(n)) <= 1000); { S t(s); if (!c.contains(t)) return s; } return c; }   // only when idle
  }
}

// a larger argument
template <typename S> static S enlarge(pplv::Rng& g, const S& y) {
  dimension_type n = y.space_dimension();
  S x(y);
  if (n == 0) return x;
  unsigned w = g.below(10);
  if (w == 0) return x;                                   // stationary
  if (w <= 4) {                                           // join with a point
    Constraint_System cs;
    for (dimension_type i = 0; i < n; ++i) cs.insert(bound(Linear_Expression(Variable(i)), rq(g, Tr<S>::integer) + (g.chance(1, 4) ? g.range(-3, 3) : 0), true));
    S pt(n, UNIVERSE); pt.refine_with_constraints(cs); x.upper_bound_assign(pt); return x;
  }
  if (w <= 7) {                                           // join with a translated copy
    S t(y); dimension_type v = g.below(n); long d = g.range(-2, 2); if (d == 0) d = 1;
    t.affine_image(Variable(v), Linear_Expression(Variable(v)) + d); x.upper_bound_assign(t); return x;
  }
  { S t = rnd_shape<S>(g, n); x.upper_bound_assign(t); return x; }
}

// a limiting constraint system
template <typename S> static Constraint_System rnd_limit_cs(pplv::Rng& g, dimension_type n, const S& x) {
  Constraint_System cs;
  if (n > 0) cs.insert(dimfix(n) >= -1);
  std::vector<Constraint> xv; { S c(x); Constraint_System xs = c.constraints(); for (Constraint_System::const_iterator i = xs.begin(); i != xs.end(); ++i) xv.push_back(*i); }
  unsigned m = 1 + g.below(4);
  for (unsigned k = 0; k < m; ++k) {
    unsigned w = g.below(10);
    if (w < 4 && !xv.empty()) {                            // a constraint of the larger argument, weakened by 0..2
      const Constraint& c = xv[g.below((unsigned)xv.size())];
      Linear_Expression e(c.expression());
      if (c.is_equality()) { if (g.chance(1, 2)) cs.insert(e == 0); else cs.insert(e + 1 >= 0); }
      else { e += Coefficient(g.range(0, 2)); cs.insert(e >= 0); }
    } else if (w < 9 && n > 0) {                           // a constraint the domain can express
      std::vector<int> c = rnd_dir<S>(g, n);
      long b = g.range(-3, 6);
      Linear_Expression e = expr_of(c);
      if (g.chance(1, 4)) { e *= 2; b = 2 * b + 1; }       // non-unit coefficient, inexact quotient
      else if (g.chance(1, 6)) { e *= 3; b = 3 * b; }
      if (g.chance(1, 6)) cs.insert(e == Coefficient(b)); else cs.insert(e <= Coefficient(b));
      if (g.chance(1, 8)) cs.insert(e <= Coefficient(b + g.range(-1, 1)));     // the same direction twice
    } else if (n > 1) {                                     // not expressible
      cs.insert(Variable(0) + 2 * Variable(1) <= g.range(0, 5));
    } else cs.insert(dimfix(n) >= -2);                      // a constant row
  }
  return cs;
}

// ------------------------------------------------------------------------------------------ the calls
template <typename S> struct StopT { typedef typename S::N type; };
template <> struct StopT<XQ> { typedef mpq_class type; };

template <typename S> static std::vector<typename StopT<S>::type> rnd_stops(pplv::Rng& g, std::string& txt) {
  std::set<mpq_class> st; unsigned k = g.below(6);
  for (unsigned i = 0; i < k; ++i) st.insert(rq(g, Tr<S>::integer) + (g.chance(1, 3) ? g.range(-2, 4) : 0));
  std::vector<typename StopT<S>::type> v; txt.clear();
  for (std::set<mpq_class>::const_iterator i = st.begin(); i != st.end(); ++i) {
    typename StopT<S>::type s; assign_r(s, *i, ROUND_UP); v.push_back(s);
    if (!txt.empty()) txt += ","; txt += show(*i);
  }
  if (txt.empty()) txt = "[]";
  return v;
}

template <typename S> static void call_cc76(S& x, const S& y, unsigned* tp) { x.CC76_extrapolation_assign(y, tp); }
template <> void call_cc76<XQ>(XQ& x, const XQ& y, unsigned* tp) { x.CC76_widening_assign(y, tp); }
template <typename S, typename It> static void call_cc76s(S& x, const S& y, It f, It l, unsigned* tp) { x.CC76_extrapolation_assign(y, f, l, tp); }
template <typename It> static void call_cc76s(XQ& x, const XQ& y, It f, It l, unsigned*) { x.CC76_widening_assign(y, f, l); }
template <typename S> static void call_bhmz(S& x, const S& y, unsigned* tp) { x.BHMZ05_widening_assign(y, tp); }
template <> void call_bhmz<XQ>(XQ&, const XQ&, unsigned*) {}
template <typename S> static void call_lbhmz(S& x, const S& y, const Constraint_System& cs, unsigned* tp) { x.limited_BHMZ05_extrapolation_assign(y, cs, tp); }
template <> void call_lbhmz<XQ>(XQ&, const XQ&, const Constraint_System&, unsigned*) {}
template <typename T> static void call_getlim(const BD_Shape<T>& x, const Constraint_System& cs, BD_Shape<T>& l) { x.get_limiting_shape(cs, l); }
template <typename T> static void call_getlim(const Octagonal_Shape<T>& x, const Constraint_System& cs, Octagonal_Shape<T>& l) { x.get_limiting_octagon(cs, l); }
static void call_getlim(const XQ& x, const Constraint_System& cs, XQ& l) { x.get_limiting_box(cs, l); }

static std::string tps(const unsigned* tp) { return tp ? std::to_string(*tp) : std::string("-"); }

// one journalled call on copies of (x, y).  op: 0 cc76 default, 1 cc76 stops, 2 bhmz, 3 lcc76, 4 lbhmz, 5 getlim
template <typename S> static void one_call(pplv::Rng& g, const std::string& id, int op, const S& x0, const S& y0, int tok,
                                           const Constraint_System& cs, S* keep) {
  dimension_type n = x0.space_dimension();
  if (Tr<S>::box && (op == 2 || op == 4)) return;
  static const char* OPS[] = {"cc76", "cc76", "bhmz", "lcc76", "lbhmz", "getlim"};
  S x(x0), y(y0);
  unsigned tpv = tok < 0 ? 0 : (unsigned)tok; unsigned* tp = tok < 0 ? nullptr : &tpv;
  std::string stops = "-";
  std::vector<typename StopT<S>::type> sv;
  if (op == 1) sv = rnd_stops<S>(g, stops);
  std::ostringstream L;
  L << id << " " << Tr<S>::dom() << " " << OPS[op] << " " << n << " " << flags(x) << " " << dump(x) << " " << red(x) << " "
    << flags(y) << " " << dump(y) << " " << red(y) << " " << stops << " " << tps(tp) << " "
    << (op >= 3 ? cs.space_dimension() : 0) << " " << (op >= 3 ? dump_cs(cs, n) : std::string("-")) << " |";
  J.line("begin " + id);
  std::string lim = "-", plain = "-";
  try {
    if (op == 3 || op == 4) {
      // the plain widening on copies, same token count; the limiting shape through the private helper
      S xp(x0), yp(y0); unsigned t2 = tpv; unsigned* tp2 = tp ? &t2 : nullptr;
      if (op == 3) call_cc76(xp, yp, tp2); else call_bhmz(xp, yp, tp2);
      plain = flags(xp) + "@" + dump(xp);
      S xl(x0); if (!(n == 0 || xl.marked_empty() || y0.marked_empty())) { S l(n, UNIVERSE); call_getlim(xl, cs, l); lim = dump(l); }
    }
    switch (op) {
    case 0: call_cc76(x, y, tp); break;
    case 1: call_cc76s(x, y, sv.begin(), sv.end(), tp); break;
    case 2: call_bhmz(x, y, tp); break;
    case 3: x.limited_CC76_extrapolation_assign(y, cs, tp); break;
    case 4: call_lbhmz(x, y, cs, tp); break;
    case 5: { S l(n, UNIVERSE); call_getlim(x, cs, l); lim = dump(l); break; }
    }
    L << " " << flags(x) << " " << dump(x) << " " << flags(y) << " " << dump(y) << " " << red(y) << " " << tps(tp) << " " << lim << " " << plain;
    if (keep) *keep = x;
  } catch (...) {
    L << " exc " << pplv::exc_class();
  }
  J.line(L.str());
}

template <typename S> static void run_chain(pplv::Rng& g, const std::string& cid) {
  dimension_type n = 1 + g.below(3);
  if (Tr<S>::oct && n == 3 && !g.chance(1, 3)) n = 2;
  if (g.chance(1, 40)) n = 0;
  int chain_op = Tr<S>::box ? (int)g.below(2) : (int)g.below(3);       // 0 cc76, 1 cc76 stops, 2 bhmz
  S y = rnd_shape<S>(g, n);
  long steps = 2 + g.below(4);
  for (long k = 0; k < steps; ++k) {
    std::string sid = cid + "." + std::to_string(k);
    S x = rehist(g, enlarge(g, y));
    S yy = rehist(g, y);
    Constraint_System cs = rnd_limit_cs<S>(g, n, x);
    int tok = g.chance(1, 2) ? (int)g.below(3) : 0;
    // side runs
    one_call<S>(g, sid + ".a", g.chance(1, 2) ? 0 : 1, x, yy, -1, cs, (S*)0);
    one_call<S>(g, sid + ".t", g.below(2), x, yy, tok, cs, (S*)0);
    one_call<S>(g, sid + ".b", 2, x, yy, g.chance(1, 3) ? tok : -1, cs, (S*)0);
    one_call<S>(g, sid + ".l", 3, x, yy, g.chance(1, 4) ? tok : -1, cs, (S*)0);
    one_call<S>(g, sid + ".m", 4, x, yy, g.chance(1, 4) ? tok : -1, cs, (S*)0);
    if (g.chance(1, 2)) one_call<S>(g, sid + ".g", 5, x, yy, -1, cs, (S*)0);
    // the chain's own step
    S res(x);
    one_call<S>(g, sid + ".w", chain_op, x, yy, -1, cs, &res);
    bool stationary = false;
    try { stationary = y.contains(res); } catch (...) {}
    y = res;
    if (stationary && g.chance(1, 2)) break;
  }
}

// raw matrices: y random, x = y with some cells raised
template <typename T> static void raise_cells(pplv::Rng& g, BD_Shape<T>& x) {
  dimension_type rows = x.space_dimension() + 1;
  for (dimension_type i = 0; i < rows; ++i) for (dimension_type j = 0; j < rows; ++j) {
    if (i == j || !g.chance(1, 3)) continue;
    typename BD_Shape<T>::N& c = x.dbm[i][j];
    if (is_plus_infinity(c)) continue;
    if (g.chance(1, 4)) assign_r(c, PLUS_INFINITY, ROUND_NOT_NEEDED);
    else { mpq_class q; assign_r(q, c, ROUND_NOT_NEEDED); q += g.range(1, 3); assign_r(c, q, ROUND_UP); }
  }
  x.reset_shortest_path_closed();
}
template <typename T> static void raise_cells(pplv::Rng& g, Octagonal_Shape<T>& x) {
  typedef typename Octagonal_Shape<T>::N N;
  for (typename OR_Matrix<N>::row_iterator i = x.matrix.row_begin(), e = x.matrix.row_end(); i != e; ++i) {
    typename OR_Matrix<N>::row_reference_type row = *i;
    for (dimension_type j = 0, rs = i.row_size(); j < rs; ++j) {
      if (i.index() == j || !g.chance(1, 3)) continue;
      N& c = row[j];
      if (is_plus_infinity(c)) continue;
      if (g.chance(1, 4)) assign_r(c, PLUS_INFINITY, ROUND_NOT_NEEDED);
      else { mpq_class q; assign_r(q, c, ROUND_NOT_NEEDED); q += g.range(1, 3); assign_r(c, q, ROUND_UP); }
    }
  }
  x.reset_strongly_closed();
}
template <typename T> static void fill_cells(pplv::Rng& g, BD_Shape<T>& s, unsigned dens) {
  dimension_type rows = s.space_dimension() + 1;
  for (dimension_type i = 0; i < rows; ++i) for (dimension_type j = 0; j < rows; ++j)
    if (i != j && g.below(100) < dens) { mpq_class q = rq(g, Tr<BD_Shape<T> >::integer); if (g.chance(2, 3) && q < 0) q = -q; assign_r(s.dbm[i][j], q, ROUND_UP); }
  s.reset_shortest_path_closed();
}
template <typename T> static void fill_cells(pplv::Rng& g, Octagonal_Shape<T>& s, unsigned dens) {
  typedef typename Octagonal_Shape<T>::N N;
  for (typename OR_Matrix<N>::row_iterator i = s.matrix.row_begin(), e = s.matrix.row_end(); i != e; ++i) {
    typename OR_Matrix<N>::row_reference_type row = *i;
    for (dimension_type j = 0, rs = i.row_size(); j < rs; ++j)
      if (i.index() != j && g.below(100) < dens) { mpq_class q = rq(g, false); if (g.chance(2, 3) && q < 0) q = -q; assign_r(row[j], q, ROUND_UP); }
  }
  s.reset_strongly_closed();
}
template <typename S> static void run_raw(pplv::Rng& g, const std::string& cid) {
  dimension_type n = 1 + g.below(3);
  if (Tr<S>::oct && n == 3) n = 2;
  S y(n, UNIVERSE); fill_cells(g, y, 20 + g.below(60));
  S x(y); raise_cells(g, x);
  Constraint_System cs = rnd_limit_cs<S>(g, n, x);
  int tok = g.chance(1, 3) ? (int)g.below(3) : -1;
  one_call<S>(g, cid + ".a", g.below(2), x, y, tok, cs, (S*)0);
  one_call<S>(g, cid + ".b", 2, x, y, tok, cs, (S*)0);
  one_call<S>(g, cid + ".l", 3, x, y, tok, cs, (S*)0);
  one_call<S>(g, cid + ".m", 4, x, y, tok, cs, (S*)0);
  one_call<S>(g, cid + ".g", 5, x, y, -1, cs, (S*)0);
}
// boxes: intervals refined bound by bound, so that an inverted pair of bounds stays an UNDETECTED-empty interval
// (not marked empty) in the receiver and/or in y; limiting rows aimed at the bounds of the receiver
template <> void run_raw<XQ>(pplv::Rng& g, const std::string& cid) {
  dimension_type n = 1 + g.below(3);
  XQ x(n, UNIVERSE), y(n, UNIVERSE);
  Constraint_System cs; cs.insert(dimfix(n) >= -1);
  unsigned mode = g.below(3);                       // 0: both fine, 1: y undetected-empty, 2: both undetected-empty (x empty implies y empty: precondition)
  dimension_type bad = g.below(n);
  for (dimension_type k = 0; k < n; ++k) {
    mpq_class lo = rq(g, false), hi = lo + g.range(0, 3);
    mpq_class xlo = lo - g.range(0, 2), xhi = hi + g.range(0, 2);
    bool ybad = (k == bad) && (mode == 1 || mode == 2), xbad = (k == bad) && mode == 2;
    if (ybad) std::swap(lo, hi), lo += 1;
    if (xbad) { std::swap(xlo, xhi); xlo += 1; }
    bool hl = xbad || !g.chance(1, 4), hu = xbad || !g.chance(1, 4);
    // y keeps the precondition y ⊆ x: a bound of y is absent only where the receiver has none either
    if (hl || ybad || !g.chance(1, 3)) y.refine_with_constraint(bound(-Linear_Expression(Variable(k)), -lo, false));
    if (hu || ybad || !g.chance(1, 3)) y.refine_with_constraint(bound(Linear_Expression(Variable(k)), hi, false));
    if (hl) x.refine_with_constraint(bound(-Linear_Expression(Variable(k)), -xlo, false));
    if (hu) x.refine_with_constraint(bound(Linear_Expression(Variable(k)), xhi, false));
    // limiting rows around the receiver's bounds
    unsigned m = g.below(3) + (xbad ? 2 : 0);      // an undetected-empty component is `is_included()` in rows on both sides
    for (unsigned t = 0; t < m; ++t) {
      mpq_class b = (g.chance(1, 2) ? xlo : xhi) + g.range(-1, 1) + (xbad ? g.range(-2, 2) : 0);
      bool up = g.chance(1, 2);
      Linear_Expression e = up ? Linear_Expression(Variable(k)) : -Linear_Expression(Variable(k));
      if (g.chance(1, 8)) cs.insert(bound(Linear_Expression(Variable(k)), b, true));
      else cs.insert(bound(e, up ? b : mpq_class(-b), false));
    }
  }
  int tok = g.chance(1, 3) ? (int)g.below(3) : -1;
  one_call<XQ>(g, cid + ".a", g.below(2), x, y, tok, cs, (XQ*)0);
  one_call<XQ>(g, cid + ".l", 3, x, y, tok, cs, (XQ*)0);
  one_call<XQ>(g, cid + ".g", 5, x, y, -1, cs, (XQ*)0);
}

int main(int argc, char** argv) {
  long seed = pplv::arg_long(argc, argv, "--seed", 1), first = pplv::arg_long(argc, argv, "--first", 0),
       last = pplv::arg_long(argc, argv, "--last", 4), per = pplv::arg_long(argc, argv, "--per", 12),
       raw = pplv::arg_long(argc, argv, "--raw", 6);
  std::string only = pplv::arg_str(argc, argv, "--only", "");
  return pplv::run_batches(first, last, [&](long b) {
    for (int kind = 0; kind < 4; ++kind) {
      for (long c = 0; c < per + raw; ++c) {
        pplv::Rng g(((uint64_t)seed * 1000003ull + (uint64_t)b) * 4099ull + (uint64_t)kind * 1000ull + (uint64_t)c);
        std::string cid = std::to_string(seed) + "." + std::to_string(b) + "." + "qzox"[kind] + std::to_string(c);
        if (!only.empty() && only != cid) continue;
        bool israw = c >= per;
        try {
          switch (kind) {
          case 0: if (israw) run_raw<BQ>(g, cid); else run_chain<BQ>(g, cid); break;
          case 1: if (israw) run_raw<BZ>(g, cid); else run_chain<BZ>(g, cid); break;
          case 2: if (israw) run_raw<OQ>(g, cid); else run_chain<OQ>(g, cid); break;
          case 3: if (israw) run_raw<XQ>(g, cid); else run_chain<XQ>(g, cid); break;
          }
        } catch (...) {
          J.line(cid + " exc-outside " + pplv::exc_class());
        }
      }
    }
  }, 120);
}
