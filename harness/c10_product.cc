// C10 harness: seeded histories over partially reduced products.
//   c10_product --seed S --first A --last B --len L [--batch K]          (compile with -DPAIRSET=0|1|2|3)
// For every pair (D1, D2) of the pair set and every reduction policy (Direct, Smash, Constraints,
// Congruences, Shape_Preserving) a history keeps a pool of products and, next to every product,
// *shadow* copies of its two components on which the same component-wise operators are applied
// without any reduction.  Before an observation the shadows are printed (`praw`: the claimed raw
// components), then domain1()/domain2() (which reduce) are printed (`pobs`); the driver pplv_ps
// judges: components shrink, intersection unchanged.  Grammar: lean/Driver/PS.lean.
#include "ppl.hh"
#include "common.hh"
#include "poly_io.hh"
#include <memory>

using namespace Parma_Polyhedra_Library;
using pplv::Rng;
using namespace pplv_io;

#ifndef PAIRSET
#define PAIRSET 0
#endif

static pplv::Journal J(1);

// ---- printing of one component -----------------------------------------------------------------
static void put_cgs(OS& o, const Congruence_System& cgs, dimension_type n) {
  dimension_type m = 0;
  for (Congruence_System::const_iterator i = cgs.begin(); i != cgs.end(); ++i) ++m;
  o << " " << m;
  for (Congruence_System::const_iterator i = cgs.begin(); i != cgs.end(); ++i) {
    o << " " << i->modulus() << " " << i->inhomogeneous_term();
    for (dimension_type k = 0; k < n; ++k)
      o << " " << (k < i->space_dimension() ? i->coefficient(Variable(k)) : Coefficient(0));
  }
}
static void put_ggs(OS& o, const Grid_Generator_System& gs, dimension_type n) {
  dimension_type m = 0;
  for (Grid_Generator_System::const_iterator i = gs.begin(); i != gs.end(); ++i) ++m;
  o << " " << m;
  for (Grid_Generator_System::const_iterator i = gs.begin(); i != gs.end(); ++i) {
    const char* k = i->is_line() ? "l" : i->is_parameter() ? "q" : "p";
    o << " " << k << " ";
    if (i->is_line()) o << 1; else o << i->divisor();
    for (dimension_type v = 0; v < n; ++v)
      o << " " << (v < i->space_dimension() ? i->coefficient(Variable(v)) : Coefficient(0));
  }
}
template <typename D> struct CK { static const char code = 'P';
  static void put(OS& o, const D& d, dimension_type n, bool minimized) {
    o << " P"; if (minimized) put_cs(o, d.minimized_constraints(), n); else put_cs(o, d.constraints(), n); } };
template <> struct CK<Grid> { static const char code = 'G';
  static void put(OS& o, const Grid& d, dimension_type n, bool minimized) {
    // (emptiness printed explicitly: copies of empty grids are known to print universe congruences)
    if (d.is_empty()) { o << " G 1 0 0"; return; }
    o << " G 0"; if (minimized) put_cgs(o, d.minimized_congruences(), n); else put_cgs(o, d.congruences(), n);
    put_ggs(o, d.grid_generators(), n); } };
template <typename D> struct Lang { static const int k = 0; };                 // any constraint
template <> struct Lang<Rational_Box> { static const int k = 1; };              // (used only for naming)
template <typename D> static const char* dname();
template <> const char* dname<C_Polyhedron>() { return "C"; }
template <> const char* dname<NNC_Polyhedron>() { return "N"; }
template <> const char* dname<Grid>() { return "G"; }
template <> const char* dname<Rational_Box>() { return "B"; }
template <> const char* dname<BD_Shape<mpq_class> >() { return "D"; }
template <> const char* dname<Octagonal_Shape<mpq_class> >() { return "O"; }

template <typename D> struct IsGrid { static const bool v = false; };
template <> struct IsGrid<Grid> { static const bool v = true; };
template <typename D> struct IsBox { static const bool v = false; };
template <> struct IsBox<Rational_Box> { static const bool v = true; };
template <typename D> struct IsNNC { static const bool v = false; };
template <> struct IsNNC<NNC_Polyhedron> { static const bool v = true; };
template <typename D> struct IsPoly { static const bool v = false; };
template <> struct IsPoly<NNC_Polyhedron> { static const bool v = true; };
template <> struct IsPoly<C_Polyhedron> { static const bool v = true; };

template <typename D1, typename D2, typename PR>
struct PHist {
  Rng r;
  struct Slot { std::unique_ptr<PR> p; std::unique_ptr<D1> s1; std::unique_ptr<D2> s2; bool raw_known; };
  Slot slot[3];
  dimension_type maxdim;
  static const bool has_grid = IsGrid<D1>::v || IsGrid<D2>::v;
  static const bool has_box = IsBox<D1>::v || IsBox<D2>::v;
  static const bool nnc = IsNNC<D1>::v || IsNNC<D2>::v;
  // strict relation symbols are accepted only if no component is a closed polyhedron
  static const bool strict_ok = !(IsPoly<D1>::v && !IsNNC<D1>::v) && !(IsPoly<D2>::v && !IsNNC<D2>::v) && nnc;
  PHist(uint64_t seed) : r(seed) {}
  bool live(int s) const { return (bool)slot[s].p; }
  dimension_type dim(int s) { return slot[s].p->space_dimension(); }
  int pick_live() { int c[3], k = 0; for (int i = 0; i < 3; ++i) if (live(i)) c[k++] = i; return c[r.below(k)]; }
  int pick_compatible(int s) { int c[3], k = 0; for (int i = 0; i < 3; ++i) if (live(i) && dim(i) == dim(s)) c[k++] = i; return c[r.below(k)]; }

  bool pm = false;     // print minimized systems?  (chosen once per observation: raw and observed alike)
  void put_pair(OS& o, const D1& a, const D2& b, dimension_type n) {
    CK<D1>::put(o, a, n, pm); CK<D2>::put(o, b, n, pm);
  }
  void put_raw(int s) {
    Slot& S = slot[s]; dimension_type n = S.p->space_dimension();
    OS o; o << "praw " << s << " " << n; put_pair(o, *S.s1, *S.s2, n); J.line(o.str());
  }
  // print the claimed raw components, then force the reduction and print the observed ones
  void observe(int s) {
    Slot& S = slot[s]; dimension_type n = S.p->space_dimension();
    pm = r.chance(1, 2);
    if (S.raw_known) put_raw(s);
    if (r.chance(1, 2)) { bool did = S.p->reduce(); OS o; o << "pexp " << s << " " << did; J.line(o.str()); }
    const D1& o1 = S.p->domain1(); const D2& o2 = S.p->domain2();
    { OS o; o << "pobs " << s << " " << n; put_pair(o, o1, o2, n); J.line(o.str()); }
    *S.s1 = o1; *S.s2 = o2; S.raw_known = true;
    if (!S.p->OK()) { OS o; o << "notok " << s; J.line(o.str()); }
  }

  // ---- random data: small rational bounds, congruences with non-unit coefficients and moduli ----------
  Linear_Expression unit_or_pair(dimension_type n) {
    Linear_Expression e; e += 0 * Variable(n - 1);
    unsigned k = r.below(10);
    if (k < 6 || n < 2) e += (r.chance(1, 2) ? 1 : -1) * Variable(r.below(n));
    else if (k < 9) { dimension_type i = r.below(n), j = (i + 1 + r.below(n - 1)) % n;
      e += Variable(i); if (r.chance(1, 2)) e -= Variable(j); else e += Variable(j); if (r.chance(1, 2)) e = -e; }
    else { e = rnd_expr(r, n, 2, false); e -= e.inhomogeneous_term(); if (all_zero(e, n)) e += Variable(0); }
    return e;
  }
  Constraint rnd_c(dimension_type n, bool allow_strict) {
    Linear_Expression e = unit_or_pair(n);
    e *= (long[]){1, 1, 1, 2, 3}[r.below(5)];
    e += r.range(-7, 7);
    unsigned t = r.below(12);
    if (t == 0) return e == 0;
    if (allow_strict && t < 4) return e > 0;
    return e >= 0;
  }
  // interval constraint (acceptable to add_constraint of boxes, BD shapes, octagons, polyhedra)
  Constraint interval_c(dimension_type n) {
    Linear_Expression e; e += 0 * Variable(n - 1);
    e += (r.chance(1, 2) ? 1 : -1) * Variable(r.below(n)); e *= r.range(1, 3); e += r.range(-7, 7);
    return e >= 0;
  }
  Constraint equality_c(dimension_type n) {
    Linear_Expression e; e += 0 * Variable(n - 1);
    e += Variable(r.below(n)); e *= r.range(1, 3); e += r.range(-5, 5);
    return e == 0;
  }
  Congruence rnd_cg(dimension_type n) {
    Linear_Expression e; e += 0 * Variable(n - 1);
    unsigned k = r.below(10);
    long a = (long[]){1, 1, 2, 3, 3, 4}[r.below(6)];
    if (k < 6 || n < 2) e += a * Variable(r.below(n));
    else if (k < 9) { dimension_type i = r.below(n), j = (i + 1 + r.below(n - 1)) % n; e += a * Variable(i); e += r.range(-2, 2) * Variable(j); }
    else { e = rnd_expr(r, n, 2, false); e -= e.inhomogeneous_term(); if (all_zero(e, n)) e += Variable(0); }
    long m = (long[]){0, 2, 2, 3, 3, 4, 5, 1, 6}[r.below(9)];
    long b = r.range(-4, 4);
    return (e %= b) / m;
  }
  void put_cg(OS& o, const Congruence& cg, dimension_type n) {
    o << " " << cg.modulus() << " " << cg.inhomogeneous_term();
    for (dimension_type v = 0; v < n; ++v) o << " " << cg.coefficient(Variable(v));
  }
  Relation_Symbol rnd_rel(bool allow_strict) {
    return (Relation_Symbol[]){LESS_OR_EQUAL, EQUAL, GREATER_OR_EQUAL, LESS_THAN, GREATER_THAN}[r.below(allow_strict ? 5 : 3)];
  }

  void create(int s, dimension_type n) {
    Slot& S = slot[s];
    if (r.chance(1, 4)) {
      // from a grid given by generators with non-unit divisors
      Grid g(n, EMPTY);
      Linear_Expression pe; pe += 0 * Variable(n - 1);
      for (dimension_type i = 0; i < n; ++i) pe += r.range(-3, 3) * Variable(i);
      g.add_grid_generator(grid_point(pe, r.range(1, 3)));
      unsigned k = r.below((unsigned)n + 1);
      for (unsigned j = 0; j < k; ++j) {
        Linear_Expression qe; qe += 0 * Variable(n - 1);
        for (dimension_type i = 0; i < n; ++i) if (r.chance(1, 2)) qe += r.range(-3, 3) * Variable(i);
        if (all_zero(qe, n)) qe += Variable(r.below(n));
        if (r.chance(1, 6)) g.add_grid_generator(grid_line(qe)); else g.add_grid_generator(parameter(qe, r.range(1, 3)));
      }
      OS o; o << "pgrid " << s << " " << n; put_ggs(o, g.grid_generators(), n); J.line(o.str());
      S.p.reset(new PR(g)); S.s1.reset(new D1(g)); S.s2.reset(new D2(g)); S.raw_known = true;
    } else {
      OS o; o << "pnew " << s << " " << n; J.line(o.str());
      S.p.reset(new PR(n, UNIVERSE)); S.s1.reset(new D1(n, UNIVERSE)); S.s2.reset(new D2(n, UNIVERSE)); S.raw_known = true;
    }
    if (r.chance(2, 3)) {   // a bounding box with rational bounds: the intersection can be enumerated exhaustively
      for (dimension_type i = 0; i < n; ++i) {
        long sc = r.range(1, 3);
        apply_refine_con(s, sc * Variable(i) >= r.range(-9, -1));
        apply_refine_con(s, sc * Variable(i) <= r.range(1, 11));
      }
    }
    unsigned k = 1 + r.below(4);
    for (unsigned i = 0; i < k; ++i) refine(s);
  }
  void apply_refine_con(int s, const Constraint& c) {
    Slot& S = slot[s]; dimension_type n = dim(s);
    OS o; o << "pop " << s << " refine_con"; put_con(o, c, n); J.line(o.str());
    S.p->refine_with_constraint(c); S.s1->refine_with_constraint(c); S.s2->refine_with_constraint(c);
  }
  void refine(int s) {
    Slot& S = slot[s]; dimension_type n = dim(s);
    OS o;
    unsigned k = r.below(10);
    if (k < 4) apply_refine_con(s, rnd_c(n, nnc));
    else if (k < 5) { Constraint_System cs; cs.insert(rnd_c(n, nnc)); cs.insert(rnd_c(n, nnc));
      o << "pop " << s << " refine_cons"; put_cs(o, cs, n); J.line(o.str());
      S.p->refine_with_constraints(cs); S.s1->refine_with_constraints(cs); S.s2->refine_with_constraints(cs); }
    else if (k < 8) { Congruence cg = rnd_cg(n);
      o << "pop " << s << " refine_cg"; put_cg(o, cg, n); J.line(o.str());
      S.p->refine_with_congruence(cg); S.s1->refine_with_congruence(cg); S.s2->refine_with_congruence(cg); }
    else if (k < 9) { Constraint c = has_grid ? equality_c(n) : (r.chance(1, 3) ? equality_c(n) : interval_c(n));
      o << "pop " << s << " add_con"; put_con(o, c, n); J.line(o.str());
      if (r.chance(1, 2)) { S.p->add_constraint(c); } else { Constraint_System cs(c); S.p->add_constraints(cs); }
      S.s1->add_constraint(c); S.s2->add_constraint(c); }
    else { Constraint c = equality_c(n); Congruence cg(c);
      o << "pop " << s << " add_cg"; put_cg(o, cg, n); J.line(o.str());
      if (r.chance(1, 2)) { S.p->add_congruence(cg); } else { Congruence_System cgs(cg); S.p->add_congruences(cgs); }
      S.s1->add_congruence(cg); S.s2->add_congruence(cg); }
  }

  // ---- queries: every definite answer must be true of the intersection --------------------------------
  Constraint derived_c(int s, dimension_type n) {
    // a constraint related to the product itself: one of its own constraints as is / as an equality /
    // made strict / reversed -- so that saturation and inclusion by one component only do occur
    PR& P = *slot[s].p;
    Constraint_System cs = r.chance(1, 2) ? Constraint_System(P.domain1().minimized_constraints()) : Constraint_System(P.domain2().minimized_constraints());
    unsigned m = 0, meq = 0; for (Constraint_System::const_iterator i = cs.begin(); i != cs.end(); ++i) { ++m; if (i->is_equality()) ++meq; }
    if (m == 0) return rnd_c(n, true);
    if (meq > 0 && r.chance(2, 3)) {
      // an equality of one component: its hyperplane contains the whole product; ask about the strict /
      // non-strict half-spaces and the hyperplane itself (saturation without inclusion, and with it)
      unsigned pk = r.below(meq), q = 0;
      for (Constraint_System::const_iterator i = cs.begin(); i != cs.end(); ++i) if (i->is_equality()) { if (q++ == pk) {
        Linear_Expression e(i->expression());
        if (e.space_dimension() < n) e += 0 * Variable(n - 1);
        switch (r.below(5)) { case 0: return e > 0; case 1: return -e > 0; case 2: return e >= 0; case 3: return e == 0; default: return -e >= 0; }
      } }
    }
    unsigned pick = r.below(m), j = 0;
    for (Constraint_System::const_iterator i = cs.begin(); i != cs.end(); ++i, ++j) if (j == pick) {
      Linear_Expression e(i->expression());
      if (e.space_dimension() < n) e += 0 * Variable(n - 1);
      switch (r.below(6)) {
        case 0: return e >= 0; case 1: return e == 0; case 2: return e > 0;
        case 3: return -e >= 0; case 4: return -e > 0; default: return e + r.range(-1, 1) >= 0;
      }
    }
    return rnd_c(n, true);
  }
  void query(int s) {
    Slot& S = slot[s]; dimension_type n = dim(s); PR& P = *S.p;
    if (!S.raw_known) observe(s);
    pm = r.chance(1, 2);
    put_raw(s);
    OS o; o << "pq " << s << " ";
    switch (r.below(20)) {
      case 0: o << "is_empty " << P.is_empty(); break;
      case 1: o << "is_universe " << P.is_universe(); break;
      case 2: o << "is_bounded " << P.is_bounded(); break;
      case 3: o << "is_discrete " << P.is_discrete(); break;
      case 4: o << "is_closed " << P.is_topologically_closed(); break;
      case 5: { dimension_type v = r.below(n); o << "constrains " << v << " " << P.constrains(Variable(v)); break; }
      case 6: { int t = pick_compatible(s); if (t == s) return; observe(t);
        o << "contains " << t << " " << P.contains(*slot[t].p); break; }
      case 7: { int t = pick_compatible(s); if (t == s) return; observe(t);
        o << "strictly_contains " << t << " " << P.strictly_contains(*slot[t].p); break; }
      case 8: { int t = pick_compatible(s); if (t == s) return; observe(t);
        o << "disjoint " << t << " " << P.is_disjoint_from(*slot[t].p); break; }
      case 9: { Linear_Expression e = rnd_expr(r, n, 2, false); bool up = r.chance(1, 2);
        o << (up ? "bounds_above" : "bounds_below"); put_expr(o, e, n);
        o << " " << (up ? P.bounds_from_above(e) : P.bounds_from_below(e)); break; }
      case 10: case 11: { Linear_Expression e = r.chance(1, 2) ? rnd_expr(r, n, 2, false) : Linear_Expression(unit_or_pair(n));
        bool mx = r.chance(1, 2);
        Coefficient num, den; bool incl; Generator g = point();
        bool ok;
        if (r.chance(1, 2)) ok = mx ? P.maximize(e, num, den, incl) : P.minimize(e, num, den, incl);
        else ok = mx ? P.maximize(e, num, den, incl, g) : P.minimize(e, num, den, incl, g);
        o << (mx ? "max" : "min"); put_expr(o, e, n);
        if (!ok) o << " none"; else o << " " << num << " " << den << " " << incl; break; }
      case 12: case 13: case 14: case 15: {
        Constraint c = r.chance(2, 3) ? derived_c(s, n) : rnd_c(n, true);
        Poly_Con_Relation rel = P.relation_with(c);
        o << "relcon"; put_con(o, c, n);
        o << " " << rel.implies(Poly_Con_Relation::is_disjoint()) << " " << rel.implies(Poly_Con_Relation::strictly_intersects())
          << " " << rel.implies(Poly_Con_Relation::is_included()) << " " << rel.implies(Poly_Con_Relation::saturates());
        break; }
      case 16: case 17: { Congruence cg = rnd_cg(n);
        Poly_Con_Relation rel = P.relation_with(cg);
        o << "relcg"; put_cg(o, cg, n);
        o << " " << rel.implies(Poly_Con_Relation::is_disjoint()) << " " << rel.implies(Poly_Con_Relation::strictly_intersects())
          << " " << rel.implies(Poly_Con_Relation::is_included()) << " " << rel.implies(Poly_Con_Relation::saturates());
        break; }
      default: { Linear_Expression e; e += 0 * Variable(n - 1);
        for (dimension_type i = 0; i < n; ++i) e += r.range(-4, 4) * Variable(i);
        unsigned k = r.below(6);
        Generator g = (k < 4 || all_zero(e, n)) ? point(e, r.range(1, 3)) : k == 4 ? ray(e) : line(e);
        Poly_Gen_Relation rel = P.relation_with(g);
        o << "relgen"; put_gen(o, g, n); o << " " << rel.implies(Poly_Gen_Relation::subsumes());
        break; }
    }
    J.line(o.str());
    S.raw_known = false;
    observe(s);      // the predicate may have reduced: print the components (judged against the praw above) and resynchronise
  }

  // the argument of a binary operator: its components are printed (and, for `diff', observed) first
  int operand(int s, bool need_exact) {
    int t = pick_compatible(s); if (t == s) return -1;
    if (need_exact || !slot[t].raw_known) observe(t); else { pm = r.chance(1, 2); put_raw(t); }
    return t;
  }

#define BOTH(call) do { P.call; S.s1->call; S.s2->call; } while (0)
  // one step: a transformer applied to the product and, component-wise, to the shadows
  void mutate() {
    int s = pick_live();
    if (!slot[s].raw_known) observe(s);
    Slot& S = slot[s]; PR& P = *S.p; dimension_type n = dim(s);
    OS o;
    bool reduces_first = false;
    unsigned k = r.below(50);
    try {
      switch (k) {
      case 0: case 1: case 2: case 3: case 4: case 5: refine(s); break;
      case 6: case 7: { int t = operand(s, false); if (t < 0) return;
        o << "pop " << s << " meet " << t; J.line(o.str());
        P.intersection_assign(*slot[t].p); S.s1->intersection_assign(*slot[t].s1); S.s2->intersection_assign(*slot[t].s2); break; }
      case 8: case 9: case 10: { dimension_type v = r.below(n);
        Linear_Expression e = rnd_expr(r, n, 2, false); Coefficient d = r.chance(1, 4) ? r.range(-2, -1) : r.range(1, 3);
        bool img = k != 10;
        o << "pop " << s << (img ? " aff_img " : " aff_pre ") << v << " " << d; put_expr(o, e, n); J.line(o.str());
        if (img) BOTH(affine_image(Variable(v), e, d)); else BOTH(affine_preimage(Variable(v), e, d)); break; }
      case 11: case 12: case 13: case 14: { dimension_type v = r.below(n);
        Relation_Symbol rs = rnd_rel(strict_ok);
        Linear_Expression e = rnd_expr(r, n, 2, false); Coefficient d = r.chance(1, 4) ? r.range(-2, -1) : r.range(1, 3);
        bool img = k < 13;
        o << "pop " << s << (img ? " gen_img " : " gen_pre ") << v << " " << relsym_str(rs) << " " << d; put_expr(o, e, n); J.line(o.str());
        if (img) BOTH(generalized_affine_image(Variable(v), rs, e, d)); else BOTH(generalized_affine_preimage(Variable(v), rs, e, d));
        break; }
      case 15: case 16: case 17: case 18: {
        Relation_Symbol rs = rnd_rel(strict_ok);
        Linear_Expression lhs = unit_or_pair(n); lhs += r.range(-2, 2);
        Linear_Expression rhs = rnd_expr(r, n, 2, false);
        bool img = k < 17;
        o << "pop " << s << (img ? " gen_img2 " : " gen_pre2 ") << relsym_str(rs); put_expr(o, lhs, n); put_expr(o, rhs, n); J.line(o.str());
        if (img) BOTH(generalized_affine_image(lhs, rs, rhs)); else BOTH(generalized_affine_preimage(lhs, rs, rhs));
        break; }
      case 19: case 20: case 21: case 22: { dimension_type v = r.below(n);
        Linear_Expression lb = rnd_expr(r, n, 2, false), ub = rnd_expr(r, n, 2, false);
        if (r.chance(1, 2)) ub = lb + r.range(0, 4);
        Coefficient d = r.chance(1, 4) ? r.range(-2, -1) : r.range(1, 3);
        bool img = k < 21;
        // Box::bounded_affine_preimage divides by zero (SIGFPE, known finding): exercised rarely on pairs with a box
        if (!img && has_box && !r.chance(1, 6)) img = true;
        o << "pop " << s << (img ? " bnd_img " : " bnd_pre ") << v << " " << d; put_expr(o, lb, n); put_expr(o, ub, n); J.line(o.str());
        if (img) BOTH(bounded_affine_image(Variable(v), lb, ub, d)); else BOTH(bounded_affine_preimage(Variable(v), lb, ub, d));
        break; }
      case 23: case 24: { Variables_Set vs; vs.insert(Variable(r.below(n))); if (r.chance(1, 3)) vs.insert(Variable(r.below(n)));
        o << "pop " << s << " unconstrain";
        for (Variables_Set::const_iterator i = vs.begin(); i != vs.end(); ++i) o << " " << *i;
        J.line(o.str());
        if (vs.size() == 1 && r.chance(1, 2)) BOTH(unconstrain(Variable(*vs.begin()))); else BOTH(unconstrain(vs));
        reduces_first = true; break; }
      case 25: case 26: { int t = operand(s, false); if (t < 0) return;
        if (r.chance(1, 4)) {   // journalled as an upper bound only when it reports success
          bool done = P.upper_bound_assign_if_exact(*slot[t].p);
          if (done) { o << "pop " << s << " ub " << t; J.line(o.str()); }
          S.raw_known = false; slot[t].raw_known = false; observe(s); observe(t); return; }
        o << "pop " << s << " ub " << t; J.line(o.str());
        P.upper_bound_assign(*slot[t].p); S.s1->upper_bound_assign(*slot[t].s1); S.s2->upper_bound_assign(*slot[t].s2);
        slot[t].raw_known = false; reduces_first = true; break; }
      case 27: case 28: { int t = operand(s, true); if (t < 0) return;
        o << "pop " << s << " diff " << t; J.line(o.str());
        P.difference_assign(*slot[t].p); S.s1->difference_assign(*slot[t].s1); S.s2->difference_assign(*slot[t].s2);
        slot[t].raw_known = false; reduces_first = true; break; }
      case 29: case 30: { int t = operand(s, false); if (t < 0) return;
        o << "pop " << s << " time_elapse " << t; J.line(o.str());
        P.time_elapse_assign(*slot[t].p); S.s1->time_elapse_assign(*slot[t].s1); S.s2->time_elapse_assign(*slot[t].s2);
        slot[t].raw_known = false; reduces_first = true; break; }
      case 31: { int t = operand(s, false); if (t < 0) return;   // x := widen(x ub t, x)
        PR old(P);
        o << "pop " << s << " ub " << t; J.line(o.str());
        P.upper_bound_assign(*slot[t].p);
        { OS w; w << "pop " << s << " widen " << s; J.line(w.str()); }
        P.widening_assign(old);
        S.raw_known = false; slot[t].raw_known = false; observe(s); observe(t); return; }
      case 32: { o << "pop " << s << " closure"; J.line(o.str()); BOTH(topological_closure_assign()); break; }
      case 33: { if (n >= maxdim) return; bool emb = r.chance(1, 2);
        o << "pop " << s << (emb ? " add_dims_embed 1" : " add_dims_project 1"); J.line(o.str());
        if (emb) BOTH(add_space_dimensions_and_embed(1)); else BOTH(add_space_dimensions_and_project(1));
        break; }
      case 34: { if (n < 2) return; Variables_Set vs; vs.insert(Variable(r.below(n)));
        o << "pop " << s << " remove_dims 1 " << *vs.begin(); J.line(o.str());
        BOTH(remove_space_dimensions(vs)); break; }
      case 35: { if (n < 2) return; dimension_type m = 1 + r.below(n - 1);
        o << "pop " << s << " remove_higher " << m; J.line(o.str());
        BOTH(remove_higher_space_dimensions(m)); break; }
      case 36: { if (n < 2) return;
        Partial_Function pf; std::vector<dimension_type> perm; for (dimension_type i = 0; i < n; ++i) perm.push_back(i);
        for (dimension_type i = n; i > 1; --i) std::swap(perm[i - 1], perm[r.below(i)]);
        o << "pop " << s << " map_dims " << n << " " << n;
        for (dimension_type i = 0; i < n; ++i) { pf.insert(i, perm[i]); o << " " << i << " " << perm[i]; }
        J.line(o.str()); BOTH(map_space_dimensions(pf)); break; }
      case 37: { if (n >= maxdim) return; dimension_type v = r.below(n);
        o << "pop " << s << " expand " << v << " 1"; J.line(o.str());
        BOTH(expand_space_dimension(Variable(v), 1)); break; }
      case 38: { if (n < 2) return; dimension_type v = r.below(n), w = r.below(n); if (v == w) return;
        Variables_Set vs; vs.insert(Variable(v));
        o << "pop " << s << " fold 1 " << v << " " << w; J.line(o.str());
        BOTH(fold_space_dimensions(vs, Variable(w))); break; }
      case 39: { int t = pick_live(); if (t == s || n + dim(t) > maxdim) return;
        if (!slot[t].raw_known) observe(t); else { pm = r.chance(1, 2); put_raw(t); }
        o << "pop " << s << " concat " << t; J.line(o.str());
        P.concatenate_assign(*slot[t].p); S.s1->concatenate_assign(*slot[t].s1); S.s2->concatenate_assign(*slot[t].s2); break; }
      case 40: { // copy / assignment
        int d = r.below(3); if (d == s) return;
        o << "pcopy " << d << " " << s; J.line(o.str());
        if (live(d) && r.chance(1, 2)) *slot[d].p = P; else slot[d].p.reset(new PR(P));
        slot[d].s1.reset(new D1(*S.s1)); slot[d].s2.reset(new D2(*S.s2)); slot[d].raw_known = true; break; }
      case 41: { int d = r.below(3); if (live(d) && r.chance(2, 3)) return; create(d, n); break; }
      default: query(s); return;
      }
    } catch (...) {
      J.line("exc " + pplv::exc_class());
      // the product may have been modified half-way: start the slot afresh
      create(s, n);
      return;
    }
    if (reduces_first) { S.raw_known = false; observe(s); }
    // the Box operators with a known base-level defect are observed at once, so that the defect is attributed
    // to them (component-wise, on the unreduced components) and does not leak into later judgements
    else if (has_box && k >= 13 && k <= 22) observe(s);
    else if (k > 5 && k < 40 && r.chance(2, 3)) observe(s);     // short chains: a failure is attributed to few operators
  }

  void run(long h, long seed, long len, int pair, const char* pol) {
    dimension_type n = 1 + r.below((unsigned)std::min<long>(maxdim, 3));
    if (has_grid && n == 3 && r.chance(1, 2)) n = 2;
    { OS o; o << "hist " << h << " " << seed << " X " << pair << " " << pol << " " << dname<D1>() << " " << dname<D2>(); J.line(o.str()); }
    create(0, n); observe(0);
    create(1, n); if (r.chance(1, 2)) observe(1);
    for (long i = 0; i < len; ++i) {
      mutate();
      if (r.chance(2, 5)) { int s = pick_live(); observe(s); }
    }
    for (int s = 0; s < 3; ++s) if (live(s)) observe(s);
    J.line("end");
  }
};

template <typename D1, typename D2>
static void run_pair(int pair, uint64_t sd, long h, long seed, long len, long maxdim, unsigned pol) {
  typedef Domain_Product<D1, D2> DP;
  switch (pol) {
    case 0: { PHist<D1, D2, typename DP::Direct_Product> H(sd); H.maxdim = maxdim; H.run(h, seed, len, pair, "direct"); break; }
    case 1: { PHist<D1, D2, typename DP::Smash_Product> H(sd); H.maxdim = maxdim; H.run(h, seed, len, pair, "smash"); break; }
    case 2: { PHist<D1, D2, typename DP::Constraints_Product> H(sd); H.maxdim = maxdim; H.run(h, seed, len, pair, "constraints"); break; }
    case 3: { PHist<D1, D2, typename DP::Congruences_Product> H(sd); H.maxdim = maxdim; H.run(h, seed, len, pair, "congruences"); break; }
    default: { PHist<D1, D2, typename DP::Shape_Preserving_Product> H(sd); H.maxdim = maxdim; H.run(h, seed, len, pair, "shape"); break; }
  }
}

int main(int argc, char** argv) {
  long seed = pplv::arg_long(argc, argv, "--seed", 1);
  long first = pplv::arg_long(argc, argv, "--first", 0);
  long last = pplv::arg_long(argc, argv, "--last", 10);
  long len = pplv::arg_long(argc, argv, "--len", 10);
  long maxdim = pplv::arg_long(argc, argv, "--maxdim", 3);
  long batch = pplv::arg_long(argc, argv, "--batch", 20);
  long nb = (last - first + batch - 1) / batch;
  return pplv::run_batches(0, nb, [&](long b) {
    for (long h = first + b * batch; h < std::min(last, first + (b + 1) * batch); ++h) {
      uint64_t sd = (uint64_t)seed * 1000003ull + (uint64_t)h + 77777ull * PAIRSET;
      Rng pick(sd ^ 0x2545F491u);
      unsigned which = pick.below(2), pol = pick.below(5);
#if PAIRSET == 0
      if (which == 0) run_pair<C_Polyhedron, Grid>(0, sd, h, seed, len, maxdim, pol);
      else run_pair<Grid, NNC_Polyhedron>(1, sd, h, seed, len, maxdim, pol);
#elif PAIRSET == 1
      if (which == 0) run_pair<Rational_Box, Grid>(2, sd, h, seed, len, maxdim, pol);
      else run_pair<BD_Shape<mpq_class>, C_Polyhedron>(3, sd, h, seed, len, maxdim, pol);
#elif PAIRSET == 2
      if (which == 0) run_pair<Octagonal_Shape<mpq_class>, Rational_Box>(4, sd, h, seed, len, maxdim, pol);
      else run_pair<Grid, BD_Shape<mpq_class> >(5, sd, h, seed, len, maxdim, pol);
#else
      if (which == 0) run_pair<Grid, Octagonal_Shape<mpq_class> >(6, sd, h, seed, len, maxdim, pol);
      else run_pair<Grid, Rational_Box>(7, sd, h, seed, len, maxdim, pol);
#endif
    }
  }, 60);
}
