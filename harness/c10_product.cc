// C10 harness: seeded histories over partially reduced products.
//   c10_product --seed S --first A --last B --len L [--batch K]          (compile with -DPAIRSET=0|1|2)
// For every pair (D1, D2) of the pair set and every reduction policy (Direct, Smash, Constraints,
// Congruences, Shape_Preserving) a history keeps a pool of products and, next to every product,
// *shadow* copies of its two components on which the same component-wise operators are applied
// without any reduction.  Before an observation the shadows are printed (`praw`: the claimed raw
// components), then domain1()/domain2() (which reduce) are printed (`pobs`); the driver pplv_ps
// judges: components shrink, intersection unchanged.  Grammar: lean/Driver/PS.lean.
#include "ppl.hh"
#include "common.hh"
#include "poly_io.hh"
#include <memory>

using namespace Parma_Polyhedra_Library;
using pplv::Rng;
using namespace pplv_io;

#ifndef PAIRSET
#define PAIRSET 0
#endif

static pplv::Journal J(1);

// ---- printing of one component -----------------------------------------------------------------
static void put_cgs(OS& o, const Congruence_System& cgs, dimension_type n) {
  dimension_type m = 0;
  for (Congruence_System::const_iterator i = cgs.begin(); i != cgs.end(); ++i) ++m;
  o << " " << m;
  for (Congruence_System::const_iterator i = cgs.begin(); i != cgs.end(); ++i) {
    o << " " << i->modulus() << " " << i->inhomogeneous_term();
    for (dimension_type k = 0; k < n; ++k)
      o << " " << (k < i->space_dimension() ? i->coefficient(Variable(k)) : Coefficient(0));
  }
}
static void put_ggs(OS& o, const Grid_Generator_System& gs, dimension_type n) {
  dimension_type m = 0;
  for (Grid_Generator_System::const_iterator i = gs.begin(); i != gs.end(); ++i) ++m;
  o << " " << m;
  for (Grid_Generator_System::const_iterator i = gs.begin(); i != gs.end(); ++i) {
    const char* k = i->is_line() ? "l" : i->is_parameter() ? "q" : "p";
    o << " " << k << " ";
    if (i->is_line()) o << 1; else o << i->divisor();
    for (dimension_type v = 0; v < n; ++v)
      o << " " << (v < i->space_dimension() ? i->coefficient(Variable(v)) : Coefficient(0));
  }
}
template <typename D> struct CK { static const char code = 'P';
  static void put(OS& o, const D& d, dimension_type n, bool minimized) {
    o << " P"; if (minimized) put_cs(o, d.minimized_constraints(), n); else put_cs(o, d.constraints(), n); } };
template <> struct CK<Grid> { static const char code = 'G';
  static void put(OS& o, const Grid& d, dimension_type n, bool minimized) {
    // (emptiness printed explicitly: copies of empty grids are known to print universe congruences)
    if (d.is_empty()) { o << " G 1 0 0"; return; }
    o << " G 0"; if (minimized) put_cgs(o, d.minimized_congruences(), n); else put_cgs(o, d.congruences(), n);
    put_ggs(o, d.grid_generators(), n); } };
template <typename D> struct Lang { static const int k = 0; };                 // any constraint
template <> struct Lang<Rational_Box> { static const int k = 1; };              // (used only for naming)
template <typename D> static const char* dname();
template <> const char* dname<C_Polyhedron>() { return "C"; }
template <> const char* dname<NNC_Polyhedron>() { return "N"; }
template <> const char* dname<Grid>() { return "G"; }
template <> const char* dname<Rational_Box>() { return "B"; }
template <> const char* dname<BD_Shape<mpq_class> >() { return "D"; }
template <> const char* dname<Octagonal_Shape<mpq_class> >() { return "O"; }

template <typename D1, typename D2, typename PR>
struct PHist {
  Rng r;
  struct Slot { std::unique_ptr<PR> p; std::unique_ptr<D1> s1; std::unique_ptr<D2> s2; bool raw_known; };
  Slot slot[3];
  dimension_type maxdim;
  bool nnc;
  PHist(uint64_t seed) : r(seed) {}
  bool live(int s) const { return (bool)slot[s].p; }
  dimension_type dim(int s) { return slot[s].p->space_dimension(); }
  int pick_live() { int c[3], k = 0; for (int i = 0; i < 3; ++i) if (live(i)) c[k++] = i; return c[r.below(k)]; }
  int pick_compatible(int s) { int c[3], k = 0; for (int i = 0; i < 3; ++i) if (live(i) && dim(i) == dim(s)) c[k++] = i; return c[r.below(k)]; }

  bool pm = false;     // print minimized systems?  (chosen once per observation: raw and observed alike)
  void put_pair(OS& o, const D1& a, const D2& b, dimension_type n) {
    CK<D1>::put(o, a, n, pm); CK<D2>::put(o, b, n, pm);
  }
  // print the claimed raw components, then force the reduction and print the observed ones
  void observe(int s) {
    Slot& S = slot[s]; dimension_type n = S.p->space_dimension();
    pm = r.chance(1, 2);
    if (S.raw_known) { OS o; o << "praw " << s << " " << n; put_pair(o, *S.s1, *S.s2, n); J.line(o.str()); }
    bool expl = r.chance(1, 2);
    if (expl) { bool did = S.p->reduce(); OS o; o << "pexp " << s << " " << did; J.line(o.str()); }
    const D1& o1 = S.p->domain1(); const D2& o2 = S.p->domain2();
    { OS o; o << "pobs " << s << " " << n; put_pair(o, o1, o2, n); J.line(o.str()); }
    *S.s1 = o1; *S.s2 = o2; S.raw_known = true;
    if (!S.p->OK()) { OS o; o << "notok " << s; J.line(o.str()); }
  }

  Constraint rnd_c(dimension_type n) {
    unsigned k = r.below(10);
    Linear_Expression e; e += 0 * Variable(n - 1);
    if (k < 5) { e += (r.chance(1, 2) ? 1 : -1) * Variable(r.below(n)); e *= r.range(1, 3); e += r.range(-7, 7); }
    else if (k < 8 && n >= 2) { dimension_type i = r.below(n), j = (i + 1 + r.below(n - 1)) % n;
      e += Variable(i); if (r.chance(1, 2)) e -= Variable(j); else e += Variable(j); if (r.chance(1, 2)) e = -e; e += r.range(-5, 5); }
    else { e = rnd_expr(r, n, 2, false); if (all_zero(e, n)) e += Variable(0); }
    unsigned t = r.below(12);
    if (t == 0) return e == 0;
    if (nnc && t < 3) return e > 0;
    return e >= 0;
  }
  Congruence rnd_cg(dimension_type n) {
    Linear_Expression e; e += 0 * Variable(n - 1);
    unsigned k = r.below(10);
    if (k < 6) e += Variable(r.below(n));
    else if (n >= 2 && k < 9) { dimension_type i = r.below(n), j = (i + 1 + r.below(n - 1)) % n; e += Variable(i); e += r.range(-2, 2) * Variable(j); }
    else { e = rnd_expr(r, n, 2, false); if (all_zero(e, n)) e += Variable(0); }
    long m = (long[]){0, 2, 2, 3, 3, 4, 5, 1}[r.below(8)];
    long b = r.range(-4, 4);
    return (e %= b) / m;
  }

  void create(int s, dimension_type n) {
    Slot& S = slot[s];
    OS o; o << "pnew " << s << " " << n; J.line(o.str());
    S.p.reset(new PR(n, UNIVERSE)); S.s1.reset(new D1(n, UNIVERSE)); S.s2.reset(new D2(n, UNIVERSE)); S.raw_known = true;
    unsigned k = 1 + r.below(4);
    for (unsigned i = 0; i < k; ++i) refine(s);
  }
  void refine(int s) {
    Slot& S = slot[s]; dimension_type n = dim(s);
    OS o;
    if (r.chance(3, 5)) { Constraint c = rnd_c(n);
      o << "pop " << s << " refine_con"; put_con(o, c, n); J.line(o.str());
      S.p->refine_with_constraint(c); S.s1->refine_with_constraint(c); S.s2->refine_with_constraint(c);
    } else { Congruence cg = rnd_cg(n);
      o << "pop " << s << " refine_cg " << cg.modulus() << " " << cg.inhomogeneous_term();
      for (dimension_type v = 0; v < n; ++v) o << " " << cg.coefficient(Variable(v));
      J.line(o.str());
      S.p->refine_with_congruence(cg); S.s1->refine_with_congruence(cg); S.s2->refine_with_congruence(cg);
    }
  }

  void query(int s) {
    Slot& S = slot[s]; dimension_type n = dim(s); PR& P = *S.p;
    if (S.raw_known) { OS q; q << "praw " << s << " " << n; put_pair(q, *S.s1, *S.s2, n); J.line(q.str()); }
    OS o; o << "pq " << s << " ";
    switch (r.below(12)) {
      case 0: case 1: o << "is_empty " << P.is_empty(); break;
      case 2: o << "is_universe " << P.is_universe(); break;
      case 3: o << "is_bounded " << P.is_bounded(); break;
      case 4: case 5: { int t = pick_compatible(s); if (t == s) return; observe(t);
        o << "contains " << t << " " << P.contains(*slot[t].p); break; }
      case 6: { int t = pick_compatible(s); if (t == s) return; observe(t);
        o << "strictly_contains " << t << " " << P.strictly_contains(*slot[t].p); break; }
      case 7: { int t = pick_compatible(s); if (t == s) return; observe(t);
        o << "disjoint " << t << " " << P.is_disjoint_from(*slot[t].p); break; }
      case 8: { Linear_Expression e = rnd_expr(r, n, 2, false); bool up = r.chance(1, 2);
        o << (up ? "bounds_above" : "bounds_below"); put_expr(o, e, n);
        o << " " << (up ? P.bounds_from_above(e) : P.bounds_from_below(e)); break; }
      case 9: { Linear_Expression e = rnd_expr(r, n, 2, false); bool mx = r.chance(1, 2);
        Coefficient num, den; bool incl;
        bool ok = mx ? P.maximize(e, num, den, incl) : P.minimize(e, num, den, incl);
        o << (mx ? "max" : "min"); put_expr(o, e, n);
        if (!ok) o << " none"; else o << " " << num << " " << den << " " << incl; break; }
      default: { Constraint c = rnd_c(n); if (c.is_strict_inequality()) return;
        Poly_Con_Relation rel = P.relation_with(c);
        o << "relcon"; put_con(o, c, n);
        o << " " << rel.implies(Poly_Con_Relation::is_disjoint()) << " " << rel.implies(Poly_Con_Relation::strictly_intersects())
          << " " << rel.implies(Poly_Con_Relation::is_included()) << " " << rel.implies(Poly_Con_Relation::saturates());
        break; }
    }
    // the predicate reduced the product: the raw state is the last observed one only if it was observed
    J.line(o.str());
    S.raw_known = false;
    observe(s);      // the predicate may have reduced: print the components (judged against the praw above) and resynchronise
  }

  // one step: a component-wise operator applied to the product and to the shadows
  void mutate() {
    int s = pick_live();
    if (!slot[s].raw_known) observe(s);
    Slot& S = slot[s]; PR& P = *S.p; dimension_type n = dim(s);
    OS o;
    unsigned k = r.below(24);
    try {
      switch (k) {
      case 0: case 1: case 2: case 3: case 4: refine(s); break;
      case 5: case 6: { int t = pick_compatible(s); if (t == s) return;
        if (!slot[t].raw_known) observe(t);
        o << "pop " << s << " meet " << t; J.line(o.str());
        P.intersection_assign(*slot[t].p); S.s1->intersection_assign(*slot[t].s1); S.s2->intersection_assign(*slot[t].s2); break; }
      case 7: case 8: { dimension_type v = r.below(n);
        Linear_Expression e = rnd_expr(r, n, 2, false); Coefficient d = r.chance(1, 4) ? r.range(-2, -1) : r.range(1, 2);
        o << "pop " << s << " aff_img " << v << " " << d; put_expr(o, e, n); J.line(o.str());
        P.affine_image(Variable(v), e, d); S.s1->affine_image(Variable(v), e, d); S.s2->affine_image(Variable(v), e, d); break; }
      case 9: { dimension_type v = r.below(n);
        Linear_Expression e = rnd_expr(r, n, 2, false); Coefficient d = r.chance(1, 4) ? r.range(-2, -1) : r.range(1, 2);
        o << "pop " << s << " aff_pre " << v << " " << d; put_expr(o, e, n); J.line(o.str());
        P.affine_preimage(Variable(v), e, d); S.s1->affine_preimage(Variable(v), e, d); S.s2->affine_preimage(Variable(v), e, d); break; }
      case 10: { if (n >= maxdim) return; bool emb = r.chance(1, 2);
        o << "pop " << s << (emb ? " add_dims_embed 1" : " add_dims_project 1"); J.line(o.str());
        if (emb) { P.add_space_dimensions_and_embed(1); S.s1->add_space_dimensions_and_embed(1); S.s2->add_space_dimensions_and_embed(1); }
        else { P.add_space_dimensions_and_project(1); S.s1->add_space_dimensions_and_project(1); S.s2->add_space_dimensions_and_project(1); }
        break; }
      case 11: { if (n < 2) return; Variables_Set vs; vs.insert(Variable(r.below(n)));
        o << "pop " << s << " remove_dims 1 " << *vs.begin(); J.line(o.str());
        P.remove_space_dimensions(vs); S.s1->remove_space_dimensions(vs); S.s2->remove_space_dimensions(vs); break; }
      // ---- operators that reduce first: judged by the sandwich  image(meet) <= result <= component-wise
      case 12: case 13: { dimension_type v = r.below(n);
        if (!S.raw_known) observe(s);
        { OS q; q << "praw " << s << " " << n; put_pair(q, *S.s1, *S.s2, n); J.line(q.str()); }
        o << "pimp " << s << " unconstrain " << v; J.line(o.str());
        P.unconstrain(Variable(v)); S.s1->unconstrain(Variable(v)); S.s2->unconstrain(Variable(v));
        observe_implicit(s); return; }
      case 14: case 15: { int t = pick_compatible(s); if (t == s) return;
        if (!S.raw_known) observe(s); if (!slot[t].raw_known) observe(t);
        { OS q; q << "praw " << s << " " << n; put_pair(q, *S.s1, *S.s2, n); J.line(q.str()); }
        { OS q; q << "praw " << t << " " << n; put_pair(q, *slot[t].s1, *slot[t].s2, n); J.line(q.str()); }
        o << "pimp " << s << " ub " << t; J.line(o.str());
        P.upper_bound_assign(*slot[t].p); S.s1->upper_bound_assign(*slot[t].s1); S.s2->upper_bound_assign(*slot[t].s2);
        slot[t].raw_known = false;
        observe_implicit(s); observe(t); return; }
      case 16: case 17: { int t = pick_compatible(s); if (t == s) return;
        if (!S.raw_known) observe(s); if (!slot[t].raw_known) observe(t);
        { OS q; q << "praw " << s << " " << n; put_pair(q, *S.s1, *S.s2, n); J.line(q.str()); }
        { OS q; q << "praw " << t << " " << n; put_pair(q, *slot[t].s1, *slot[t].s2, n); J.line(q.str()); }
        o << "pimp " << s << " diff " << t; J.line(o.str());
        P.difference_assign(*slot[t].p); S.s1->difference_assign(*slot[t].s1); S.s2->difference_assign(*slot[t].s2);
        slot[t].raw_known = false;
        observe_implicit(s); observe(t); return; }
      case 18: { int t = pick_compatible(s); if (t == s) return;
        if (!S.raw_known) observe(s); if (!slot[t].raw_known) observe(t);
        { OS q; q << "praw " << s << " " << n; put_pair(q, *S.s1, *S.s2, n); J.line(q.str()); }
        { OS q; q << "praw " << t << " " << n; put_pair(q, *slot[t].s1, *slot[t].s2, n); J.line(q.str()); }
        o << "pimp " << s << " time_elapse " << t; J.line(o.str());
        P.time_elapse_assign(*slot[t].p); S.s1->time_elapse_assign(*slot[t].s1); S.s2->time_elapse_assign(*slot[t].s2);
        slot[t].raw_known = false;
        observe_implicit(s); observe(t); return; }
      case 19: { // copy / assignment
        int d = r.below(3); if (d == s) return;
        if (!S.raw_known) observe(s);
        o << "pcopy " << d << " " << s; J.line(o.str());
        if (live(d) && r.chance(1, 2)) *slot[d].p = P; else slot[d].p.reset(new PR(P));
        slot[d].s1.reset(new D1(*S.s1)); slot[d].s2.reset(new D2(*S.s2)); slot[d].raw_known = true; break; }
      case 20: { int d = r.below(3); if (live(d) && r.chance(2, 3)) return; create(d, n); break; }
      case 21: { if (!nnc) return; o << "pop " << s << " closure"; J.line(o.str());
        P.topological_closure_assign(); S.s1->topological_closure_assign(); S.s2->topological_closure_assign(); break; }
      default: query(s); break;
      }
    } catch (...) {
      J.line("exc " + pplv::exc_class());
      slot[s].raw_known = false;
    }
  }
  // after an operator that reduced internally: the raw state before it was printed (praw of the
  // operands), the shadows now hold the component-wise result on the *unreduced* operands
  void observe_implicit(int s) {
    Slot& S = slot[s]; dimension_type n = S.p->space_dimension();
    { OS o; o << "pcw " << s << " " << n; put_pair(o, *S.s1, *S.s2, n); J.line(o.str()); }
    const D1& o1 = S.p->domain1(); const D2& o2 = S.p->domain2();
    { OS o; o << "pobs " << s << " " << n; put_pair(o, o1, o2, n); J.line(o.str()); }
    *S.s1 = o1; *S.s2 = o2; S.raw_known = true;
  }

  void run(long h, long seed, long len, int pair, const char* pol) {
    dimension_type n = 1 + r.below((unsigned)std::min<long>(maxdim, 3));
    nnc = (std::string(dname<D1>()) == "N" || std::string(dname<D2>()) == "N");
    { OS o; o << "hist " << h << " " << seed << " X " << pair << " " << pol << " " << dname<D1>() << " " << dname<D2>(); J.line(o.str()); }
    create(0, n); observe(0);
    create(1, n); if (r.chance(1, 2)) observe(1);
    for (long i = 0; i < len; ++i) {
      mutate();
      if (r.chance(2, 5)) { int s = pick_live(); observe(s); }
    }
    for (int s = 0; s < 3; ++s) if (live(s)) observe(s);
    J.line("end");
  }
};

template <typename D1, typename D2>
static void run_pair(int pair, uint64_t sd, long h, long seed, long len, long maxdim, unsigned pol) {
  typedef Domain_Product<D1, D2> DP;
  switch (pol) {
    case 0: { PHist<D1, D2, typename DP::Direct_Product> H(sd); H.maxdim = maxdim; H.run(h, seed, len, pair, "direct"); break; }
    case 1: { PHist<D1, D2, typename DP::Smash_Product> H(sd); H.maxdim = maxdim; H.run(h, seed, len, pair, "smash"); break; }
    case 2: { PHist<D1, D2, typename DP::Constraints_Product> H(sd); H.maxdim = maxdim; H.run(h, seed, len, pair, "constraints"); break; }
    case 3: { PHist<D1, D2, typename DP::Congruences_Product> H(sd); H.maxdim = maxdim; H.run(h, seed, len, pair, "congruences"); break; }
    default: { PHist<D1, D2, typename DP::Shape_Preserving_Product> H(sd); H.maxdim = maxdim; H.run(h, seed, len, pair, "shape"); break; }
  }
}

int main(int argc, char** argv) {
  long seed = pplv::arg_long(argc, argv, "--seed", 1);
  long first = pplv::arg_long(argc, argv, "--first", 0);
  long last = pplv::arg_long(argc, argv, "--last", 10);
  long len = pplv::arg_long(argc, argv, "--len", 10);
  long maxdim = pplv::arg_long(argc, argv, "--maxdim", 3);
  long batch = pplv::arg_long(argc, argv, "--batch", 20);
  long nb = (last - first + batch - 1) / batch;
  return pplv::run_batches(0, nb, [&](long b) {
    for (long h = first + b * batch; h < std::min(last, first + (b + 1) * batch); ++h) {
      uint64_t sd = (uint64_t)seed * 1000003ull + (uint64_t)h + 77777ull * PAIRSET;
      Rng pick(sd ^ 0x2545F491u);
      unsigned which = pick.below(2), pol = pick.below(5);
#if PAIRSET == 0
      if (which == 0) run_pair<C_Polyhedron, Grid>(0, sd, h, seed, len, maxdim, pol);
      else run_pair<Grid, NNC_Polyhedron>(1, sd, h, seed, len, maxdim, pol);
#elif PAIRSET == 1
      if (which == 0) run_pair<Rational_Box, Grid>(2, sd, h, seed, len, maxdim, pol);
      else run_pair<BD_Shape<mpq_class>, C_Polyhedron>(3, sd, h, seed, len, maxdim, pol);
#else
      if (which == 0) run_pair<Octagonal_Shape<mpq_class>, Rational_Box>(4, sd, h, seed, len, maxdim, pol);
      else run_pair<Grid, BD_Shape<mpq_class> >(5, sd, h, seed, len, maxdim, pol);
#endif
    }
  }, 60);
}
