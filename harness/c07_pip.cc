// C07 harness: seeded parametric integer programming problems solved by the real PIP_Problem,
// the solution tree walked through the public node interface and journalled structurally.
//
//   c07_pip --seed S --first A --last B [--cpu SEC]      generated cases A..B-1 (one forked child each)
//   c07_pip --fixed 1                                     the fixed corpus (documented examples, probes)
//
// Journal grammar (one event per line; `#` lines are comments for humans, ignored by pplv_pip):
//   case <id>
//   op <text>                       the library call about to be made (a crash is attributed to it)
//   prob <dim> <np> <p_1..p_np> big <d|-1>
//   cs <m> {<rel> <k> <a_0..a_{dim-1}>}*        rel in {=, >=, >}: sum a_i x_i + k rel 0   (poly_io.hh)
//   solved <kind> cut <0|1|2> piv <0|1> how <solve|is_sat|solution|optsol> status <OPT|UNF> sat <0|1|-> ok <0|1>
//   tree <tokens>                    prefix serialisation of the tree reached from solution()
//        B                                         bottom (null pointer)
//        S <nart> <ncons> <nvals> art* con* val*   solution node
//        D <nart> <ncons> art* con* <tree:true> <tree:false>   decision node (false child may be B)
//        art = <den> <expr>   con = <rel> <expr>   val = <dim of the variable> <expr>
//        expr = <sd> <k> <a_0..a_{sd-1}>          (sd = space dimension of the PPL expression)
//   exc <class> <op>                an exception left the call
//   crash <signal>                  (written by the parent) the child died: SIGXCPU = CPU limit
//   end
#include "ppl.hh"
#include "common.hh"
#include "poly_io.hh"
#include <memory>
#include <sstream>

using namespace Parma_Polyhedra_Library;
using namespace pplv_io;
using pplv::Rng;

static pplv::Journal J(1);

// ------------------------------------------------------------------ problem data (our own copy)
struct Data {
  dimension_type dim = 0;
  std::vector<bool> is_param;          // per dimension
  std::vector<Constraint> cs;          // in insertion order
  long big = -1;
  dimension_type nv() const { dimension_type n = 0; for (bool b : is_param) if (!b) ++n; return n; }
  dimension_type np() const { return dim - nv(); }
  Variables_Set params() const {
    Variables_Set s; for (dimension_type i = 0; i < dim; ++i) if (is_param[i]) s.insert(Variable(i)); return s;
  }
};

static void put_prob(const Data& d) {
  OS o; o << "prob " << d.dim << " " << d.np();
  for (dimension_type i = 0; i < d.dim; ++i) if (d.is_param[i]) o << " " << i;
  o << " big " << d.big;
  J.line(o.str());
  OS c; c << "cs " << d.cs.size();
  for (const Constraint& k : d.cs) put_con(c, k, d.dim);
  J.line(c.str());
}

// ------------------------------------------------------------------ tree walk (public interface only)
static void put_lexpr(OS& o, const Linear_Expression& e) {
  dimension_type sd = e.space_dimension();
  o << " " << sd << " " << e.inhomogeneous_term();
  for (dimension_type i = 0; i < sd; ++i) o << " " << e.coefficient(Variable(i));
}
static void put_tcon(OS& o, const Constraint& c) {
  o << (c.is_equality() ? " =" : c.is_strict_inequality() ? " >" : " >=");
  dimension_type sd = c.space_dimension();
  o << " " << sd << " " << c.inhomogeneous_term();
  for (dimension_type i = 0; i < sd; ++i) o << " " << c.coefficient(Variable(i));
}
static void put_common(OS& o, const PIP_Tree_Node* n) {
  for (PIP_Tree_Node::Artificial_Parameter_Sequence::const_iterator a = n->art_parameter_begin();
       a != n->art_parameter_end(); ++a) {
    o << " " << a->denominator();
    put_lexpr(o, *a);
  }
  const Constraint_System& cs = n->constraints();
  for (Constraint_System::const_iterator c = cs.begin(); c != cs.end(); ++c) put_tcon(o, *c);
}
static dimension_type count_cs(const Constraint_System& cs) {
  dimension_type m = 0; for (Constraint_System::const_iterator c = cs.begin(); c != cs.end(); ++c) ++m; return m;
}
static void walk(OS& o, const PIP_Tree_Node* n, const Data& d, int depth) {
  if (n == nullptr) { o << " B"; return; }
  if (depth > 200) { o << " TOO_DEEP"; return; }
  if (const PIP_Solution_Node* s = n->as_solution()) {
    o << " S " << n->art_parameter_count() << " " << count_cs(n->constraints()) << " " << d.nv();
    put_common(o, n);
    for (dimension_type i = 0; i < d.dim; ++i) if (!d.is_param[i]) {
      o << " " << i;
      put_lexpr(o, s->parametric_values(Variable(i)));
    }
    return;
  }
  const PIP_Decision_Node* dn = n->as_decision();
  if (dn == nullptr) { o << " NEITHER"; return; }
  o << " D " << n->art_parameter_count() << " " << count_cs(n->constraints());
  put_common(o, n);
  walk(o, dn->child_node(true), d, depth + 1);
  walk(o, dn->child_node(false), d, depth + 1);
}

static const PIP_Problem::Control_Parameter_Value CUTS[3] = {
  PIP_Problem::CUTTING_STRATEGY_FIRST, PIP_Problem::CUTTING_STRATEGY_DEEPEST, PIP_Problem::CUTTING_STRATEGY_ALL };
static const PIP_Problem::Control_Parameter_Value PIVS[2] = {
  PIP_Problem::PIVOT_ROW_STRATEGY_FIRST, PIP_Problem::PIVOT_ROW_STRATEGY_MAX_COLUMN };

// solve through one of the public entry points and journal status + tree
static void solve_and_dump(PIP_Problem& p, const Data& d, const char* kind, int cut, int piv, int how) {
  static const char* HOW[4] = { "solve", "is_sat", "solution", "optsol" };
  { OS o; o << "op " << HOW[how] << " " << kind << " cut " << cut << " piv " << piv; J.line(o.str()); }
  try {
    PIP_Problem_Status st;
    std::string sat = "-";
    switch (how) {
      case 1: { bool b = p.is_satisfiable(); sat = b ? "1" : "0"; st = p.solve(); break; }
      case 2: { (void) p.solution(); st = p.solve(); break; }
      case 3: { (void) p.optimizing_solution(); st = p.solve(); break; }
      default: st = p.solve();
    }
    const PIP_Tree_Node* root = p.solution();
    bool ok = p.OK() && (root == nullptr || root->OK());
    bool same = (p.optimizing_solution() == root) && (p.space_dimension() == d.dim);
    OS o; o << "solved " << kind << " cut " << cut << " piv " << piv << " how " << HOW[how]
            << " status " << (st == OPTIMIZED_PIP_PROBLEM ? "OPT" : "UNF") << " sat " << sat << " ok " << (ok && same);
    J.line(o.str());
    OS t; t << "tree";
    walk(t, root, d, 0);
    J.line(t.str());
    if (root != nullptr) {
      using namespace IO_Operators;
      std::ostringstream txt; p.print_solution(txt);
      std::istringstream in(txt.str()); std::string l; int k = 0;
      while (std::getline(in, l) && k++ < 40) J.line("#   " + l);
    }
  } catch (...) {
    J.line("exc " + pplv::exc_class() + " " + HOW[how]);
  }
}

static PIP_Problem* make_problem(const Data& d, int cut, int piv) {
  Variables_Set ps = d.params();
  PIP_Problem* p = new PIP_Problem(d.dim, d.cs.begin(), d.cs.end(), ps);
  if (d.big >= 0) p->set_big_parameter_dimension((dimension_type) d.big);
  p->set_control_parameter(CUTS[cut]);
  p->set_control_parameter(PIVS[piv]);
  return p;
}

// ------------------------------------------------------------------ random rows
static long coef(Rng& r) {
  unsigned k = r.below(12);
  if (k < 3) return 0;
  if (k < 8) return r.range(-1, 1);
  if (k < 11) return r.range(-3, 3);
  return r.range(-5, 5);
}
// a row over the current dimensions; `only_params`: context constraint; `need`: a dimension that must occur
static Constraint rnd_row(Rng& r, const Data& d, bool only_params, long need, bool allow_strict) {
  for (int tries = 0; ; ++tries) {
    Linear_Expression e;
    if (d.dim > 0) e += 0 * Variable(d.dim - 1);
    bool any = false;
    for (dimension_type i = 0; i < d.dim; ++i) {
      if (only_params && !d.is_param[i]) continue;
      long c = coef(r);
      if ((long) i == need && c == 0) c = r.chance(1, 2) ? 1 : -1;
      if ((long) i == d.big && !r.chance(1, 3)) c = 0;       // the big parameter occurs rarely ...
      if ((long) i == d.big && c != 0) c = (c > 0 ? 1 : -1);  // ... and with unit coefficient
      if (c != 0) any = true;
      e += Coefficient(c) * Variable(i);
    }
    if (!any && tries < 5 && d.dim > 0) continue;
    e += Coefficient(r.range(-6, 6));
    unsigned k = r.below(20);
    if (k < 3) return e == 0;
    if (allow_strict && k < 6) return e > 0;
    return e >= 0;
  }
}
// shaped rows that make feasible, bounded, cut-needing problems frequent
static Constraint shaped_row(Rng& r, const Data& d) {
  std::vector<dimension_type> vars, pars;
  for (dimension_type i = 0; i < d.dim; ++i) (d.is_param[i] ? pars : vars).push_back(i);
  if (vars.empty()) return rnd_row(r, d, false, -1, true);
  Variable x(vars[r.below(vars.size())]);
  Linear_Expression rhs;
  if (d.dim > 0) rhs += 0 * Variable(d.dim - 1);
  if (!pars.empty() && r.chance(3, 4)) {
    dimension_type q = pars[r.below(pars.size())];
    long c = ((long) q == d.big) ? 1 : r.range(1, 3);
    rhs += Coefficient(c) * Variable(q);
  }
  if (vars.size() > 1 && r.chance(1, 3)) {
    Variable y(vars[r.below(vars.size())]);
    if (y.id() != x.id()) rhs += Coefficient(r.range(-2, 2)) * y;
  }
  rhs += Coefficient(r.range(-4, 6));
  long a = r.range(1, 4);
  switch (r.below(5)) {
    case 0: return a * x >= rhs;              // lower bound: ceiling division
    case 1: return a * x <= rhs;              // upper bound
    case 2: return a * x == rhs;              // divisibility
    case 3: return a * x > rhs;
    default: return a * x + Coefficient(r.range(1, 3)) * Variable(vars[r.below(vars.size())]) >= rhs;
  }
}

static void add_rows(Rng& r, Data& d, std::vector<Constraint>& out, unsigned n, long need) {
  for (unsigned i = 0; i < n; ++i) {
    unsigned k = r.below(10);
    Constraint c = (k < 5) ? shaped_row(r, d)
                 : (k < 7 && d.np() > 0) ? rnd_row(r, d, true, -1, true)
                 : rnd_row(r, d, false, (i == 0 ? need : -1), true);
    out.push_back(c);
  }
}

// ------------------------------------------------------------------ one generated case
// phase 0: the history on one live object (construction, solves, additions);  phase 1 (a separate process, so that
// memory damage done by the history cannot reach it): the same final data solved from scratch under every strategy.
// The data depends on the generator only, so phase 1 re-derives it with a dry run of the history.
static void one_case(uint64_t seed, long id, int phase) {
  Rng r(seed * 1000003ull + (uint64_t) id);
  const bool live = (phase == 0);
  if (live) { OS o; o << "case " << id; J.line(o.str()); }
  else J.line("phase fresh");
  Data d;
  dimension_type nv = 1 + r.below(3), np = r.below(3);
  d.dim = nv + np;
  d.is_param.assign(d.dim, false);
  // parameters: usually the last dimensions, sometimes interleaved
  if (r.chance(3, 4)) for (dimension_type i = nv; i < d.dim; ++i) d.is_param[i] = true;
  else { dimension_type left = np; while (left) { dimension_type i = r.below(d.dim); if (!d.is_param[i]) { d.is_param[i] = true; --left; } } }
  if (np > 0 && r.chance(1, 6)) { std::vector<dimension_type> ps; for (dimension_type i = 0; i < d.dim; ++i) if (d.is_param[i]) ps.push_back(i); d.big = ps[r.below(ps.size())]; }
  add_rows(r, d, d.cs, r.below(5), -1);

  int cut = r.below(3), piv = r.below(2);
  std::unique_ptr<PIP_Problem> p;
  if (live) J.line("op construct");
  try {
    // three construction routes: constructor with the constraints; empty + add_constraint; empty + add_constraints
    unsigned route = r.below(3);
    if (route == 0) { if (live) p.reset(make_problem(d, cut, piv)); }
    else {
      Data e = d; e.cs.clear();
      if (live) p.reset(make_problem(e, cut, piv));
      if (route == 1) { if (live) for (const Constraint& c : d.cs) p->add_constraint(c); }
      else { Constraint_System s; for (const Constraint& c : d.cs) s.insert(c);
             // Constraint_System::insert may reorder/normalise: keep our copy in the system's order
             d.cs.clear(); for (Constraint_System::const_iterator i = s.begin(); i != s.end(); ++i) d.cs.push_back(*i);
             if (live) p->add_constraints(s); }
    }
  } catch (...) { J.line("exc " + pplv::exc_class() + " construct"); return; }

  unsigned steps = r.chance(3, 5) ? 1 + r.below(3) : 0;
  bool solve_first = !r.chance(1, 6);
  if (solve_first) { int how = r.below(4); if (live) { put_prob(d); solve_and_dump(*p, d, steps ? "initial" : "single", cut, piv, how); } }
  for (unsigned s = 0; s < steps; ++s) {
    try {
      unsigned k = r.below(10);
      if (k < 4 || d.dim >= 5) {                       // more constraints
        std::vector<Constraint> add; add_rows(r, d, add, 1 + r.below(2), -1);
        if (r.chance(1, 2)) { if (live) J.line("op add_constraint"); for (const Constraint& c : add) { if (live) p->add_constraint(c); d.cs.push_back(c); } }
        else { Constraint_System cs; for (const Constraint& c : add) cs.insert(c);
               if (live) { J.line("op add_constraints"); p->add_constraints(cs); }
               for (Constraint_System::const_iterator i = cs.begin(); i != cs.end(); ++i) d.cs.push_back(*i); }
      } else if (k < 8) {                              // new dimensions through add_space_dimensions_and_embed
        dimension_type mv = (d.nv() < 3) ? r.below(2) : 0;
        dimension_type mp = (d.np() < 2) ? r.below(2) : 0;
        if (mv + mp == 0) { if (d.nv() < 3) mv = 1; else if (d.np() < 2) mp = 1; }
        if (mv + mp > 0) {
          if (live) { OS o; o << "op add_space_dimensions_and_embed " << mv << " " << mp; J.line(o.str()); }
          if (live) p->add_space_dimensions_and_embed(mv, mp);
          for (dimension_type i = 0; i < mv; ++i) d.is_param.push_back(false);
          for (dimension_type i = 0; i < mp; ++i) d.is_param.push_back(true);
          d.dim += mv + mp;
          if (mp > 0 && d.big < 0 && r.chance(1, 5)) { if (live) { J.line("op set_big_parameter_dimension"); p->set_big_parameter_dimension(d.dim - 1); } d.big = (long) d.dim - 1; }
          std::vector<Constraint> add; add_rows(r, d, add, r.below(3), (long) d.dim - 1);
          if (live) J.line("op add_constraint");
          for (const Constraint& c : add) { if (live) p->add_constraint(c); d.cs.push_back(c); }
        }
      } else if (d.np() < 2) {                         // a new dimension turned into a parameter afterwards
        if (live) J.line("op add_space_dimensions_and_embed 1 0 ; add_to_parameter_space_dimensions");
        if (live) p->add_space_dimensions_and_embed(1, 0);
        d.is_param.push_back(false); d.dim += 1;
        Variables_Set ps; ps.insert(Variable(d.dim - 1));
        if (live) p->add_to_parameter_space_dimensions(ps);
        d.is_param[d.dim - 1] = true;
        if (d.big < 0 && r.chance(1, 5)) { if (live) { J.line("op set_big_parameter_dimension"); p->set_big_parameter_dimension(d.dim - 1); } d.big = (long) d.dim - 1; }
        std::vector<Constraint> add; add_rows(r, d, add, 1 + r.below(2), (long) d.dim - 1);
        if (live) J.line("op add_constraint");
        for (const Constraint& c : add) { if (live) p->add_constraint(c); d.cs.push_back(c); }
      }
      if (r.chance(1, 6)) {                           // the strategy may change between solves
        cut = r.below(3); piv = r.below(2);
        if (live) { J.line("op set_control_parameter");
                    p->set_control_parameter(CUTS[cut]); p->set_control_parameter(PIVS[piv]); }
      }
    } catch (...) { J.line("exc " + pplv::exc_class() + " mutate"); return; }
    if (s + 1 == steps || !r.chance(1, 4)) {          // sometimes several additions accumulate before a solve
      int how = r.below(4);
      if (live) { put_prob(d); solve_and_dump(*p, d, (s + 1 == steps) ? "incr-final" : "incr", cut, piv, how); }
    }
  }
  if (!solve_first && steps == 0) { int how = r.below(4); if (live) { put_prob(d); solve_and_dump(*p, d, "single", cut, piv, how); } }
  if (live) { J.line("op destroy"); return; }
  put_prob(d);
  // the same final data, solved from scratch under every strategy (same `prob` record: the reference is shared)
  for (int c = 0; c < 3; ++c) for (int v = 0; v < 2; ++v) {
    std::unique_ptr<PIP_Problem> q;
    try { J.line("op construct-fresh"); q.reset(make_problem(d, c, v)); }
    catch (...) { J.line("exc " + pplv::exc_class() + " construct-fresh"); continue; }
    solve_and_dump(*q, d, "fresh", c, v, 0);
  }
  J.line("end");
}

// ------------------------------------------------------------------ fixed corpus
static void fixed_case(long id, const Data& d, const char* name) {
  { OS o; o << "case " << id; J.line(o.str()); }
  J.line(std::string("# ") + name);
  put_prob(d);
  for (int c = 0; c < 3; ++c) for (int v = 0; v < 2; ++v) {
    std::unique_ptr<PIP_Problem> q;
    try { J.line("op construct-fresh"); q.reset(make_problem(d, c, v)); }
    catch (...) { J.line("exc " + pplv::exc_class() + " construct-fresh"); continue; }
    solve_and_dump(*q, d, "fresh", c, v, 0);
  }
  J.line("end");
}
static void fixed(long id) {
  Variable A(0), B(1), C(2), D(3);
  Data d;
  switch (id) {
    case 0: // design probe p10: {A + B <= 0}, parameter B
      d.dim = 2; d.is_param = { false, true }; d.cs.push_back(A + B <= 0);
      fixed_case(id, d, "A + B <= 0, parameter B"); break;
    case 1:
      d.dim = 2; d.is_param = { false, true }; d.cs.push_back(A + B <= 1);
      fixed_case(id, d, "A + B <= 1, parameter B"); break;
    case 2: // the example of the class documentation: i, j variables; n, m parameters
      d.dim = 4; d.is_param = { false, false, true, true };
      d.cs.push_back(3 * B >= -2 * A + 8); d.cs.push_back(B <= 4 * A - 4); d.cs.push_back(B <= D); d.cs.push_back(A <= C);
      fixed_case(id, d, "class documentation example"); break;
    case 3: // the same in the restricted context m >= n, n >= 5
      d.dim = 4; d.is_param = { false, false, true, true };
      d.cs.push_back(3 * B >= -2 * A + 8); d.cs.push_back(B <= 4 * A - 4); d.cs.push_back(B <= D); d.cs.push_back(A <= C);
      d.cs.push_back(D >= C); d.cs.push_back(C >= 5);
      fixed_case(id, d, "class documentation example, restricted context"); break;
    case 4: // lexicographic maximum through the big parameter (class documentation)
      d.dim = 4; d.is_param = { false, false, true, true }; d.big = 3;
      d.cs.push_back(D - B >= 2 * D - 2 * A - 4); d.cs.push_back(D - B <= -D + A + C);
      fixed_case(id, d, "big parameter example (lexmax)"); break;
    case 5: // sign-unrestricted variables through the big parameter (class documentation)
      d.dim = 4; d.is_param = { false, false, true, true }; d.big = 3;
      d.cs.push_back(B - D >= -2 * A + 2 * D - 4); d.cs.push_back(2 * B - 2 * D <= A - D + 2 * C);
      fixed_case(id, d, "big parameter example (signed)"); break;
    case 6: // A <= 0 alone, no parameter; and with an unrelated parameter
      d.dim = 1; d.is_param = { false }; d.cs.push_back(A <= 0);
      fixed_case(id, d, "A <= 0, no parameter"); break;
    case 7:
      d.dim = 2; d.is_param = { false, true }; d.cs.push_back(A <= 0);
      fixed_case(id, d, "A <= 0, parameter B unused"); break;
    case 8:
      d.dim = 2; d.is_param = { false, true }; d.cs.push_back(2 * A >= B); d.cs.push_back(3 * A <= B + 4);
      fixed_case(id, d, "ceil(B/2) <= A <= (B+4)/3"); break;
    case 9:
      d.dim = 3; d.is_param = { false, false, true }; d.cs.push_back(2 * A + 3 * B == C);
      fixed_case(id, d, "2A + 3B = C"); break;
    default: break;
  }
}
static const long N_FIXED = 10;

int main(int argc, char** argv) {
  long seed = pplv::arg_long(argc, argv, "--seed", 1);
  long first = pplv::arg_long(argc, argv, "--first", 0);
  long last = pplv::arg_long(argc, argv, "--last", 10);
  long cpu = pplv::arg_long(argc, argv, "--cpu", 4);
  bool fx = pplv::arg_long(argc, argv, "--fixed", 0) != 0;
  auto body = [&](long b) {
    struct rlimit rl; rl.rlim_cur = rl.rlim_max = (rlim_t) 1500 * 1024 * 1024; setrlimit(RLIMIT_AS, &rl);
    if (fx) fixed(b); else one_case((uint64_t) seed, b / 2, (int) (b % 2));
  };
  if (fx) return pplv::run_batches(0, N_FIXED, body, (int) cpu);
  return pplv::run_batches(2 * first, 2 * last, body, (int) cpu);
}
