// C08 stage 2, grid slice: the REAL Grid widenings of /repo/src/Grid_widenings.cc on ascending chains of grids
// (dimensions 1-4, every up-to-date / minimised combination of the two descriptions), journalled with the raw
// members of the objects (con_sys / gen_sys rows as the library holds them, dim_kinds, status flags), one call per line:
//
//   W <id> <op> <n> TP <-1|k>  X <state> Y <state>  XMC <crows> YMC <crows>
//     LC <k> {<relation_with==is_included> <len e.. m>}  PW <0|1> [<crows>]
//     MIR <0|1> [C XM <state> YM <state> SEL CROWS.. | G XM <state> YM <state> SEL ROWS..]
//     => TP <-1|k> XA <state> YA <state> XAMC <crows> CERT <y.eq> <y.pc> <r.eq> <r.pc> <y_cert.compare(result)>
//   <state> = <n> <empty> <cgUp> <cgMin> <genUp> <genMin> <sorted> DK .. CROWS .. ROWS ..
//   XMC/YMC/XAMC/PW = minimized_congruences() of a copy (what the K2 deciders judge)
//   MIR = the minimisation preamble and the private select_wider_* run by the harness on copies (plain ops only)
//
//   c08_impl_grid --seed S --first A --last B [--per-batch K] [--limit L]
// The native driver lean/Driver/WidenImplGrid.lean replays lean/PPLV/Widen/ImplGrid.lean on every line.
#include <cstdio>
#include <cstdlib>
#include <cstring>
#include <cstdint>
#include <string>
#include <sstream>
#include <iostream>
#include <vector>
#include <map>
#include <set>
#include <list>
#include <deque>
#include <algorithm>
#include <limits>
#include <stdexcept>
#include <gmpxx.h>
#define private public
#define protected public
#include "ppl.hh"
#undef private
#undef protected
#include "common.hh"

using namespace Parma_Polyhedra_Library;
typedef Grid_Generator GG;
typedef Grid::Dimension_Kinds DKs;
typedef std::ostringstream OS;
using pplv::Rng;

static pplv::Journal J(1);
static long g_limit = 7;

static std::string zs(const Coefficient& c) { OS s; s << c; return s.str(); }
static std::string dk_str(const DKs& dk) {
  OS s; s << "DK " << dk.size();
  for (size_t i = 0; i < dk.size(); ++i) s << ' ' << (int)dk[i];
  return s.str();
}
static std::string expr_str(const Linear_Expression& e) {
  OS s; dimension_type len = e.space_dimension() + 1; s << len;
  for (dimension_type i = 0; i < len; ++i) s << ' ' << zs(e.get(i));
  return s.str();
}
static std::string rows_str(const Grid_Generator_System& gs) {
  OS s; s << "ROWS " << gs.sys.rows.size();
  for (dimension_type i = 0; i < gs.sys.rows.size(); ++i) {
    const GG& g = gs.sys.rows[i];
    s << ' ' << (g.is_line_or_equality() ? 1 : 0) << ' ' << expr_str(g.expr);
  }
  return s.str();
}
static std::string crow_str(const Congruence& c) { return expr_str(c.expr) + " " + zs(c.modulus()); }
static std::string crows_str(const Congruence_System& cs) {
  OS s; s << "CROWS " << cs.rows.size();
  for (dimension_type i = 0; i < cs.rows.size(); ++i) s << ' ' << crow_str(cs.rows[i]);
  return s.str();
}
static std::string state_str(const Grid& g) {
  OS s;
  s << g.space_dim << ' ' << (g.marked_empty() ? 1 : 0) << ' ' << (g.congruences_are_up_to_date() ? 1 : 0) << ' '
    << (g.congruences_are_minimized() ? 1 : 0) << ' ' << (g.generators_are_up_to_date() ? 1 : 0) << ' '
    << (g.generators_are_minimized() ? 1 : 0) << ' ' << (g.gen_sys.sys.is_sorted() ? 1 : 0) << ' '
    << dk_str(g.dim_kinds) << ' ' << crows_str(g.con_sys) << ' ' << rows_str(g.gen_sys);
  return s.str();
}
static std::string mc_str(const Grid& g) { Grid c(g); const Congruence_System& m = c.minimized_congruences(); return crows_str(m); }

static Linear_Expression dimfix(dimension_type n) { Linear_Expression e; if (n > 0) e += 0 * Variable(n - 1); return e; }
static GG rnd_point(Rng& r, dimension_type n, long b) {
  Linear_Expression e = dimfix(n);
  for (dimension_type i = 0; i < n; ++i) e += Coefficient(r.range(-b, b)) * Variable(i);
  static const long ds[] = {1, 1, 1, 2, 3, 4, 6};
  return grid_point(e, ds[r.below(7)]);
}
static Grid rnd_grid(Rng& r, dimension_type n) {
  Grid_Generator_System gs;
  gs.insert(rnd_point(r, n, 4));
  unsigned k = r.below(n + 2);
  for (unsigned i = 0; i < k; ++i) {
    Linear_Expression e = dimfix(n); bool nz = false;
    for (dimension_type j = 0; j < n; ++j) { long c = r.chance(1, 3) ? 0 : r.range(-6, 6); if (c) nz = true; e += Coefficient(c) * Variable(j); }
    if (!nz) continue;
    if (r.chance(1, 6)) gs.insert(grid_line(e)); else gs.insert(parameter(e, r.chance(1, 4) ? 2 : 1));
  }
  return Grid(gs);
}
// the same grid with another history: which descriptions are up to date / minimised
static Grid rehist(Rng& r, const Grid& x) {
  Grid c(x);
  switch (r.below(8)) {
    case 0: return c;
    case 1: return Grid(c.congruences());                       // congruences up to date, not minimised
    case 2: return Grid(c.minimized_congruences());
    case 3: return Grid(c.grid_generators());                   // generators up to date, not minimised
    case 4: return Grid(c.minimized_grid_generators());
    case 5: (void)c.minimized_grid_generators(); (void)c.minimized_congruences(); return c;   // all four flags
    case 6: { Grid d(c.grid_generators()); (void)d.minimized_grid_generators(); return d; }   // generators minimised only
    default: { Grid d(c.congruences()); (void)d.minimized_congruences(); return d; }          // congruences minimised only
  }
}
static Congruence_System rnd_limit_cgs(Rng& r, dimension_type n, const Grid& z) {
  Congruence_System cgs(n);
  unsigned m = 1 + r.below(3);
  std::vector<Congruence> zv;
  { Grid c(z); const Congruence_System& zc = c.minimized_congruences(); for (Congruence_System::const_iterator i = zc.begin(); i != zc.end(); ++i) zv.push_back(*i); }
  for (unsigned k = 0; k < m; ++k) {
    if (!zv.empty() && r.chance(1, 2)) {
      const Congruence& c = zv[r.below((unsigned)zv.size())];
      Linear_Expression e(c.expression()); e += dimfix(n);
      Coefficient f = c.modulus();
      if (f == 0) { if (r.chance(1, 2)) cgs.insert((e %= 0) / 0); else cgs.insert((e %= 0) / Coefficient(r.range(1, 4))); }
      else cgs.insert((e %= 0) / f);
    } else {
      Linear_Expression e = dimfix(n); bool nz = false;
      for (dimension_type j = 0; j < n; ++j) { long c = r.range(-3, 3); if (c) nz = true; e += Coefficient(c) * Variable(j); }
      if (!nz && n > 0) e += Variable(0);
      e += Coefficient(r.range(-3, 3));
      cgs.insert((e %= 0) / Coefficient(r.range(0, 4)));
    }
  }
  return cgs;
}

enum Op { CGW = 0, GENW, WID, LCG, LGEN, LIM };
static const char* op_name[] = {"congruence_widening", "generator_widening", "widening", "limited_congruence", "limited_generator", "limited"};

static void call(Op op, Grid& x, const Grid& y, const Congruence_System& cgs, unsigned* tp) {
  switch (op) {
    case CGW: x.congruence_widening_assign(y, tp); break;
    case GENW: x.generator_widening_assign(y, tp); break;
    case WID: x.widening_assign(y, tp); break;
    case LCG: x.limited_congruence_extrapolation_assign(y, cgs, tp); break;
    case LGEN: x.limited_generator_extrapolation_assign(y, cgs, tp); break;
    case LIM: x.limited_extrapolation_assign(y, cgs, tp); break;
  }
}

// the preamble of congruence_widening_assign (l.92-120) and of generator_widening_assign (l.305-333) on copies,
// then the private select_wider_*; returns the MIR section
static std::string mirror(Op op, const Grid& x0, const Grid& y0) {
  Grid x(x0), y(y0);
  if (x.space_dim == 0 || x.marked_empty() || y.marked_empty()) return "MIR 0";
  bool cg = op == CGW;
  if (op == WID) {
    if (x.congruences_are_up_to_date() && y.congruences_are_up_to_date()) cg = true;
    else if (x.generators_are_up_to_date() && y.generators_are_up_to_date()) cg = false;
    else cg = true;
  }
  if (cg) {
    Grid* gs[2] = {&x, &y};
    for (int k = 0; k < 2; ++k) {
      Grid& g = *gs[k];
      if (g.congruences_are_up_to_date()) {
        if (!g.congruences_are_minimized()) {
          if (Grid::simplify(g.con_sys, g.dim_kinds)) return "MIR 0";
          g.set_congruences_minimized();
        }
      }
      else g.update_congruences();
    }
    if (x.con_sys.num_equalities() < y.con_sys.num_equalities()) return "MIR 0";
    Congruence_System sel;
    x.select_wider_congruences(y, sel);
    return "MIR 1 C XM " + state_str(x) + " YM " + state_str(y) + " SEL " + crows_str(sel);
  }
  Grid* gs[2] = {&x, &y};
  for (int k = 0; k < 2; ++k) {
    Grid& g = *gs[k];
    if (g.generators_are_up_to_date()) {
      if (!g.generators_are_minimized()) { Grid::simplify(g.gen_sys, g.dim_kinds); g.set_generators_minimized(); }
    }
    else g.update_generators();
    if (g.marked_empty()) return "MIR 0";
  }
  if (x.gen_sys.num_rows() > y.gen_sys.num_rows()) return "MIR 0";
  if (x.gen_sys.num_lines() > y.gen_sys.num_lines()) return "MIR 0";
  Grid_Generator_System sel;
  x.select_wider_generators(y, sel);
  return "MIR 1 G XM " + state_str(x) + " YM " + state_str(y) + " SEL " + rows_str(sel);
}

static long g_call = 0;

// one journalled call; x is assigned, y may be minimised in place (as the library does)
static void one_call(long chain, Op op, Grid& x, Grid& y, const Congruence_System& cgs, int tp0) {
  dimension_type n = x.space_dim;
  std::string id = std::to_string(chain) + "." + std::to_string(g_call++);
  OS o;
  o << "W " << id << ' ' << op_name[op] << ' ' << n << " TP " << tp0
    << " X " << state_str(x) << " Y " << state_str(y) << " XMC " << mc_str(x) << " YMC " << mc_str(y);
  bool limited = op >= LCG;
  o << " LC " << (limited ? cgs.num_rows() : 0);
  if (limited)
    for (dimension_type i = 0; i < cgs.num_rows(); ++i) {
      Grid c(x);
      o << ' ' << (c.relation_with(cgs[i]) == Poly_Con_Relation::is_included() ? 1 : 0) << ' ' << crow_str(cgs[i]);
    }
  if (limited) {
    // the plain widening the limited variant calls: on `x` after its `update_generators()` (l.211 / l.415 / l.533);
    // the dispatcher of widening_assign looks at the flags, and the two grid widenings are different operators
    Grid px(x), py(y);
    if (cgs.num_rows() > 0 && !px.marked_empty() && !py.marked_empty() && !px.generators_are_up_to_date()) px.update_generators();
    call(op == LCG ? CGW : (op == LGEN ? GENW : WID), px, py, cgs, nullptr);
    o << " PW 1 " << mc_str(px);
  }
  else o << " PW 0";
  if (!limited) o << ' ' << mirror(op, x, y); else o << " MIR 0";
  J.line("try " + id + " " + op_name[op]);
  unsigned tp = tp0 < 0 ? 0 : (unsigned)tp0;
  call(op, x, y, cgs, tp0 < 0 ? nullptr : &tp);
  o << " => TP " << (tp0 < 0 ? -1 : (int)tp) << " XA " << state_str(x) << " YA " << state_str(y) << " XAMC " << mc_str(x);
  {
    Grid yc(y), rc(x), rc2(x);
    if (!yc.is_empty() && !rc.is_empty()) {
      Grid_Certificate cy(yc), cr(rc);
      o << " CERT " << cy.num_equalities << ' ' << cy.num_proper_congruences << ' ' << cr.num_equalities << ' ' << cr.num_proper_congruences
        << ' ' << cy.compare(rc2);
    }
    else o << " CERT -1 -1 -1 -1 0";
  }
  J.line(o.str());
}

static void run_chain(long id, Rng& r) {
  static const dimension_type dims[] = {1, 1, 2, 2, 2, 3, 3, 3, 4, 4};
  dimension_type n = dims[r.below(10)];
  g_call = 0;
  Grid x = rnd_grid(r, n);
  const Congruence_System none(n);
  for (long step = 0; step < g_limit; ++step) {
    Grid piece(n, EMPTY); bool found = false;
    for (int attempt = 0; attempt < 14 && !found; ++attempt) {
      Grid_Generator_System pg; pg.insert(rnd_point(r, n, 3 + attempt));
      if (r.chance(1, 5)) {
        Linear_Expression e = dimfix(n); e += Variable(r.below(n));
        pg.insert(r.chance(1, 2) ? grid_line(e) : parameter(e, 1));
      }
      piece = Grid(pg);
      if (!x.contains(piece)) found = true;
    }
    if (!found) break;
    Grid z(x);
    z.upper_bound_assign(piece);
    // token call
    { Grid xt = rehist(r, z), yt = rehist(r, x); one_call(id, (Op)r.below(3), xt, yt, none, (int)r.below(3)); }
    // limited call, with and without tokens
    {
      Congruence_System lc = rnd_limit_cgs(r, n, z);
      Grid xl = rehist(r, z), yl = rehist(r, x);
      one_call(id, (Op)(3 + r.below(3)), xl, yl, lc, r.chance(1, 4) ? (int)r.below(3) : -1);
    }
    // a call on equal arguments (stationary) now and then
    if (r.chance(1, 6)) { Grid xs = rehist(r, x), ys = rehist(r, x); one_call(id, (Op)r.below(3), xs, ys, none, -1); }
    // the plain call that drives the chain
    Grid res = rehist(r, z), yy = rehist(r, x);
    one_call(id, (Op)r.below(3), res, yy, none, -1);
    bool stationary = x.contains(res);
    x = res;
    if (stationary) break;
  }
}

int main(int argc, char** argv) {
  long seed = pplv::arg_long(argc, argv, "--seed", 1);
  long first = pplv::arg_long(argc, argv, "--first", 0);
  long last = pplv::arg_long(argc, argv, "--last", 100);
  long per = pplv::arg_long(argc, argv, "--per-batch", 50);
  g_limit = pplv::arg_long(argc, argv, "--limit", 7);
  long nb = (last - first + per - 1) / per;
  return pplv::run_batches(0, nb, [&](long b) {
    for (long h = first + b * per; h < std::min(last, first + (b + 1) * per); ++h) {
      try { Rng r((uint64_t)seed * 1000003ull + (uint64_t)h); run_chain(h, r); }
      catch (...) { J.line("exc " + std::to_string(h) + " " + pplv::exc_class()); }
    }
  }, 120);
}
