// C01/C02 harness: seeded histories over a pool of C / NNC polyhedra, every step journalled.
// Grammar of the journal: see Driver/Lin.lean (pplv_lin).
//   c01_poly --seed S --first A --last B --len L --maxdim D [--ops all|c01]
#include "ppl.hh"
#include "common.hh"
#include "poly_io.hh"
#include <memory>
#include <set>

using namespace Parma_Polyhedra_Library;
using pplv::Rng;


static pplv::Journal J(1);

struct Slot {
  std::unique_ptr<Polyhedron> p;
  bool live() const { return (bool)p; }
};

static Polyhedron* make(Topology t, dimension_type n, Degenerate_Element k) {
  if (t == NECESSARILY_CLOSED) return new C_Polyhedron(n, k);
  return new NNC_Polyhedron(n, k);
}
static bool g_nnc = false;
static Polyhedron* clone(const Polyhedron& q) {
  if (!g_nnc) return new C_Polyhedron(static_cast<const C_Polyhedron&>(q));
  return new NNC_Polyhedron(static_cast<const NNC_Polyhedron&>(q));
}

using namespace pplv_io;

// ---- status trace (--status-trace 1) ------------------------------------------------------
// Every public call on a polyhedron is bracketed by `status` lines taken with ascii_dump on the
// object itself (which does not change its state):
//   status <slot> <10 flags> T d=<dim> n=<0|1> cs=<S|U>,<rows>,<first_pending> gs=<...> <phase> <method> [k=v ...]
// phase: pre / post (receiver), apre / apost (argument of a binary call; omitted when it is the
// receiver itself: alias=1).  Slot 9 is a temporary copy.  An exception leaves a `pre` without `post`.
// Judged by pplv_polystatus (lean/Driver/PolyStatus.lean).  Without the flag nothing is emitted.
static bool g_trace = false;
static std::string tr_sys(const std::vector<std::string>& L, const char* name) {
  for (size_t i = 0; i + 3 < L.size(); ++i)
    if (L[i].compare(0, strlen(name), name) == 0) {
      bool sorted = L[i + 2].find("(sorted)") != std::string::npos;
      long rows = atol(L[i + 2].c_str());
      long fp = atol(L[i + 3].c_str() + strlen("index_first_pending "));
      OS o; o << (sorted ? "S" : "U") << "," << rows << "," << fp; return o.str();
    }
  return "?";
}
static std::string tr_state(const Polyhedron& q) {
  OS d; q.ascii_dump(d);
  std::vector<std::string> L; { std::istringstream in(d.str()); std::string l; while (std::getline(in, l)) L.push_back(l); }
  OS o;
  o << (L.size() > 1 ? L[1] : std::string("?")) << " T d=" << q.space_dimension() << " n=" << (g_nnc ? 1 : 0)
    << " cs=" << tr_sys(L, "con_sys") << " gs=" << tr_sys(L, "gen_sys");
  return o.str();
}
struct Tr {
  int s, t; const Polyhedron* x; const Polyhedron* y; std::string what;
  Tr(int s_, const Polyhedron* x_, const std::string& w, int t_ = -1, const Polyhedron* y_ = 0)
    : s(s_), t(t_), x(x_), y(y_), what(w) {
    if (!g_trace) return;
    if (x && y == x) what += " alias=1";
    if (x) emit(s, *x, "pre");
    if (y && y != x) emit(t, *y, "apre");
  }
  void done(const Polyhedron* nx = 0) {      // nx: a receiver that only exists after the call (constructors)
    if (!g_trace) return;
    if (nx) x = nx;
    emit(s, *x, "post");
    if (y && y != x) emit(t, *y, "apost");
  }
  void emit(int slot, const Polyhedron& q, const char* ph) {
    OS l; l << "status " << slot << " " << tr_state(q) << " " << ph << " " << what; J.line(l.str());
  }
};
static std::string fact(const char* k, long v) { OS o; o << " " << k << "=" << v; return o.str(); }
static Polyhedron* clone_tr(int d, int s, const Polyhedron& q) {   // copy construction, traced
  Tr tr(d, 0, "copy_ctor", s, &q); Polyhedron* r = clone(q); tr.done(r); return r;
}
static bool expr_const(const Linear_Expression& e) {
  for (dimension_type i = 0; i < e.space_dimension(); ++i) if (e.coefficient(Variable(i)) != 0) return false;
  return true;
}
static bool expr_common(const Linear_Expression& a, const Linear_Expression& b) {
  dimension_type m = std::min(a.space_dimension(), b.space_dimension());
  for (dimension_type i = 0; i < m; ++i) if (a.coefficient(Variable(i)) != 0 && b.coefficient(Variable(i)) != 0) return true;
  return false;
}
template <typename Sys> static long sys_rows(const Sys& y) {      // number of rows (has_no_rows() is private): from the dump
  OS d; y.ascii_dump(d); std::istringstream in(d.str()); std::string l;
  while (std::getline(in, l)) if (l.find(" x ") != std::string::npos) return atol(l.c_str());
  return -1;
}
static bool gs_points(const Generator_System& gs) {
  for (Generator_System::const_iterator i = gs.begin(); i != gs.end(); ++i) if (i->is_point()) return true;
  return false;
}
static std::string cs_facts(const Constraint_System& cs) {
  bool strict_ni = false;
  for (Constraint_System::const_iterator i = cs.begin(); i != cs.end(); ++i) if (i->is_strict_inequality() && !i->is_inconsistent()) strict_ni = true;
  return fact("norows", sys_rows(cs) == 0) + fact("nontriv", cs.begin() != cs.end()) + fact("hasstrict", cs.has_strict_inequalities())
       + fact("strictni", strict_ni);
}
static std::string con_facts(const Constraint& c) {
  return fact("strict", c.is_strict_inequality()) + fact("taut", c.is_tautological()) + fact("incons", c.is_inconsistent());
}

// ---- observation ------------------------------------------------------------------------
struct Hist {
  Rng r;
  Slot slot[4];
  bool nnc;
  dimension_type maxdim;
  bool big;
  bool observe_always = false;
  long bias = -1;
  int last_slot = -1, last_arg = -1;
  std::set<std::string> status_seen;
  int cur = -1;          // trace id of the object being observed (slot, or 9 for a temporary copy)
  Hist(uint64_t seed) : r(seed) {}

  dimension_type dim(int s) { return slot[s].p->space_dimension(); }
  int pick_live() { int c[4], k = 0; for (int i = 0; i < 4; ++i) if (slot[i].live()) c[k++] = i; return c[r.below(k)]; }
  int pick_compatible(int s) {
    int c[4], k = 0;
    for (int i = 0; i < 4; ++i) if (slot[i].live() && dim(i) == dim(s)) c[k++] = i;
    last_arg = c[r.below(k)];
    return last_arg;
  }
  // C02: result and (unchanged) argument observed through both descriptions right after the operator
  void observe_full(int s) {
    if (s < 0 || !slot[s].live()) return;
    bool on_copy = r.chance(1, 2);
    std::unique_ptr<Polyhedron> cp;
    const Polyhedron* q = slot[s].p.get();
    if (on_copy) { cp.reset(clone_tr(9, s, *slot[s].p)); q = cp.get(); }
    cur = on_copy ? 9 : s;
    observe_sys(s, *q, r.below(2));
    observe_sys(s, *q, 2 + r.below(2));
    status_line(s);
  }
  void status_line(int s) {
    OS o; slot[s].p->ascii_dump(o);
    std::string t = o.str();
    size_t a = t.find('\n'); size_t b = t.find('\n', a + 1);
    if (a != std::string::npos && b != std::string::npos) {
      OS l; l << "status " << s << " " << t.substr(a + 1, b - a - 1);
      J.line(l.str());
    }
  }
  void observe_sys(int s, const Polyhedron& q, int which) {
    OS o; dimension_type n = q.space_dimension();
    switch (which) {
      case 0: { Tr tr(cur, &q, "constraints"); const Constraint_System& v = q.constraints(); tr.done();
                o << "obs " << s << " cons"; put_cs(o, v, n); break; }
      case 1: { Tr tr(cur, &q, "minimized_constraints"); const Constraint_System& v = q.minimized_constraints(); tr.done();
                o << "obs " << s << " mcons"; put_cs(o, v, n); break; }
      case 2: { Tr tr(cur, &q, "generators"); const Generator_System& v = q.generators(); tr.done();
                o << "obs " << s << " gens"; put_gs(o, v, n); break; }
      default: { Tr tr(cur, &q, "minimized_generators"); const Generator_System& v = q.minimized_generators(); tr.done();
                o << "obs " << s << " mgens"; put_gs(o, v, n); break; }
    }
    J.line(o.str());
  }
  void query(int s, const Polyhedron& q) {
    OS o; dimension_type n = q.space_dimension();
    o << "q " << s << " ";
    switch (r.below(18)) {
      case 0: { Tr tr(cur, &q, "is_empty"); bool b = q.is_empty(); tr.done(); o << "is_empty " << b; break; }
      case 1: { Tr tr(cur, &q, "is_universe"); bool b = q.is_universe(); tr.done(); o << "is_universe " << b; break; }
      case 2: { Tr tr(cur, &q, "is_bounded"); bool b = q.is_bounded(); tr.done(); o << "is_bounded " << b; break; }
      case 3: { Tr tr(cur, &q, "is_topologically_closed"); bool b = q.is_topologically_closed(); tr.done(); o << "is_closed " << b; break; }
      case 4: { int t = pick_compatible(s); Tr tr(cur, &q, "contains", t, slot[t].p.get()); bool b = q.contains(*slot[t].p); tr.done();
                o << "contains " << t << " " << b; break; }
      case 5: { int t = pick_compatible(s); Tr tr(cur, &q, "strictly_contains", t, slot[t].p.get()); bool b = q.strictly_contains(*slot[t].p); tr.done();
                o << "strictly_contains " << t << " " << b; break; }
      case 6: { int t = pick_compatible(s); Tr tr(cur, &q, "is_disjoint_from", t, slot[t].p.get()); bool b = q.is_disjoint_from(*slot[t].p); tr.done();
                o << "disjoint " << t << " " << b; break; }
      case 7: { int t = pick_compatible(s); Tr tr(cur, &q, "equals", t, slot[t].p.get()); bool b = (q == *slot[t].p); tr.done();
                o << "equals " << t << " " << b; break; }
      case 8: { if (n == 0) { Tr tr(cur, &q, "is_empty"); bool b = q.is_empty(); tr.done(); o << "is_empty " << b; break; }
                dimension_type v = r.below(n); Tr tr(cur, &q, "constrains"); bool b = q.constrains(Variable(v)); tr.done();
                o << "constrains " << v << " " << b; break; }
      case 9: { Tr tr(cur, &q, "affine_dimension"); dimension_type a = q.affine_dimension(); tr.done(); o << "affdim " << a; break; }
      case 10: case 11: {
        Constraint c = rnd_con(r, n, true, false);
        Tr tr(cur, &q, "relation_with_con" + fact("incons", c.is_inconsistent()));
        Poly_Con_Relation rel = q.relation_with(c); tr.done();
        o << "relcon"; put_con(o, c, n);
        o << " " << rel.implies(Poly_Con_Relation::is_disjoint()) << " " << rel.implies(Poly_Con_Relation::strictly_intersects())
          << " " << rel.implies(Poly_Con_Relation::is_included()) << " " << rel.implies(Poly_Con_Relation::saturates());
        break; }
      case 12: {
        Generator g = rnd_gen(r, n, nnc, false);
        Tr tr(cur, &q, "relation_with_gen");
        Poly_Gen_Relation rel = q.relation_with(g); tr.done();
        o << "relgen"; put_gen(o, g, n); o << " " << rel.implies(Poly_Gen_Relation::subsumes());
        break; }
      case 16: case 17: {
        Linear_Expression e = rnd_expr(r, n, 3, false);
        Coefficient m = r.chance(1, 6) ? 0 : r.range(1, 4);
        Congruence cg = (e %= 0) / m;
        Tr tr(cur, &q, "relation_with_cg" + fact("eq", cg.is_equality()));
        Poly_Con_Relation rel = q.relation_with(cg); tr.done();
        o << "relcg " << cg.modulus(); put_expr(o, e, n);
        o << " " << rel.implies(Poly_Con_Relation::is_disjoint()) << " " << rel.implies(Poly_Con_Relation::strictly_intersects())
          << " " << rel.implies(Poly_Con_Relation::is_included()) << " " << rel.implies(Poly_Con_Relation::saturates());
        break; }
      case 13: { Linear_Expression e = rnd_expr(r, n, 3, false);
        bool up = r.chance(1, 2);
        o << (up ? "bounds_above" : "bounds_below"); put_expr(o, e, n);
        Tr tr(cur, &q, "bounds"); bool b = (up ? q.bounds_from_above(e) : q.bounds_from_below(e)); tr.done();
        o << " " << b; break; }
      default: {
        Linear_Expression e = rnd_expr(r, n, 3, false);
        bool mx = r.chance(1, 2);
        Coefficient num, den; bool incl; Generator g = point();
        Tr tr(cur, &q, "max_min");
        bool ok = mx ? q.maximize(e, num, den, incl, g) : q.minimize(e, num, den, incl, g); tr.done();
        o << (mx ? "max" : "min"); put_expr(o, e, n);
        if (!ok) o << " none";
        else { o << " " << num << " " << den << " " << incl; put_gen(o, g, n); }
        break; }
    }
    J.line(o.str());
  }
  void observe(int s) {
    // observing a copy leaves the lazy state of the original untouched
    bool on_copy = r.chance(2, 5);
    std::unique_ptr<Polyhedron> cp;
    const Polyhedron* q = slot[s].p.get();
    if (on_copy) { cp.reset(clone_tr(9, s, *slot[s].p)); q = cp.get(); }
    cur = on_copy ? 9 : s;
    unsigned k = 1 + r.below(3);
    for (unsigned i = 0; i < k; ++i) {
      if (r.chance(1, 2)) observe_sys(s, *q, r.below(4)); else query(s, *q);
    }
    if (!q->OK()) { OS o; o << "crash OK()-false slot " << s; J.line(o.str()); }
    status_line(s);
  }
  void hint(int s) {
    std::unique_ptr<Polyhedron> cp(clone(*slot[s].p));
    OS o; o << "hint " << s << " gens"; put_gs(o, cp->minimized_generators(), cp->space_dimension());
    J.line(o.str());
  }

  void create(int s, dimension_type n) {
    Topology t = nnc ? NOT_NECESSARILY_CLOSED : NECESSARILY_CLOSED;
    OS o; o << "new " << s << " " << (nnc ? "N" : "C") << " " << n << " ";
    unsigned k = r.below(10);
    if (k == 0) { Tr tr(s, 0, "ctor_univ" + fact("dim", n)); slot[s].p.reset(make(t, n, UNIVERSE)); tr.done(slot[s].p.get()); o << "univ"; }
    else if (k == 1) { Tr tr(s, 0, "ctor_empty" + fact("dim", n)); slot[s].p.reset(make(t, n, EMPTY)); tr.done(slot[s].p.get()); o << "empty"; }
    else if (k < 7) {
      Constraint_System cs = rnd_cs(r, n, nnc, 5, big);
      o << "cons"; put_cs(o, cs, n);
      J.line(o.str());   // journal first: the constructor may crash
      { bool inc = false; for (Constraint_System::const_iterator i = cs.begin(); i != cs.end(); ++i) if (i->is_inconsistent()) inc = true;
        Tr tr(s, 0, "ctor_cons" + fact("dim", cs.space_dimension()) + fact("incons", inc));
        slot[s].p.reset(nnc ? (Polyhedron*)new NNC_Polyhedron(cs) : (Polyhedron*)new C_Polyhedron(cs)); tr.done(slot[s].p.get()); }
      if (slot[s].p->space_dimension() < n) { dimension_type m = n - slot[s].p->space_dimension();
        Tr tr(s, slot[s].p.get(), "add_space_dimensions_and_embed" + fact("m", m)); slot[s].p->add_space_dimensions_and_embed(m); tr.done(); }
      return;
    } else {
      Generator_System gs = rnd_gs(r, n, nnc, n <= 2 ? 5 : 4);
      if (nnc) { // a closure point needs a matching point somewhere: the first generator is a point
      }
      o << "gens"; put_gs(o, gs, n);
      J.line(o.str());
      { Tr tr(s, 0, "ctor_gens" + fact("dim", gs.space_dimension()) + fact("norows", sys_rows(gs) == 0));
        slot[s].p.reset(nnc ? (Polyhedron*)new NNC_Polyhedron(gs) : (Polyhedron*)new C_Polyhedron(gs)); tr.done(slot[s].p.get()); }
      if (slot[s].p->space_dimension() < n) { dimension_type m = n - slot[s].p->space_dimension();
        Tr tr(s, slot[s].p.get(), "add_space_dimensions_and_embed" + fact("m", m)); slot[s].p->add_space_dimensions_and_embed(m); tr.done(); }
      return;
    }
    J.line(o.str());
  }

  // "Two polyhedra denoting the same set are indistinguishable": rebuild the set of slot s in
  // another slot by a different route (from its own reported description, in a shuffled order,
  // at once or incrementally with observations in between), then compare both ways.
  void twin(int s) {
    int d = r.below(4); if (d == s) d = (s + 1) % 4;
    const Polyhedron& P = *slot[s].p;
    dimension_type n = P.space_dimension();
    Topology t = nnc ? NOT_NECESSARILY_CLOSED : NECESSARILY_CLOSED;
    std::unique_ptr<Polyhedron> cp(clone(P));       // descriptions are read from a copy
    OS o; o << "new " << d << " " << (nnc ? "N" : "C") << " " << n << " ";
    bool from_cons = r.chance(1, 2) || cp->is_empty();
    if (from_cons) {
      std::vector<Constraint> rows;
      const Constraint_System& cs = r.chance(1, 2) ? cp->minimized_constraints() : cp->constraints();
      for (Constraint_System::const_iterator i = cs.begin(); i != cs.end(); ++i) rows.push_back(*i);
      for (size_t i = rows.size(); i > 1; --i) std::swap(rows[i - 1], rows[r.below((unsigned)i)]);
      Constraint_System all; if (n > 0) all.insert(0 * Variable(n - 1) >= -1);
      for (size_t i = 0; i < rows.size(); ++i) all.insert(rows[i]);
      o << "cons"; put_cs(o, all, n); J.line(o.str());
      { Tr tr(d, 0, "ctor_univ" + fact("dim", n)); slot[d].p.reset(make(t, n, UNIVERSE)); tr.done(slot[d].p.get()); }
      bool incremental = r.chance(1, 2);
      for (size_t i = 0; i < rows.size(); ++i) {
        { Tr tr(d, slot[d].p.get(), "add_constraint" + con_facts(rows[i])); slot[d].p->add_constraint(rows[i]); tr.done(); }
        if (incremental && r.chance(1, 2)) {
          if (r.chance(1, 2)) { Tr tr(d, slot[d].p.get(), "minimized_generators"); (void) slot[d].p->minimized_generators(); tr.done(); }
          else { Tr tr(d, slot[d].p.get(), "generators"); (void) slot[d].p->generators(); tr.done(); }
        }
      }
    } else {
      std::vector<Generator> rows;
      const Generator_System& gs = r.chance(1, 2) ? cp->minimized_generators() : cp->generators();
      for (Generator_System::const_iterator i = gs.begin(); i != gs.end(); ++i) rows.push_back(*i);
      // a point must come first
      size_t pt = 0; for (size_t i = 0; i < rows.size(); ++i) if (rows[i].is_point()) { pt = i; break; }
      std::swap(rows[0], rows[pt]);
      for (size_t i = rows.size(); i > 2; --i) std::swap(rows[i - 1], rows[1 + r.below((unsigned)(i - 1))]);
      Generator_System all; for (size_t i = 0; i < rows.size(); ++i) all.insert(rows[i]);
      o << "gens"; put_gs(o, all, n); J.line(o.str());
      { Tr tr(d, 0, "ctor_empty" + fact("dim", n)); slot[d].p.reset(make(t, n, EMPTY)); tr.done(slot[d].p.get()); }
      bool incremental = r.chance(1, 2);
      for (size_t i = 0; i < rows.size(); ++i) {
        { Tr tr(d, slot[d].p.get(), "add_generator" + fact("point", rows[i].is_point())); slot[d].p->add_generator(rows[i]); tr.done(); }
        if (incremental && r.chance(1, 2)) {
          if (r.chance(1, 2)) { Tr tr(d, slot[d].p.get(), "minimized_constraints"); (void) slot[d].p->minimized_constraints(); tr.done(); }
          else { Tr tr(d, slot[d].p.get(), "constraints"); (void) slot[d].p->constraints(); tr.done(); }
        }
      }
    }
    if (r.chance(1, 2)) { Tr tr(s, slot[s].p.get(), "minimized_constraints"); (void) slot[s].p->minimized_constraints(); tr.done(); }
    if (r.chance(1, 2)) { Tr tr(d, slot[d].p.get(), "minimized_generators"); (void) slot[d].p->minimized_generators(); tr.done(); }
    const Polyhedron& X = *slot[s].p; const Polyhedron& Y = *slot[d].p;
    { Tr tr(s, &X, "equals", d, &Y); bool b = (X == Y); tr.done(); OS q; q << "q " << s << " equals " << d << " " << b; J.line(q.str()); }
    { Tr tr(d, &Y, "equals", s, &X); bool b = (Y == X); tr.done(); OS q; q << "q " << d << " equals " << s << " " << b; J.line(q.str()); }
    { Tr tr(s, &X, "contains", d, &Y); bool b = X.contains(Y); tr.done(); OS q; q << "q " << s << " contains " << d << " " << b; J.line(q.str()); }
    { Tr tr(d, &Y, "contains", s, &X); bool b = Y.contains(X); tr.done(); OS q; q << "q " << d << " contains " << s << " " << b; J.line(q.str()); }
    { Tr tr(s, &X, "strictly_contains", d, &Y); bool b = X.strictly_contains(Y); tr.done(); OS q; q << "q " << s << " strictly_contains " << d << " " << b; J.line(q.str()); }
    status_line(s); status_line(d);
  }

  // A "neighbour" of slot s in another slot: the same constraints with one bound moved, one
  // constraint dropped, one added or one negated — adjacent / overlapping / nested pairs, where
  // unions are sometimes convex (the interesting cases for the *_if_exact predicates).
  int neighbour(int s) {
    int d = r.below(4); if (d == s) d = (s + 1) % 4;
    dimension_type n = slot[s].p->space_dimension();
    Topology t = nnc ? NOT_NECESSARILY_CLOSED : NECESSARILY_CLOSED;
    std::unique_ptr<Polyhedron> cp(clone(*slot[s].p));
    std::vector<Constraint> rows;
    const Constraint_System& cs = cp->minimized_constraints();
    for (Constraint_System::const_iterator i = cs.begin(); i != cs.end(); ++i) rows.push_back(*i);
    Constraint_System all; if (n > 0) all.insert(0 * Variable(n - 1) >= -1);
    unsigned how = r.below(4);
    size_t pick = rows.empty() ? 0 : r.below((unsigned)rows.size());
    bool extra = r.chance(1, 2);       // a second, independent modification
    for (size_t i = 0; i < rows.size(); ++i) {
      const Constraint& c = rows[i];
      if (i != pick) { all.insert(c); continue; }
      Linear_Expression e(c.expression());
      if (how == 0) { e += Coefficient(r.range(-3, 3)); if (c.is_equality()) all.insert(e == 0); else if (c.is_strict_inequality()) all.insert(e > 0); else all.insert(e >= 0); }
      else if (how == 1) { /* dropped */ }
      else if (how == 2) { // the complementary half-space (closed or strict), keeping the rest
        if (c.is_equality()) all.insert(e >= 0);
        else if (nnc && !c.is_strict_inequality()) all.insert(-e > 0);
        else all.insert(-e >= 0); }
      else { all.insert(c); }
    }
    if (how == 3 || rows.empty() || extra) {
      // prefer a bound on a variable the set does not constrain (cuts a line into a ray)
      std::vector<dimension_type> freev;
      for (dimension_type v = 0; v < n; ++v) if (!cp->constrains(Variable(v))) freev.push_back(v);
      if (!freev.empty() && r.chance(2, 3)) {
        Variable u(freev[r.below((unsigned)freev.size())]);
        Coefficient k = r.range(-2, 2);
        if (r.chance(1, 2)) all.insert(u + k >= 0); else all.insert(-u + k >= 0);
      }
      else all.insert(rnd_con(r, n, nnc, false));
    }
    OS o; o << "new " << d << " " << (nnc ? "N" : "C") << " " << n << " cons"; put_cs(o, all, n); J.line(o.str());
    slot[d].p.reset(nnc ? (Polyhedron*)new NNC_Polyhedron(all) : (Polyhedron*)new C_Polyhedron(all));
    if (slot[d].p->space_dimension() < n) slot[d].p->add_space_dimensions_and_embed(n - slot[d].p->space_dimension());
    (void) t;
    return d;
  }

  // ---- C02, second batch: helpers (models: lean/PPLV/Lin/Ops2.lean) -------------------------
  // Generator hints of the pieces P ∩ ¬c (c a row of Q) of the set difference P ∖ Q, computed on
  // copies; the driver verifies every claim (RefPoly.diffJudge).  C polyhedra: the closed piece
  // P ∩ {-e >= 0} is listed iff the strict piece P ∩ {-e > 0} is non-empty.
  bool diff_pieces(int s, int t) {
    const Polyhedron& P = *slot[s].p; dimension_type n = P.space_dimension();
    std::unique_ptr<Polyhedron> qc(clone(*slot[t].p));
    std::vector<std::string> lines;
    const Constraint_System& qcs = r.chance(1, 2) ? qc->minimized_constraints() : qc->constraints();
    unsigned rows = 0;
    for (Constraint_System::const_iterator i = qcs.begin(); i != qcs.end(); ++i) {
      if (++rows > 7) return false;
      const Constraint& c = *i;
      Linear_Expression e(c.expression());
      std::vector<std::pair<Constraint, Constraint> > negs;     // (listed half-space, its strict version)
      if (c.is_equality()) {
        negs.push_back(std::make_pair(nnc ? (-e > 0) : (-e >= 0), -e > 0));
        negs.push_back(std::make_pair(nnc ? (e > 0) : (e >= 0), e > 0));
      }
      else if (c.is_strict_inequality()) negs.push_back(std::make_pair(-e >= 0, -e >= 0));
      else negs.push_back(std::make_pair(nnc ? (-e > 0) : (-e >= 0), -e > 0));
      for (size_t j = 0; j < negs.size(); ++j) {
        std::unique_ptr<NNC_Polyhedron> np(nnc ? new NNC_Polyhedron(static_cast<const NNC_Polyhedron&>(P))
                                               : new NNC_Polyhedron(static_cast<const C_Polyhedron&>(P)));
        np->add_constraint(negs[j].second);
        if (np->is_empty()) continue;
        OS l; l << "piece " << s; put_con(l, negs[j].first, n); l << " gens";
        if (nnc) { const Generator_System& g = np->minimized_generators();
          if (std::distance(g.begin(), g.end()) > 9) return false; put_gs(l, g, n); }
        else { C_Polyhedron cp(static_cast<const C_Polyhedron&>(P)); cp.add_constraint(negs[j].first);
          const Generator_System& g = cp.minimized_generators();
          if (std::distance(g.begin(), g.end()) > 9) return false; put_gs(l, g, n); }
        lines.push_back(l.str());
      }
    }
    if (lines.size() > 6) return false;
    for (size_t i = 0; i < lines.size(); ++i) J.line(lines[i]);
    return true;
  }
  // a small congruence system; `proper` receives the number of non-trivial proper congruences
  struct Cg { Linear_Expression e; Coefficient m; };
  std::vector<Cg> rnd_cgs(dimension_type n, unsigned max_proper, unsigned& proper) {
    std::vector<Cg> v; proper = 0;
    unsigned cnt = 1 + r.below(2);
    for (unsigned i = 0; i < cnt; ++i) {
      Cg g; unsigned k = r.below(8);
      if (k < 4 || n == 0) {
        if (k < 3 && n > 0) { g.e = rnd_expr(r, n, 3, false); g.m = 0; }                       // equality
        else { if (n > 0) g.e += 0 * Variable(n - 1); g.m = r.range(1, 4); g.e += Coefficient(r.range(-6, 6)); }   // no variables: true or false
      }
      else if (k < 6) { if (n > 0) g.e += 0 * Variable(n - 1); g.m = r.range(2, 4); g.e += g.m * Coefficient(r.range(-2, 2)); }  // tautology
      else { g.e = rnd_expr(r, n, 3, false); g.m = r.range(1, 4);
             if (all_zero(g.e, n)) { /* trivial after all */ }
             else if (proper >= max_proper) g.m = 0; else ++proper; }
      v.push_back(g);
    }
    return v;
  }
  void put_cgs(OS& o, const std::vector<Cg>& v, dimension_type n) {
    o << " " << v.size();
    for (size_t i = 0; i < v.size(); ++i) { o << " " << v[i].m; put_expr(o, v[i].e, n); }
  }

  // one mutator; returns false if nothing was done
  void mutate(bool c02) {
    int s = pick_live();
    last_slot = s; last_arg = -1;
    Polyhedron& P = *slot[s].p;
    dimension_type n = P.space_dimension();
    OS o;
    unsigned k = r.below(c02 ? 42 : 22);
    if (c02 && bias >= 0 && r.chance(2, 5)) k = (unsigned)bias;   // focused batch (e.g. the *_if_exact predicates)
    if (r.chance(1, 7)) { twin(s); return; }
    try {
      switch (k) {
      case 0: case 1: { Constraint_System cs = rnd_cs(r, n, nnc, 2, big);
        o << "op " << s << " add_cons"; put_cs(o, cs, n); J.line(o.str());
        if (r.chance(1, 2)) { Tr tr(s, &P, "add_constraints" + cs_facts(cs)); P.add_constraints(cs); tr.done(); }
        else for (Constraint_System::const_iterator i = cs.begin(); i != cs.end(); ++i) { Tr tr(s, &P, "add_constraint" + con_facts(*i)); P.add_constraint(*i); tr.done(); }
        break; }
      case 2: { // strict constraints only on NNC polyhedra: refining a C polyhedron with a strict
                // constraint is specified only up to "between P∩c and P∩closure(c)"
        Constraint_System cs = rnd_cs(r, n, nnc, 2, big);
        o << "op " << s << " refine_cons"; put_cs(o, cs, n); J.line(o.str());
        if (r.chance(1, 2)) { Tr tr(s, &P, "refine_with_constraints" + cs_facts(cs)); P.refine_with_constraints(cs); tr.done(); }
        else for (Constraint_System::const_iterator i = cs.begin(); i != cs.end(); ++i) { Tr tr(s, &P, "refine_with_constraint" + con_facts(*i)); P.refine_with_constraint(*i); tr.done(); }
        break; }
      case 3: { Tr tr0(s, &P, "is_empty"); bool emp = P.is_empty(); tr0.done();   // (is_empty drives the lazy state too)
        Generator_System gs; gs.insert(rnd_gen(r, n, nnc, emp)); if (r.chance(1, 2)) gs.insert(rnd_gen(r, n, nnc, false));
        if (!emp) hint(s);
        o << "op " << s << " add_gens"; put_gs(o, gs, n); J.line(o.str());
        if (r.chance(1, 2)) { Tr tr(s, &P, "add_generators" + fact("norows", sys_rows(gs) == 0) + fact("points", gs_points(gs))); P.add_generators(gs); tr.done(); }
        else for (Generator_System::const_iterator i = gs.begin(); i != gs.end(); ++i) { Tr tr(s, &P, "add_generator" + fact("point", i->is_point())); P.add_generator(*i); tr.done(); }
        break; }
      case 4: { int t = pick_compatible(s);
        o << "op " << s << " meet " << t; J.line(o.str());
        { Tr tr(s, &P, "intersection_assign", t, slot[t].p.get()); P.intersection_assign(*slot[t].p); tr.done(); } break; }
      case 5: case 6: { int t = pick_compatible(s);
        hint(s); hint(t);
        o << "op " << s << " hull " << t; J.line(o.str());
        { Tr tr(s, &P, "poly_hull_assign", t, slot[t].p.get());
          if (r.chance(1, 2)) P.poly_hull_assign(*slot[t].p); else P.upper_bound_assign(*slot[t].p);
          tr.done(); }
        break; }
      case 7: { if (n == 0) return; dimension_type v = r.below(n);
        Linear_Expression e = rnd_expr(r, n, 3, big); Coefficient d = r.chance(1, 4) ? r.range(-3, -1) : r.range(1, 3);
        o << "op " << s << " aff_img " << v << " " << d; put_expr(o, e, n); J.line(o.str());
        { Tr tr(s, &P, "affine_image" + fact("inv", e.coefficient(Variable(v)) != 0)); P.affine_image(Variable(v), e, d); tr.done(); } break; }
      case 8: { if (n == 0) return; dimension_type v = r.below(n);
        Linear_Expression e = rnd_expr(r, n, 3, big); Coefficient d = r.chance(1, 4) ? r.range(-3, -1) : r.range(1, 3);
        o << "op " << s << " aff_pre " << v << " " << d; put_expr(o, e, n); J.line(o.str());
        { Tr tr(s, &P, "affine_preimage" + fact("inv", e.coefficient(Variable(v)) != 0)); P.affine_preimage(Variable(v), e, d); tr.done(); } break; }
      case 9: { if (n == 0) return; unsigned cnt = 1 + r.below(2); Variables_Set vs;
        for (unsigned i = 0; i < cnt; ++i) vs.insert(Variable(r.below(n)));
        o << "op " << s << " unconstrain " << vs.size();
        for (Variables_Set::const_iterator i = vs.begin(); i != vs.end(); ++i) o << " " << *i;
        J.line(o.str());
        { Tr tr(s, &P, "unconstrain" + fact("k", (long)vs.size()));
          if (vs.size() == 1 && r.chance(1, 2)) P.unconstrain(Variable(*vs.begin())); else P.unconstrain(vs);
          tr.done(); }
        break; }
      case 10: { o << "op " << s << " closure"; J.line(o.str());
        { Tr tr(s, &P, "topological_closure_assign"); P.topological_closure_assign(); tr.done(); } break; }
      case 11: { // copy into another slot
        int d = r.below(4); if (d == s) return;
        o << "copy " << d << " " << s; J.line(o.str());
        slot[d].p.reset(clone_tr(d, s, P)); break; }
      case 12: { int d = pick_live(); if (d == s) return;
        o << "swap " << s << " " << d; J.line(o.str());
        { Tr tr(s, &P, "m_swap", d, slot[d].p.get()); P.m_swap(*slot[d].p); tr.done(); } break; }
      case 13: { int d = pick_compatible(s); if (d == s) return;   // assignment
        o << "copy " << d << " " << s; J.line(o.str());
        { Tr tr(d, slot[d].p.get(), "assign", s, &P);
          if (nnc) static_cast<NNC_Polyhedron&>(*slot[d].p) = static_cast<NNC_Polyhedron&>(P);
          else static_cast<C_Polyhedron&>(*slot[d].p) = static_cast<C_Polyhedron&>(P);
          tr.done(); }
        break; }
      case 14: { if (n >= maxdim) return; dimension_type m = 1;
        bool emb = r.chance(1, 2);
        o << "op " << s << (emb ? " add_dims_embed " : " add_dims_project ") << m; J.line(o.str());
        { Tr tr(s, &P, std::string(emb ? "add_space_dimensions_and_embed" : "add_space_dimensions_and_project") + fact("m", m));
          if (emb) P.add_space_dimensions_and_embed(m); else P.add_space_dimensions_and_project(m); tr.done(); } break; }
      case 15: { if (n == 0) return; Variables_Set vs; vs.insert(Variable(r.below(n)));
        if (r.chance(1, 3)) vs.insert(Variable(r.below(n)));
        o << "op " << s << " remove_dims " << vs.size();
        for (Variables_Set::const_iterator i = vs.begin(); i != vs.end(); ++i) o << " " << *i;
        J.line(o.str());
        { Tr tr(s, &P, "remove_space_dimensions" + fact("k", (long)vs.size())); P.remove_space_dimensions(vs); tr.done(); } break; }
      case 16: { if (n == 0) return; dimension_type m = r.below(n + 1);
        o << "op " << s << " remove_higher " << m; J.line(o.str());
        { Tr tr(s, &P, "remove_higher_space_dimensions" + fact("nd", m)); P.remove_higher_space_dimensions(m); tr.done(); } break; }
      case 17: { int t = pick_live(); if (n + dim(t) > maxdim) return;
        o << "op " << s << " concat " << t; J.line(o.str());
        std::unique_ptr<Polyhedron> cp(clone_tr(9, t, *slot[t].p));
        { Tr tr(s, &P, "concatenate_assign", 9, cp.get()); P.concatenate_assign(*cp); tr.done(); } break; }
      case 18: { int t = pick_compatible(s);
        hint(s); hint(t);
        o << "op " << s << " time_elapse " << t; J.line(o.str());
        { Tr tr(s, &P, "time_elapse_assign", t, slot[t].p.get()); P.time_elapse_assign(*slot[t].p); tr.done(); } break; }
      case 19: { if (n == 0 || n >= maxdim) return; dimension_type v = r.below(n);
        o << "op " << s << " expand " << v << " 1"; J.line(o.str());
        { Tr tr(s, &P, "expand_space_dimension" + fact("m", 1)); P.expand_space_dimension(Variable(v), 1); tr.done(); } break; }
      case 20: { // map_space_dimensions with a random partial injective function
        if (n == 0) return;
        Partial_Function pf; std::vector<int> img(n, -1); std::vector<dimension_type> tgt;
        for (dimension_type i = 0; i < n; ++i) tgt.push_back(i);
        for (dimension_type i = n; i > 1; --i) std::swap(tgt[i - 1], tgt[r.below(i)]);
        std::vector<std::pair<dimension_type, dimension_type> > pr;
        dimension_type keep = 0;
        std::vector<bool> kept(n, false);
        for (dimension_type i = 0; i < n; ++i) if (!r.chance(1, 4)) { kept[i] = true; ++keep; }
        if (keep == 0) { kept[0] = true; keep = 1; }
        // targets must be exactly 0..keep-1
        std::vector<dimension_type> perm; for (dimension_type i = 0; i < keep; ++i) perm.push_back(i);
        for (dimension_type i = keep; i > 1; --i) std::swap(perm[i - 1], perm[r.below(i)]);
        dimension_type c = 0;
        for (dimension_type i = 0; i < n; ++i) if (kept[i]) { pf.insert(i, perm[c]); pr.push_back(std::make_pair(i, perm[c])); ++c; }
        o << "op " << s << " map_dims " << keep << " " << pr.size();
        for (size_t i = 0; i < pr.size(); ++i) o << " " << pr[i].first << " " << pr[i].second;
        J.line(o.str());
        { Tr tr(s, &P, "map_space_dimensions" + fact("nd", keep)); P.map_space_dimensions(pf); tr.done(); } break; }
      case 21: { int d = r.below(4); if (slot[d].live() && r.chance(1, 2)) return;
        create(d, n); break; }
      // ---- C02 extras -------------------------------------------------------------------
      case 22: case 23: { if (n == 0) return; dimension_type v = r.below(n);
        Relation_Symbol rs = (Relation_Symbol[]){LESS_OR_EQUAL, EQUAL, GREATER_OR_EQUAL, LESS_THAN, GREATER_THAN}[r.below(nnc ? 5 : 3)];
        Linear_Expression e = rnd_expr(r, n, 3, big); Coefficient d = r.chance(1, 4) ? r.range(-3, -1) : r.range(1, 3);
        bool img = (k == 22);
        o << "op " << s << (img ? " gen_img " : " gen_pre ") << v << " " << relsym_str(rs) << " " << d; put_expr(o, e, n); J.line(o.str());
        { Tr tr(s, &P, std::string(img ? "generalized_affine_image" : "generalized_affine_preimage") + fact("inv", e.coefficient(Variable(v)) != 0)
                          + fact("eq", rs == EQUAL) + fact("strict", rs == LESS_THAN || rs == GREATER_THAN));
          if (img) P.generalized_affine_image(Variable(v), rs, e, d); else P.generalized_affine_preimage(Variable(v), rs, e, d);
          tr.done(); }
        break; }
      case 24: case 25: {
        Relation_Symbol rs = (Relation_Symbol[]){LESS_OR_EQUAL, EQUAL, GREATER_OR_EQUAL, LESS_THAN, GREATER_THAN}[r.below(nnc ? 5 : 3)];
        Linear_Expression lhs = rnd_expr(r, n, 2, false), rhs = rnd_expr(r, n, 3, big);
        bool img = (k == 24);
        o << "op " << s << (img ? " gen_img2 " : " gen_pre2 ") << relsym_str(rs); put_expr(o, lhs, n); put_expr(o, rhs, n); J.line(o.str());
        { Tr tr(s, &P, std::string(img ? "generalized_affine_image2" : "generalized_affine_preimage2") + fact("lconst", expr_const(lhs))
                          + fact("common", expr_common(lhs, rhs)) + fact("eq", rs == EQUAL) + fact("strict", rs == LESS_THAN || rs == GREATER_THAN));
          if (img) P.generalized_affine_image(lhs, rs, rhs); else P.generalized_affine_preimage(lhs, rs, rhs);
          tr.done(); }
        break; }
      case 26: case 27: { if (n == 0) return; dimension_type v = r.below(n);
        Linear_Expression lb = rnd_expr(r, n, 3, false), ub = rnd_expr(r, n, 3, false);
        Coefficient d = r.chance(1, 4) ? r.range(-3, -1) : r.range(1, 3);
        bool img = (k == 26);
        o << "op " << s << (img ? " bnd_img " : " bnd_pre ") << v << " " << d; put_expr(o, lb, n); put_expr(o, ub, n); J.line(o.str());
        { Tr tr(s, &P, std::string(img ? "bounded_affine_image" : "bounded_affine_preimage") + fact("lbv", lb.coefficient(Variable(v)) != 0)
                          + fact("ubv", ub.coefficient(Variable(v)) != 0));
          if (img) P.bounded_affine_image(Variable(v), lb, ub, d); else P.bounded_affine_preimage(Variable(v), lb, ub, d);
          tr.done(); }
        break; }
      case 28: { int t = pick_compatible(s);       // result judged by its defining relations
        o << "pre " << s << " simplify_ctx " << t; J.line(o.str());
        Tr tr(s, &P, "simplify_using_context_assign", t, slot[t].p.get());
        bool b = P.simplify_using_context_assign(*slot[t].p); tr.done();
        Tr tr2(s, &P, "constraints"); const Constraint_System& rc = P.constraints(); tr2.done();
        OS q; q << "res " << s << " simplify_ctx " << t << " " << b; put_cs(q, rc, n); J.line(q.str());
        break; }
      case 29: case 30: { int t = pick_compatible(s);
        o << "pre " << s << " diff " << t; J.line(o.str());
        { Tr tr(s, &P, "poly_difference_assign", t, slot[t].p.get());
          if (r.chance(1, 2)) P.poly_difference_assign(*slot[t].p); else P.difference_assign(*slot[t].p);
          tr.done(); }
        Tr tr2(s, &P, "constraints"); const Constraint_System& rc = P.constraints(); tr2.done();
        OS q; q << "res " << s << " diff " << t << " 1"; put_cs(q, rc, n); J.line(q.str());
        break; }
      case 31: case 32: { int t = pick_compatible(s);
        if (r.chance(3, 5)) t = neighbour(s);
        hint(s); hint(t);
        o << "pre " << s << " hull_if_exact " << t; J.line(o.str());
        bool alt = r.chance(1, 2);
        bool b = nnc
          ? (alt ? static_cast<NNC_Polyhedron&>(P).poly_hull_assign_if_exact(static_cast<const NNC_Polyhedron&>(*slot[t].p))
                 : static_cast<NNC_Polyhedron&>(P).upper_bound_assign_if_exact(static_cast<const NNC_Polyhedron&>(*slot[t].p)))
          : (alt ? static_cast<C_Polyhedron&>(P).poly_hull_assign_if_exact(static_cast<const C_Polyhedron&>(*slot[t].p))
                 : static_cast<C_Polyhedron&>(P).upper_bound_assign_if_exact(static_cast<const C_Polyhedron&>(*slot[t].p)));
        Tr tr2(s, &P, "constraints"); const Constraint_System& rc = P.constraints(); tr2.done();
        OS q; q << "res " << s << " hull_if_exact " << t << " " << b; put_cs(q, rc, n); J.line(q.str());
        break; }
      // ---- C02, second batch (cases 34..41) -----------------------------------------------------
      case 34: case 35: { int t = pick_compatible(s);     // difference, leastness judged through piece hints
        if (r.chance(2, 5)) t = neighbour(s);
        o << "pre " << s << " diff " << t; J.line(o.str());
        bool hinted = diff_pieces(s, t);
        if (r.chance(1, 2)) P.poly_difference_assign(*slot[t].p); else P.difference_assign(*slot[t].p);
        OS q; q << "res " << s << " diff " << t << " " << (hinted ? 2 : 1); put_cs(q, P.constraints(), n); J.line(q.str());
        break; }
      case 36: { int t = pick_compatible(s);
        o << "op " << s << " pos_time_elapse " << t; J.line(o.str());
        if (nnc) static_cast<NNC_Polyhedron&>(P).positive_time_elapse_assign(*slot[t].p);
        else static_cast<C_Polyhedron&>(P).positive_time_elapse_assign(*slot[t].p);
        break; }
      case 37: { // through the other topology and back, without observing the intermediate object
        if (nnc) {
          o << "op " << s << " conv 0"; J.line(o.str());
          C_Polyhedron c(static_cast<const NNC_Polyhedron&>(P));
          if (r.chance(1, 2)) { NNC_Polyhedron back(c); static_cast<NNC_Polyhedron&>(P) = back; }
          else { NNC_Polyhedron back(n); back = NNC_Polyhedron(c); P.m_swap(back); }
        } else {
          Constraint_System cs = rnd_cs(r, n, true, 2, false);
          if (n > 0 && r.chance(1, 3)) {      // the strict complement of one of P's own rows: P ∩ cs is empty, its "relaxation" is not
            std::unique_ptr<Polyhedron> cp(clone(P));
            const Constraint_System& pcs = cp->constraints();
            std::vector<Constraint> rows; for (Constraint_System::const_iterator i = pcs.begin(); i != pcs.end(); ++i) rows.push_back(*i);
            if (!rows.empty()) { const Constraint& c = rows[r.below((unsigned)rows.size())];
              Linear_Expression e(c.expression()); if (!c.is_equality() || r.chance(1, 2)) cs.insert(-e > 0); else cs.insert(e > 0); }
          }
          o << "op " << s << " conv"; put_cs(o, cs, n); J.line(o.str());
          NNC_Polyhedron tmp(static_cast<const C_Polyhedron&>(P));
          if (r.chance(1, 2)) tmp.add_constraints(cs); else for (Constraint_System::const_iterator i = cs.begin(); i != cs.end(); ++i) tmp.add_constraint(*i);
          if (r.chance(1, 2)) { C_Polyhedron c(tmp); static_cast<C_Polyhedron&>(P) = c; }
          else static_cast<C_Polyhedron&>(P) = tmp;
        }
        break; }
      case 38: { unsigned proper; std::vector<Cg> v = rnd_cgs(n, 1, proper);
        // (a contradiction placed before a non-trivial proper congruence makes add_congruences empty the
        //  object and return instead of throwing, whatever the documentation says: keep the two apart)
        if (proper > 0) for (size_t i = 0; i < v.size(); ++i) if (v[i].m != 0 && all_zero(v[i].e, n)) {
          Linear_Expression z; if (n > 0) z += 0 * Variable(n - 1); v[i].e = z; }
        Congruence_System cgs; if (n > 0) cgs.insert((0 * Variable(n - 1) %= 0) / 0);
        for (size_t i = 0; i < v.size(); ++i) cgs.insert((v[i].e %= 0) / v[i].m);
        bool sys = r.chance(1, 2);
        if (proper > 0) {      // documented to throw std::invalid_argument and leave the object alone
          bool threw = false;
          try { if (sys) P.add_congruences(cgs); else for (size_t i = 0; i < v.size(); ++i) if (v[i].m != 0 && !all_zero(v[i].e, n)) P.add_congruence((v[i].e %= 0) / v[i].m); }
          catch (const std::invalid_argument&) { threw = true; }
          o << "q " << s << " threw " << (sys ? "add_congruences" : "add_congruence") << " " << threw; J.line(o.str());
        } else {
          o << "op " << s << " add_cgs"; put_cgs(o, v, n); J.line(o.str());
          if (sys) P.add_congruences(cgs); else for (size_t i = 0; i < v.size(); ++i) P.add_congruence((v[i].e %= 0) / v[i].m);
        }
        break; }
      case 39: { unsigned proper; std::vector<Cg> v = rnd_cgs(n, 1, proper);
        Congruence_System cgs; if (n > 0) cgs.insert((0 * Variable(n - 1) %= 0) / 0);
        for (size_t i = 0; i < v.size(); ++i) cgs.insert((v[i].e %= 0) / v[i].m);
        o << "pre " << s << " refine_cgs " << s; J.line(o.str());
        if (r.chance(1, 2)) P.refine_with_congruences(cgs); else for (size_t i = 0; i < v.size(); ++i) P.refine_with_congruence((v[i].e %= 0) / v[i].m);
        OS q; q << "res " << s << " refine_cgs " << s << " 1"; put_cs(q, P.constraints(), n); put_cgs(q, v, n); J.line(q.str());
        break; }
      case 40: { if (n < 2) return;
        dimension_type dest = r.below(n); Variables_Set vs;
        unsigned cnt = 1 + r.below(2);
        if (!r.chance(1, 8))     // (one time in eight: nothing to fold)
          for (unsigned i = 0; i < cnt; ++i) vs.insert(Variable((dest + 1 + r.below(n - 1)) % n));
        if (!P.is_empty()) hint(s);
        o << "op " << s << " fold " << dest << " " << vs.size();
        for (Variables_Set::const_iterator i = vs.begin(); i != vs.end(); ++i) o << " " << *i;
        J.line(o.str());
        P.fold_space_dimensions(vs, Variable(dest)); break; }
      case 41: { int d = r.below(4); if (slot[d].live() && r.chance(1, 2)) return;      // constructor from a box
        Rational_Box box(n);
        Constraint_System cs; if (n > 0) cs.insert(0 * Variable(n - 1) >= -1);
        unsigned m = n == 0 ? 0 : r.below(2 * (unsigned)n + 1);
        for (unsigned i = 0; i < m; ++i) {
          Linear_Expression e = Coefficient(r.chance(1, 2) ? r.range(1, 3) : r.range(-3, -1)) * Variable(r.below(n)) + Coefficient(r.range(-4, 4));
          Constraint c = (nnc && r.chance(1, 3)) ? (e > 0) : r.chance(1, 6) ? (e == 0) : (e >= 0);
          cs.insert(c); box.add_constraint(c);
        }
        o << "new " << d << " " << (nnc ? "N" : "C") << " " << n << " cons"; put_cs(o, cs, n); J.line(o.str());
        slot[d].p.reset(nnc ? (Polyhedron*)new NNC_Polyhedron(box) : (Polyhedron*)new C_Polyhedron(box));
        break; }
      default: { int t = pick_compatible(s);
        o << "op " << s << " meet " << t; J.line(o.str());
        { Tr tr(s, &P, "intersection_assign", t, slot[t].p.get()); P.intersection_assign(*slot[t].p); tr.done(); } break; }
      }
    } catch (...) {
      J.line("exc " + pplv::exc_class());
    }
  }
};

int main(int argc, char** argv) {
  long seed = pplv::arg_long(argc, argv, "--seed", 1);
  long first = pplv::arg_long(argc, argv, "--first", 0);
  long last = pplv::arg_long(argc, argv, "--last", 10);
  long len = pplv::arg_long(argc, argv, "--len", 10);
  long maxdim = pplv::arg_long(argc, argv, "--maxdim", 3);
  long batch = pplv::arg_long(argc, argv, "--batch", 25);
  bool c02 = !strcmp(pplv::arg_str(argc, argv, "--ops", "all"), "all");
  g_trace = pplv::arg_long(argc, argv, "--status-trace", 0) != 0;
  long nb = (last - first + batch - 1) / batch;
  return pplv::run_batches(0, nb, [&](long b) {
    for (long h = first + b * batch; h < std::min(last, first + (b + 1) * batch); ++h) {
      Hist H((uint64_t)seed * 1000003ull + (uint64_t)h);
      H.nnc = H.r.chance(1, 2); g_nnc = H.nnc;
      H.maxdim = (dimension_type)maxdim;
      H.big = H.r.chance(1, 20);
      H.observe_always = pplv::arg_long(argc, argv, "--observe-always", 0) != 0;
      H.bias = pplv::arg_long(argc, argv, "--bias", -1);
      dimension_type n = H.r.below((unsigned)std::min(maxdim, 3L) + 1);
      { OS o; o << "hist " << h << " " << seed; J.line(o.str()); }
      H.create(0, n); H.create(1, n);
      if (H.r.chance(1, 2)) H.create(2, n);
      for (long i = 0; i < len; ++i) {
        H.mutate(c02);
        if (H.observe_always) { int a = H.last_arg, b = H.last_slot; H.observe_full(b); if (a != b) H.observe_full(a); }
        if (H.r.chance(3, 5)) { int s = H.pick_live(); H.observe(s); }
      }
      for (int s = 0; s < 4; ++s) if (H.slot[s].live()) H.observe(s);
      J.line("end");
    }
  }, 60);
}
