// C01/C02 harness: seeded histories over a pool of C / NNC polyhedra, every step journalled.
// Grammar of the journal: see Driver/Lin.lean (pplv_lin).
//   c01_poly --seed S --first A --last B --len L --maxdim D [--ops all|c01]
#include "ppl.hh"
#include "common.hh"
#include "poly_io.hh"
#include <memory>
#include <set>

using namespace Parma_Polyhedra_Library;
using pplv::Rng;


static pplv::Journal J(1);

struct Slot {
  std::unique_ptr<Polyhedron> p;
  bool live() const { return (bool)p; }
};

static Polyhedron* make(Topology t, dimension_type n, Degenerate_Element k) {
  if (t == NECESSARILY_CLOSED) return new C_Polyhedron(n, k);
  return new NNC_Polyhedron(n, k);
}
static bool g_nnc = false;
static Polyhedron* clone(const Polyhedron& q) {
  if (!g_nnc) return new C_Polyhedron(static_cast<const C_Polyhedron&>(q));
  return new NNC_Polyhedron(static_cast<const NNC_Polyhedron&>(q));
}

using namespace pplv_io;

// ---- observation ------------------------------------------------------------------------
struct Hist {
  Rng r;
  Slot slot[4];
  bool nnc;
  dimension_type maxdim;
  bool big;
  bool observe_always = false;
  long bias = -1;
  int last_slot = -1, last_arg = -1;
  std::set<std::string> status_seen;
  Hist(uint64_t seed) : r(seed) {}

  dimension_type dim(int s) { return slot[s].p->space_dimension(); }
  int pick_live() { int c[4], k = 0; for (int i = 0; i < 4; ++i) if (slot[i].live()) c[k++] = i; return c[r.below(k)]; }
  int pick_compatible(int s) {
    int c[4], k = 0;
    for (int i = 0; i < 4; ++i) if (slot[i].live() && dim(i) == dim(s)) c[k++] = i;
    last_arg = c[r.below(k)];
    return last_arg;
  }
  // C02: result and (unchanged) argument observed through both descriptions right after the operator
  void observe_full(int s) {
    if (s < 0 || !slot[s].live()) return;
    bool on_copy = r.chance(1, 2);
    std::unique_ptr<Polyhedron> cp;
    const Polyhedron* q = slot[s].p.get();
    if (on_copy) { cp.reset(clone(*slot[s].p)); q = cp.get(); }
    observe_sys(s, *q, r.below(2));
    observe_sys(s, *q, 2 + r.below(2));
    status_line(s);
  }
  void status_line(int s) {
    OS o; slot[s].p->ascii_dump(o);
    std::string t = o.str();
    size_t a = t.find('\n'); size_t b = t.find('\n', a + 1);
    if (a != std::string::npos && b != std::string::npos) {
      OS l; l << "status " << s << " " << t.substr(a + 1, b - a - 1);
      J.line(l.str());
    }
  }
  void observe_sys(int s, const Polyhedron& q, int which) {
    OS o; dimension_type n = q.space_dimension();
    switch (which) {
      case 0: o << "obs " << s << " cons"; put_cs(o, q.constraints(), n); break;
      case 1: o << "obs " << s << " mcons"; put_cs(o, q.minimized_constraints(), n); break;
      case 2: o << "obs " << s << " gens"; put_gs(o, q.generators(), n); break;
      default: o << "obs " << s << " mgens"; put_gs(o, q.minimized_generators(), n); break;
    }
    J.line(o.str());
  }
  void query(int s, const Polyhedron& q) {
    OS o; dimension_type n = q.space_dimension();
    o << "q " << s << " ";
    switch (r.below(18)) {
      case 0: o << "is_empty " << q.is_empty(); break;
      case 1: o << "is_universe " << q.is_universe(); break;
      case 2: o << "is_bounded " << q.is_bounded(); break;
      case 3: o << "is_closed " << q.is_topologically_closed(); break;
      case 4: { int t = pick_compatible(s); o << "contains " << t << " " << q.contains(*slot[t].p); break; }
      case 5: { int t = pick_compatible(s); o << "strictly_contains " << t << " " << q.strictly_contains(*slot[t].p); break; }
      case 6: { int t = pick_compatible(s); o << "disjoint " << t << " " << q.is_disjoint_from(*slot[t].p); break; }
      case 7: { int t = pick_compatible(s); o << "equals " << t << " " << (q == *slot[t].p); break; }
      case 8: { if (n == 0) { o << "is_empty " << q.is_empty(); break; }
                dimension_type v = r.below(n); o << "constrains " << v << " " << q.constrains(Variable(v)); break; }
      case 9: o << "affdim " << q.affine_dimension(); break;
      case 10: case 11: {
        Constraint c = rnd_con(r, n, true, false);
        Poly_Con_Relation rel = q.relation_with(c);
        o << "relcon"; put_con(o, c, n);
        o << " " << rel.implies(Poly_Con_Relation::is_disjoint()) << " " << rel.implies(Poly_Con_Relation::strictly_intersects())
          << " " << rel.implies(Poly_Con_Relation::is_included()) << " " << rel.implies(Poly_Con_Relation::saturates());
        break; }
      case 12: {
        Generator g = rnd_gen(r, n, nnc, false);
        Poly_Gen_Relation rel = q.relation_with(g);
        o << "relgen"; put_gen(o, g, n); o << " " << rel.implies(Poly_Gen_Relation::subsumes());
        break; }
      case 16: case 17: {
        Linear_Expression e = rnd_expr(r, n, 3, false);
        Coefficient m = r.chance(1, 6) ? 0 : r.range(1, 4);
        Congruence cg = (e %= 0) / m;
        Poly_Con_Relation rel = q.relation_with(cg);
        o << "relcg " << cg.modulus(); put_expr(o, e, n);
        o << " " << rel.implies(Poly_Con_Relation::is_disjoint()) << " " << rel.implies(Poly_Con_Relation::strictly_intersects())
          << " " << rel.implies(Poly_Con_Relation::is_included()) << " " << rel.implies(Poly_Con_Relation::saturates());
        break; }
      case 13: { Linear_Expression e = rnd_expr(r, n, 3, false);
        bool up = r.chance(1, 2);
        o << (up ? "bounds_above" : "bounds_below"); put_expr(o, e, n);
        o << " " << (up ? q.bounds_from_above(e) : q.bounds_from_below(e)); break; }
      default: {
        Linear_Expression e = rnd_expr(r, n, 3, false);
        bool mx = r.chance(1, 2);
        Coefficient num, den; bool incl; Generator g = point();
        bool ok = mx ? q.maximize(e, num, den, incl, g) : q.minimize(e, num, den, incl, g);
        o << (mx ? "max" : "min"); put_expr(o, e, n);
        if (!ok) o << " none";
        else { o << " " << num << " " << den << " " << incl; put_gen(o, g, n); }
        break; }
    }
    J.line(o.str());
  }
  void observe(int s) {
    // observing a copy leaves the lazy state of the original untouched
    bool on_copy = r.chance(2, 5);
    std::unique_ptr<Polyhedron> cp;
    const Polyhedron* q = slot[s].p.get();
    if (on_copy) { cp.reset(clone(*slot[s].p)); q = cp.get(); }
    unsigned k = 1 + r.below(3);
    for (unsigned i = 0; i < k; ++i) {
      if (r.chance(1, 2)) observe_sys(s, *q, r.below(4)); else query(s, *q);
    }
    if (!q->OK()) { OS o; o << "crash OK()-false slot " << s; J.line(o.str()); }
    status_line(s);
  }
  void hint(int s) {
    std::unique_ptr<Polyhedron> cp(clone(*slot[s].p));
    OS o; o << "hint " << s << " gens"; put_gs(o, cp->minimized_generators(), cp->space_dimension());
    J.line(o.str());
  }

  void create(int s, dimension_type n) {
    Topology t = nnc ? NOT_NECESSARILY_CLOSED : NECESSARILY_CLOSED;
    OS o; o << "new " << s << " " << (nnc ? "N" : "C") << " " << n << " ";
    unsigned k = r.below(10);
    if (k == 0) { slot[s].p.reset(make(t, n, UNIVERSE)); o << "univ"; }
    else if (k == 1) { slot[s].p.reset(make(t, n, EMPTY)); o << "empty"; }
    else if (k < 7) {
      Constraint_System cs = rnd_cs(r, n, nnc, 5, big);
      o << "cons"; put_cs(o, cs, n);
      J.line(o.str());   // journal first: the constructor may crash
      slot[s].p.reset(nnc ? (Polyhedron*)new NNC_Polyhedron(cs) : (Polyhedron*)new C_Polyhedron(cs));
      if (slot[s].p->space_dimension() < n) slot[s].p->add_space_dimensions_and_embed(n - slot[s].p->space_dimension());
      return;
    } else {
      Generator_System gs = rnd_gs(r, n, nnc, n <= 2 ? 5 : 4);
      if (nnc) { // a closure point needs a matching point somewhere: the first generator is a point
      }
      o << "gens"; put_gs(o, gs, n);
      J.line(o.str());
      slot[s].p.reset(nnc ? (Polyhedron*)new NNC_Polyhedron(gs) : (Polyhedron*)new C_Polyhedron(gs));
      if (slot[s].p->space_dimension() < n) slot[s].p->add_space_dimensions_and_embed(n - slot[s].p->space_dimension());
      return;
    }
    J.line(o.str());
  }

  // "Two polyhedra denoting the same set are indistinguishable": rebuild the set of slot s in
  // another slot by a different route (from its own reported description, in a shuffled order,
  // at once or incrementally with observations in between), then compare both ways.
  void twin(int s) {
    int d = r.below(4); if (d == s) d = (s + 1) % 4;
    const Polyhedron& P = *slot[s].p;
    dimension_type n = P.space_dimension();
    Topology t = nnc ? NOT_NECESSARILY_CLOSED : NECESSARILY_CLOSED;
    std::unique_ptr<Polyhedron> cp(clone(P));       // descriptions are read from a copy
    OS o; o << "new " << d << " " << (nnc ? "N" : "C") << " " << n << " ";
    bool from_cons = r.chance(1, 2) || cp->is_empty();
    if (from_cons) {
      std::vector<Constraint> rows;
      const Constraint_System& cs = r.chance(1, 2) ? cp->minimized_constraints() : cp->constraints();
      for (Constraint_System::const_iterator i = cs.begin(); i != cs.end(); ++i) rows.push_back(*i);
      for (size_t i = rows.size(); i > 1; --i) std::swap(rows[i - 1], rows[r.below((unsigned)i)]);
      Constraint_System all; if (n > 0) all.insert(0 * Variable(n - 1) >= -1);
      for (size_t i = 0; i < rows.size(); ++i) all.insert(rows[i]);
      o << "cons"; put_cs(o, all, n); J.line(o.str());
      slot[d].p.reset(make(t, n, UNIVERSE));
      bool incremental = r.chance(1, 2);
      for (size_t i = 0; i < rows.size(); ++i) {
        slot[d].p->add_constraint(rows[i]);
        if (incremental && r.chance(1, 2)) {
          if (r.chance(1, 2)) (void) slot[d].p->minimized_generators(); else (void) slot[d].p->generators();
        }
      }
    } else {
      std::vector<Generator> rows;
      const Generator_System& gs = r.chance(1, 2) ? cp->minimized_generators() : cp->generators();
      for (Generator_System::const_iterator i = gs.begin(); i != gs.end(); ++i) rows.push_back(*i);
      // a point must come first
      size_t pt = 0; for (size_t i = 0; i < rows.size(); ++i) if (rows[i].is_point()) { pt = i; break; }
      std::swap(rows[0], rows[pt]);
      for (size_t i = rows.size(); i > 2; --i) std::swap(rows[i - 1], rows[1 + r.below((unsigned)(i - 1))]);
      Generator_System all; for (size_t i = 0; i < rows.size(); ++i) all.insert(rows[i]);
      o << "gens"; put_gs(o, all, n); J.line(o.str());
      slot[d].p.reset(make(t, n, EMPTY));
      bool incremental = r.chance(1, 2);
      for (size_t i = 0; i < rows.size(); ++i) {
        slot[d].p->add_generator(rows[i]);
        if (incremental && r.chance(1, 2)) {
          if (r.chance(1, 2)) (void) slot[d].p->minimized_constraints(); else (void) slot[d].p->constraints();
        }
      }
    }
    if (r.chance(1, 2)) (void) slot[s].p->minimized_constraints();
    if (r.chance(1, 2)) (void) slot[d].p->minimized_generators();
    const Polyhedron& X = *slot[s].p; const Polyhedron& Y = *slot[d].p;
    { OS q; q << "q " << s << " equals " << d << " " << (X == Y); J.line(q.str()); }
    { OS q; q << "q " << d << " equals " << s << " " << (Y == X); J.line(q.str()); }
    { OS q; q << "q " << s << " contains " << d << " " << X.contains(Y); J.line(q.str()); }
    { OS q; q << "q " << d << " contains " << s << " " << Y.contains(X); J.line(q.str()); }
    { OS q; q << "q " << s << " strictly_contains " << d << " " << X.strictly_contains(Y); J.line(q.str()); }
    status_line(s); status_line(d);
  }

  // A "neighbour" of slot s in another slot: the same constraints with one bound moved, one
  // constraint dropped, one added or one negated — adjacent / overlapping / nested pairs, where
  // unions are sometimes convex (the interesting cases for the *_if_exact predicates).
  int neighbour(int s) {
    int d = r.below(4); if (d == s) d = (s + 1) % 4;
    dimension_type n = slot[s].p->space_dimension();
    Topology t = nnc ? NOT_NECESSARILY_CLOSED : NECESSARILY_CLOSED;
    std::unique_ptr<Polyhedron> cp(clone(*slot[s].p));
    std::vector<Constraint> rows;
    const Constraint_System& cs = cp->minimized_constraints();
    for (Constraint_System::const_iterator i = cs.begin(); i != cs.end(); ++i) rows.push_back(*i);
    Constraint_System all; if (n > 0) all.insert(0 * Variable(n - 1) >= -1);
    unsigned how = r.below(4);
    size_t pick = rows.empty() ? 0 : r.below((unsigned)rows.size());
    bool extra = r.chance(1, 2);       // a second, independent modification
    for (size_t i = 0; i < rows.size(); ++i) {
      const Constraint& c = rows[i];
      if (i != pick) { all.insert(c); continue; }
      Linear_Expression e(c.expression());
      if (how == 0) { e += Coefficient(r.range(-3, 3)); if (c.is_equality()) all.insert(e == 0); else if (c.is_strict_inequality()) all.insert(e > 0); else all.insert(e >= 0); }
      else if (how == 1) { /* dropped */ }
      else if (how == 2) { // the complementary half-space (closed or strict), keeping the rest
        if (c.is_equality()) all.insert(e >= 0);
        else if (nnc && !c.is_strict_inequality()) all.insert(-e > 0);
        else all.insert(-e >= 0); }
      else { all.insert(c); }
    }
    if (how == 3 || rows.empty() || extra) {
      // prefer a bound on a variable the set does not constrain (cuts a line into a ray)
      std::vector<dimension_type> freev;
      for (dimension_type v = 0; v < n; ++v) if (!cp->constrains(Variable(v))) freev.push_back(v);
      if (!freev.empty() && r.chance(2, 3)) {
        Variable u(freev[r.below((unsigned)freev.size())]);
        Coefficient k = r.range(-2, 2);
        if (r.chance(1, 2)) all.insert(u + k >= 0); else all.insert(-u + k >= 0);
      }
      else all.insert(rnd_con(r, n, nnc, false));
    }
    OS o; o << "new " << d << " " << (nnc ? "N" : "C") << " " << n << " cons"; put_cs(o, all, n); J.line(o.str());
    slot[d].p.reset(nnc ? (Polyhedron*)new NNC_Polyhedron(all) : (Polyhedron*)new C_Polyhedron(all));
    if (slot[d].p->space_dimension() < n) slot[d].p->add_space_dimensions_and_embed(n - slot[d].p->space_dimension());
    (void) t;
    return d;
  }

  // one mutator; returns false if nothing was done
  void mutate(bool c02) {
    int s = pick_live();
    last_slot = s; last_arg = -1;
    Polyhedron& P = *slot[s].p;
    dimension_type n = P.space_dimension();
    OS o;
    unsigned k = r.below(c02 ? 34 : 22);
    if (c02 && bias >= 0 && r.chance(2, 5)) k = (unsigned)bias;   // focused batch (e.g. the *_if_exact predicates)
    if (r.chance(1, 7)) { twin(s); return; }
    try {
      switch (k) {
      case 0: case 1: { Constraint_System cs = rnd_cs(r, n, nnc, 2, big);
        o << "op " << s << " add_cons"; put_cs(o, cs, n); J.line(o.str());
        if (r.chance(1, 2)) P.add_constraints(cs); else for (Constraint_System::const_iterator i = cs.begin(); i != cs.end(); ++i) P.add_constraint(*i);
        break; }
      case 2: { // strict constraints only on NNC polyhedra: refining a C polyhedron with a strict
                // constraint is specified only up to "between P∩c and P∩closure(c)"
        Constraint_System cs = rnd_cs(r, n, nnc, 2, big);
        o << "op " << s << " refine_cons"; put_cs(o, cs, n); J.line(o.str());
        if (r.chance(1, 2)) P.refine_with_constraints(cs); else for (Constraint_System::const_iterator i = cs.begin(); i != cs.end(); ++i) P.refine_with_constraint(*i);
        break; }
      case 3: { bool emp = P.is_empty();   // (is_empty drives the lazy state too)
        Generator_System gs; gs.insert(rnd_gen(r, n, nnc, emp)); if (r.chance(1, 2)) gs.insert(rnd_gen(r, n, nnc, false));
        if (!emp) hint(s);
        o << "op " << s << " add_gens"; put_gs(o, gs, n); J.line(o.str());
        if (r.chance(1, 2)) P.add_generators(gs); else for (Generator_System::const_iterator i = gs.begin(); i != gs.end(); ++i) P.add_generator(*i);
        break; }
      case 4: { int t = pick_compatible(s);
        o << "op " << s << " meet " << t; J.line(o.str());
        P.intersection_assign(*slot[t].p); break; }
      case 5: case 6: { int t = pick_compatible(s);
        hint(s); hint(t);
        o << "op " << s << " hull " << t; J.line(o.str());
        if (r.chance(1, 2)) P.poly_hull_assign(*slot[t].p); else P.upper_bound_assign(*slot[t].p);
        break; }
      case 7: { if (n == 0) return; dimension_type v = r.below(n);
        Linear_Expression e = rnd_expr(r, n, 3, big); Coefficient d = r.chance(1, 4) ? r.range(-3, -1) : r.range(1, 3);
        o << "op " << s << " aff_img " << v << " " << d; put_expr(o, e, n); J.line(o.str());
        P.affine_image(Variable(v), e, d); break; }
      case 8: { if (n == 0) return; dimension_type v = r.below(n);
        Linear_Expression e = rnd_expr(r, n, 3, big); Coefficient d = r.chance(1, 4) ? r.range(-3, -1) : r.range(1, 3);
        o << "op " << s << " aff_pre " << v << " " << d; put_expr(o, e, n); J.line(o.str());
        P.affine_preimage(Variable(v), e, d); break; }
      case 9: { if (n == 0) return; unsigned cnt = 1 + r.below(2); Variables_Set vs;
        for (unsigned i = 0; i < cnt; ++i) vs.insert(Variable(r.below(n)));
        o << "op " << s << " unconstrain " << vs.size();
        for (Variables_Set::const_iterator i = vs.begin(); i != vs.end(); ++i) o << " " << *i;
        J.line(o.str());
        if (vs.size() == 1 && r.chance(1, 2)) P.unconstrain(Variable(*vs.begin())); else P.unconstrain(vs);
        break; }
      case 10: { o << "op " << s << " closure"; J.line(o.str()); P.topological_closure_assign(); break; }
      case 11: { // copy into another slot
        int d = r.below(4); if (d == s) return;
        o << "copy " << d << " " << s; J.line(o.str());
        slot[d].p.reset(clone(P)); break; }
      case 12: { int d = pick_live(); if (d == s) return;
        o << "swap " << s << " " << d; J.line(o.str());
        P.m_swap(*slot[d].p); break; }
      case 13: { int d = pick_compatible(s); if (d == s) return;   // assignment
        o << "copy " << d << " " << s; J.line(o.str());
        if (nnc) static_cast<NNC_Polyhedron&>(*slot[d].p) = static_cast<NNC_Polyhedron&>(P);
        else static_cast<C_Polyhedron&>(*slot[d].p) = static_cast<C_Polyhedron&>(P);
        break; }
      case 14: { if (n >= maxdim) return; dimension_type m = 1;
        bool emb = r.chance(1, 2);
        o << "op " << s << (emb ? " add_dims_embed " : " add_dims_project ") << m; J.line(o.str());
        if (emb) P.add_space_dimensions_and_embed(m); else P.add_space_dimensions_and_project(m); break; }
      case 15: { if (n == 0) return; Variables_Set vs; vs.insert(Variable(r.below(n)));
        if (r.chance(1, 3)) vs.insert(Variable(r.below(n)));
        o << "op " << s << " remove_dims " << vs.size();
        for (Variables_Set::const_iterator i = vs.begin(); i != vs.end(); ++i) o << " " << *i;
        J.line(o.str()); P.remove_space_dimensions(vs); break; }
      case 16: { if (n == 0) return; dimension_type m = r.below(n + 1);
        o << "op " << s << " remove_higher " << m; J.line(o.str()); P.remove_higher_space_dimensions(m); break; }
      case 17: { int t = pick_live(); if (n + dim(t) > maxdim) return;
        o << "op " << s << " concat " << t; J.line(o.str());
        std::unique_ptr<Polyhedron> cp(clone(*slot[t].p));
        P.concatenate_assign(*cp); break; }
      case 18: { int t = pick_compatible(s);
        hint(s); hint(t);
        o << "op " << s << " time_elapse " << t; J.line(o.str());
        P.time_elapse_assign(*slot[t].p); break; }
      case 19: { if (n == 0 || n >= maxdim) return; dimension_type v = r.below(n);
        o << "op " << s << " expand " << v << " 1"; J.line(o.str());
        P.expand_space_dimension(Variable(v), 1); break; }
      case 20: { // map_space_dimensions with a random partial injective function
        if (n == 0) return;
        Partial_Function pf; std::vector<int> img(n, -1); std::vector<dimension_type> tgt;
        for (dimension_type i = 0; i < n; ++i) tgt.push_back(i);
        for (dimension_type i = n; i > 1; --i) std::swap(tgt[i - 1], tgt[r.below(i)]);
        std::vector<std::pair<dimension_type, dimension_type> > pr;
        dimension_type keep = 0;
        std::vector<bool> kept(n, false);
        for (dimension_type i = 0; i < n; ++i) if (!r.chance(1, 4)) { kept[i] = true; ++keep; }
        if (keep == 0) { kept[0] = true; keep = 1; }
        // targets must be exactly 0..keep-1
        std::vector<dimension_type> perm; for (dimension_type i = 0; i < keep; ++i) perm.push_back(i);
        for (dimension_type i = keep; i > 1; --i) std::swap(perm[i - 1], perm[r.below(i)]);
        dimension_type c = 0;
        for (dimension_type i = 0; i < n; ++i) if (kept[i]) { pf.insert(i, perm[c]); pr.push_back(std::make_pair(i, perm[c])); ++c; }
        o << "op " << s << " map_dims " << keep << " " << pr.size();
        for (size_t i = 0; i < pr.size(); ++i) o << " " << pr[i].first << " " << pr[i].second;
        J.line(o.str()); P.map_space_dimensions(pf); break; }
      case 21: { int d = r.below(4); if (slot[d].live() && r.chance(1, 2)) return;
        create(d, n); break; }
      // ---- C02 extras -------------------------------------------------------------------
      case 22: case 23: { if (n == 0) return; dimension_type v = r.below(n);
        Relation_Symbol rs = (Relation_Symbol[]){LESS_OR_EQUAL, EQUAL, GREATER_OR_EQUAL, LESS_THAN, GREATER_THAN}[r.below(nnc ? 5 : 3)];
        Linear_Expression e = rnd_expr(r, n, 3, big); Coefficient d = r.chance(1, 4) ? r.range(-3, -1) : r.range(1, 3);
        bool img = (k == 22);
        o << "op " << s << (img ? " gen_img " : " gen_pre ") << v << " " << relsym_str(rs) << " " << d; put_expr(o, e, n); J.line(o.str());
        if (img) P.generalized_affine_image(Variable(v), rs, e, d); else P.generalized_affine_preimage(Variable(v), rs, e, d);
        break; }
      case 24: case 25: {
        Relation_Symbol rs = (Relation_Symbol[]){LESS_OR_EQUAL, EQUAL, GREATER_OR_EQUAL, LESS_THAN, GREATER_THAN}[r.below(nnc ? 5 : 3)];
        Linear_Expression lhs = rnd_expr(r, n, 2, false), rhs = rnd_expr(r, n, 3, big);
        bool img = (k == 24);
        o << "op " << s << (img ? " gen_img2 " : " gen_pre2 ") << relsym_str(rs); put_expr(o, lhs, n); put_expr(o, rhs, n); J.line(o.str());
        if (img) P.generalized_affine_image(lhs, rs, rhs); else P.generalized_affine_preimage(lhs, rs, rhs);
        break; }
      case 26: case 27: { if (n == 0) return; dimension_type v = r.below(n);
        Linear_Expression lb = rnd_expr(r, n, 3, false), ub = rnd_expr(r, n, 3, false);
        Coefficient d = r.chance(1, 4) ? r.range(-3, -1) : r.range(1, 3);
        bool img = (k == 26);
        o << "op " << s << (img ? " bnd_img " : " bnd_pre ") << v << " " << d; put_expr(o, lb, n); put_expr(o, ub, n); J.line(o.str());
        if (img) P.bounded_affine_image(Variable(v), lb, ub, d); else P.bounded_affine_preimage(Variable(v), lb, ub, d);
        break; }
      case 28: { int t = pick_compatible(s);       // result judged by its defining relations
        o << "pre " << s << " simplify_ctx " << t; J.line(o.str());
        bool b = P.simplify_using_context_assign(*slot[t].p);
        OS q; q << "res " << s << " simplify_ctx " << t << " " << b; put_cs(q, P.constraints(), n); J.line(q.str());
        break; }
      case 29: case 30: { int t = pick_compatible(s);
        o << "pre " << s << " diff " << t; J.line(o.str());
        if (r.chance(1, 2)) P.poly_difference_assign(*slot[t].p); else P.difference_assign(*slot[t].p);
        OS q; q << "res " << s << " diff " << t << " 1"; put_cs(q, P.constraints(), n); J.line(q.str());
        break; }
      case 31: case 32: { int t = pick_compatible(s);
        if (r.chance(3, 5)) t = neighbour(s);
        hint(s); hint(t);
        o << "pre " << s << " hull_if_exact " << t; J.line(o.str());
        bool alt = r.chance(1, 2);
        bool b = nnc
          ? (alt ? static_cast<NNC_Polyhedron&>(P).poly_hull_assign_if_exact(static_cast<const NNC_Polyhedron&>(*slot[t].p))
                 : static_cast<NNC_Polyhedron&>(P).upper_bound_assign_if_exact(static_cast<const NNC_Polyhedron&>(*slot[t].p)))
          : (alt ? static_cast<C_Polyhedron&>(P).poly_hull_assign_if_exact(static_cast<const C_Polyhedron&>(*slot[t].p))
                 : static_cast<C_Polyhedron&>(P).upper_bound_assign_if_exact(static_cast<const C_Polyhedron&>(*slot[t].p)));
        OS q; q << "res " << s << " hull_if_exact " << t << " " << b; put_cs(q, P.constraints(), n); J.line(q.str());
        break; }
      default: { int t = pick_compatible(s);
        o << "op " << s << " meet " << t; J.line(o.str());
        P.intersection_assign(*slot[t].p); break; }
      }
    } catch (...) {
      J.line("exc " + pplv::exc_class());
    }
  }
};

int main(int argc, char** argv) {
  long seed = pplv::arg_long(argc, argv, "--seed", 1);
  long first = pplv::arg_long(argc, argv, "--first", 0);
  long last = pplv::arg_long(argc, argv, "--last", 10);
  long len = pplv::arg_long(argc, argv, "--len", 10);
  long maxdim = pplv::arg_long(argc, argv, "--maxdim", 3);
  long batch = pplv::arg_long(argc, argv, "--batch", 25);
  bool c02 = !strcmp(pplv::arg_str(argc, argv, "--ops", "all"), "all");
  long nb = (last - first + batch - 1) / batch;
  return pplv::run_batches(0, nb, [&](long b) {
    for (long h = first + b * batch; h < std::min(last, first + (b + 1) * batch); ++h) {
      Hist H((uint64_t)seed * 1000003ull + (uint64_t)h);
      H.nnc = H.r.chance(1, 2); g_nnc = H.nnc;
      H.maxdim = (dimension_type)maxdim;
      H.big = H.r.chance(1, 20);
      H.observe_always = pplv::arg_long(argc, argv, "--observe-always", 0) != 0;
      H.bias = pplv::arg_long(argc, argv, "--bias", -1);
      dimension_type n = H.r.below((unsigned)std::min(maxdim, 3L) + 1);
      { OS o; o << "hist " << h << " " << seed; J.line(o.str()); }
      H.create(0, n); H.create(1, n);
      if (H.r.chance(1, 2)) H.create(2, n);
      for (long i = 0; i < len; ++i) {
        H.mutate(c02);
        if (H.observe_always) { int a = H.last_arg, b = H.last_slot; H.observe_full(b); if (a != b) H.observe_full(a); }
        if (H.r.chance(3, 5)) { int s = H.pick_live(); H.observe(s); }
      }
      for (int s = 0; s < 4; ++s) if (H.slot[s].live()) H.observe(s);
      J.line("end");
    }
  }, 60);
}
