// C12 harness, second part: linearization of floating-point expressions.
// Calls the REAL linearize() (src/linearize.hh), Linear_Form::relative_error and
// Linear_Form::intervalize through a concrete-expression target modelled on
// tests/Concrete_Expression/C_Expr_defs.hh, for analysed formats IEEE754 single (S) and double (D)
// and analyser interval types float (F), double (D), long double (L).
//
// Journal (stdout), 7 tokens per event:   <id> <cfg> <op> <A> <B> <R> <ok>      cfg = <analysed><analyser>
//   lin          A = expression   B = <box>|<lf_store>     R = form "I0;I1;.." or F (linearize returned false)
//   relerr       A = form         B = -                    R = form
//   intervalize  A = form         B = box                  R = interval or F
//   ceval        A = expression   B = concrete store "q0;q1;.."   R = "near;up;down;zero": the value computed by
//                THIS machine's float / double arithmetic under the four rounding modes (validates the
//                driver's exact simulation of the analysed machine)
// Expressions: c<interval>@<q> (constant: oracle interval, exact literal value), v<i>, n(e), +(e,e) -(e,e) *(e,e) /(e,e)
// All numbers are exact rationals.   usage: c12_linearize --seed N --count N
#include "ppl.hh"
#include "interfaced_boxes.hh"
#include "common.hh"
#include <gmpxx.h>
#include <cmath>
#include <cfenv>
#include <limits>
#include <memory>

namespace Parma_Polyhedra_Library {

struct H_Expr;

enum H_Expr_Kind { H_BOP, H_UOP, H_CAST, H_INT_CON, H_FP_CON, H_APPROX_REF };

template <>
class Concrete_Expression<H_Expr> : public Concrete_Expression_Common<H_Expr> {
public:
  Concrete_Expression(Concrete_Expression_Type type, H_Expr_Kind k) : expr_type(type), expr_kind(k) {}
  virtual ~Concrete_Expression() {}
  Concrete_Expression_Type type() const { return expr_type; }
  Concrete_Expression_Kind kind() const { return expr_kind; }
  Concrete_Expression_Type expr_type;
  H_Expr_Kind expr_kind;
};

template <>
class Binary_Operator<H_Expr> : public Concrete_Expression<H_Expr>, public Binary_Operator_Common<H_Expr> {
public:
  Binary_Operator(Concrete_Expression_Type type, Concrete_Expression_BOP op,
                  const Concrete_Expression<H_Expr>* l, const Concrete_Expression<H_Expr>* r)
    : Concrete_Expression<H_Expr>(type, H_BOP), bop(op), lhs(l), rhs(r) {}
  Concrete_Expression_Type type() const { return expr_type; }
  Concrete_Expression_BOP binary_operator() const { return bop; }
  const Concrete_Expression<H_Expr>* left_hand_side() const { return lhs; }
  const Concrete_Expression<H_Expr>* right_hand_side() const { return rhs; }
  enum Kind { KIND = H_BOP };
  enum Operation { ADD, SUB, MUL, DIV, REM, BAND, BOR, BXOR, LSHIFT, RSHIFT };
  const Concrete_Expression_BOP bop;
  const Concrete_Expression<H_Expr>* lhs;
  const Concrete_Expression<H_Expr>* rhs;
};

template <>
class Unary_Operator<H_Expr> : public Concrete_Expression<H_Expr>, public Unary_Operator_Common<H_Expr> {
public:
  Unary_Operator(Concrete_Expression_Type type, Concrete_Expression_UOP op, const Concrete_Expression<H_Expr>* a)
    : Concrete_Expression<H_Expr>(type, H_UOP), uop(op), arg(a) {}
  Concrete_Expression_Type type() const { return expr_type; }
  Concrete_Expression_UOP unary_operator() const { return uop; }
  const Concrete_Expression<H_Expr>* argument() const { return arg; }
  enum Kind { KIND = H_UOP };
  enum Operation { UPLUS, UMINUS, BNOT };
  const Concrete_Expression_UOP uop;
  const Concrete_Expression<H_Expr>* arg;
};

template <>
class Cast_Operator<H_Expr> : public Concrete_Expression<H_Expr>, public Cast_Operator_Common<H_Expr> {
public:
  Cast_Operator(Concrete_Expression_Type type, const Concrete_Expression<H_Expr>* a)
    : Concrete_Expression<H_Expr>(type, H_CAST), arg(a) {}
  Concrete_Expression_Type type() const { return expr_type; }
  const Concrete_Expression<H_Expr>* argument() const { return arg; }
  enum Kind { KIND = H_CAST };
  const Concrete_Expression<H_Expr>* arg;
};

template <>
class Integer_Constant<H_Expr> : public Concrete_Expression<H_Expr>, public Integer_Constant_Common<H_Expr> {
public:
  Integer_Constant(Concrete_Expression_Type type) : Concrete_Expression<H_Expr>(type, H_INT_CON) {}
  Concrete_Expression_Type type() const { return expr_type; }
  enum Kind { KIND = H_INT_CON };
};

// a floating-point literal: its exact value; the oracle turns it into an interval
template <>
class Floating_Point_Constant<H_Expr> : public Concrete_Expression<H_Expr>,
                                        public Floating_Point_Constant_Common<H_Expr> {
public:
  Floating_Point_Constant(Concrete_Expression_Type type, const mpq_class& v)
    : Concrete_Expression<H_Expr>(type, H_FP_CON), value(v) {}
  Concrete_Expression_Type type() const { return expr_type; }
  enum Kind { KIND = H_FP_CON };
  mpq_class value;
};

template <>
class Approximable_Reference<H_Expr> : public Concrete_Expression<H_Expr>,
                                       public Approximable_Reference_Common<H_Expr> {
public:
  Approximable_Reference(Concrete_Expression_Type type, dimension_type index)
    : Concrete_Expression<H_Expr>(type, H_APPROX_REF), dim(index) {}
  Concrete_Expression_Type type() const { return expr_type; }
  enum Kind { KIND = H_APPROX_REF };
  dimension_type dim;
};

} // namespace Parma_Polyhedra_Library

using namespace Parma_Polyhedra_Library;

typedef Concrete_Expression<H_Expr> Expr;

// ---- exact printing of analyser values
template <typename T> struct Num;
template <> struct Num<float> {
  static const char tag = 'F';
  static std::string show(float v) { if (std::isinf(v)) return v < 0 ? "-inf" : "+inf"; mpq_class q((double)v); q.canonicalize(); return q.get_str(); }
};
template <> struct Num<double> {
  static const char tag = 'D';
  static std::string show(double v) { if (std::isinf(v)) return v < 0 ? "-inf" : "+inf"; mpq_class q(v); q.canonicalize(); return q.get_str(); }
};
template <> struct Num<long double> {
  static const char tag = 'L';
  static std::string show(long double v) {
    if (std::isinf(v)) return v < 0 ? "-inf" : "+inf";
    if (v == 0) return "0";
    int e; long double m = frexpl(v, &e);
    m = ldexpl(m, 64); e -= 64;
    bool neg = m < 0; if (neg) m = -m;
    unsigned long long u = (unsigned long long)m;
    mpz_class z; mpz_import(z.get_mpz_t(), 1, 1, sizeof(u), 0, 0, &u);
    if (neg) z = -z;
    mpq_class q(z);
    if (e >= 0) q <<= (unsigned long)e; else q >>= (unsigned long)(-e);
    q.canonicalize(); return q.get_str();
  }
};

template <typename T> struct ItvOf { typedef Interval<T, Floating_Point_Box_Interval_Info> type; };

template <typename ITV>
std::string show_itv(const ITV& x) {
  typedef typename ITV::boundary_type T;
  if (x.is_empty()) return "E";
  std::string s = x.lower_is_open() ? "(" : "[";
  s += x.lower_is_boundary_infinity() ? std::string("-inf") : Num<T>::show(x.lower());
  s += ",";
  s += x.upper_is_boundary_infinity() ? std::string("+inf") : Num<T>::show(x.upper());
  s += x.upper_is_open() ? ")" : "]";
  return s;
}
template <typename ITV>
std::string show_lf(const Linear_Form<ITV>& f) {
  std::string s = show_itv(f.inhomogeneous_term());
  for (dimension_type i = 0; i < f.space_dimension(); ++i) s += ";" + show_itv(f.coefficient(Variable(i)));
  return s;
}
template <typename ITV>
ITV make_itv(typename ITV::boundary_type lo, bool lo_open, typename ITV::boundary_type hi, bool hi_open) {
  ITV x; x.assign(UNIVERSE);
  x.info().clear_boundary_properties(LOWER); x.lower() = lo; if (lo_open) x.info().set_boundary_property(LOWER, OPEN);
  x.info().clear_boundary_properties(UPPER); x.upper() = hi; if (hi_open) x.info().set_boundary_property(UPPER, OPEN);
  return x;
}

// ---- the oracle: intervals of the variables; a literal q becomes the smallest analyser interval
//      that contains the roundings of q to the ANALYSED format in every rounding mode
template <typename ITV>
class H_Oracle : public FP_Oracle<H_Expr, ITV> {
public:
  typedef typename ITV::boundary_type T;
  std::vector<ITV> box;
  Floating_Point_Format fmt;
  static void analysed_roundings(Floating_Point_Format fmt, const mpq_class& q, double& lo, double& hi) {
    // q.get_d() truncates towards zero: step outwards when inexact
    if (fmt == IEEE754_DOUBLE) {
      double d = q.get_d();
      lo = hi = d;
      if (mpq_class(d) > q) lo = std::nextafter(d, -INFINITY);
      if (mpq_class(d) < q) hi = std::nextafter(d, INFINITY);
    }
    else {
      double d = q.get_d();
      float f = (float)d;                       // some rounding of d
      float fl = f, fh = f;
      while (mpq_class((double)fl) > q) fl = std::nextafterf(fl, -INFINITY);
      while (mpq_class((double)fh) < q) fh = std::nextafterf(fh, INFINITY);
      lo = fl; hi = fh;
    }
  }
  static ITV literal(Floating_Point_Format fmt, const mpq_class& q) {
    double lo, hi;
    analysed_roundings(fmt, q, lo, hi);
    // outward conversion to the analyser type
    T tl = (T)lo, th = (T)hi;
    while (mpq_of(tl) > mpq_class(lo)) tl = std::nextafter(tl, (T)-INFINITY);
    while (mpq_of(th) < mpq_class(hi)) th = std::nextafter(th, (T)INFINITY);
    return make_itv<ITV>(tl, false, th, false);
  }
  static mpq_class mpq_of(T v) { return mpq_class(Num<T>::show(v)); }
  bool get_interval(dimension_type dim, ITV& result) const {
    if (dim >= box.size()) return false;
    result = box[dim];
    return true;
  }
  bool get_fp_constant_value(const Floating_Point_Constant<H_Expr>& expr, ITV& result) const {
    result = literal(fmt, expr.value);
    return true;
  }
  bool get_integer_expr_value(const Concrete_Expression<H_Expr>&, ITV&) const { return false; }
  bool get_associated_dimensions(const Approximable_Reference<H_Expr>& expr, std::set<dimension_type>& result) const {
    result.clear(); result.insert(expr.dim);
    return true;
  }
};

// ---- expression trees
struct Pool { std::vector<std::unique_ptr<Expr> > nodes; const Expr* keep(Expr* e) { nodes.emplace_back(e); return e; } };

static mpq_class random_literal(pplv::Rng& r) {
  switch (r.below(8)) {
    case 0: return mpq_class(0);
    case 1: return mpq_class(1);
    case 2: return mpq_class(r.range(-8, 8));
    case 3: return mpq_class(r.range(-50, 50), 8);       // exactly representable
    case 4: return mpq_class(r.range(-30, 30), 10);      // not representable (tenths)
    case 5: return mpq_class(1, 3);
    case 6: return mpq_class(r.range(-5, 5)) * 1000003;
    default: return mpq_class(r.range(-400, 400), 64);
  }
}

static const Expr* random_expr(pplv::Rng& r, Pool& pool, Concrete_Expression_Type ty, unsigned nvars, unsigned depth, bool exact_literals) {
  unsigned k = depth == 0 ? r.below(2) : r.below(10);
  if (k == 0 || (k >= 8 && depth == 0)) {
    mpq_class q = random_literal(r);
    if (exact_literals) { q = mpq_class(r.range(-64, 64), 8); }
    q.canonicalize();
    return pool.keep(new Floating_Point_Constant<H_Expr>(ty, q));
  }
  if (k == 1 || depth == 0) return pool.keep(new Approximable_Reference<H_Expr>(ty, r.below(nvars)));
  if (k == 2) return pool.keep(new Unary_Operator<H_Expr>(ty, Unary_Operator<H_Expr>::UMINUS, random_expr(r, pool, ty, nvars, depth - 1, exact_literals)));
  Concrete_Expression_BOP op;
  switch (k) {
    case 3: case 4: op = Binary_Operator<H_Expr>::ADD; break;
    case 5: op = Binary_Operator<H_Expr>::SUB; break;
    case 6: case 7: op = Binary_Operator<H_Expr>::MUL; break;
    case 8: op = Binary_Operator<H_Expr>::DIV; break;
    default: op = r.chance(1, 2) ? Binary_Operator<H_Expr>::ADD : Binary_Operator<H_Expr>::MUL; break;
  }
  const Expr* a = random_expr(r, pool, ty, nvars, depth - 1, exact_literals);
  const Expr* b = random_expr(r, pool, ty, nvars, depth - 1, exact_literals);
  return pool.keep(new Binary_Operator<H_Expr>(ty, op, a, b));
}

template <typename ITV>
std::string show_expr(const Expr* e, Floating_Point_Format fmt) {
  switch (e->expr_kind) {
    case H_FP_CON: {
      const Floating_Point_Constant<H_Expr>* c = static_cast<const Floating_Point_Constant<H_Expr>*>(e);
      return "c" + show_itv(H_Oracle<ITV>::literal(fmt, c->value)) + "@" + c->value.get_str();
    }
    case H_APPROX_REF: return "v" + std::to_string(static_cast<const Approximable_Reference<H_Expr>*>(e)->dim);
    case H_UOP: return "n(" + show_expr<ITV>(static_cast<const Unary_Operator<H_Expr>*>(e)->arg, fmt) + ")";
    case H_BOP: {
      const Binary_Operator<H_Expr>* b = static_cast<const Binary_Operator<H_Expr>*>(e);
      const char* ops = "+-*/";
      return std::string(1, ops[b->bop]) + "(" + show_expr<ITV>(b->lhs, fmt) + "," + show_expr<ITV>(b->rhs, fmt) + ")";
    }
    default: return "?";
  }
}

// ---- random analyser intervals for the abstract store
template <typename ITV>
ITV random_box_itv(pplv::Rng& r, Floating_Point_Format fmt = IEEE754_SINGLE) {
  typedef typename ITV::boundary_type T;
  T a, b;
  unsigned kind = r.below(10);
  if (kind >= 8) {
    // tiny magnitudes: products and quotients fall into the denormal range of the analysed format,
    // where only the absolute error term covers the rounding error
    int e = fmt == IEEE754_SINGLE ? -(int)r.range(60, 90) : -(int)r.range(500, 560);
    a = std::ldexp((T)r.range(1, 9), e); b = std::ldexp((T)r.range(9, 40), e);
    if (kind == 9) { T t = -a; a = -b; b = t; }
    if (!(a < b) || a == 0 || b == 0 || std::isinf(a) || std::isinf(b)) { a = (T)1; b = (T)2; }
    return make_itv<ITV>(a, false, b, false);
  }
  switch (kind) {
    case 0: a = (T)r.range(-4, 4); b = a; break;                                            // singleton
    case 1: a = (T)r.range(-100, 0); b = (T)r.range(0, 100); break;                        // straddles zero
    case 2: a = (T)r.range(1, 5) / (T)1024; b = (T)r.range(1000, 100000); break;          // very different magnitudes
    case 3: a = -(T)r.range(1000, 100000); b = -(T)r.range(1, 5) / (T)1024; break;
    case 4: a = (T)r.range(-50, 50) / (T)7; b = a + (T)r.range(0, 30) / (T)3; break;      // inexact end points
    case 5: a = (T)r.range(1, 9); b = a + (T)r.range(0, 3); break;                         // positive, away from zero
    case 6: a = -(T)r.range(1, 9) - (T)r.range(0, 3); b = a + (T)r.range(0, 2); break;    // negative
    default: a = (T)r.range(-1000, 1000); b = a + (T)r.range(0, 2000); break;
  }
  if (b < a) std::swap(a, b);
  bool lo_open = a < b && r.chance(1, 6), hi_open = a < b && r.chance(1, 6);
  return make_itv<ITV>(a, lo_open, b, hi_open);
}

struct Out {
  pplv::Journal J; std::string cfg; long n;
  Out(const std::string& c) : J(1), cfg(c), n(0) {}
  void ev(const std::string& op, const std::string& a, const std::string& b, const std::string& r) {
    ++n;
    J.line(cfg + std::to_string(n) + " " + cfg + " " + op + " " + a + " " + b + " " + r + " 1");
  }
};

// ---- hardware evaluation of an expression in the analysed format under a rounding mode
template <typename FT>
FT hw_eval(const Expr* e, const std::vector<FT>& rho, bool& ok) {
  switch (e->expr_kind) {
    case H_FP_CON: return (FT)static_cast<const Floating_Point_Constant<H_Expr>*>(e)->value.get_d();   // exact literals only
    case H_APPROX_REF: return rho[static_cast<const Approximable_Reference<H_Expr>*>(e)->dim];
    case H_UOP: return -hw_eval<FT>(static_cast<const Unary_Operator<H_Expr>*>(e)->arg, rho, ok);
    case H_BOP: {
      const Binary_Operator<H_Expr>* b = static_cast<const Binary_Operator<H_Expr>*>(e);
      volatile FT x = hw_eval<FT>(b->lhs, rho, ok), y = hw_eval<FT>(b->rhs, rho, ok);
      volatile FT z;
      switch (b->bop) {
        case Binary_Operator<H_Expr>::ADD: z = x + y; break;
        case Binary_Operator<H_Expr>::SUB: z = x - y; break;
        case Binary_Operator<H_Expr>::MUL: z = x * y; break;
        default: if (y == 0) { ok = false; return 0; } z = x / y; break;
      }
      if (std::isinf((FT)z) || std::isnan((FT)z)) ok = false;
      return z;
    }
    default: ok = false; return 0;
  }
}

template <typename FT, typename ITV>
void run_ceval(Out& o, pplv::Rng& rng, Floating_Point_Format fmt, long count) {
  Concrete_Expression_Type ty = Concrete_Expression_Type::floating_point(fmt);
  const int modes[4] = {FE_TONEAREST, FE_UPWARD, FE_DOWNWARD, FE_TOWARDZERO};
  for (long k = 0; k < count; ++k) {
    Pool pool;
    unsigned nvars = 1 + rng.below(3);
    const Expr* e = random_expr(rng, pool, ty, nvars, 1 + rng.below(4), true);
    std::vector<FT> rho(nvars);
    std::string srho;
    for (unsigned i = 0; i < nvars; ++i) {
      FT v = (FT)rng.range(-3000, 3000) / (FT)rng.range(1, 97);
      if (rng.chance(1, 5)) v = (FT)rng.range(-9, 9);
      if (rng.chance(1, 10)) v = std::ldexp(v, (int)rng.range(-140, 100) / (sizeof(FT) == 4 ? 2 : 1));
      rho[i] = v;
      srho += (i ? ";" : "") + Num<FT>::show(v);
    }
    std::string res; bool all_ok = true;
    for (int m = 0; m < 4; ++m) {
      bool ok = true;
      fesetround(modes[m]);
      volatile FT v = hw_eval<FT>(e, rho, ok);
      fesetround(FE_UPWARD);            // the mode the PPL works in
      if (!ok) { all_ok = false; break; }
      res += (m ? ";" : "") + Num<FT>::show((FT)v);
    }
    if (all_ok) o.ev("ceval", show_expr<ITV>(e, fmt), srho, res);
  }
}

template <typename T>
void run_cfg(Floating_Point_Format fmt, char fmt_tag, long seed, long count) {
  typedef typename ItvOf<T>::type ITV;
  typedef Linear_Form<ITV> LF;
  std::string cfg; cfg += fmt_tag; cfg += Num<T>::tag;
  Out o(cfg);
  pplv::Rng rng((uint64_t)seed * 15485863u + (uint64_t)fmt_tag * 131u + (uint64_t)Num<T>::tag);
  Concrete_Expression_Type ty = Concrete_Expression_Type::floating_point(fmt);
  for (long k = 0; k < count; ++k) {
    Pool pool;
    unsigned nvars = 1 + rng.below(3);
    H_Oracle<ITV> oracle; oracle.fmt = fmt;
    std::string sbox;
    for (unsigned i = 0; i < nvars; ++i) { oracle.box.push_back(random_box_itv<ITV>(rng, fmt)); sbox += (i ? ";" : "") + show_itv(oracle.box[i]); }
    const Expr* e = random_expr(rng, pool, ty, nvars, 1 + rng.below(4), false);
    // linear form abstract store: sometimes one variable has a form that is sound for every store in the box
    std::map<dimension_type, LF> lf_store;
    std::string sstore = "-";
    if (nvars >= 2 && rng.chance(1, 4)) {
      unsigned i = rng.below(nvars), j = (i + 1 + rng.below(nvars - 1)) % nvars;
      LF L;
      if (rng.chance(1, 2)) L = LF(oracle.box[i]);                       // the interval itself
      else { ITV d; d.sub_assign(oracle.box[i], oracle.box[j]); L = LF(Variable(j)); L += d; }   // v_j + (box_i - box_j)
      lf_store[i] = L;
      sstore = std::to_string(i) + "=" + show_lf(L);
    }
    LF result;
    bool ok = linearize(*e, oracle, lf_store, result);
    o.ev("lin", show_expr<ITV>(e, fmt), sbox + "|" + sstore, ok ? show_lf(result) : std::string("F"));
    // relative_error and intervalize on the result and on a random bounded form
    LF f;
    if (ok && rng.chance(1, 2)) f = result;
    else { f = LF(random_box_itv<ITV>(rng)); for (unsigned i = 0; i < nvars; ++i) { LF t = LF(Variable(i)); t *= random_box_itv<ITV>(rng); f += t; } }
    if (!f.overflows()) {
      LF rel; f.relative_error(fmt, rel);
      o.ev("relerr", show_lf(f), "-", show_lf(rel));
    }
    ITV iv;
    bool ok2 = f.intervalize(oracle, iv);
    o.ev("intervalize", show_lf(f), sbox, ok2 ? show_itv(iv) : std::string("F"));
  }
  // hardware semantics of the analysed format (only when it is a native type here)
  if (fmt == IEEE754_SINGLE) run_ceval<float, ITV>(o, rng, fmt, count / 4);
  else run_ceval<double, ITV>(o, rng, fmt, count / 4);
  o.J.line("# " + cfg + " events=" + std::to_string(o.n));
}

int main(int argc, char** argv) {
  long seed = pplv::arg_long(argc, argv, "--seed", 1);
  long count = pplv::arg_long(argc, argv, "--count", 400);
  return pplv::run_batches(0, 6, [&](long b) {
    Floating_Point_Format fmt = b < 3 ? IEEE754_SINGLE : IEEE754_DOUBLE;
    char tag = b < 3 ? 'S' : 'D';
    switch (b % 3) {
      case 0: run_cfg<float>(fmt, tag, seed, count); break;
      case 1: run_cfg<double>(fmt, tag, seed, count); break;
      default: run_cfg<long double>(fmt, tag, seed, count); break;
    }
  }, 280);
}
