// C12 harness: Interval operations of the real library on operand pairs enumerated exhaustively
// over a finite template set (all sign configurations x open/closed x singleton / empty /
// half-unbounded / universe) plus seeded random operands, for
//   Q : Rational_Interval                                   (mpq_class, open bounds, SPECIAL infinities)
//   Z : Interval<mpz_class, Z_Box_Interval_Info>            (integer bounds, closed only)
//   D : Interval<double, Floating_Point_Box_Interval_Info>  (binary64, open bounds, value infinities)
//   F : Interval<float, Floating_Point_Box_Interval_Info>   (binary32)
//   L : Interval<long double, Floating_Point_Box_Interval_Info>  (x87 extended, 64-bit significand)
//   b B h i l : Interval<int8_t | uint8_t | int16_t | int32_t | int64_t, Native_Integer_Box_Interval_Info>
//               (the interval types of Int8_Box ... of interfaces/interfaced_boxes.hh; only with --types)
// Journal (stdout), one event per line:   <id> <ty> <op> <I> <J> <R> <ok>
// Bounds are printed exactly (doubles through mpq_class(double)).
//
// --adj 1 : direct events of Boundary_NS::adjust_boundary (own batch):
//   <id> <ty> adj:<L|U>:<open>:<numeric r> <x> - <x'>,<special>,<open bit>,<numeric returned Result> 1
//   <id> <ty> adjop:<L|U>:<op>:<open> <x1> <x2|-> <x'>,<special>,<open bit>,<numeric returned Result> 1
//     (the code r comes from the real checked operation <op>_assign_r(to = poison, x1, x2, ROUND_DOWN|ROUND_UP))
//
// --box N : N chains of Int8_Box::affine_image on 2-dim boxes (own batch):
//   <id> b box:<k>:<a>:<b>:<c>:<d> <I0>;<I1> - <R0>;<R1>|E <ok>       x_k := (a*x0 + b*x1 + c) / d
//
// usage: c12_interval --seed N --random N [--types QZD] [--only op] [--adj 1] [--box N]
#include "ppl.hh"
#include "interfaced_boxes.hh"
#include "common.hh"
#include <gmpxx.h>
#include <cmath>
#include <algorithm>
#include <limits>

using namespace Parma_Polyhedra_Library;

typedef Rational_Interval QI;
typedef Interval<mpz_class, Z_Box_Interval_Info> ZI;
typedef Interval<double, Floating_Point_Box_Interval_Info> DI;
typedef Interval<float, Floating_Point_Box_Interval_Info> FI;
typedef Interval<long double, Floating_Point_Box_Interval_Info> LI;
// native bounded integers: exactly the interval types of Int8_Box, Uint8_Box, Int16_Box, Int32_Box, Int64_Box
typedef Interval<int8_t, Native_Integer_Box_Interval_Info> I8I;
typedef Interval<uint8_t, Native_Integer_Box_Interval_Info> U8I;
typedef Interval<int16_t, Native_Integer_Box_Interval_Info> I16I;
typedef Interval<int32_t, Native_Integer_Box_Interval_Info> I32I;
typedef Interval<int64_t, Native_Integer_Box_Interval_Info> I64I;

// ---- a bound of a template: value (as a rational), open flag, or infinite
struct TB { bool inf; mpq_class v; bool open; };
struct TI { bool empty; TB lo, hi; };

template <typename ITV> struct Tr;
template <> struct Tr<QI> {
  static const char* name() { return "Q"; }
  static const bool can_open = true;
  static mpq_class conv(const mpq_class& q) { return q; }
  static std::string show(const mpq_class& v) { mpq_class c(v); c.canonicalize(); return c.get_str(); }
};
template <> struct Tr<ZI> {
  static const char* name() { return "Z"; }
  static const bool can_open = false;
  static mpz_class conv(const mpq_class& q) { mpz_class z; mpz_fdiv_q(z.get_mpz_t(), q.get_num_mpz_t(), q.get_den_mpz_t()); return z; }
  static std::string show(const mpz_class& v) { return v.get_str(); }
};
template <> struct Tr<DI> {
  static const char* name() { return "D"; }
  static const bool can_open = true;
  static double conv(const mpq_class& q) { return q.get_d(); }   // templates are dyadic or given as doubles
  static std::string show(double v) {
    if (std::isnan(v)) return "nan";
    if (std::isinf(v)) return v < 0 ? "-inf" : "+inf";
    mpq_class q(v); q.canonicalize(); return q.get_str();
  }
};

template <> struct Tr<FI> {
  static const char* name() { return "F"; }
  static const bool can_open = true;
  static float conv(const mpq_class& q) { return (float)q.get_d(); }
  static std::string show(float v) {
    if (std::isnan(v)) return "nan";
    if (std::isinf(v)) return v < 0 ? "-inf" : "+inf";
    mpq_class q((double)v); q.canonicalize(); return q.get_str();
  }
};

template <> struct Tr<LI> {
  static const char* name() { return "L"; }
  static const bool can_open = true;
  static long double conv(const mpq_class& q) { return (long double)q.get_d(); }
  static std::string show(long double v) {
    if (std::isnan(v)) return "nan";
    if (std::isinf(v)) return v < 0 ? "-inf" : "+inf";
    if (v == 0) return "0";
    int e; long double m = frexpl(v, &e);      // v = m * 2^e, 1/2 <= |m| < 1
    m = ldexpl(m, 64); e -= 64;                // m is an integer, |m| < 2^64 (x87 extended: 64-bit significand)
    bool neg = m < 0; if (neg) m = -m;
    unsigned long long u = (unsigned long long)m;
    mpz_class z; mpz_import(z.get_mpz_t(), 1, 1, sizeof(u), 0, 0, &u);
    if (neg) z = -z;
    mpq_class q(z);
    if (e >= 0) q <<= (unsigned long)e; else q >>= (unsigned long)(-e);
    q.canonicalize(); return q.get_str();
  }
};


// ---- native bounded integers
// The raw stored value of a boundary whose SPECIAL bit is set is unspecified; the harness makes it a
// fixed "poison" (lower 0x55.., upper 0xAA.. / 0x2A) so that a boundary the library forgets to mark
// SPECIAL shows up as a deterministic stale value.
template <typename T> struct NatPoison {
  static T lo() { return static_cast<T>(0x5555555555555555ULL); }
  static T hi() { return std::numeric_limits<T>::is_signed ? static_cast<T>(0xAAAAAAAAAAAAAAAAULL) : static_cast<T>(0x2A); }
};
template <typename T> std::string show_native(T v) {
  return std::numeric_limits<T>::is_signed ? std::to_string(static_cast<long long>(v))
                                           : std::to_string(static_cast<unsigned long long>(v));
}
#define NATIVE_TR(ITV, T, LETTER) \
template <> struct Tr<ITV> { \
  static const char* name() { return LETTER; } \
  static const bool can_open = false; \
  static T conv(const mpq_class& q) { \
    mpz_class z; mpz_fdiv_q(z.get_mpz_t(), q.get_num_mpz_t(), q.get_den_mpz_t()); \
    return std::numeric_limits<T>::is_signed ? static_cast<T>(z.get_si()) : static_cast<T>(z.get_ui()); } \
  static std::string show(T v) { return show_native<T>(v); } \
};
NATIVE_TR(I8I, int8_t, "b")
NATIVE_TR(U8I, uint8_t, "B")
NATIVE_TR(I16I, int16_t, "h")
NATIVE_TR(I32I, int32_t, "i")
NATIVE_TR(I64I, int64_t, "l")
#undef NATIVE_TR

// per-type switches of the shared machinery
template <typename ITV> struct NatTr {
  static const bool native = false;
  static const bool cc76 = true;                     // the stop points -2..2 are representable
  static void poison(ITV&) {}
  static void prep(ITV&) {}
};
template <typename T> struct NatTr<Interval<T, Native_Integer_Box_Interval_Info> > {
  typedef Interval<T, Native_Integer_Box_Interval_Info> ITV;
  static const bool native = true;
  static const bool cc76 = std::numeric_limits<T>::is_signed;
  static void poison(ITV& z) { z.lower() = NatPoison<T>::lo(); z.upper() = NatPoison<T>::hi(); }
  static void prep(ITV& z) { z.assign(UNIVERSE); poison(z); }
};

template <typename ITV, typename V>
ITV make_raw(bool empty, bool lo_inf, const V& lo, bool lo_open, bool hi_inf, const V& hi, bool hi_open) {
  ITV x;
  if (empty) { x.assign(EMPTY); return x; }
  x.assign(UNIVERSE);
  NatTr<ITV>::poison(x);
  if (!lo_inf) {
    x.info().clear_boundary_properties(LOWER);
    x.lower() = lo;
    if (lo_open) x.info().set_boundary_property(LOWER, OPEN);
  }
  if (!hi_inf) {
    x.info().clear_boundary_properties(UPPER);
    x.upper() = hi;
    if (hi_open) x.info().set_boundary_property(UPPER, OPEN);
  }
  return x;
}

template <typename ITV>
std::string show_itv(const ITV& x) {
  if (x.is_empty()) return "E";
  std::string s = x.lower_is_open() ? "(" : "[";
  s += x.lower_is_boundary_infinity() ? std::string("-inf") : Tr<ITV>::show(x.lower());
  s += ",";
  s += x.upper_is_boundary_infinity() ? std::string("+inf") : Tr<ITV>::show(x.upper());
  s += x.upper_is_open() ? ")" : "]";
  return s;
}

static const char* REL_NAMES[6] = {"eq", "lt", "le", "gt", "ge", "ne"};
static const Relation_Symbol RELS[6] = {EQUAL, LESS_THAN, LESS_OR_EQUAL, GREATER_THAN, GREATER_OR_EQUAL, NOT_EQUAL};

struct Out {
  pplv::Journal J;
  std::string ty;
  long n;
  const char* only;
  Out(const char* t, const char* o) : J(1), ty(t), n(0), only(o) {}
  bool want(const std::string& op) const {
    if (!only || !*only) return true;
    return op.compare(0, strlen(only), only) == 0;
  }
  void ev(const std::string& op, const std::string& I, const std::string& Jv, const std::string& R, bool ok) {
    ++n;
    J.line(ty + std::to_string(n) + " " + ty + " " + op + " " + I + " " + Jv + " " + R + " " + (ok ? "1" : "0"));
  }
};

template <typename ITV>
void run_pair(Out& o, const ITV& x, const ITV& y, bool unary_too, bool wrap_ops, bool all_ops) {
  const std::string sx = show_itv(x), sy = show_itv(y);
  ITV z;
  if (unary_too) {
    if (o.want("neg")) { z.assign(UNIVERSE); NatTr<ITV>::poison(z); z.neg_assign(x); o.ev("neg", sx, "-", show_itv(z), z.OK()); }
    if (o.want("assign")) { z.assign(EMPTY); NatTr<ITV>::poison(z); z.assign(x); o.ev("assign", sx, "-", show_itv(z), z.OK()); }
  }
#define BIN(NAME, CALL) if (o.want(NAME)) { z.assign(UNIVERSE); NatTr<ITV>::poison(z); z.CALL(x, y); o.ev(NAME, sx, sy, show_itv(z), z.OK()); }
  BIN("add", add_assign)
  BIN("sub", sub_assign)
  BIN("mul", mul_assign)
  BIN("div", div_assign)
  if (all_ops) {
    BIN("join2", join_assign)
    BIN("meet2", intersect_assign)
  }
#undef BIN
#define INPL(NAME, CALL) if (o.want(NAME)) { z = x; z.CALL(y); o.ev(NAME, sx, sy, show_itv(z), z.OK()); }
  INPL("join", join_assign)
  INPL("meet", intersect_assign)
  INPL("diff", difference_assign)
#undef INPL
  if (all_ops) {
    for (int r = 0; r < 6; ++r) {
      std::string nm = std::string("rex:") + REL_NAMES[r];
      if (o.want(nm)) { z = x; z.refine_existential(RELS[r], y); o.ev(nm, sx, sy, show_itv(z), z.OK()); }
      nm = std::string("run:") + REL_NAMES[r];
      if (o.want(nm)) { z = x; z.refine_universal(RELS[r], y); o.ev(nm, sx, sy, show_itv(z), z.OK()); }
    }
    if (NatTr<ITV>::cc76 && o.want("cc76") && !x.is_empty() && !y.is_empty() && x.contains(y)) {
      // stop points -2 -1 0 1 2 (sorted), as the tests of Box::CC76_widening_assign pass them
      typedef typename ITV::boundary_type V;
      V stops[5] = { Tr<ITV>::conv(mpq_class(-2)), Tr<ITV>::conv(mpq_class(-1)), Tr<ITV>::conv(mpq_class(0)),
                     Tr<ITV>::conv(mpq_class(1)), Tr<ITV>::conv(mpq_class(2)) };
      z = x; z.CC76_widening_assign(y, stops, stops + 5);
      o.ev("cc76", sx, sy, show_itv(z), z.OK());
    }
#define PRED(NAME, EXPR) if (o.want(NAME)) { bool b = (EXPR); o.ev(NAME, sx, sy, b ? "T" : "F", true); }
    PRED("contains", x.contains(y))
    PRED("scontains", x.strictly_contains(y))
    PRED("disjoint", x.is_disjoint_from(y))
    PRED("eq", x == y)
#undef PRED
  }
}

template <typename ITV>
void run_wrap(Out& o, const ITV& x, unsigned w, bool sgn, const ITV& ref) {
  std::string nm = "wrap:" + std::to_string(w) + ":" + (sgn ? "s" : "u");
  if (!o.want(nm)) return;
  Bounded_Integer_Type_Width bw;
  switch (w) { case 8: bw = BITS_8; break; case 16: bw = BITS_16; break; case 32: bw = BITS_32; break;
    default: bw = static_cast<Bounded_Integer_Type_Width>(w); }
  ITV z = x;
  z.wrap_assign(bw, sgn ? SIGNED_2_COMPLEMENT : UNSIGNED, ref);
  o.ev(nm, show_itv(x), show_itv(ref), show_itv(z), z.OK());
}

template <typename ITV>
std::vector<ITV> templates(const std::vector<mpq_class>& vals) {
  typedef typename ITV::boundary_type V;
  std::vector<ITV> out;
  V dummy = Tr<ITV>::conv(mpq_class(0));
  out.push_back(make_raw<ITV, V>(true, false, dummy, false, false, dummy, false));     // empty
  out.push_back(make_raw<ITV, V>(false, true, dummy, false, true, dummy, false));      // universe
  const int nflags = Tr<ITV>::can_open ? 2 : 1;
  for (size_t i = 0; i < vals.size(); ++i) {
    V vi = Tr<ITV>::conv(vals[i]);
    for (int f = 0; f < nflags; ++f) {
      out.push_back(make_raw<ITV, V>(false, false, vi, f, true, dummy, false));         // [vi, +inf)
      out.push_back(make_raw<ITV, V>(false, true, dummy, false, false, vi, f));         // (-inf, vi]
    }
    out.push_back(make_raw<ITV, V>(false, false, vi, false, false, vi, false));         // singleton
    for (size_t j = i + 1; j < vals.size(); ++j) {
      V vj = Tr<ITV>::conv(vals[j]);
      for (int f = 0; f < nflags; ++f)
        for (int g = 0; g < nflags; ++g)
          out.push_back(make_raw<ITV, V>(false, false, vi, f, false, vj, g));
    }
  }
  return out;
}

template <typename ITV> struct RandGen;
template <> struct RandGen<QI> {
  static mpq_class val(pplv::Rng& r) {
    long n = r.range(-12, 12); long d = r.chance(1, 2) ? 1 : r.range(1, 6);
    if (r.chance(1, 12)) n *= 1000003;
    mpq_class q(n, d); q.canonicalize(); return q;
  }
};
template <> struct RandGen<ZI> {
  static mpz_class val(pplv::Rng& r) {
    long n = r.range(-12, 12);
    if (r.chance(1, 12)) n *= 1000003;
    return mpz_class(n);
  }
};
template <> struct RandGen<DI> {
  static double val(pplv::Rng& r) {
    unsigned k = r.below(16);
    double m = (double)r.range(-2000, 2000) / (double)r.range(1, 37);
    switch (k) {
      case 0: return 0.0;
      case 1: return m * 1e300;
      case 2: return m * 1e-300;
      case 3: return m * 4.9406564584124654e-324;   // subnormals
      case 4: return std::ldexp(m, (int)r.range(-1074, 1000));
      case 5: return (double)r.range(-5, 5);
      case 6: return m < 0 ? -std::numeric_limits<double>::max() : std::numeric_limits<double>::max();
      default: return m;
    }
  }
};

template <> struct RandGen<FI> {
  static float val(pplv::Rng& r) {
    unsigned k = r.below(16);
    float m = (float)r.range(-2000, 2000) / (float)r.range(1, 37);
    switch (k) {
      case 0: return 0.0f;
      case 1: return m * 1e35f;
      case 2: return m * 1e-35f;
      case 3: return m * 1.4e-45f;   // subnormals
      case 4: return std::ldexp(m, (int)r.range(-149, 110));
      case 5: return (float)r.range(-5, 5);
      case 6: return m < 0 ? -std::numeric_limits<float>::max() : std::numeric_limits<float>::max();
      default: return m;
    }
  }
};

template <> struct RandGen<LI> {
  static long double val(pplv::Rng& r) {
    unsigned k = r.below(16);
    long double m = (long double)(long long)r.next() / (long double)r.range(1, 37);   // 64 significant bits
    switch (k) {
      case 0: return 0.0L;
      case 1: return ldexpl(m, (int)r.range(16000, 16300));
      case 2: return ldexpl(m, (int)r.range(-16500, -16300));     // around the subnormal range
      case 3: return ldexpl(m, (int)r.range(-16445 - 64, 16300 - 64));
      case 4: return (long double)r.range(-5, 5);
      case 5: return m < 0 ? -std::numeric_limits<long double>::max() : std::numeric_limits<long double>::max();
      default: return ldexpl(m, -60 + (int)r.range(-8, 8));
    }
  }
};

// native bounded integers: the whole range, strongly biased to the limits, to -2..2, to small values, to
// the magnitudes whose sums / products fall next to the limits
template <typename T> T rand_native(pplv::Rng& r) {
  const T mn = std::numeric_limits<T>::min(), mx = std::numeric_limits<T>::max();
  const bool sg = std::numeric_limits<T>::is_signed;
  const int bits = std::numeric_limits<T>::digits + (sg ? 1 : 0);
  switch (r.below(20)) {
    case 0: case 1: case 2: return static_cast<T>(mn + static_cast<T>(r.below(3)));
    case 3: case 4: case 5: return static_cast<T>(mx - static_cast<T>(r.below(3)));
    case 6: case 7: case 8: case 9: return sg ? static_cast<T>(r.range(-2, 2)) : static_cast<T>(r.range(0, 4));
    case 10: case 11: case 12: return sg ? static_cast<T>(r.range(-12, 12)) : static_cast<T>(r.range(0, 24));
    case 13: case 14: {                     // about sqrt(max): products next to the limits
      long long root = 1LL << (std::numeric_limits<T>::digits / 2);
      long long v = root + r.range(-3, 3);
      if (r.chance(1, 2)) v = (v * 181) / 128;      // * sqrt(2)
      if (sg && r.chance(1, 2)) v = -v;
      return static_cast<T>(v);
    }
    case 15: case 16: {                     // about half the limits: sums next to the limits
      T h = r.chance(1, 2) || !sg ? static_cast<T>(mx / 2) : static_cast<T>(mn / 2);
      return static_cast<T>(h + static_cast<T>(r.range(sg ? -2 : 0, 2)));
    }
    case 17: {                              // max / small: quotients and products by small factors
      T d = static_cast<T>(r.range(2, 7));
      T v = static_cast<T>((r.chance(1, 2) || !sg ? mx : mn) / d);
      return static_cast<T>(v + static_cast<T>(r.range(0, 1)));
    }
    default: { (void)bits; return static_cast<T>(r.next()); }       // any bit pattern of the type
  }
}
#define NATIVE_RG(ITV, T) template <> struct RandGen<ITV> { static T val(pplv::Rng& r) { return rand_native<T>(r); } };
NATIVE_RG(I8I, int8_t)
NATIVE_RG(U8I, uint8_t)
NATIVE_RG(I16I, int16_t)
NATIVE_RG(I32I, int32_t)
NATIVE_RG(I64I, int64_t)
#undef NATIVE_RG

template <typename ITV>
ITV random_itv(pplv::Rng& r) {
  typedef typename ITV::boundary_type V;
  V a = RandGen<ITV>::val(r), b = RandGen<ITV>::val(r);
  if (b < a) std::swap(a, b);
  unsigned k = r.below(20);
  bool fo = Tr<ITV>::can_open && r.chance(1, 2), go = Tr<ITV>::can_open && r.chance(1, 2);
  if (k == 0) return make_raw<ITV, V>(true, false, a, false, false, a, false);
  if (k == 1) return make_raw<ITV, V>(false, true, a, false, true, a, false);
  if (k <= 3) return make_raw<ITV, V>(false, false, a, fo, true, a, false);
  if (k <= 5) return make_raw<ITV, V>(false, true, a, false, false, b, go);
  if (k <= 7) return make_raw<ITV, V>(false, false, a, false, false, a, false);
  if (a == b) { fo = go = false; }
  return make_raw<ITV, V>(false, false, a, fo, false, b, go);
}

template <typename ITV>
void run_type(const std::vector<mpq_class>& vals, long seed, long nrandom, const char* only, bool wraps,
              bool tmpl_all_ops = true) {
  typedef typename ITV::boundary_type V;
  Out o(Tr<ITV>::name(), only);
  std::vector<ITV> T = templates<ITV>(vals);
  o.J.line(std::string("# ") + Tr<ITV>::name() + " templates=" + std::to_string(T.size()));
  for (size_t i = 0; i < T.size(); ++i)
    for (size_t j = 0; j < T.size(); ++j)
      run_pair(o, T[i], T[j], j == 0, wraps, tmpl_all_ops);
  if (wraps) {
    // width 2 on the small templates, all quadrant refinements; width 8 around the 2^w boundary
    V z0 = Tr<ITV>::conv(mpq_class(0));
    std::vector<ITV> refs_u, refs_s;
    refs_u.push_back(make_raw<ITV, V>(false, false, Tr<ITV>::conv(0), false, false, Tr<ITV>::conv(3), false));
    refs_u.push_back(make_raw<ITV, V>(false, false, Tr<ITV>::conv(1), false, false, Tr<ITV>::conv(2), false));
    refs_u.push_back(make_raw<ITV, V>(false, true, z0, false, true, z0, false));
    refs_s.push_back(make_raw<ITV, V>(false, false, Tr<ITV>::conv(-2), false, false, Tr<ITV>::conv(1), false));
    refs_s.push_back(make_raw<ITV, V>(false, false, Tr<ITV>::conv(-1), false, false, Tr<ITV>::conv(1), false));
    refs_s.push_back(make_raw<ITV, V>(false, true, z0, false, true, z0, false));
    for (size_t i = 0; i < T.size(); ++i) {
      for (size_t k = 0; k < refs_u.size(); ++k) run_wrap(o, T[i], 2, false, refs_u[k]);
      for (size_t k = 0; k < refs_s.size(); ++k) run_wrap(o, T[i], 2, true, refs_s[k]);
    }
    ITV q8u = make_raw<ITV, V>(false, false, Tr<ITV>::conv(0), false, false, Tr<ITV>::conv(255), false);
    ITV q8s = make_raw<ITV, V>(false, false, Tr<ITV>::conv(-128), false, false, Tr<ITV>::conv(127), false);
    long los[] = {-300, -129, -128, -1, 0, 1, 100, 255, 256, 300};
    long wds[] = {0, 1, 100, 254, 255, 256, 257, 511, 512, 600};
    for (unsigned a = 0; a < 10; ++a) for (unsigned b = 0; b < 10; ++b) {
      ITV x = make_raw<ITV, V>(false, false, Tr<ITV>::conv(los[a]), false, false, Tr<ITV>::conv(los[a] + wds[b]), false);
      run_wrap(o, x, 8, false, q8u);
      run_wrap(o, x, 8, true, q8s);
    }
  }
  pplv::Rng rng((uint64_t)seed * 7919u + (uint64_t)Tr<ITV>::name()[0]);
  for (long k = 0; k < nrandom; ++k) {
    ITV x = random_itv<ITV>(rng), y = random_itv<ITV>(rng);
    run_pair(o, x, y, true, false, true);
    if (wraps && k % 4 == 0) {
      ITV q8u = make_raw<ITV, V>(false, false, Tr<ITV>::conv(0), false, false, Tr<ITV>::conv(255), false);
      ITV big = make_raw<ITV, V>(false, false, Tr<ITV>::conv(mpq_class(rng.range(-600, 600))), false, false,
                                 Tr<ITV>::conv(mpq_class(rng.range(-600, 600) + 600)), false);
      run_wrap(o, big, 8, false, q8u);
    }
  }
  // chains: a computed result (whatever bits it carries) is an operand of the next operation
  for (long k = 0; k < nrandom / 2; ++k) {
    ITV x = random_itv<ITV>(rng), y = random_itv<ITV>(rng), w = random_itv<ITV>(rng), t;
    NatTr<ITV>::prep(t);
    switch (rng.below(7)) {
      case 0: t.add_assign(x, y); break;
      case 1: t.sub_assign(x, y); break;
      case 2: t.mul_assign(x, y); break;
      case 3: t.div_assign(x, y); break;
      case 4: t = x; t.join_assign(y); break;
      case 5: t = x; t.difference_assign(y); break;
      default: t.neg_assign(x); break;
    }
    if (t.is_empty() || !t.OK()) continue;
    if (rng.chance(1, 2)) run_pair(o, t, w, true, false, false);
    else run_pair(o, w, t, false, false, false);
  }
  o.J.line(std::string("# ") + Tr<ITV>::name() + " events=" + std::to_string(o.n));
}

// ---- replay of one recorded event on the library as it is now:  --one "<ty> <op> <I> <J>"
template <typename ITV>
bool parse_itv(const std::string& t, ITV& out) {
  typedef typename ITV::boundary_type V;
  V dummy = Tr<ITV>::conv(mpq_class(0));
  if (t == "E") { out = make_raw<ITV, V>(true, false, dummy, false, false, dummy, false); return true; }
  if (t.size() < 5) return false;
  bool lo_open = t[0] == '(', hi_open = t[t.size() - 1] == ')';
  size_t c = t.find(',');
  if (c == std::string::npos) return false;
  std::string a = t.substr(1, c - 1), b = t.substr(c + 1, t.size() - c - 2);
  bool lo_inf = a == "-inf", hi_inf = b == "+inf";
  V lo = dummy, hi = dummy;
  if (!lo_inf) { mpq_class q(a); q.canonicalize(); lo = Tr<ITV>::conv(q); }
  if (!hi_inf) { mpq_class q(b); q.canonicalize(); hi = Tr<ITV>::conv(q); }
  out = make_raw<ITV, V>(false, lo_inf, lo, lo_open, hi_inf, hi, hi_open);
  return true;
}

template <typename ITV>
int run_one(const std::string& op, const std::string& si, const std::string& sj) {
  ITV x, y;
  if (!parse_itv(si, x)) return 3;
  if (sj == "-") y = x; else if (!parse_itv(sj, y)) return 3;
  Out o(Tr<ITV>::name(), op.c_str());
  if (op.compare(0, 5, "wrap:") == 0) {
    unsigned w = (unsigned)atoi(op.c_str() + 5);
    bool sgn = op[op.size() - 1] == 's';
    run_wrap(o, x, w, sgn, y);
  }
  else
    run_pair(o, x, y, true, false, true);
  return 0;
}

// ---- Boundary_NS::adjust_boundary directly, T native, Info = Native_Integer_Box_Interval_Info
typedef Native_Integer_Box_Interval_Info NInfo;

// x is overwritten by the call (it is not, for any code: adjust_boundary never writes the value)
template <typename T>
std::string adj_call(bool upper, bool open, Result r, T& x) {
  NInfo info;
  info.clear();
  const Boundary_NS::Boundary_Type bt = upper ? Boundary_NS::UPPER : Boundary_NS::LOWER;
  Result ret = Boundary_NS::adjust_boundary(bt, x, info, open, r);
  return show_native<T>(x) + "," + (info.get_boundary_property(bt, Boundary_NS::SPECIAL) ? "1" : "0") + ","
    + (info.get_boundary_property(bt, Boundary_NS::OPEN) ? "1" : "0") + "," + std::to_string(static_cast<int>(ret));
}

// the codes the checked layer (destination policy Check_Overflow_Policy<T>) can return for a side
static std::vector<Result> adj_codes(bool upper) {
  std::vector<Result> v;
  if (!upper) {
    v = { V_EQ, V_GT, V_GE, V_GT_SUP, V_GT_MINUS_INFINITY, V_GT_MINUS_INFINITY | V_UNREPRESENTABLE,
          V_EQ_MINUS_INFINITY, V_EQ_MINUS_INFINITY | V_UNREPRESENTABLE };
  }
  else {
    v = { V_EQ, V_LT, V_LE, V_LT_INF, V_LT_PLUS_INFINITY, V_LT_PLUS_INFINITY | V_UNREPRESENTABLE,
          V_EQ_PLUS_INFINITY, V_EQ_PLUS_INFINITY | V_UNREPRESENTABLE };
  }
  return v;
}

static bool adj_code_allowed(bool upper, int r) {
  std::vector<Result> v = adj_codes(upper);
  for (size_t i = 0; i < v.size(); ++i) if (static_cast<int>(v[i]) == r) return true;
  return false;
}

static const char* ADJ_OPS[6] = {"add", "sub", "mul", "div", "neg", "assign"};

// the real checked operation on raw T with the rounding direction of the side
template <typename T>
Result adj_checked(const std::string& op, bool upper, T& to, T x1, T x2) {
  const Rounding_Dir dir = upper ? ROUND_UP : ROUND_DOWN;
  if (op == "add") return add_assign_r(to, x1, x2, dir);
  if (op == "sub") return sub_assign_r(to, x1, x2, dir);
  if (op == "mul") return mul_assign_r(to, x1, x2, dir);
  if (op == "div") return div_assign_r(to, x1, x2, dir);
  if (op == "neg") return neg_assign_r(to, x1, dir);
  return assign_r(to, x1, dir);
}

template <typename T>
void adj_one(Out& o, bool upper, bool open, int r) {
  T x = upper ? NatPoison<T>::hi() : NatPoison<T>::lo();
  const std::string before = show_native<T>(x);
  const std::string res = adj_call<T>(upper, open, static_cast<Result>(r), x);
  o.ev(std::string("adj:") + (upper ? "U" : "L") + ":" + (open ? "1" : "0") + ":" + std::to_string(r), before, "-", res, true);
}

template <typename T>
void adjop_one(Out& o, bool upper, const std::string& op, bool open, T x1, T x2, bool unary) {
  T to = upper ? NatPoison<T>::hi() : NatPoison<T>::lo();
  Result r = adj_checked<T>(op, upper, to, x1, x2);
  const std::string res = adj_call<T>(upper, open, r, to);
  o.ev(std::string("adjop:") + (upper ? "U" : "L") + ":" + op + ":" + (open ? "1" : "0"),
       show_native<T>(x1), unary ? std::string("-") : show_native<T>(x2), res, true);
}

template <typename T>
void run_adj(const char* ty, const std::vector<long>& grid) {
  Out o(ty, "");
  o.n = 800000000;                               // ids disjoint from those of run_type
  for (int up = 0; up < 2; ++up)
    for (int open = 0; open < 2; ++open) {
      std::vector<Result> codes = adj_codes(up);
      for (size_t k = 0; k < codes.size(); ++k) adj_one<T>(o, up, open, static_cast<int>(codes[k]));
    }
  for (int up = 0; up < 2; ++up)
    for (int open = 0; open < 2; ++open)
      for (int k = 0; k < 6; ++k) {
        const std::string op = ADJ_OPS[k];
        const bool unary = k >= 4;
        for (size_t a = 0; a < grid.size(); ++a) {
          if (unary) { adjop_one<T>(o, up, op, open, static_cast<T>(grid[a]), static_cast<T>(0), true); continue; }
          for (size_t b = 0; b < grid.size(); ++b) {
            if (op == "div" && grid[b] == 0) continue;
            adjop_one<T>(o, up, op, open, static_cast<T>(grid[a]), static_cast<T>(grid[b]), false);
          }
        }
      }
  o.J.line(std::string("# ") + ty + " adj events=" + std::to_string(o.n - 800000000));
}

// replay of one adj / adjop event:  --one "<ty> adj:<L|U>:<open>:<r> <x> -"  /  "<ty> adjop:<L|U>:<op>:<open> <x1> <x2|->"
template <typename T>
int run_one_adj(const char* ty, const std::string& op, const std::string& si, const std::string& sj) {
  Out o(ty, "");
  std::vector<std::string> f;
  { std::istringstream is(op); std::string t; while (std::getline(is, t, ':')) f.push_back(t); }
  if (f.size() != 4) return 3;
  const bool upper = f[1] == "U";
  if (f[0] == "adj") {
    const int r = atoi(f[3].c_str());
    if (!adj_code_allowed(upper, r)) return 3;   // any other code is the PPL_UNREACHABLE label
    adj_one<T>(o, upper, f[2] == "1", r);
    return 0;
  }
  if (f[0] != "adjop") return 3;
  const bool unary = sj == "-";
  const long long a = atoll(si.c_str()), b = unary ? 0 : atoll(sj.c_str());
  if (f[2] == "div" && b == 0) return 3;
  adjop_one<T>(o, upper, f[2], f[3] == "1", static_cast<T>(a), static_cast<T>(b), unary);
  return 0;
}

// ---- Interval<T native>::assign(const From&) from intervals of OTHER boundary types (Rational_Interval, the mpz
// interval of Z_Box, the int64_t interval): the conversions assign_r(T&, mpq_class | mpz_class | int64_t, dir) followed by
// adjust_boundary — for mpq_class this is literally the rounding instance Rounding.native of the Lean model — as done by
// Int8_Box(Rational_Box) / Int8_Box(Z_Box) and by every refinement of a native box with a constraint.
//   <id> <ty> cvt:<Q|Z|l> <source interval> - <R> <ok>
template <typename ITV, typename SRC>
void cvt_one(Out& o, const char* srcname, const SRC& x) {
  ITV z;
  NatTr<ITV>::prep(z);
  z.assign(x);
  o.ev(std::string("cvt:") + srcname, show_itv(x), "-", show_itv(z), z.OK());
}
template <typename ITV, typename SRC, typename V>
void cvt_all(Out& o, const char* srcname, const std::vector<V>& vals, bool can_open) {
  V dummy = vals[0];
  cvt_one<ITV, SRC>(o, srcname, make_raw<SRC, V>(true, false, dummy, false, false, dummy, false));
  cvt_one<ITV, SRC>(o, srcname, make_raw<SRC, V>(false, true, dummy, false, true, dummy, false));
  const int nf = can_open ? 2 : 1;
  for (size_t i = 0; i < vals.size(); ++i) {
    for (int f = 0; f < nf; ++f) {
      cvt_one<ITV, SRC>(o, srcname, make_raw<SRC, V>(false, false, vals[i], f, true, dummy, false));
      cvt_one<ITV, SRC>(o, srcname, make_raw<SRC, V>(false, true, dummy, false, false, vals[i], f));
    }
    for (size_t j = i; j < vals.size(); ++j)
      for (int f = 0; f < nf; ++f)
        for (int g = 0; g < nf; ++g) {
          if (i == j && (f || g)) continue;
          cvt_one<ITV, SRC>(o, srcname, make_raw<SRC, V>(false, false, vals[i], f, false, vals[j], g));
        }
  }
}
template <typename ITV>
void run_cvt(const char* ty) {
  typedef typename ITV::boundary_type T;
  Out o(ty, "");
  o.n = 600000000;
  const bool sg = std::numeric_limits<T>::is_signed;
  mpz_class mn(sg ? std::to_string(static_cast<long long>(std::numeric_limits<T>::min()))
                  : std::to_string(static_cast<unsigned long long>(std::numeric_limits<T>::min())));
  mpz_class mx(sg ? std::to_string(static_cast<long long>(std::numeric_limits<T>::max()))
                  : std::to_string(static_cast<unsigned long long>(std::numeric_limits<T>::max())));
  // rationals around the two limits and around zero, sorted
  std::vector<mpq_class> q;
  const mpq_class offs[] = {mpq_class(-3, 2), mpq_class(-1), mpq_class(-1, 2), mpq_class(0), mpq_class(1, 3), mpq_class(1, 2),
                            mpq_class(1), mpq_class(3, 2)};
  q.push_back(mpq_class(mn) * 2 - 7);
  for (size_t k = 0; k < 8; ++k) q.push_back(mpq_class(mn) + offs[k]);
  if (mn < -4) for (size_t k = 0; k < 8; ++k) q.push_back(offs[k]);
  for (size_t k = 0; k < 8; ++k) q.push_back(mpq_class(mx) + offs[k]);
  q.push_back(mpq_class(mx) * 2 + 7);
  q.push_back(mpq_class(mpz_class("1000000000000000000000000000001"), 3));
  std::sort(q.begin(), q.end());
  q.erase(std::unique(q.begin(), q.end()), q.end());
  cvt_all<ITV, QI, mpq_class>(o, "Q", q, true);
  std::vector<mpz_class> z;
  for (size_t k = 0; k < q.size(); ++k) if (q[k].get_den() == 1) z.push_back(q[k].get_num());
  cvt_all<ITV, ZI, mpz_class>(o, "Z", z, false);
  if (sizeof(T) < 8) {
    std::vector<int64_t> w;
    for (size_t k = 0; k < z.size(); ++k) if (z[k].fits_slong_p()) w.push_back(static_cast<int64_t>(z[k].get_si()));
    cvt_all<ITV, I64I, int64_t>(o, "l", w, false);
  }
  o.J.line(std::string("# ") + ty + " cvt events=" + std::to_string(o.n - 600000000));
}

// ---- Box<Interval<int8_t, Native_Integer_Box_Interval_Info>> (Int8_Box): chains of affine_image on 2-dim boxes
// near the limits.   <id> b box:<k>:<a>:<b>:<c>:<d> <I0>;<I1> - <R0>;<R1> | E <ok>
//   ( x_k := (a*x0 + b*x1 + c) / d )
static std::string show_box(const Int8_Box& bx) {
  if (bx.is_empty()) return "E";
  return show_itv(bx.get_interval(Variable(0))) + ";" + show_itv(bx.get_interval(Variable(1)));
}
static void run_box(long seed, long n) {
  Out o("b", "");
  o.n = 700000000;
  pplv::Rng rng((uint64_t)seed * 15485863u + 5u);
  for (long k = 0; k < n; ++k) {
    Int8_Box bx(2);
    for (int v = 0; v < 2; ++v) {
      I8I itv;
      int tries = 0;       // mostly bounded intervals: the overflow then comes from the arithmetic
      do { itv = random_itv<I8I>(rng); }
      while (itv.is_empty() || ((itv.lower_is_boundary_infinity() || itv.upper_is_boundary_infinity()) && ++tries < 4));
      bx.set_interval(Variable(v), itv);
    }
    for (int step = 0; step < 3 && !bx.is_empty(); ++step) {
      const long var = rng.below(2), a = rng.range(-2, 2), b = rng.range(-2, 2), c = rng.range(-3, 3);
      long d = rng.chance(2, 3) ? 1 : (rng.chance(1, 2) ? 2 : -1);
      const std::string before = show_box(bx);
      bx.affine_image(Variable(var), a * Variable(0) + b * Variable(1) + c, d);
      o.ev("box:" + std::to_string(var) + ":" + std::to_string(a) + ":" + std::to_string(b) + ":" + std::to_string(c) + ":"
           + std::to_string(d), before, "-", show_box(bx), bx.OK());
    }
  }
  o.J.line("# b box events=" + std::to_string(o.n - 700000000));
}

// ---- Linear_Form<Interval<double,...>>: operator+, operator-, operator*(C, f) against the list model
template <typename ITV>
std::string show_lf(const Linear_Form<ITV>& f) {
  std::string s = show_itv(f.inhomogeneous_term());
  for (dimension_type i = 0; i < f.space_dimension(); ++i) s += ";" + show_itv(f.coefficient(Variable(i)));
  return s;
}
template <typename ITV>
Linear_Form<ITV> random_lf(pplv::Rng& r) {
  unsigned n = r.below(4);                       // 0..3 variables
  ITV c0;
  do { c0 = random_itv<ITV>(r); } while (c0.is_empty());
  Linear_Form<ITV> f(c0);
  for (unsigned i = 0; i < n; ++i) {
    ITV c;
    do { c = random_itv<ITV>(r); } while (c.is_empty());
    ITV one = make_raw<ITV, typename ITV::boundary_type>(false, false, Tr<ITV>::conv(1), false, false, Tr<ITV>::conv(1), false);
    Linear_Form<ITV> v = Linear_Form<ITV>(Variable(i));
    // the coefficient of Variable(i) is set through the public interface: v has coefficient [1,1]
    Linear_Form<ITV> t(v);
    t *= c;                                       // [1,1]*c = c exactly
    f += t;
  }
  return f;
}
template <typename ITV>
void run_lf(long seed, long n) {
  Out o((std::string(Tr<ITV>::name())).c_str(), "");
  o.ty = Tr<ITV>::name();
  o.n = 900000000;                               // ids disjoint from those of run_type
  pplv::Rng rng((uint64_t)seed * 104729u + 17u);
  for (long k = 0; k < n; ++k) {
    Linear_Form<ITV> f = random_lf<ITV>(rng), g = random_lf<ITV>(rng);
    ITV c; do { c = random_itv<ITV>(rng); } while (c.is_empty());
    { Linear_Form<ITV> r = f + g; o.ev("lf:add", show_lf(f), show_lf(g), show_lf(r), r.OK()); }
    { Linear_Form<ITV> r = f - g; o.ev("lf:sub", show_lf(f), show_lf(g), show_lf(r), r.OK()); }
    { Linear_Form<ITV> r = c * f; o.ev("lf:scale", show_lf(f), show_itv(c), show_lf(r), r.OK()); }
  }
}

// measure defects 3 and 12 on the library as it is now
static void probes() {
  pplv::Journal J(1);
  {
    QI x = make_raw<QI, mpq_class>(false, false, mpq_class(-1), true, false, mpq_class(2), false);
    QI y = make_raw<QI, mpq_class>(false, false, mpq_class(-3), false, false, mpq_class(1), true);
    QI z; z.mul_assign(x, y);
    bool d3 = !(z.lower() == mpq_class(-6) && !z.lower_is_open() && z.upper() == 3 && z.upper_is_open());
    J.line(std::string("probe d3 ") + (d3 ? "1" : "0") + " " + show_itv(x) + "*" + show_itv(y) + "=" + show_itv(z));
  }
  {
    QI x = make_raw<QI, mpq_class>(false, false, mpq_class(0), false, false, mpq_class(256), false);
    QI r = make_raw<QI, mpq_class>(false, false, mpq_class(0), false, false, mpq_class(255), false);
    QI z = x; z.wrap_assign(BITS_8, UNSIGNED, r);
    bool d12 = !(z.lower() == 0 && z.upper() == 255);
    J.line(std::string("probe d12 ") + (d12 ? "1" : "0") + " wrap8u(" + show_itv(x) + ")=" + show_itv(z));
  }
}

template <typename T>
std::vector<mpq_class> native_vals() {
  const long mn = std::numeric_limits<T>::min(), mx = std::numeric_limits<T>::max();
  std::vector<mpq_class> v = {mpq_class(mn), mpq_class(mn + 1), mpq_class(-2), mpq_class(-1), mpq_class(0), mpq_class(1),
                              mpq_class(2), mpq_class(mx - 1), mpq_class(mx)};
  return v;
}

int main(int argc, char** argv) {
  long seed = pplv::arg_long(argc, argv, "--seed", 1);
  long nrandom = pplv::arg_long(argc, argv, "--random", 300);
  const char* types = pplv::arg_str(argc, argv, "--types", "QZDFL");
  const char* only = pplv::arg_str(argc, argv, "--only", "");
  const char* one = pplv::arg_str(argc, argv, "--one", "");
  const long adj = pplv::arg_long(argc, argv, "--adj", 0);
  const long nbox = pplv::arg_long(argc, argv, "--box", 0);
  if (*one) {
    std::istringstream is(one);
    std::string ty, op, si, sj;
    is >> ty >> op >> si >> sj;
    return pplv::run_batches(0, 2, [&](long b) {
      if (b == 0) { probes(); return; }
      int rc = 3;
      if (op.compare(0, 3, "adj") == 0) {
        rc = ty == "b" ? run_one_adj<int8_t>("b", op, si, sj) : ty == "B" ? run_one_adj<uint8_t>("B", op, si, sj)
           : ty == "l" ? run_one_adj<int64_t>("l", op, si, sj) : 3;
      }
      else
      rc = ty == "Q" ? run_one<QI>(op, si, sj) : ty == "Z" ? run_one<ZI>(op, si, sj) : ty == "D" ? run_one<DI>(op, si, sj)
             : ty == "F" ? run_one<FI>(op, si, sj) : ty == "L" ? run_one<LI>(op, si, sj)
             : ty == "b" ? run_one<I8I>(op, si, sj) : ty == "B" ? run_one<U8I>(op, si, sj) : ty == "h" ? run_one<I16I>(op, si, sj)
             : ty == "i" ? run_one<I32I>(op, si, sj) : ty == "l" ? run_one<I64I>(op, si, sj) : 3;
      if (rc) _exit(rc);
    }, 60);
  }
  // batch 0: probes; 1: Q; 2: Z; 3: D; 4: F; 5: L; 6..10: b B h i l; 11: adjust_boundary; 12: Int8_Box chains
  // (each in its own child: a crash is attributed to the type)
  return pplv::run_batches(0, 13, [&](long b) {
    if (b == 0) { probes(); return; }
    std::vector<mpq_class> v;
    if (b == 1 && strchr(types, 'Q')) {
      v = {mpq_class(-3), mpq_class(-1), mpq_class(0), mpq_class(1, 2), mpq_class(2)};
      run_type<QI>(v, seed, nrandom, only, true);
    }
    if (b == 2 && strchr(types, 'Z')) {
      v = {mpq_class(-3), mpq_class(-1), mpq_class(0), mpq_class(1), mpq_class(2)};
      run_type<ZI>(v, seed, nrandom, only, true);
    }
    if (b == 3 && strchr(types, 'D')) {
      v = {mpq_class(-3), mpq_class(-0.1), mpq_class(0), mpq_class(1.0 / 3.0), mpq_class(2)};
      run_type<DI>(v, seed, nrandom, only, false);
      if (!only || !*only) run_lf<DI>(seed, nrandom / 2);
    }
    if (b == 4 && strchr(types, 'F')) {
      v = {mpq_class(-3), mpq_class(-0.1f), mpq_class(0), mpq_class(1.0f / 3.0f), mpq_class(2)};
      run_type<FI>(v, seed, nrandom, only, false);
    }
    if (b == 5 && strchr(types, 'L')) {
      v = {mpq_class(-3), mpq_class(-0.1), mpq_class(0), mpq_class(1.0 / 3.0), mpq_class(2)};
      // values near 2^±16000 make exact rational arithmetic slow on the Lean side: fewer random pairs
      run_type<LI>(v, seed, nrandom / 25, only, false);
    }
    // native bounded integers: no wrap operators; the three wide types run only the arithmetic operators,
    // neg / assign and join / meet / difference on the template pairs
    if (b == 6 && strchr(types, 'b')) {
      v = {mpq_class(-128), mpq_class(-127), mpq_class(-2), mpq_class(-1), mpq_class(0), mpq_class(1), mpq_class(2),
           mpq_class(126), mpq_class(127)};
      run_type<I8I>(v, seed, nrandom, only, false, true);
    }
    if (b == 7 && strchr(types, 'B')) {
      v = {mpq_class(0), mpq_class(1), mpq_class(2), mpq_class(3), mpq_class(254), mpq_class(255)};
      run_type<U8I>(v, seed, nrandom, only, false, true);
    }
    if (b == 8 && strchr(types, 'h')) {
      v = native_vals<int16_t>();
      run_type<I16I>(v, seed, nrandom, only, false, false);
    }
    if (b == 9 && strchr(types, 'i')) {
      v = native_vals<int32_t>();
      run_type<I32I>(v, seed, nrandom, only, false, false);
    }
    if (b == 10 && strchr(types, 'l')) {
      v = native_vals<int64_t>();
      run_type<I64I>(v, seed, nrandom, only, false, false);
    }
    if (b == 12 && nbox > 0) run_box(seed, nbox);
    if (b == 11 && adj) {
      std::vector<long> g8 = {-128, -127, -2, -1, 0, 1, 2, 126, 127};
      std::vector<long> gu8 = {0, 1, 2, 3, 254, 255};
      std::vector<long> g64 = {std::numeric_limits<long>::min(), std::numeric_limits<long>::min() + 1, -2, -1, 0, 1, 2,
                               std::numeric_limits<long>::max() - 1, std::numeric_limits<long>::max()};
      run_adj<int8_t>("b", g8);
      run_adj<uint8_t>("B", gu8);
      run_adj<int64_t>("l", g64);
      run_cvt<I8I>("b");
      run_cvt<U8I>("B");
      run_cvt<I16I>("h");
      run_cvt<I32I>("i");
      run_cvt<I64I>("l");
    }
  }, 280);
}
