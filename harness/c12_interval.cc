// C12 harness: Interval operations of the real library on operand pairs enumerated exhaustively
// over a finite template set (all sign configurations x open/closed x singleton / empty /
// half-unbounded / universe) plus seeded random operands, for
//   Q : Rational_Interval                                   (mpq_class, open bounds, SPECIAL infinities)
//   Z : Interval<mpz_class, Z_Box_Interval_Info>            (integer bounds, closed only)
//   D : Interval<double, Floating_Point_Box_Interval_Info>  (binary64, open bounds, value infinities)
//   F : Interval<float, Floating_Point_Box_Interval_Info>   (binary32)
//   L : Interval<long double, Floating_Point_Box_Interval_Info>  (x87 extended, 64-bit significand)
// Journal (stdout), one event per line:   <id> <ty> <op> <I> <J> <R> <ok>
// Bounds are printed exactly (doubles through mpq_class(double)).
//
// usage: c12_interval --seed N --random N [--types QZD] [--only op]
#include "ppl.hh"
#include "interfaced_boxes.hh"
#include "common.hh"
#include <gmpxx.h>
#include <cmath>
#include <limits>

using namespace Parma_Polyhedra_Library;

typedef Rational_Interval QI;
typedef Interval<mpz_class, Z_Box_Interval_Info> ZI;
typedef Interval<double, Floating_Point_Box_Interval_Info> DI;
typedef Interval<float, Floating_Point_Box_Interval_Info> FI;
typedef Interval<long double, Floating_Point_Box_Interval_Info> LI;

// ---- a bound of a template: value (as a rational), open flag, or infinite
struct TB { bool inf; mpq_class v; bool open; };
struct TI { bool empty; TB lo, hi; };

template <typename ITV> struct Tr;
template <> struct Tr<QI> {
  static const char* name() { return "Q"; }
  static const bool can_open = true;
  static mpq_class conv(const mpq_class& q) { return q; }
  static std::string show(const mpq_class& v) { mpq_class c(v); c.canonicalize(); return c.get_str(); }
};
template <> struct Tr<ZI> {
  static const char* name() { return "Z"; }
  static const bool can_open = false;
  static mpz_class conv(const mpq_class& q) { mpz_class z; mpz_fdiv_q(z.get_mpz_t(), q.get_num_mpz_t(), q.get_den_mpz_t()); return z; }
  static std::string show(const mpz_class& v) { return v.get_str(); }
};
template <> struct Tr<DI> {
  static const char* name() { return "D"; }
  static const bool can_open = true;
  static double conv(const mpq_class& q) { return q.get_d(); }   // templates are dyadic or given as doubles
  static std::string show(double v) {
    if (std::isnan(v)) return "nan";
    if (std::isinf(v)) return v < 0 ? "-inf" : "+inf";
    mpq_class q(v); q.canonicalize(); return q.get_str();
  }
};

template <> struct Tr<FI> {
  static const char* name() { return "F"; }
  static const bool can_open = true;
  static float conv(const mpq_class& q) { return (float)q.get_d(); }
  static std::string show(float v) {
    if (std::isnan(v)) return "nan";
    if (std::isinf(v)) return v < 0 ? "-inf" : "+inf";
    mpq_class q((double)v); q.canonicalize(); return q.get_str();
  }
};

template <> struct Tr<LI> {
  static const char* name() { return "L"; }
  static const bool can_open = true;
  static long double conv(const mpq_class& q) { return (long double)q.get_d(); }
  static std::string show(long double v) {
    if (std::isnan(v)) return "nan";
    if (std::isinf(v)) return v < 0 ? "-inf" : "+inf";
    if (v == 0) return "0";
    int e; long double m = frexpl(v, &e);      // v = m * 2^e, 1/2 <= |m| < 1
    m = ldexpl(m, 64); e -= 64;                // m is an integer, |m| < 2^64 (x87 extended: 64-bit significand)
    bool neg = m < 0; if (neg) m = -m;
    unsigned long long u = (unsigned long long)m;
    mpz_class z; mpz_import(z.get_mpz_t(), 1, 1, sizeof(u), 0, 0, &u);
    if (neg) z = -z;
    mpq_class q(z);
    if (e >= 0) q <<= (unsigned long)e; else q >>= (unsigned long)(-e);
    q.canonicalize(); return q.get_str();
  }
};

template <typename ITV, typename V>
ITV make_raw(bool empty, bool lo_inf, const V& lo, bool lo_open, bool hi_inf, const V& hi, bool hi_open) {
  ITV x;
  if (empty) { x.assign(EMPTY); return x; }
  x.assign(UNIVERSE);
  if (!lo_inf) {
    x.info().clear_boundary_properties(LOWER);
    x.lower() = lo;
    if (lo_open) x.info().set_boundary_property(LOWER, OPEN);
  }
  if (!hi_inf) {
    x.info().clear_boundary_properties(UPPER);
    x.upper() = hi;
    if (hi_open) x.info().set_boundary_property(UPPER, OPEN);
  }
  return x;
}

template <typename ITV>
std::string show_itv(const ITV& x) {
  if (x.is_empty()) return "E";
  std::string s = x.lower_is_open() ? "(" : "[";
  s += x.lower_is_boundary_infinity() ? std::string("-inf") : Tr<ITV>::show(x.lower());
  s += ",";
  s += x.upper_is_boundary_infinity() ? std::string("+inf") : Tr<ITV>::show(x.upper());
  s += x.upper_is_open() ? ")" : "]";
  return s;
}

static const char* REL_NAMES[6] = {"eq", "lt", "le", "gt", "ge", "ne"};
static const Relation_Symbol RELS[6] = {EQUAL, LESS_THAN, LESS_OR_EQUAL, GREATER_THAN, GREATER_OR_EQUAL, NOT_EQUAL};

struct Out {
  pplv::Journal J;
  std::string ty;
  long n;
  const char* only;
  Out(const char* t, const char* o) : J(1), ty(t), n(0), only(o) {}
  bool want(const std::string& op) const {
    if (!only || !*only) return true;
    return op.compare(0, strlen(only), only) == 0;
  }
  void ev(const std::string& op, const std::string& I, const std::string& Jv, const std::string& R, bool ok) {
    ++n;
    J.line(ty + std::to_string(n) + " " + ty + " " + op + " " + I + " " + Jv + " " + R + " " + (ok ? "1" : "0"));
  }
};

template <typename ITV>
void run_pair(Out& o, const ITV& x, const ITV& y, bool unary_too, bool wrap_ops, bool all_ops) {
  const std::string sx = show_itv(x), sy = show_itv(y);
  ITV z;
  if (unary_too) {
    if (o.want("neg")) { z.assign(UNIVERSE); z.neg_assign(x); o.ev("neg", sx, "-", show_itv(z), z.OK()); }
    if (o.want("assign")) { z.assign(EMPTY); z.assign(x); o.ev("assign", sx, "-", show_itv(z), z.OK()); }
  }
#define BIN(NAME, CALL) if (o.want(NAME)) { z.assign(UNIVERSE); z.CALL(x, y); o.ev(NAME, sx, sy, show_itv(z), z.OK()); }
  BIN("add", add_assign)
  BIN("sub", sub_assign)
  BIN("mul", mul_assign)
  BIN("div", div_assign)
  if (all_ops) {
    BIN("join2", join_assign)
    BIN("meet2", intersect_assign)
  }
#undef BIN
#define INPL(NAME, CALL) if (o.want(NAME)) { z = x; z.CALL(y); o.ev(NAME, sx, sy, show_itv(z), z.OK()); }
  INPL("join", join_assign)
  INPL("meet", intersect_assign)
  INPL("diff", difference_assign)
#undef INPL
  if (all_ops) {
    for (int r = 0; r < 6; ++r) {
      std::string nm = std::string("rex:") + REL_NAMES[r];
      if (o.want(nm)) { z = x; z.refine_existential(RELS[r], y); o.ev(nm, sx, sy, show_itv(z), z.OK()); }
      nm = std::string("run:") + REL_NAMES[r];
      if (o.want(nm)) { z = x; z.refine_universal(RELS[r], y); o.ev(nm, sx, sy, show_itv(z), z.OK()); }
    }
    if (o.want("cc76") && !x.is_empty() && !y.is_empty() && x.contains(y)) {
      // stop points -2 -1 0 1 2 (sorted), as the tests of Box::CC76_widening_assign pass them
      typedef typename ITV::boundary_type V;
      V stops[5] = { Tr<ITV>::conv(mpq_class(-2)), Tr<ITV>::conv(mpq_class(-1)), Tr<ITV>::conv(mpq_class(0)),
                     Tr<ITV>::conv(mpq_class(1)), Tr<ITV>::conv(mpq_class(2)) };
      z = x; z.CC76_widening_assign(y, stops, stops + 5);
      o.ev("cc76", sx, sy, show_itv(z), z.OK());
    }
#define PRED(NAME, EXPR) if (o.want(NAME)) { bool b = (EXPR); o.ev(NAME, sx, sy, b ? "T" : "F", true); }
    PRED("contains", x.contains(y))
    PRED("scontains", x.strictly_contains(y))
    PRED("disjoint", x.is_disjoint_from(y))
    PRED("eq", x == y)
#undef PRED
  }
}

template <typename ITV>
void run_wrap(Out& o, const ITV& x, unsigned w, bool sgn, const ITV& ref) {
  std::string nm = "wrap:" + std::to_string(w) + ":" + (sgn ? "s" : "u");
  if (!o.want(nm)) return;
  Bounded_Integer_Type_Width bw;
  switch (w) { case 8: bw = BITS_8; break; case 16: bw = BITS_16; break; case 32: bw = BITS_32; break;
    default: bw = static_cast<Bounded_Integer_Type_Width>(w); }
  ITV z = x;
  z.wrap_assign(bw, sgn ? SIGNED_2_COMPLEMENT : UNSIGNED, ref);
  o.ev(nm, show_itv(x), show_itv(ref), show_itv(z), z.OK());
}

template <typename ITV>
std::vector<ITV> templates(const std::vector<mpq_class>& vals) {
  typedef typename ITV::boundary_type V;
  std::vector<ITV> out;
  V dummy = Tr<ITV>::conv(mpq_class(0));
  out.push_back(make_raw<ITV, V>(true, false, dummy, false, false, dummy, false));     // empty
  out.push_back(make_raw<ITV, V>(false, true, dummy, false, true, dummy, false));      // universe
  const int nflags = Tr<ITV>::can_open ? 2 : 1;
  for (size_t i = 0; i < vals.size(); ++i) {
    V vi = Tr<ITV>::conv(vals[i]);
    for (int f = 0; f < nflags; ++f) {
      out.push_back(make_raw<ITV, V>(false, false, vi, f, true, dummy, false));         // [vi, +inf)
      out.push_back(make_raw<ITV, V>(false, true, dummy, false, false, vi, f));         // (-inf, vi]
    }
    out.push_back(make_raw<ITV, V>(false, false, vi, false, false, vi, false));         // singleton
    for (size_t j = i + 1; j < vals.size(); ++j) {
      V vj = Tr<ITV>::conv(vals[j]);
      for (int f = 0; f < nflags; ++f)
        for (int g = 0; g < nflags; ++g)
          out.push_back(make_raw<ITV, V>(false, false, vi, f, false, vj, g));
    }
  }
  return out;
}

template <typename ITV> struct RandGen;
template <> struct RandGen<QI> {
  static mpq_class val(pplv::Rng& r) {
    long n = r.range(-12, 12); long d = r.chance(1, 2) ? 1 : r.range(1, 6);
    if (r.chance(1, 12)) n *= 1000003;
    mpq_class q(n, d); q.canonicalize(); return q;
  }
};
template <> struct RandGen<ZI> {
  static mpz_class val(pplv::Rng& r) {
    long n = r.range(-12, 12);
    if (r.chance(1, 12)) n *= 1000003;
    return mpz_class(n);
  }
};
template <> struct RandGen<DI> {
  static double val(pplv::Rng& r) {
    unsigned k = r.below(16);
    double m = (double)r.range(-2000, 2000) / (double)r.range(1, 37);
    switch (k) {
      case 0: return 0.0;
      case 1: return m * 1e300;
      case 2: return m * 1e-300;
      case 3: return m * 4.9406564584124654e-324;   // subnormals
      case 4: return std::ldexp(m, (int)r.range(-1074, 1000));
      case 5: return (double)r.range(-5, 5);
      case 6: return m < 0 ? -std::numeric_limits<double>::max() : std::numeric_limits<double>::max();
      default: return m;
    }
  }
};

template <> struct RandGen<FI> {
  static float val(pplv::Rng& r) {
    unsigned k = r.below(16);
    float m = (float)r.range(-2000, 2000) / (float)r.range(1, 37);
    switch (k) {
      case 0: return 0.0f;
      case 1: return m * 1e35f;
      case 2: return m * 1e-35f;
      case 3: return m * 1.4e-45f;   // subnormals
      case 4: return std::ldexp(m, (int)r.range(-149, 110));
      case 5: return (float)r.range(-5, 5);
      case 6: return m < 0 ? -std::numeric_limits<float>::max() : std::numeric_limits<float>::max();
      default: return m;
    }
  }
};

template <> struct RandGen<LI> {
  static long double val(pplv::Rng& r) {
    unsigned k = r.below(16);
    long double m = (long double)(long long)r.next() / (long double)r.range(1, 37);   // 64 significant bits
    switch (k) {
      case 0: return 0.0L;
      case 1: return ldexpl(m, (int)r.range(16000, 16300));
      case 2: return ldexpl(m, (int)r.range(-16500, -16300));     // around the subnormal range
      case 3: return ldexpl(m, (int)r.range(-16445 - 64, 16300 - 64));
      case 4: return (long double)r.range(-5, 5);
      case 5: return m < 0 ? -std::numeric_limits<long double>::max() : std::numeric_limits<long double>::max();
      default: return ldexpl(m, -60 + (int)r.range(-8, 8));
    }
  }
};

template <typename ITV>
ITV random_itv(pplv::Rng& r) {
  typedef typename ITV::boundary_type V;
  V a = RandGen<ITV>::val(r), b = RandGen<ITV>::val(r);
  if (b < a) std::swap(a, b);
  unsigned k = r.below(20);
  bool fo = Tr<ITV>::can_open && r.chance(1, 2), go = Tr<ITV>::can_open && r.chance(1, 2);
  if (k == 0) return make_raw<ITV, V>(true, false, a, false, false, a, false);
  if (k == 1) return make_raw<ITV, V>(false, true, a, false, true, a, false);
  if (k <= 3) return make_raw<ITV, V>(false, false, a, fo, true, a, false);
  if (k <= 5) return make_raw<ITV, V>(false, true, a, false, false, b, go);
  if (k <= 7) return make_raw<ITV, V>(false, false, a, false, false, a, false);
  if (a == b) { fo = go = false; }
  return make_raw<ITV, V>(false, false, a, fo, false, b, go);
}

template <typename ITV>
void run_type(const std::vector<mpq_class>& vals, long seed, long nrandom, const char* only, bool wraps) {
  typedef typename ITV::boundary_type V;
  Out o(Tr<ITV>::name(), only);
  std::vector<ITV> T = templates<ITV>(vals);
  o.J.line(std::string("# ") + Tr<ITV>::name() + " templates=" + std::to_string(T.size()));
  for (size_t i = 0; i < T.size(); ++i)
    for (size_t j = 0; j < T.size(); ++j)
      run_pair(o, T[i], T[j], j == 0, wraps, true);
  if (wraps) {
    // width 2 on the small templates, all quadrant refinements; width 8 around the 2^w boundary
    V z0 = Tr<ITV>::conv(mpq_class(0));
    std::vector<ITV> refs_u, refs_s;
    refs_u.push_back(make_raw<ITV, V>(false, false, Tr<ITV>::conv(0), false, false, Tr<ITV>::conv(3), false));
    refs_u.push_back(make_raw<ITV, V>(false, false, Tr<ITV>::conv(1), false, false, Tr<ITV>::conv(2), false));
    refs_u.push_back(make_raw<ITV, V>(false, true, z0, false, true, z0, false));
    refs_s.push_back(make_raw<ITV, V>(false, false, Tr<ITV>::conv(-2), false, false, Tr<ITV>::conv(1), false));
    refs_s.push_back(make_raw<ITV, V>(false, false, Tr<ITV>::conv(-1), false, false, Tr<ITV>::conv(1), false));
    refs_s.push_back(make_raw<ITV, V>(false, true, z0, false, true, z0, false));
    for (size_t i = 0; i < T.size(); ++i) {
      for (size_t k = 0; k < refs_u.size(); ++k) run_wrap(o, T[i], 2, false, refs_u[k]);
      for (size_t k = 0; k < refs_s.size(); ++k) run_wrap(o, T[i], 2, true, refs_s[k]);
    }
    ITV q8u = make_raw<ITV, V>(false, false, Tr<ITV>::conv(0), false, false, Tr<ITV>::conv(255), false);
    ITV q8s = make_raw<ITV, V>(false, false, Tr<ITV>::conv(-128), false, false, Tr<ITV>::conv(127), false);
    long los[] = {-300, -129, -128, -1, 0, 1, 100, 255, 256, 300};
    long wds[] = {0, 1, 100, 254, 255, 256, 257, 511, 512, 600};
    for (unsigned a = 0; a < 10; ++a) for (unsigned b = 0; b < 10; ++b) {
      ITV x = make_raw<ITV, V>(false, false, Tr<ITV>::conv(los[a]), false, false, Tr<ITV>::conv(los[a] + wds[b]), false);
      run_wrap(o, x, 8, false, q8u);
      run_wrap(o, x, 8, true, q8s);
    }
  }
  pplv::Rng rng((uint64_t)seed * 7919u + (uint64_t)Tr<ITV>::name()[0]);
  for (long k = 0; k < nrandom; ++k) {
    ITV x = random_itv<ITV>(rng), y = random_itv<ITV>(rng);
    run_pair(o, x, y, true, false, true);
    if (wraps && k % 4 == 0) {
      ITV q8u = make_raw<ITV, V>(false, false, Tr<ITV>::conv(0), false, false, Tr<ITV>::conv(255), false);
      ITV big = make_raw<ITV, V>(false, false, Tr<ITV>::conv(mpq_class(rng.range(-600, 600))), false, false,
                                 Tr<ITV>::conv(mpq_class(rng.range(-600, 600) + 600)), false);
      run_wrap(o, big, 8, false, q8u);
    }
  }
  // chains: a computed result (whatever bits it carries) is an operand of the next operation
  for (long k = 0; k < nrandom / 2; ++k) {
    ITV x = random_itv<ITV>(rng), y = random_itv<ITV>(rng), w = random_itv<ITV>(rng), t;
    switch (rng.below(7)) {
      case 0: t.add_assign(x, y); break;
      case 1: t.sub_assign(x, y); break;
      case 2: t.mul_assign(x, y); break;
      case 3: t.div_assign(x, y); break;
      case 4: t = x; t.join_assign(y); break;
      case 5: t = x; t.difference_assign(y); break;
      default: t.neg_assign(x); break;
    }
    if (t.is_empty() || !t.OK()) continue;
    if (rng.chance(1, 2)) run_pair(o, t, w, true, false, false);
    else run_pair(o, w, t, false, false, false);
  }
  o.J.line(std::string("# ") + Tr<ITV>::name() + " events=" + std::to_string(o.n));
}

// ---- replay of one recorded event on the library as it is now:  --one "<ty> <op> <I> <J>"
template <typename ITV>
bool parse_itv(const std::string& t, ITV& out) {
  typedef typename ITV::boundary_type V;
  V dummy = Tr<ITV>::conv(mpq_class(0));
  if (t == "E") { out = make_raw<ITV, V>(true, false, dummy, false, false, dummy, false); return true; }
  if (t.size() < 5) return false;
  bool lo_open = t[0] == '(', hi_open = t[t.size() - 1] == ')';
  size_t c = t.find(',');
  if (c == std::string::npos) return false;
  std::string a = t.substr(1, c - 1), b = t.substr(c + 1, t.size() - c - 2);
  bool lo_inf = a == "-inf", hi_inf = b == "+inf";
  V lo = dummy, hi = dummy;
  if (!lo_inf) { mpq_class q(a); q.canonicalize(); lo = Tr<ITV>::conv(q); }
  if (!hi_inf) { mpq_class q(b); q.canonicalize(); hi = Tr<ITV>::conv(q); }
  out = make_raw<ITV, V>(false, lo_inf, lo, lo_open, hi_inf, hi, hi_open);
  return true;
}

template <typename ITV>
int run_one(const std::string& op, const std::string& si, const std::string& sj) {
  ITV x, y;
  if (!parse_itv(si, x)) return 3;
  if (sj == "-") y = x; else if (!parse_itv(sj, y)) return 3;
  Out o(Tr<ITV>::name(), op.c_str());
  if (op.compare(0, 5, "wrap:") == 0) {
    unsigned w = (unsigned)atoi(op.c_str() + 5);
    bool sgn = op[op.size() - 1] == 's';
    run_wrap(o, x, w, sgn, y);
  }
  else
    run_pair(o, x, y, true, false, true);
  return 0;
}

// ---- Linear_Form<Interval<double,...>>: operator+, operator-, operator*(C, f) against the list model
template <typename ITV>
std::string show_lf(const Linear_Form<ITV>& f) {
  std::string s = show_itv(f.inhomogeneous_term());
  for (dimension_type i = 0; i < f.space_dimension(); ++i) s += ";" + show_itv(f.coefficient(Variable(i)));
  return s;
}
template <typename ITV>
Linear_Form<ITV> random_lf(pplv::Rng& r) {
  unsigned n = r.below(4);                       // 0..3 variables
  ITV c0;
  do { c0 = random_itv<ITV>(r); } while (c0.is_empty());
  Linear_Form<ITV> f(c0);
  for (unsigned i = 0; i < n; ++i) {
    ITV c;
    do { c = random_itv<ITV>(r); } while (c.is_empty());
    ITV one = make_raw<ITV, typename ITV::boundary_type>(false, false, Tr<ITV>::conv(1), false, false, Tr<ITV>::conv(1), false);
    Linear_Form<ITV> v = Linear_Form<ITV>(Variable(i));
    // the coefficient of Variable(i) is set through the public interface: v has coefficient [1,1]
    Linear_Form<ITV> t(v);
    t *= c;                                       // [1,1]*c = c exactly
    f += t;
  }
  return f;
}
template <typename ITV>
void run_lf(long seed, long n) {
  Out o((std::string(Tr<ITV>::name())).c_str(), "");
  o.ty = Tr<ITV>::name();
  o.n = 900000000;                               // ids disjoint from those of run_type
  pplv::Rng rng((uint64_t)seed * 104729u + 17u);
  for (long k = 0; k < n; ++k) {
    Linear_Form<ITV> f = random_lf<ITV>(rng), g = random_lf<ITV>(rng);
    ITV c; do { c = random_itv<ITV>(rng); } while (c.is_empty());
    { Linear_Form<ITV> r = f + g; o.ev("lf:add", show_lf(f), show_lf(g), show_lf(r), r.OK()); }
    { Linear_Form<ITV> r = f - g; o.ev("lf:sub", show_lf(f), show_lf(g), show_lf(r), r.OK()); }
    { Linear_Form<ITV> r = c * f; o.ev("lf:scale", show_lf(f), show_itv(c), show_lf(r), r.OK()); }
  }
}

// measure defects 3 and 12 on the library as it is now
static void probes() {
  pplv::Journal J(1);
  {
    QI x = make_raw<QI, mpq_class>(false, false, mpq_class(-1), true, false, mpq_class(2), false);
    QI y = make_raw<QI, mpq_class>(false, false, mpq_class(-3), false, false, mpq_class(1), true);
    QI z; z.mul_assign(x, y);
    bool d3 = !(z.lower() == mpq_class(-6) && !z.lower_is_open() && z.upper() == 3 && z.upper_is_open());
    J.line(std::string("probe d3 ") + (d3 ? "1" : "0") + " " + show_itv(x) + "*" + show_itv(y) + "=" + show_itv(z));
  }
  {
    QI x = make_raw<QI, mpq_class>(false, false, mpq_class(0), false, false, mpq_class(256), false);
    QI r = make_raw<QI, mpq_class>(false, false, mpq_class(0), false, false, mpq_class(255), false);
    QI z = x; z.wrap_assign(BITS_8, UNSIGNED, r);
    bool d12 = !(z.lower() == 0 && z.upper() == 255);
    J.line(std::string("probe d12 ") + (d12 ? "1" : "0") + " wrap8u(" + show_itv(x) + ")=" + show_itv(z));
  }
}

int main(int argc, char** argv) {
  long seed = pplv::arg_long(argc, argv, "--seed", 1);
  long nrandom = pplv::arg_long(argc, argv, "--random", 300);
  const char* types = pplv::arg_str(argc, argv, "--types", "QZDFL");
  const char* only = pplv::arg_str(argc, argv, "--only", "");
  const char* one = pplv::arg_str(argc, argv, "--one", "");
  if (*one) {
    std::istringstream is(one);
    std::string ty, op, si, sj;
    is >> ty >> op >> si >> sj;
    return pplv::run_batches(0, 2, [&](long b) {
      if (b == 0) { probes(); return; }
      int rc = ty == "Q" ? run_one<QI>(op, si, sj) : ty == "Z" ? run_one<ZI>(op, si, sj) : ty == "D" ? run_one<DI>(op, si, sj)
             : ty == "F" ? run_one<FI>(op, si, sj) : ty == "L" ? run_one<LI>(op, si, sj) : 3;
      if (rc) _exit(rc);
    }, 60);
  }
  // batch 0: probes; 1: Q; 2: Z; 3: D; 4: F  (each in its own child: a crash is attributed to the type)
  return pplv::run_batches(0, 6, [&](long b) {
    if (b == 0) { probes(); return; }
    std::vector<mpq_class> v;
    if (b == 1 && strchr(types, 'Q')) {
      v = {mpq_class(-3), mpq_class(-1), mpq_class(0), mpq_class(1, 2), mpq_class(2)};
      run_type<QI>(v, seed, nrandom, only, true);
    }
    if (b == 2 && strchr(types, 'Z')) {
      v = {mpq_class(-3), mpq_class(-1), mpq_class(0), mpq_class(1), mpq_class(2)};
      run_type<ZI>(v, seed, nrandom, only, true);
    }
    if (b == 3 && strchr(types, 'D')) {
      v = {mpq_class(-3), mpq_class(-0.1), mpq_class(0), mpq_class(1.0 / 3.0), mpq_class(2)};
      run_type<DI>(v, seed, nrandom, only, false);
      if (!only || !*only) run_lf<DI>(seed, nrandom / 2);
    }
    if (b == 4 && strchr(types, 'F')) {
      v = {mpq_class(-3), mpq_class(-0.1f), mpq_class(0), mpq_class(1.0f / 3.0f), mpq_class(2)};
      run_type<FI>(v, seed, nrandom, only, false);
    }
    if (b == 5 && strchr(types, 'L')) {
      v = {mpq_class(-3), mpq_class(-0.1), mpq_class(0), mpq_class(1.0 / 3.0), mpq_class(2)};
      // values near 2^±16000 make exact rational arithmetic slow on the Lean side: fewer random pairs
      run_type<LI>(v, seed, nrandom / 25, only, false);
    }
  }, 280);
}
