// C13 harness: pool histories with arbitrary copying, assignment, swapping and aliasing, for every
// class family of the statement.  Every step is journalled together with
//   * what the value specification says it reads and writes (`step …`),
//   * the result of the same operation run on *distinct copies* of the receiver and of every
//     argument (`res`: the oracle of the uninterpreted operation; `carg`: the copies of the const
//     arguments afterwards),
//   * the value of every pool member afterwards (`obs`), observed on a copy so that the lazy state
//     of the member itself is not disturbed.
// The native driver pplv_c13 replays the journal on PPLV.Value.Spec and decides every equality of
// values with the verified K1 / K2 procedures.
//
//   c13_values --seed S --first A --last B --len L [--fam all|lin|cpoly|nnc|bds|oct|box|grid|pps|prod|det_cpoly|det_grid] [--batch N]
//
// journal grammar (one event per line):
//   hist <id> <family> <dim>
//   step <kind> <name> <ndst> d… <nargs> a… [# info]     kind: new copy assign swap op query recycle
//   exc <real|-> <copies|->                               exception class of the two runs
//   res <value>                                           result of the run on copies (op, recycle, new)
//   carg <slot> <value>                                   a const argument's copy after the run on copies
//   qres <k> r1…rk s1…sk                                  query answer: real run, run on copies
//   obs <slot> <value>                                    every pool member after the step
//   crash <signal> / end
// values:  P n <cs> | G n E | G n m <cg>* | S n k <P…>* | X <value> <value> | T k tok*
#include "ppl.hh"
#include "common.hh"
#include "poly_io.hh"
#include <memory>
#include <utility>
#include <algorithm>

// ---- the executable's own operator new / delete (libppl.so binds to them too) -----------------
// Every block carries a header; a block deleted twice, or a pointer that was never handed out, is
// counted as a fault.  While `g_quarantine' is on (the Determinate histories) a deleted block is
// poisoned and never given back, so that addresses identify blocks for the whole history and a use
// after free reads 0xDD bytes deterministically.
namespace track {
  static const unsigned long LIVE = 0xA110C8EDu, DEAD = 0xDEADB10Cu;
  struct Hdr { unsigned long magic; unsigned long size; };
  static long g_live = 0, g_faults = 0;
  static bool g_quarantine = false;
  static unsigned long g_class = 0;      // a block size that is counted separately
  static long g_class_live = 0;
  static const long REG_CAP = 1L << 21;  // blocks handed out while the quarantine is on
  static Hdr* g_reg[REG_CAP];
  static long g_nreg = 0;
  inline void* get(std::size_t n) {
    Hdr* h = (Hdr*) std::malloc(sizeof(Hdr) + (n ? n : 1));
    if (!h) throw std::bad_alloc();
    h->magic = LIVE; h->size = n; ++g_live; if (n == g_class) ++g_class_live;
    if (g_quarantine && g_nreg < REG_CAP) g_reg[g_nreg++] = h;
    return h + 1;
  }
  inline void put(void* p) {
    if (!p) return;
    Hdr* h = ((Hdr*) p) - 1;
    if (h->magic != LIVE) { ++g_faults; return; }          // double delete / foreign pointer
    h->magic = DEAD; --g_live; if (h->size == g_class) --g_class_live;
    if (g_quarantine) std::memset(p, 0xDD, h->size); else std::free(h);
  }
  // blocks handed out during the quarantine that are still alive: `scratch' counts those of the sizes
  // of the library's pooled scratch coefficients (Temp_Item<mpz_class>, Temp_Item<mpq_class>, which go
  // back to a free list and are never deleted), `other' everything else
  inline void survivors(long& scratch, long& other, unsigned long s1, unsigned long s2, std::string& sizes) {
    scratch = other = 0;
    for (long i = 0; i < g_nreg; ++i) if (g_reg[i]->magic == LIVE) {
      if (g_reg[i]->size == s1 || g_reg[i]->size == s2) ++scratch;
      else { ++other; if (sizes.size() < 80) sizes += std::to_string(g_reg[i]->size) + ","; }
    }
  }
}
void* operator new(std::size_t n) { return track::get(n); }
void* operator new[](std::size_t n) { return track::get(n); }
void* operator new(std::size_t n, const std::nothrow_t&) noexcept { try { return track::get(n); } catch (...) { return 0; } }
void* operator new[](std::size_t n, const std::nothrow_t&) noexcept { try { return track::get(n); } catch (...) { return 0; } }
void operator delete(void* p) noexcept { track::put(p); }
void operator delete[](void* p) noexcept { track::put(p); }
void operator delete(void* p, std::size_t) noexcept { track::put(p); }
void operator delete[](void* p, std::size_t) noexcept { track::put(p); }
void operator delete(void* p, const std::nothrow_t&) noexcept { track::put(p); }
void operator delete[](void* p, const std::nothrow_t&) noexcept { track::put(p); }

using namespace Parma_Polyhedra_Library;
using pplv::Rng;
using namespace pplv_io;

typedef BD_Shape<mpq_class> BDS;
typedef Octagonal_Shape<mpq_class> OCT;
typedef Pointset_Powerset<C_Polyhedron> PPS;
typedef Domain_Product<C_Polyhedron, Grid>::Constraints_Product PROD;
typedef Linear_Expression LE;

static pplv::Journal J(1);

// =========================================================================================
// values
// =========================================================================================
static void val_cs(OS& o, const Constraint_System& cs, dimension_type n) { o << " P " << n; put_cs(o, cs, n); }

static void val_of(OS& o, const C_Polyhedron& x) { C_Polyhedron t(x); val_cs(o, t.minimized_constraints(), t.space_dimension()); }
static void val_of(OS& o, const NNC_Polyhedron& x) { NNC_Polyhedron t(x); val_cs(o, t.minimized_constraints(), t.space_dimension()); }
static void val_of(OS& o, const BDS& x) { BDS t(x); val_cs(o, t.minimized_constraints(), t.space_dimension()); }
static void val_of(OS& o, const OCT& x) { OCT t(x); val_cs(o, t.minimized_constraints(), t.space_dimension()); }
static void val_of(OS& o, const Rational_Box& x) { Rational_Box t(x); val_cs(o, t.minimized_constraints(), t.space_dimension()); }
static void put_cg(OS& o, const Congruence& cg, dimension_type n) {
  o << " " << cg.inhomogeneous_term();
  for (dimension_type i = 0; i < n; ++i) o << " " << (i < cg.space_dimension() ? cg.coefficient(Variable(i)) : Coefficient(0));
  o << " " << cg.modulus();
}
static void val_of(OS& o, const Grid& x) {
  Grid t(x);
  dimension_type n = t.space_dimension();
  if (t.is_empty()) { o << " G " << n << " E"; return; }
  const Congruence_System& cgs = t.minimized_congruences();
  dimension_type m = 0;
  for (Congruence_System::const_iterator i = cgs.begin(); i != cgs.end(); ++i) ++m;
  o << " G " << n << " " << m;
  for (Congruence_System::const_iterator i = cgs.begin(); i != cgs.end(); ++i) put_cg(o, *i, n);
}
static void val_of(OS& o, const PPS& x) {
  PPS t(x);
  o << " S " << t.space_dimension() << " " << t.size();
  for (PPS::const_iterator i = t.begin(); i != t.end(); ++i) val_of(o, i->pointset());
}
static void val_of(OS& o, const PROD& x) {
  PROD t(x);
  o << " X"; val_of(o, t.domain1()); val_of(o, t.domain2());
}
// --- syntactic objects: exact token sequences
struct Tok { std::vector<std::string> t; template <class A> Tok& operator<<(const A& a) { std::ostringstream s; s << a; t.push_back(s.str()); return *this; } };
static void put_tok(OS& o, const Tok& k) { o << " T " << k.t.size(); for (size_t i = 0; i < k.t.size(); ++i) o << " " << k.t[i]; }
static void tok_of(Tok& k, const LE& e) {
  k << "E" << e.space_dimension() << e.inhomogeneous_term();
  for (dimension_type i = 0; i < e.space_dimension(); ++i) k << e.coefficient(Variable(i));
}
static void tok_of(Tok& k, const Constraint& c) {
  k << "C" << c.space_dimension() << (c.is_equality() ? "=" : c.is_strict_inequality() ? ">" : ">=") << c.inhomogeneous_term();
  for (dimension_type i = 0; i < c.space_dimension(); ++i) k << c.coefficient(Variable(i));
}
static void tok_of(Tok& k, const Generator& g) {
  k << "Gn" << g.space_dimension() << (g.is_line() ? "l" : g.is_ray() ? "r" : g.is_point() ? "p" : "c");
  if (g.is_point() || g.is_closure_point()) k << g.divisor(); else k << 1;
  for (dimension_type i = 0; i < g.space_dimension(); ++i) k << g.coefficient(Variable(i));
}
static void tok_of(Tok& k, const Congruence& c) {
  k << "Q" << c.space_dimension() << c.modulus() << c.inhomogeneous_term();
  for (dimension_type i = 0; i < c.space_dimension(); ++i) k << c.coefficient(Variable(i));
}
static void tok_of(Tok& k, const Grid_Generator& g) {
  k << "GG" << g.space_dimension() << (g.is_line() ? "l" : g.is_parameter() ? "q" : "p");
  if (g.is_line()) k << 1; else k << g.divisor();
  for (dimension_type i = 0; i < g.space_dimension(); ++i) k << g.coefficient(Variable(i));
}
template <class Sys> static void tok_sys(Tok& k, const char* tag, const Sys& s) {
  k << tag << s.space_dimension();
  for (typename Sys::const_iterator i = s.begin(); i != s.end(); ++i) { k << "|"; tok_of(k, *i); }
}
static void tok_of(Tok& k, const Constraint_System& s) { tok_sys(k, "CS", s); }
static void tok_of(Tok& k, const Generator_System& s) { tok_sys(k, "GS", s); }
static void tok_of(Tok& k, const Congruence_System& s) { tok_sys(k, "QS", s); }
static void tok_of(Tok& k, const Grid_Generator_System& s) { tok_sys(k, "GGS", s); }
template <class T> static void val_tok(OS& o, const T& x) { T t(x); Tok k; tok_of(k, t); put_tok(o, k); }
static void val_of(OS& o, const LE& x) { val_tok(o, x); }
static void val_of(OS& o, const Constraint& x) { val_tok(o, x); }
static void val_of(OS& o, const Generator& x) { val_tok(o, x); }
static void val_of(OS& o, const Congruence& x) { val_tok(o, x); }
static void val_of(OS& o, const Grid_Generator& x) { val_tok(o, x); }
// In the histories of the semantic domains the auxiliary constraint / congruence systems are values
// by what they denote (x.constraints() of a copy may legitimately be written differently); in the
// `lin` histories every system is the exact sequence of its rows.
static bool g_semantic_sys = false;
static dimension_type g_dim = 0;
static void val_of(OS& o, const Constraint_System& x) {
  if (!g_semantic_sys) { val_tok(o, x); return; }
  Constraint_System t(x); val_cs(o, t, std::max(g_dim, t.space_dimension()));
}
static void val_of(OS& o, const Generator_System& x) { val_tok(o, x); }
static void val_of(OS& o, const Congruence_System& x) {
  if (!g_semantic_sys) { val_tok(o, x); return; }
  Congruence_System t(x);
  dimension_type n = std::max(g_dim, t.space_dimension()), m = 0;
  for (Congruence_System::const_iterator i = t.begin(); i != t.end(); ++i) ++m;
  o << " G " << n << " " << m;
  for (Congruence_System::const_iterator i = t.begin(); i != t.end(); ++i) put_cg(o, *i, n);
}
static void val_of(OS& o, const Grid_Generator_System& x) { val_tok(o, x); }

template <class T> static std::string val_str(const T& x) {
  try { OS o; val_of(o, x); std::string s = o.str();
        // a corrupted object can print numbers of gigabytes: the journal keeps lines short
        if (s.size() > 20000) return " T 2 unobservable oversized";
        return s; }
  catch (...) { return " T 2 unobservable " + pplv::exc_class(); }
}

// =========================================================================================
// the step executor: real run (possibly aliased) and run on distinct copies
// =========================================================================================
struct Exec {
  virtual void observe_all() = 0;
  virtual ~Exec() {}
  long nsteps = 0;

  static std::string step_line(const char* kind, const std::string& name, std::initializer_list<int> dsts,
                               std::initializer_list<int> args, const std::string& info) {
    std::string nm = name; for (size_t i = 0; i < nm.size(); ++i) if (nm[i] == ' ') nm[i] = '_';
    OS o; o << "step " << kind << " " << nm << " " << dsts.size();
    for (int d : dsts) o << " " << d;
    o << " " << args.size();
    for (int a : args) o << " " << a;
    if (!info.empty()) o << " # " << info;
    return o.str();
  }
  void finish(const std::string& er, const std::string& ec) {
    if (er != "-" || ec != "-") J.line("exc " + er + " " + ec);
    observe_all(); ++nsteps;
  }
  // ---- op with receiver only -----------------------------------------------------------
  template <class TX, class F> void op1(const std::string& name, int d, TX& x, F f, const std::string& info = "") {
    J.line(step_line("op", name, {d}, {d}, info));
    std::string er = "-", ec = "-";
    { try { TX x2(x); try { f(x2); } catch (...) { ec = pplv::exc_class(); }
        if (ec == "-") J.line("res" + val_str(x2)); } catch (...) { ec = "copy:" + pplv::exc_class(); } }
    try { f(x); } catch (...) { er = pplv::exc_class(); }
    finish(er, ec);
  }
  // ---- op with one const argument (possibly the receiver itself) ----------------------------
  template <class TX, class TA, class F>
  void op2(const std::string& name, int d, TX& x, int ai, const TA& a, F f, const std::string& info = "") {
    J.line(step_line("op", name, {d}, {d, ai}, info));
    std::string er = "-", ec = "-";
    { try { TX x2(x); TA a2(a); try { f(x2, const_cast<const TA&>(a2)); } catch (...) { ec = pplv::exc_class(); }
        if (ec == "-") { J.line("res" + val_str(x2)); J.line("carg " + std::to_string(ai) + val_str(a2)); } }
      catch (...) { ec = "copy:" + pplv::exc_class(); } }
    try { f(x, a); } catch (...) { er = pplv::exc_class(); }
    finish(er, ec);
  }
  // ---- op with two const arguments --------------------------------------------------------
  template <class TX, class TA, class TB, class F>
  void op3(const std::string& name, int d, TX& x, int ai, const TA& a, int bi, const TB& b, F f, const std::string& info = "") {
    J.line(step_line("op", name, {d}, {d, ai, bi}, info));
    std::string er = "-", ec = "-";
    { try { TX x2(x); TA a2(a); TB b2(b);
        try { f(x2, const_cast<const TA&>(a2), const_cast<const TB&>(b2)); } catch (...) { ec = pplv::exc_class(); }
        if (ec == "-") { J.line("res" + val_str(x2)); J.line("carg " + std::to_string(ai) + val_str(a2));
                         J.line("carg " + std::to_string(bi) + val_str(b2)); } }
      catch (...) { ec = "copy:" + pplv::exc_class(); } }
    try { f(x, a, b); } catch (...) { er = pplv::exc_class(); }
    finish(er, ec);
  }
  // ---- construction of a new value in slot d from const arguments (x = g(a, b)) -------------
  template <class TX, class TA, class TB, class F>
  void make2(const std::string& name, int d, TX& x, int ai, const TA& a, int bi, const TB& b, F f, const std::string& info = "") {
    J.line(step_line("op", name, {d}, {ai, bi}, info));
    std::string er = "-", ec = "-";
    { try { TA a2(a); TB b2(b);
        try { TX r(f(const_cast<const TA&>(a2), const_cast<const TB&>(b2))); J.line("res" + val_str(r));
              J.line("carg " + std::to_string(ai) + val_str(a2)); J.line("carg " + std::to_string(bi) + val_str(b2)); }
        catch (...) { ec = pplv::exc_class(); } }
      catch (...) { ec = "copy:" + pplv::exc_class(); } }
    try { x = f(a, b); } catch (...) { er = pplv::exc_class(); }
    finish(er, ec);
  }
  template <class TX, class TA, class F>
  void make1(const std::string& name, int d, TX& x, int ai, const TA& a, F f, const std::string& info = "") {
    J.line(step_line("op", name, {d}, {ai}, info));
    std::string er = "-", ec = "-";
    { try { TA a2(a);
        try { TX r(f(const_cast<const TA&>(a2))); J.line("res" + val_str(r)); J.line("carg " + std::to_string(ai) + val_str(a2)); }
        catch (...) { ec = pplv::exc_class(); } }
      catch (...) { ec = "copy:" + pplv::exc_class(); } }
    try { x = f(a); } catch (...) { er = pplv::exc_class(); }
    finish(er, ec);
  }
  // ---- const query on two objects -----------------------------------------------------------
  // `cp' makes the distinct copies of the run on copies (default: the copy constructor)
  template <class TA, class TB, class F, class CA, class CB>
  void query2c(const std::string& name, int ai, const TA& a, int bi, const TB& b, F f, CA cpa, CB cpb) {
    J.line(step_line("query", name, {}, {ai, bi}, ""));
    std::string er = "-", ec = "-", rr, rc;
    { try { TA a2(cpa(a)); TB b2(cpb(b)); try { rc = f(const_cast<const TA&>(a2), const_cast<const TB&>(b2)); } catch (...) { ec = pplv::exc_class(); }
        if (ec == "-") { J.line("carg " + std::to_string(ai) + val_str(a2)); J.line("carg " + std::to_string(bi) + val_str(b2)); } }
      catch (...) { ec = "copy:" + pplv::exc_class(); } }
    try { rr = f(a, b); } catch (...) { er = pplv::exc_class(); }
    if (er == "-" && ec == "-") J.line("qres 1 " + rr + " " + rc);
    finish(er, ec);
  }
  template <class TA, class TB, class F>
  void query2(const std::string& name, int ai, const TA& a, int bi, const TB& b, F f) {
    query2c(name, ai, a, bi, b, f, [](const TA& t) { return TA(t); }, [](const TB& t) { return TB(t); });
  }
  // ---- recycling entry point: the donor is left in an unspecified (but valid) state --------------
  template <class TX, class TD, class F>
  void recycle(const std::string& name, int d, TX& x, int di, TD& donor, F f) {
    J.line(step_line("recycle", name, {d, di}, {d, di}, ""));
    std::string er = "-", ec = "-";
    { try { TX x2(x); TD d2(donor); try { f(x2, d2); } catch (...) { ec = pplv::exc_class(); }
        if (ec == "-") J.line("res" + val_str(x2)); } catch (...) { ec = "copy:" + pplv::exc_class(); } }
    try { f(x, donor); } catch (...) { er = pplv::exc_class(); }
    finish(er, ec);
  }
  // ---- copy construction, assignment, swap -------------------------------------------------
  template <class T> void copy_ctor(int d, std::unique_ptr<T>& x, int s, const T& src) {
    J.line(step_line("copy", "copy_ctor", {d}, {s}, ""));
    std::string er = "-";
    try { std::unique_ptr<T> fresh(new T(src)); x.swap(fresh); /* the old object dies here */ } catch (...) { er = pplv::exc_class(); }
    finish(er, er);
  }
  template <class T> void assign(int d, T& x, int s, const T& src) {
    J.line(step_line("assign", d == s ? "self_assign" : "assign", {d}, {s}, ""));
    std::string er = "-";
    try { x = src; } catch (...) { er = pplv::exc_class(); }
    finish(er, er);
  }
  template <class T> void swap_(int a, T& x, int b, T& y, int variant) {
    const char* nm = variant == 0 ? "m_swap" : variant == 1 ? "adl_swap" : "std_swap";
    J.line(step_line("swap", std::string(a == b ? "self_" : "") + nm, {a, b}, {a, b}, ""));
    std::string er = "-";
    try {
      if (variant == 0) x.m_swap(y);
      else if (variant == 1) { using std::swap; swap(x, y); }
      else { T tmp(x); x = y; y = tmp; }        // what the generic std::swap does for a class without move operations
    } catch (...) { er = pplv::exc_class(); }
    finish(er, er);
  }
  template <class T> void fresh(int d, std::unique_ptr<T>& x, T* v, const char* how) {
    J.line(step_line("new", how, {d}, {}, ""));
    J.line("res" + val_str(*v));
    x.reset(v);
    finish("-", "-");
  }
};

// k-th element of a system (by const reference into the system itself), or null
template <class Sys> static const typename Sys::const_iterator::value_type* kth(const Sys& s, unsigned k) {
  unsigned m = 0;
  for (typename Sys::const_iterator i = s.begin(); i != s.end(); ++i) ++m;
  if (m == 0) return 0;
  k %= m;
  typename Sys::const_iterator i = s.begin();
  while (k--) ++i;
  return &*i;
}

// =========================================================================================
// random data
// =========================================================================================
enum Shape { SH_POLY, SH_NNC, SH_BD, SH_OCT, SH_BOX, SH_EQ };
static Constraint shape_con(Rng& r, dimension_type n, Shape sh) {
  if (sh == SH_POLY) return rnd_con(r, n, false, false);
  if (sh == SH_NNC) return rnd_con(r, n, true, false);
  if (sh == SH_EQ) { LE e = rnd_expr(r, n, 3, false); return e == 0; }
  dimension_type i = r.below(n), j = r.below(n);
  long b = r.range(-4, 4);
  LE e;
  if (sh == SH_BOX || i == j || (sh == SH_BD && r.chance(1, 3))) e = (r.chance(1, 2) ? 1 : -1) * Variable(i);
  else if (sh == SH_BD) e = Variable(i) - Variable(j);
  else e = (r.chance(1, 2) ? 1 : -1) * Variable(i) + (r.chance(1, 2) ? 1 : -1) * Variable(j);
  e += 0 * Variable(n - 1);
  unsigned k = r.below(12);
  if (k == 0) return e == b;
  if (sh == SH_BOX && k < 3) return e < b;
  return e <= b;
}
static Constraint_System shape_cs(Rng& r, dimension_type n, Shape sh, unsigned maxm) {
  Constraint_System cs;
  cs.insert(0 * Variable(n - 1) >= -1);
  unsigned m = r.below(maxm + 1);
  for (unsigned i = 0; i < m; ++i) cs.insert(shape_con(r, n, sh));
  return cs;
}
static Congruence rnd_cg(Rng& r, dimension_type n, bool equality_only) {
  LE e = rnd_expr(r, n, 3, false);
  long m = equality_only ? 0 : (r.chance(1, 4) ? 0 : r.range(1, 4));
  return (e %= 0) / m;
}
static Congruence_System rnd_cgs(Rng& r, dimension_type n, unsigned maxm, bool equality_only) {
  Congruence_System cgs(n);
  unsigned m = r.below(maxm + 1);
  for (unsigned i = 0; i < m; ++i) cgs.insert(rnd_cg(r, n, equality_only));
  return cgs;
}
static Grid_Generator rnd_gg(Rng& r, dimension_type n, bool must_point) {
  LE e; e += 0 * Variable(n - 1);
  for (dimension_type i = 0; i < n; ++i) e += Coefficient(small(r, 4)) * Variable(i);
  unsigned k = must_point ? 0 : r.below(10);
  Coefficient d = r.chance(1, 3) ? r.range(2, 3) : 1;
  if (k < 4 || all_zero(e, n)) return grid_point(e, d);
  if (k < 8) return parameter(e, d);
  return grid_line(e);
}
static Grid_Generator_System rnd_ggs(Rng& r, dimension_type n, unsigned maxm) {
  Grid_Generator_System gs(n);
  gs.insert(rnd_gg(r, n, true));
  unsigned m = r.below(maxm);
  for (unsigned i = 0; i < m; ++i) gs.insert(rnd_gg(r, n, false));
  return gs;
}

// per-family traits
template <class D> struct Tr;
template <> struct Tr<C_Polyhedron> { static const char* name() { return "cpoly"; } static const Shape sh = SH_POLY;
  static C_Polyhedron* make(Rng& r, dimension_type n) {
    unsigned k = r.below(10);
    if (k == 0) return new C_Polyhedron(n, EMPTY);
    if (k == 1) return new C_Polyhedron(n, UNIVERSE);
    if (k < 5) return new C_Polyhedron(rnd_gs(r, n, false, 4));
    return new C_Polyhedron(rnd_cs(r, n, false, 4, false)); } };
template <> struct Tr<NNC_Polyhedron> { static const char* name() { return "nnc"; } static const Shape sh = SH_NNC;
  static NNC_Polyhedron* make(Rng& r, dimension_type n) {
    unsigned k = r.below(10);
    if (k == 0) return new NNC_Polyhedron(n, EMPTY);
    if (k == 1) return new NNC_Polyhedron(n, UNIVERSE);
    if (k < 5) return new NNC_Polyhedron(rnd_gs(r, n, true, 4));
    return new NNC_Polyhedron(rnd_cs(r, n, true, 4, false)); } };
template <class D> static D* make_by_refine(Rng& r, dimension_type n, Shape sh) {
  unsigned k = r.below(12);
  if (k == 0) return new D(n, EMPTY);
  D* x = new D(n, UNIVERSE);
  x->refine_with_constraints(shape_cs(r, n, sh, 4));
  return x;
}
template <> struct Tr<BDS> { static const char* name() { return "bds"; } static const Shape sh = SH_BD;
  static BDS* make(Rng& r, dimension_type n) { return make_by_refine<BDS>(r, n, SH_BD); } };
template <> struct Tr<OCT> { static const char* name() { return "oct"; } static const Shape sh = SH_OCT;
  static OCT* make(Rng& r, dimension_type n) { return make_by_refine<OCT>(r, n, SH_OCT); } };
template <> struct Tr<Rational_Box> { static const char* name() { return "box"; } static const Shape sh = SH_BOX;
  static Rational_Box* make(Rng& r, dimension_type n) { return make_by_refine<Rational_Box>(r, n, SH_BOX); } };
template <> struct Tr<Grid> { static const char* name() { return "grid"; } static const Shape sh = SH_EQ;
  static Grid* make(Rng& r, dimension_type n) {
    unsigned k = r.below(10);
    if (k == 0) return new Grid(n, EMPTY);
    if (k == 1) return new Grid(n, UNIVERSE);
    if (k < 5) return new Grid(rnd_ggs(r, n, 4));
    return new Grid(rnd_cgs(r, n, 3, false)); } };
template <> struct Tr<PPS> { static const char* name() { return "pps"; } static const Shape sh = SH_POLY;
  static PPS* make(Rng& r, dimension_type n) {
    PPS* x = new PPS(n, EMPTY);
    unsigned m = r.below(4);
    for (unsigned i = 0; i < m; ++i) { std::unique_ptr<C_Polyhedron> p(Tr<C_Polyhedron>::make(r, n)); x->add_disjunct(*p); }
    return x; } };
template <> struct Tr<PROD> { static const char* name() { return "prod"; } static const Shape sh = SH_POLY;
  static PROD* make(Rng& r, dimension_type n) {
    unsigned k = r.below(12);
    if (k == 0) return new PROD(n, EMPTY);
    PROD* x = new PROD(n, UNIVERSE);
    x->refine_with_constraints(rnd_cs(r, n, false, 3, false));
    x->refine_with_congruences(rnd_cgs(r, n, 2, false));
    return x; } };

template <class D> struct Is { static const bool poly = false, cpoly = false, nnc = false, bds = false, oct = false, box = false, grid = false, pps = false, prod = false; };
template <> struct Is<C_Polyhedron> { static const bool poly = true, cpoly = true, nnc = false, bds = false, oct = false, box = false, grid = false, pps = false, prod = false; };
template <> struct Is<NNC_Polyhedron> { static const bool poly = true, cpoly = false, nnc = true, bds = false, oct = false, box = false, grid = false, pps = false, prod = false; };
template <> struct Is<BDS> { static const bool poly = false, cpoly = false, nnc = false, bds = true, oct = false, box = false, grid = false, pps = false, prod = false; };
template <> struct Is<OCT> { static const bool poly = false, cpoly = false, nnc = false, bds = false, oct = true, box = false, grid = false, pps = false, prod = false; };
template <> struct Is<Rational_Box> { static const bool poly = false, cpoly = false, nnc = false, bds = false, oct = false, box = true, grid = false, pps = false, prod = false; };
template <> struct Is<Grid> { static const bool poly = false, cpoly = false, nnc = false, bds = false, oct = false, box = false, grid = true, pps = false, prod = false; };
template <> struct Is<PPS> { static const bool poly = false, cpoly = false, nnc = false, bds = false, oct = false, box = false, grid = false, pps = true, prod = false; };
template <> struct Is<PROD> { static const bool poly = false, cpoly = false, nnc = false, bds = false, oct = false, box = false, grid = false, pps = false, prod = true; };

// =========================================================================================
// semantic domains
// =========================================================================================
static const Relation_Symbol RELS[5] = { LESS_OR_EQUAL, EQUAL, GREATER_OR_EQUAL, LESS_THAN, GREATER_THAN };

template <class D> struct DomHist : Exec {
  static const int NP = 4;                         // domain objects: slots 0..3
  static const int S_CS = 4, S_CGS = 5, S_GS = 6;  // auxiliary systems
  static const int S_PAR = 7;                      // a parameter object passed in two argument positions
  void param(const LE& e) { J.line(step_line("new", "parameter", {S_PAR}, {}, "")); J.line("res" + val_str(e)); }
  Rng r;
  dimension_type n;
  std::unique_ptr<D> X[NP];
  Constraint_System CS;
  Congruence_System CGS;
  Generator_System GS;          // polyhedra
  Grid_Generator_System GGS;    // grids
  typedef Is<D> is;
  static const Shape sh = Tr<D>::sh;

  DomHist(uint64_t seed, dimension_type n_) : r(seed), n(n_) { g_semantic_sys = true; g_dim = n_; }

  void observe_all() {
    for (int i = 0; i < NP; ++i) if (X[i]) J.line("obs " + std::to_string(i) + val_str(*X[i]));
    if (aux_live[0]) J.line("obs " + std::to_string(S_CS) + val_str(CS));
    if (aux_live[1]) J.line("obs " + std::to_string(S_CGS) + val_str(CGS));
    if (is::poly && aux_live[2]) J.line("obs " + std::to_string(S_GS) + val_str(GS));
    if (is::grid && aux_live[2]) J.line("obs " + std::to_string(S_GS) + val_str(GGS));
  }
  int pick() { return (int)r.below(NP); }
  // argument slot: the receiver itself with probability 2/5
  int pick_arg(int d) { return r.chance(2, 5) ? d : pick(); }

  bool aux_live[3] = { false, false, false };
  void init() {
    J.line(step_line("new", "aux", {S_CS}, {}, "")); CS = shape_cs(r, n, sh, 3); J.line("res" + val_str(CS)); aux_live[0] = true; finish("-", "-");
    J.line(step_line("new", "aux", {S_CGS}, {}, "")); CGS = rnd_cgs(r, n, 2, !(is::grid || is::prod)); J.line("res" + val_str(CGS)); aux_live[1] = true; finish("-", "-");
    if (is::poly) { J.line(step_line("new", "aux", {S_GS}, {}, "")); GS = rnd_gs(r, n, is::nnc, 3); J.line("res" + val_str(GS)); aux_live[2] = true; finish("-", "-"); }
    if (is::grid) { J.line(step_line("new", "aux", {S_GS}, {}, "")); GGS = rnd_ggs(r, n, 3); J.line("res" + val_str(GGS)); aux_live[2] = true; finish("-", "-"); }
    for (int i = 0; i < NP; ++i) fresh(i, X[i], Tr<D>::make(r, n), "random");
  }

  // bring every member back to the dimension of the history
  void fix_dims() {
    for (int i = 0; i < NP; ++i) {
      dimension_type m = X[i]->space_dimension();
      if (m > n) {
        // Grid::remove_higher_space_dimensions is broken on minimized generators (KF-C05-14, crashes):
        // grids and products with a grid component drop the dimensions by name instead
        if constexpr (is::grid || is::prod)
          op1("remove_space_dimensions(higher)", i, *X[i], [&](D& x) { Variables_Set vs; for (dimension_type k = n; k < m; ++k) vs.insert(Variable(k)); x.remove_space_dimensions(vs); });
        else op1("remove_higher_space_dimensions", i, *X[i], [&](D& x) { x.remove_higher_space_dimensions(n); });
      }
      else if (m < n) op1("add_space_dimensions_and_embed", i, *X[i], [&](D& x) { x.add_space_dimensions_and_embed(n - m); });
    }
  }

  // ---- widenings: a separate upper-bound step first, so that the precondition y <= x holds ------
  template <class W> void widen(const char* nm, int d, int a, W w) {
    bool tok = r.chance(1, 3); unsigned t0 = r.below(3);
    op2("upper_bound_assign", d, *X[d], a, *X[a], [](D& x, const D& y) { x.upper_bound_assign(y); });
    op2(nm, d, *X[d], a, *X[a], [&](D& x, const D& y) { unsigned t = t0; w(x, y, tok ? &t : (unsigned*)0); });
  }
  template <class W> void limited(const char* nm, int d, int a, int b, W w) {
    bool tok = r.chance(1, 3); unsigned t0 = r.below(3);
    op2("upper_bound_assign", d, *X[d], a, *X[a], [](D& x, const D& y) { x.upper_bound_assign(y); });
    op3(nm, d, *X[d], a, *X[a], b, *X[b], [&](D& x, const D& y, const D& z) { unsigned t = t0; w(x, y, z, tok ? &t : (unsigned*)0); },
        b == d ? "own=1" : "");
  }

  void widening_step(int d, int a) {
    unsigned k = r.below(4);
    if constexpr (is::poly) {
      if (k == 0) widen("widening_assign", d, a, [](D& x, const D& y, unsigned* t) { x.widening_assign(y, t); });
      else if (k == 1) widen("H79_widening_assign", d, a, [](D& x, const D& y, unsigned* t) { x.H79_widening_assign(y, t); });
      else widen("BHRZ03_widening_assign", d, a, [](D& x, const D& y, unsigned* t) { x.BHRZ03_widening_assign(y, t); });
    } else if constexpr (is::bds) {
      if (k == 0) widen("CC76_extrapolation_assign", d, a, [](D& x, const D& y, unsigned* t) { x.CC76_extrapolation_assign(y, t); });
      else if (k == 1) widen("BHMZ05_widening_assign", d, a, [](D& x, const D& y, unsigned* t) { x.BHMZ05_widening_assign(y, t); });
      else if (k == 2) widen("H79_widening_assign", d, a, [](D& x, const D& y, unsigned* t) { x.H79_widening_assign(y, t); });
      else widen("widening_assign", d, a, [](D& x, const D& y, unsigned* t) { x.widening_assign(y, t); });
    } else if constexpr (is::oct) {
      if (k == 0) widen("CC76_extrapolation_assign", d, a, [](D& x, const D& y, unsigned* t) { x.CC76_extrapolation_assign(y, t); });
      else if (k == 1) widen("BHMZ05_widening_assign", d, a, [](D& x, const D& y, unsigned* t) { x.BHMZ05_widening_assign(y, t); });
      else widen("widening_assign", d, a, [](D& x, const D& y, unsigned* t) { x.widening_assign(y, t); });
    } else if constexpr (is::box) {
      if (k < 2) widen("CC76_widening_assign", d, a, [](D& x, const D& y, unsigned* t) { x.CC76_widening_assign(y, t); });
      else widen("widening_assign", d, a, [](D& x, const D& y, unsigned* t) { x.widening_assign(y, t); });
    } else if constexpr (is::grid) {
      if (k == 0) widen("congruence_widening_assign", d, a, [](D& x, const D& y, unsigned* t) { x.congruence_widening_assign(y, t); });
      else if (k == 1) widen("generator_widening_assign", d, a, [](D& x, const D& y, unsigned* t) { x.generator_widening_assign(y, t); });
      else widen("widening_assign", d, a, [](D& x, const D& y, unsigned* t) { x.widening_assign(y, t); });
    } else if constexpr (is::pps) {
      if (k < 2) widen("BHZ03_widening_assign", d, a, [](D& x, const D& y, unsigned*) {
        x.template BHZ03_widening_assign<BHRZ03_Certificate>(y, widen_fun_ref(&Polyhedron::H79_widening_assign)); });
      else widen("BGP99_extrapolation_assign", d, a, [](D& x, const D& y, unsigned*) {
        x.BGP99_extrapolation_assign(y, widen_fun_ref(&Polyhedron::H79_widening_assign), 3); });
    } else if constexpr (is::prod) {
      widen("widening_assign", d, a, [](D& x, const D& y, unsigned* t) { x.widening_assign(y, t); });
    }
  }
  // BD_Shape / Octagonal_Shape::get_limiting_shape index the matrix out of bounds for a constraint
  // without variables (e.g. the `0 = 1' of an empty shape's constraints()): not C13's business
  static Constraint_System nontrivial(const Constraint_System& cs) {
    Constraint_System out;
    for (Constraint_System::const_iterator i = cs.begin(); i != cs.end(); ++i)
      if (!i->is_tautological() && !i->is_inconsistent()) out.insert(*i);
    return out;
  }
  void limited_step(int d, int a, int b) {
    unsigned k = r.below(4);
    if constexpr (is::poly) {
      if (k == 0) limited("limited_H79_extrapolation_assign", d, a, b, [](D& x, const D& y, const D& z, unsigned* t) { x.limited_H79_extrapolation_assign(y, z.constraints(), t); });
      else if (k == 1) limited("limited_BHRZ03_extrapolation_assign", d, a, b, [](D& x, const D& y, const D& z, unsigned* t) { x.limited_BHRZ03_extrapolation_assign(y, z.constraints(), t); });
      else if (k == 2) limited("bounded_H79_extrapolation_assign", d, a, b, [](D& x, const D& y, const D& z, unsigned* t) { x.bounded_H79_extrapolation_assign(y, z.constraints(), t); });
      else limited("bounded_BHRZ03_extrapolation_assign", d, a, b, [](D& x, const D& y, const D& z, unsigned* t) { x.bounded_BHRZ03_extrapolation_assign(y, z.minimized_constraints(), t); });
    } else if constexpr (is::bds) {
      if (k == 0) limited("limited_CC76_extrapolation_assign", d, a, b, [](D& x, const D& y, const D& z, unsigned* t) { x.limited_CC76_extrapolation_assign(y, nontrivial(z.constraints()), t); });
      else if (k == 1) limited("limited_BHMZ05_extrapolation_assign", d, a, b, [](D& x, const D& y, const D& z, unsigned* t) { x.limited_BHMZ05_extrapolation_assign(y, nontrivial(z.constraints()), t); });
      else limited("limited_H79_extrapolation_assign", d, a, b, [](D& x, const D& y, const D& z, unsigned* t) { x.limited_H79_extrapolation_assign(y, nontrivial(z.minimized_constraints()), t); });
    } else if constexpr (is::oct) {
      if (k < 2) limited("limited_CC76_extrapolation_assign", d, a, b, [](D& x, const D& y, const D& z, unsigned* t) { x.limited_CC76_extrapolation_assign(y, nontrivial(z.constraints()), t); });
      else limited("limited_BHMZ05_extrapolation_assign", d, a, b, [](D& x, const D& y, const D& z, unsigned* t) { x.limited_BHMZ05_extrapolation_assign(y, nontrivial(z.minimized_constraints()), t); });
    } else if constexpr (is::box) {
      limited("limited_CC76_extrapolation_assign", d, a, b, [](D& x, const D& y, const D& z, unsigned* t) { x.limited_CC76_extrapolation_assign(y, nontrivial(z.constraints()), t); });
    } else if constexpr (is::grid) {
      if (k == 0) limited("limited_congruence_extrapolation_assign", d, a, b, [](D& x, const D& y, const D& z, unsigned* t) { x.limited_congruence_extrapolation_assign(y, z.congruences(), t); });
      else if (k == 1) limited("limited_generator_extrapolation_assign", d, a, b, [](D& x, const D& y, const D& z, unsigned* t) { x.limited_generator_extrapolation_assign(y, z.congruences(), t); });
      else limited("limited_extrapolation_assign", d, a, b, [](D& x, const D& y, const D& z, unsigned* t) { x.limited_extrapolation_assign(y, z.minimized_congruences(), t); });
    } else {
      widening_step(d, a);
    }
  }

  // ---- one random step -------------------------------------------------------------------
  void step() {
    int d = pick();
    D& x = *X[d];
    unsigned k = r.below(100);
    if (k < 6) { int s = pick(); if (s == d) s = (d + 1) % NP; copy_ctor(d, X[d], s, *X[s]); return; }
    if (k < 13) { int s = pick_arg(d); assign(d, x, s, *X[s]); return; }
    if (k < 20) { int b = pick_arg(d); swap_(d, x, b, *X[b], (int)r.below(3)); return; }
    if (k < 23) { fresh(d, X[d], Tr<D>::make(r, n), "random"); return; }
    if (k < 60) { binary_step(d, pick_arg(d)); return; }
    if (k < 66) { int a = pick_arg(d); int b = r.chance(1, 2) ? d : (r.chance(1, 2) ? a : pick()); limited_step(d, a, b); return; }
    if (k < 74) { query_step(pick(), -1); return; }
    if (k < 84) { aux_step(d); return; }
    unary_step(d);
  }

  void binary_step(int d, int a) {
    D& x = *X[d]; const D& y = *X[a];
    unsigned k = r.below(26);
    unsigned sel = r.below(8);
    switch (k) {
    case 0: case 1: op2("intersection_assign", d, x, a, y, [](D& x, const D& y) { x.intersection_assign(y); }); break;
    case 2: case 3: op2("upper_bound_assign", d, x, a, y, [](D& x, const D& y) { x.upper_bound_assign(y); }); break;
    case 4: op2("upper_bound_assign_if_exact", d, x, a, y, [](D& x, const D& y) { (void) x.upper_bound_assign_if_exact(y); }); break;
    case 5: case 6: op2("difference_assign", d, x, a, y, [](D& x, const D& y) { x.difference_assign(y); }); break;
    case 7: op2("time_elapse_assign", d, x, a, y, [](D& x, const D& y) { x.time_elapse_assign(y); }); break;
    case 8: if (n <= 2) { op2("concatenate_assign", d, x, a, y, [](D& x, const D& y) { x.concatenate_assign(y); }); break; }
      /* fall through */
    case 9: case 10: widening_step(d, a); break;
    case 11:
      // the simplification itself is any z with z /\ y = x /\ y: its meet with a saved copy of the context is a function of the values
      // (Octagonal_Shape::simplify_using_context_assign reaches ppl_unreachable() on plain inputs: left to C03/C04)
      if constexpr (!is::prod && !is::oct) { op2("simplify_using_context_assign_then_meet_context", d, x, a, y, [](D& x, const D& y) {
        D ctx(y); (void) x.simplify_using_context_assign(y); x.intersection_assign(ctx); }); break; }
      /* fall through */
    case 12:
      if constexpr (is::bds || is::oct || is::box) {
        op2("intersection_assign", d, x, a, y, [](D& x, const D& y) { x.intersection_assign(y); });
        op2("CC76_narrowing_assign", d, *X[d], a, *X[a], [](D& x, const D& y) { x.CC76_narrowing_assign(y); }); break; }
      /* fall through */
    case 13:
      if constexpr (!is::pps && !is::prod)
        op2("add_constraints(y.constraints())", d, x, a, y, [](D& x, const D& y) { x.add_constraints(y.constraints()); });
      else
        op2("refine_with_constraints(y.constraints())", d, x, a, y, [](D& x, const D& y) {
          if constexpr (is::pps) { if (y.begin() != y.end()) x.refine_with_constraints(y.begin()->pointset().constraints()); }
          else x.refine_with_constraints(y.constraints()); });
      break;
    case 14:
      if constexpr (!is::pps)
        op2("refine_with_constraints(y.minimized_constraints())", d, x, a, y, [](D& x, const D& y) { x.refine_with_constraints(y.minimized_constraints()); });
      else op2("add_constraints(first disjunct)", d, x, a, y, [](D& x, const D& y) {
        if (y.begin() != y.end()) x.add_constraints(y.begin()->pointset().minimized_constraints()); });
      break;
    case 15:
      if constexpr (!is::pps)
        op2("refine_with_congruences(y.congruences())", d, x, a, y, [](D& x, const D& y) { x.refine_with_congruences(y.congruences()); });
      else op2("refine_with_congruences(first disjunct)", d, x, a, y, [](D& x, const D& y) {
        if (y.begin() != y.end()) x.refine_with_congruences(y.begin()->pointset().congruences()); });
      break;
    case 16:
      if constexpr (is::poly) { op2("add_generators(y.generators())", d, x, a, y, [](D& x, const D& y) { x.add_generators(y.generators()); }); break; }
      else if constexpr (is::grid) { op2("add_grid_generators(y.grid_generators())", d, x, a, y, [](D& x, const D& y) { D probe(x); if (probe.is_empty()) return;   /* KF-C05-11 */ x.add_grid_generators(y.grid_generators()); }); break; }
      else if constexpr (is::pps) {
        // the Determinate of y itself: the new disjunct shares its representation with y
        op2("Powerset::add_disjunct(y's Determinate)", d, x, a, y, [sel](D& x, const D& y) {
          unsigned m = y.size(); if (!m) return; unsigned j = sel % m; typename D::const_iterator i = y.begin(); while (j--) ++i;
          x.Powerset<Determinate<C_Polyhedron> >::add_disjunct(*i); });
        break; }
      /* fall through */
    case 17: {
      // one element of y's own description, passed by reference into y
      if constexpr (is::pps) {
        op2("add_disjunct(y's disjunct)", d, x, a, y, [sel](D& x, const D& y) {
          unsigned m = y.size(); if (!m) return; unsigned j = sel % m; typename D::const_iterator i = y.begin(); while (j--) ++i;
          x.add_disjunct(i->pointset()); });
      } else if constexpr (is::grid) {
        op2("add_congruence(own congruence)", d, x, a, y, [sel](D& x, const D& y) {
          const Congruence* c = kth(y.congruences(), sel); if (c) x.add_congruence(*c); });
      } else if constexpr (is::poly) {
        if (r.chance(1, 2)) op2("add_constraint(own constraint)", d, x, a, y, [sel](D& x, const D& y) {
          const Constraint* c = kth(y.constraints(), sel); if (c) x.add_constraint(*c); });
        else op2("add_generator(own generator)", d, x, a, y, [sel](D& x, const D& y) {
          const Generator* g = kth(y.generators(), sel); if (g) x.add_generator(*g); });
      } else {
        op2("refine_with_constraint(own constraint)", d, x, a, y, [sel](D& x, const D& y) {
          const Constraint_System& cs = y.constraints(); const Constraint* c = kth(cs, sel); if (c) x.refine_with_constraint(*c); });
      }
      break; }
    case 18: {
      dimension_type v = r.below(n);
      op2("affine_image(v, expr of own constraint)", d, x, a, y, [sel, v](D& x, const D& y) {
        if constexpr (is::pps) { (void) sel; (void) v; (void) y; }
        else { const auto& cs = y.constraints(); const Constraint* c = kth(cs, sel);
          if (c) { LE e(c->expression()); x.affine_image(Variable(v), e); } } });
      break; }
    case 19: {
      Relation_Symbol rel = RELS[r.below(3)];
      // (BD_Shape::generalized_affine_image(lhs, rel, rhs) leaves an inconsistent internal state, DESIGN.md §9 no. 10: not run on bds)
      op2("generalized_affine_image(lhs, rel, rhs of own constraints)", d, x, a, y, [sel, rel](D& x, const D& y) {
        if constexpr (is::pps || is::bds) { (void) sel; (void) rel; (void) y; }
        else { const auto& cs = y.constraints(); const Constraint* c1 = kth(cs, sel); const Constraint* c2 = kth(cs, sel + 1);
          if (c1 && c2) { LE l(c1->expression()), rr(c2->expression()); x.generalized_affine_image(l, rel, rr); } } });
      break; }
    case 20:
      if constexpr (is::pps) {
        unsigned j = r.below(4);
        if (j == 0) op2("Powerset::upper_bound_assign", d, x, a, y, [](D& x, const D& y) { x.upper_bound_assign(y); x.omega_reduce(); });
        else if (j == 1) op2("meet_assign", d, x, a, y, [](D& x, const D& y) { x.meet_assign(y); });
        else if (j == 2) op2("Powerset::upper_bound_assign_if_exact", d, x, a, y, [](D& x, const D& y) { (void) x.upper_bound_assign_if_exact(y); });
        else op2("least_upper_bound_then_collapse", d, x, a, y, [](D& x, const D& y) { x.least_upper_bound_assign(y); x.collapse(); });
        break; }
      /* fall through */
    default: query_step(d, a); break;
    }
  }

  void query_step(int d, int a) {
    if (a < 0) a = pick_arg(d);
    const D& x = *X[d]; const D& y = *X[a];
    unsigned k = r.below(6);
    switch (k) {
    case 0: query2("contains", d, x, a, y, [](const D& x, const D& y) { return std::string(x.contains(y) ? "1" : "0"); }); break;
    case 1: query2("strictly_contains", d, x, a, y, [](const D& x, const D& y) { return std::string(x.strictly_contains(y) ? "1" : "0"); }); break;
    case 2: query2("is_disjoint_from", d, x, a, y, [](const D& x, const D& y) { return std::string(x.is_disjoint_from(y) ? "1" : "0"); }); break;
    case 3: query2("operator==", d, x, a, y, [](const D& x, const D& y) { return std::string(x == y ? "1" : "0"); }); break;
    case 4:
      if constexpr (is::pps) { query2("geometrically_covers", d, x, a, y, [](const D& x, const D& y) { return std::string(x.geometrically_covers(y) ? "1" : "0"); }); break; }
      /* fall through */
    default: {
      unsigned sel = r.below(8);
      // Which constraint is the k-th depends on the representation, and powerset copies share their
      // disjuncts: the run on copies works on deep copies here, so that it leaves the originals as
      // the real run must find them.
      auto deep = [](const D& t) {
        if constexpr (is::pps) { D u(t.space_dimension(), EMPTY);
          for (typename D::const_iterator i = t.begin(); i != t.end(); ++i) u.add_disjunct(i->pointset());
          return u; }
        else return D(t); };
      query2c("relation_with(own constraint)", d, x, a, y, [sel](const D& x, const D& y) {
        OS o;
        if constexpr (is::pps) { if (y.begin() == y.end()) return std::string("none");
          const Constraint* c = kth(y.begin()->pointset().constraints(), sel); if (!c) return std::string("none");
          Poly_Con_Relation rel = x.relation_with(*c);
          o << rel.implies(Poly_Con_Relation::is_disjoint()) << rel.implies(Poly_Con_Relation::is_included()) << rel.implies(Poly_Con_Relation::saturates()) << rel.implies(Poly_Con_Relation::strictly_intersects());
        } else { const auto& cs = y.constraints(); const Constraint* c = kth(cs, sel); if (!c) return std::string("none");
          Poly_Con_Relation rel = x.relation_with(*c);
          o << rel.implies(Poly_Con_Relation::is_disjoint()) << rel.implies(Poly_Con_Relation::is_included()) << rel.implies(Poly_Con_Relation::saturates()) << rel.implies(Poly_Con_Relation::strictly_intersects()); }
        return o.str(); }, deep, deep);
      break; }
    }
  }

  void aux_step(int d) {
    D& x = *X[d];
    unsigned k = r.below(14);
    switch (k) {
    case 0:
      if constexpr (!is::pps) { make1("CS = x.constraints()", S_CS, CS, d, x, [](const D& x) { return Constraint_System(x.constraints()); }); break; }
      /* fall through */
    case 1: { Constraint c = shape_con(r, n, sh); op1("CS.insert(c)", S_CS, CS, [&](Constraint_System& s) { s.insert(c); }); break; }
    case 2: op2("CS.insert(own constraint)", S_CS, CS, S_CS, CS, [&](Constraint_System& s, const Constraint_System& t) {
        const Constraint* c = kth(t, 1); if (c) s.insert(*c); }); break;
    case 3:
      if constexpr (is::pps || is::prod) op2("refine_with_constraints(CS)", d, x, S_CS, CS, [](D& x, const Constraint_System& s) { x.refine_with_constraints(s); });
      else op2("add_constraints(CS)", d, x, S_CS, CS, [](D& x, const Constraint_System& s) { x.add_constraints(s); });
      break;
    case 4:
      if constexpr (!is::pps) { recycle("add_recycled_constraints(CS)", d, x, S_CS, CS, [](D& x, Constraint_System& s) { x.add_recycled_constraints(s); }); break; }
      /* fall through */
    case 5:
      if constexpr (is::poly || is::grid) {
        // construction that recycles the system
        J.line(step_line("recycle", "D(CS, Recycle_Input())", {d, S_CS}, {S_CS}, ""));
        std::string er = "-", ec = "-";
        try { Constraint_System c2(CS); D t(c2, Recycle_Input()); J.line("res" + val_str(t)); } catch (...) { ec = pplv::exc_class(); }
        try { std::unique_ptr<D> t(new D(CS, Recycle_Input())); X[d].swap(t); } catch (...) { er = pplv::exc_class(); }
        finish(er, ec);
        break; }
      /* fall through */
    case 6:
      if constexpr (!is::pps) { make1("CGS = x.congruences()", S_CGS, CGS, d, x, [](const D& x) { return Congruence_System(x.congruences()); }); break; }
      /* fall through */
    case 7: op2("refine_with_congruences(CGS)", d, x, S_CGS, CGS, [](D& x, const Congruence_System& s) { x.refine_with_congruences(s); }); break;
    case 8:
      if constexpr (!is::pps) { recycle("add_recycled_congruences(CGS)", d, x, S_CGS, CGS, [](D& x, Congruence_System& s) { x.add_recycled_congruences(s); }); break; }
      /* fall through */
    case 9: op2("CGS.insert(CGS)", S_CGS, CGS, S_CGS, CGS, [](Congruence_System& s, const Congruence_System& t) { s.insert(t); }); break;
    case 10:
      if constexpr (is::poly) { make1("GS = x.generators()", S_GS, GS, d, x, [](const D& x) { return Generator_System(x.generators()); }); break; }
      else if constexpr (is::grid) { make1("GGS = x.grid_generators()", S_GS, GGS, d, x, [](const D& x) { return Grid_Generator_System(x.grid_generators()); }); break; }
      /* fall through */
    case 11:
      if constexpr (is::poly) { op2("add_generators(GS)", d, x, S_GS, GS, [](D& x, const Generator_System& s) { x.add_generators(s); }); break; }
      else if constexpr (is::grid) { op2("add_grid_generators(GGS)", d, x, S_GS, GGS, [](D& x, const Grid_Generator_System& s) { D probe(x); if (probe.is_empty()) return;   /* KF-C05-11 */ x.add_grid_generators(s); }); break; }
      /* fall through */
    case 12:
      if constexpr (is::poly) { recycle("add_recycled_generators(GS)", d, x, S_GS, GS, [](D& x, Generator_System& s) { x.add_recycled_generators(s); }); break; }
      else if constexpr (is::grid) { recycle("add_recycled_grid_generators(GGS)", d, x, S_GS, GGS, [](D& x, Grid_Generator_System& s) { D probe(x); if (probe.is_empty()) return;   /* KF-C05-11 */ x.add_recycled_grid_generators(s); }); break; }
      /* fall through */
    default:
      if constexpr (is::poly) { Generator g = rnd_gen(r, n, is::nnc, false); op1("GS.insert(g)", S_GS, GS, [&](Generator_System& s) { s.insert(g); }); }
      else if constexpr (is::grid) { Grid_Generator g = rnd_gg(r, n, false); op1("GGS.insert(g)", S_GS, GGS, [&](Grid_Generator_System& s) { s.insert(g); }); }
      else { Congruence cg = rnd_cg(r, n, !(is::grid || is::prod)); op1("CGS.insert(cg)", S_CGS, CGS, [&](Congruence_System& s) { s.insert(cg); }); }
      break;
    }
  }

  void unary_step(int d) {
    D& x = *X[d];
    unsigned k = r.below(22);
    dimension_type v = r.below(n), w = r.below(n);
    LE e = rnd_expr(r, n, 3, false);
    Coefficient den = r.chance(1, 4) ? r.range(-3, -1) : r.range(1, 3);
    switch (k) {
    case 0: case 1: { Constraint c = shape_con(r, n, sh);
      if constexpr (is::prod) op1("refine_with_constraint", d, x, [&](D& x) { x.refine_with_constraint(c); });
      else op1("add_constraint", d, x, [&](D& x) { x.add_constraint(c); });
      break; }
    case 2: { Constraint c = shape_con(r, n, is::nnc ? SH_NNC : SH_POLY); op1("refine_with_constraint", d, x, [&](D& x) { x.refine_with_constraint(c); }); break; }
    case 3: { Constraint_System cs = shape_cs(r, n, sh, 3);
      if constexpr (is::prod) op1("refine_with_constraints", d, x, [&](D& x) { x.refine_with_constraints(cs); });
      else op1("add_constraints", d, x, [&](D& x) { x.add_constraints(cs); });
      break; }
    case 4: { Congruence cg = rnd_cg(r, n, false); op1("refine_with_congruence", d, x, [&](D& x) { x.refine_with_congruence(cg); }); break; }
    case 5: { Congruence cg = rnd_cg(r, n, !(is::grid || is::prod));
      if constexpr (is::prod) op1("refine_with_congruence", d, x, [&](D& x) { x.refine_with_congruence(cg); });
      else op1("add_congruence", d, x, [&](D& x) { x.add_congruence(cg); });
      break; }
    case 6: case 7: op1("affine_image", d, x, [&](D& x) { x.affine_image(Variable(v), e, den); }); break;
    case 8: op1("affine_preimage", d, x, [&](D& x) { x.affine_preimage(Variable(v), e, den); }); break;
    case 9: { Relation_Symbol rel = RELS[r.below(is::nnc ? 5 : 3)];
      Coefficient modulus = r.below(3);
      if constexpr (is::grid) op1("generalized_affine_image(var)", d, x, [&](D& x) { x.generalized_affine_image(Variable(v), EQUAL, e, den, modulus); });
      else op1("generalized_affine_image(var)", d, x, [&](D& x) { x.generalized_affine_image(Variable(v), rel, e, den); });
      break; }
    case 10: {
      // one expression object in two argument positions
      Relation_Symbol rel = RELS[r.below(3)];
      if constexpr (is::bds) { op1("unconstrain", d, x, [&](D& x) { x.unconstrain(Variable(v)); }); break; }
      param(e);
      if constexpr (is::grid) op3("generalized_affine_image(e, =, e)", d, x, S_PAR, e, S_PAR, e, [&](D& x, const LE& f, const LE& g) { x.generalized_affine_image(f, EQUAL, g); });
      else op3("generalized_affine_image(e, rel, e)", d, x, S_PAR, e, S_PAR, e, [&](D& x, const LE& f, const LE& g) { x.generalized_affine_image(f, rel, g); });
      break; }
    case 11:
      param(e);
      op3("bounded_affine_image(v, e, e)", d, x, S_PAR, e, S_PAR, e, [&](D& x, const LE& f, const LE& g) {
        D probe(x); if (probe.is_empty()) return;        // C02: bounded_affine_image aborts on empty receivers
        x.bounded_affine_image(Variable(v), f, g, den); });
      break;
    case 12: op1("unconstrain", d, x, [&](D& x) { x.unconstrain(Variable(v)); }); break;
    case 13: op1("add_space_dimensions_and_project", d, x, [&](D& x) { x.add_space_dimensions_and_project(1); }); break;
    case 14: if (n >= 2) { op1("remove_space_dimensions", d, x, [&](D& x) { Variables_Set vs; vs.insert(Variable(v)); x.remove_space_dimensions(vs); }); break; }
      /* fall through */
    case 15: op1("expand_space_dimension", d, x, [&](D& x) { x.expand_space_dimension(Variable(v), 1); }); break;
    case 16: if (n >= 2 && v != w) { op1("fold_space_dimensions", d, x, [&](D& x) { Variables_Set vs; vs.insert(Variable(v)); x.fold_space_dimensions(vs, Variable(w)); }); break; }
      /* fall through */
    case 17: op1("topological_closure_assign", d, x, [&](D& x) { x.topological_closure_assign(); }); break;
    case 18:
      if constexpr (is::pps) { unsigned j = r.below(3);
        if (j == 0) op1("pairwise_reduce", d, x, [&](D& x) { x.pairwise_reduce(); });
        else if (j == 1) op1("omega_reduce", d, x, [&](D& x) { x.omega_reduce(); });
        else op1("drop_disjunct(begin)", d, x, [&](D& x) { if (x.begin() != x.end()) x.drop_disjunct(x.begin()); });
        break; }
      /* fall through */
    default: {
      // const observers that may update the representation lazily: nothing may change
      unsigned j = r.below(6);
      J.line(step_line("query", "observer", {}, {d}, std::to_string(j)));
      std::string er = "-";
      try {
        if (j == 0) (void) x.is_empty();
        else if (j == 1) (void) x.is_universe();
        else if (j == 2) (void) x.is_bounded();
        else if (j == 3) (void) x.OK();
        else if (j == 4) { if constexpr (!is::pps) (void) x.minimized_constraints(); else (void) x.is_topologically_closed(); }
        else { if constexpr (is::poly) (void) x.minimized_generators(); else if constexpr (is::grid) (void) x.minimized_grid_generators();
               else if constexpr (!is::pps) (void) x.minimized_congruences(); else (void) x.size(); }
      } catch (...) { er = pplv::exc_class(); }
      finish(er, er);
      break; }
    }
  }

  void run(long len) {
    init();
    for (long i = 0; i < len; ++i) { step(); fix_dims(); }
    // destruction order is part of the history: destroy half of the pool, observe the rest
    int dead = (int)r.below(NP);
    X[dead].reset(Tr<D>::make(r, n));
    J.line(step_line("new", "destroy_and_recreate", {dead}, {}, "")); J.line("res" + val_str(*X[dead])); finish("-", "-");
  }
};

// =========================================================================================
// linear expressions, constraints, generators, congruences, grid generators and their systems
// =========================================================================================
struct LinHist : Exec {
  Rng r;
  dimension_type n;
  // slots: 0,1 E | 2,3 C | 4,5 G | 6,7 Q | 8,9 GG | 10,11 CS | 12,13 GS | 14,15 QS | 16,17 GGS
  std::unique_ptr<LE> E[2];
  std::unique_ptr<Constraint> C[2];
  std::unique_ptr<Generator> G[2];
  std::unique_ptr<Congruence> Q[2];
  std::unique_ptr<Grid_Generator> GG[2];
  std::unique_ptr<Constraint_System> CS[2];
  std::unique_ptr<Generator_System> GS[2];
  std::unique_ptr<Congruence_System> QS[2];
  std::unique_ptr<Grid_Generator_System> GGS[2];
  LinHist(uint64_t seed, dimension_type n_) : r(seed), n(n_) { g_semantic_sys = false; }

  void observe_all() {
    for (int i = 0; i < 2; ++i) {
      J.line("obs " + std::to_string(0 + i) + val_str(*E[i]));
      J.line("obs " + std::to_string(2 + i) + val_str(*C[i]));
      J.line("obs " + std::to_string(4 + i) + val_str(*G[i]));
      J.line("obs " + std::to_string(6 + i) + val_str(*Q[i]));
      J.line("obs " + std::to_string(8 + i) + val_str(*GG[i]));
      J.line("obs " + std::to_string(10 + i) + val_str(*CS[i]));
      J.line("obs " + std::to_string(12 + i) + val_str(*GS[i]));
      J.line("obs " + std::to_string(14 + i) + val_str(*QS[i]));
      J.line("obs " + std::to_string(16 + i) + val_str(*GGS[i]));
    }
  }
  LE rexpr() { LE e = rnd_expr(r, n, 4, r.chance(1, 10)); return r.chance(1, 2) ? LE(e, SPARSE) : LE(e, DENSE); }
  dimension_type rdim() { return r.below(3) == 0 ? n + 1 + r.below(2) : (r.chance(1, 4) && n > 1 ? n - 1 : n); }

  void init() {
    for (int i = 0; i < 2; ++i) {
      E[i].reset(new LE(rnd_expr(r, n, 4, false), i == 0 ? DENSE : SPARSE));
      C[i].reset(new Constraint(rnd_con(r, n, true, false)));
      G[i].reset(new Generator(rnd_gen(r, n, true, false)));
      Q[i].reset(new Congruence(rnd_cg(r, n, false)));
      GG[i].reset(new Grid_Generator(rnd_gg(r, n, false)));
      CS[i].reset(new Constraint_System(rnd_cs(r, n, i == 1, 3, false)));
      GS[i].reset(new Generator_System(rnd_gs(r, n, i == 1, 3)));
      QS[i].reset(new Congruence_System(rnd_cgs(r, n, 3, false)));
      GGS[i].reset(new Grid_Generator_System(rnd_ggs(r, n, 3)));
    }
    // the initial values enter the specification as `new` steps
    for (int i = 0; i < 2; ++i) {
#define INIT(base, arr) J.line(step_line("new", "random", {base + i}, {}, "")); J.line("res" + val_str(*arr[i])); nsteps++;
      INIT(0, E) INIT(2, C) INIT(4, G) INIT(6, Q) INIT(8, GG) INIT(10, CS) INIT(12, GS) INIT(14, QS) INIT(16, GGS)
#undef INIT
    }
    observe_all();
  }

  template <class T> void value_ops(int base, std::unique_ptr<T> (&A)[2]) {
    int d = (int)r.below(2), s = r.chance(2, 5) ? d : 1 - d;
    unsigned k = r.below(4);
    if (k == 0) copy_ctor(base + d, A[d], base + (1 - d), *A[1 - d]);
    else if (k == 1) assign(base + d, *A[d], base + s, *A[s]);
    else swap_(base + d, *A[d], base + s, *A[s], (int)r.below(3));
  }
  template <class T> void dim_ops(int base, std::unique_ptr<T> (&A)[2], bool can_shrink) {
    int d = (int)r.below(2);
    T& x = *A[d];
    unsigned k = r.below(4);
    dimension_type sd = x.space_dimension();
    if (k == 0 || sd < 2) { dimension_type m = rdim(); if (!can_shrink && m < sd) m = sd + 1;
      op1("set_space_dimension", base + d, x, [&](T& x) { x.set_space_dimension(m); }, std::to_string(m)); }
    else if (k == 1) { dimension_type v = r.below(sd), w = r.below(sd);
      op1("swap_space_dimensions", base + d, x, [&](T& x) { x.swap_space_dimensions(Variable(v), Variable(w)); }); }
    else if (k == 2) { dimension_type v = r.below(sd), m = r.below(3);
      op1("shift_space_dimensions", base + d, x, [&](T& x) { x.shift_space_dimensions(Variable(v), m); }); }
    else { std::vector<Variable> cyc; for (dimension_type i = 0; i < sd; ++i) if (r.chance(2, 3)) cyc.push_back(Variable(i));
      if (cyc.size() < 2) return;
      op1("permute_space_dimensions", base + d, x, [&](T& x) { x.permute_space_dimensions(cyc); }); }
  }

  void expr_step() {
    int d = (int)r.below(2), a = r.chance(1, 2) ? d : 1 - d, b = r.chance(1, 2) ? d : 1 - d;
    LE& x = *E[d]; const LE& y = *E[a]; const LE& z = *E[b];
    Coefficient c = r.range(-3, 3); if (r.chance(1, 10)) { c *= 1000003; c *= 998244353; c *= 1000000007; }
    dimension_type v = r.below(n + 1);
    unsigned k = r.below(19);
    std::string rp = std::string("rx=") + (x.representation() == SPARSE ? "S" : "D") + " ry=" + (y.representation() == SPARSE ? "S" : "D");
    switch (k) {
    case 0: op2("e1 += e2", d, x, a, y, [](LE& x, const LE& y) { x += y; }, rp); break;
    case 1: op2("e1 -= e2", d, x, a, y, [](LE& x, const LE& y) { x -= y; }, rp); break;
    case 2: op2("add_mul_assign(e1, c, e2)", d, x, a, y, [&](LE& x, const LE& y) { add_mul_assign(x, c, y); }, rp); break;
    case 3: op2("sub_mul_assign(e1, c, e2)", d, x, a, y, [&](LE& x, const LE& y) { sub_mul_assign(x, c, y); }, rp); break;
    case 4: op1("e *= c", d, x, [&](LE& x) { x *= c; }); break;
    case 5: op1("neg_assign(e)", d, x, [&](LE& x) { neg_assign(x); }); break;
    case 6: op3("e1 = e2 + e3", d, x, a, y, b, z, [](LE& x, const LE& y, const LE& z) { x = y + z; }); break;
    case 7: op3("e1 = e2 - e3", d, x, a, y, b, z, [](LE& x, const LE& y, const LE& z) { x = y - z; }); break;
    case 8: op2("e1 = c * e2", d, x, a, y, [&](LE& x, const LE& y) { x = c * y; }); break;
    case 9: op1("e += c * v", d, x, [&](LE& x) { add_mul_assign(x, c, Variable(v)); }); break;
    case 10: op1("e -= v", d, x, [&](LE& x) { x -= Variable(v); }); break;
    case 11: op1("set_coefficient", d, x, [&](LE& x) { if (v < x.space_dimension()) x.set_coefficient(Variable(v), c); }); break;
    case 12: op1("set_inhomogeneous_term", d, x, [&](LE& x) { x.set_inhomogeneous_term(c); }); break;
    case 13: op2("e1 = e2; e1 /= c", d, x, a, y, [&](LE& x, const LE& y) { x = y; if (c != 0) x /= c; }); break;
    case 14: op1("set_representation", d, x, [&](LE& x) { x.set_representation(x.representation() == DENSE ? SPARSE : DENSE); }); break;
    case 15: op2("e1 = LE(e2, repr)", d, x, a, y, [&](LE& x, const LE& y) { x = LE(y, c > 0 ? SPARSE : DENSE); }); break;
    case 16: { int s = (int)r.below(2); make1("e = LE(constraint)", d, x, 2 + s, *C[s], [](const Constraint& c) { return LE(c.expression()); }); break; }
    case 17: { int s = (int)r.below(2); make1("e = LE(generator)", d, x, 4 + s, *G[s], [](const Generator& g) { return LE(g.expression()); }); break; }
    default: { int s = (int)r.below(2); make1("e = LE(congruence)", d, x, 6 + s, *Q[s], [](const Congruence& g) { return LE(g.expression()); }); break; }
    }
  }

  void make_step() {
    int d = (int)r.below(2), a = (int)r.below(2), b = r.chance(1, 2) ? a : 1 - a;   // one expression in two positions half of the time
    const LE& y = *E[a]; const LE& z = *E[b];
    Coefficient c = r.range(-3, 3), den = r.range(1, 3);
    unsigned k = r.below(17);
    switch (k) {
    case 0: make2("c = (e1 == e2)", 2 + d, *C[d], a, y, b, z, [](const LE& y, const LE& z) { return Constraint(y == z); }); break;
    case 1: make2("c = (e1 >= e2)", 2 + d, *C[d], a, y, b, z, [](const LE& y, const LE& z) { return Constraint(y >= z); }); break;
    case 2: make2("c = (e1 <= e2)", 2 + d, *C[d], a, y, b, z, [](const LE& y, const LE& z) { return Constraint(y <= z); }); break;
    case 3: make2("c = (e1 > e2)", 2 + d, *C[d], a, y, b, z, [](const LE& y, const LE& z) { return Constraint(y > z); }); break;
    case 4: make2("c = (e1 < e2)", 2 + d, *C[d], a, y, b, z, [](const LE& y, const LE& z) { return Constraint(y < z); }); break;
    case 5: make1("c = (e >= n)", 2 + d, *C[d], a, y, [&](const LE& y) { return Constraint(y >= c); }); break;
    case 6: make1("c = Constraint(cg)", 2 + d, *C[d], 6 + a, *Q[a], [](const Congruence& q) { return Constraint(q); }); break;
    case 7: make1("g = point(e, d)", 4 + d, *G[d], a, y, [&](const LE& y) { return point(y, den); }); break;
    case 8: make1("g = closure_point(e, d)", 4 + d, *G[d], a, y, [&](const LE& y) { return closure_point(y, den); }); break;
    case 9: make1("g = ray(e)", 4 + d, *G[d], a, y, [](const LE& y) { return ray(y); }); break;
    case 10: make1("g = line(e)", 4 + d, *G[d], a, y, [](const LE& y) { return line(y); }); break;
    case 11: make2("cg = (e1 %= e2) / m", 6 + d, *Q[d], a, y, b, z, [&](const LE& y, const LE& z) { return Congruence((y %= z) / den); }); break;
    case 12: make1("cg = Congruence(c)", 6 + d, *Q[d], 2 + a, *C[a], [](const Constraint& c) { return Congruence(c); }); break;
    case 13: op1("cg /= m", 6 + d, *Q[d], [&](Congruence& q) { q /= den; }); break;
    case 14: make1("gg = grid_point(e, d)", 8 + d, *GG[d], a, y, [&](const LE& y) { return grid_point(y, den); }); break;
    case 15: make1("gg = parameter(e, d)", 8 + d, *GG[d], a, y, [&](const LE& y) { return parameter(y, den); }); break;
    default: make1("gg = grid_line(e)", 8 + d, *GG[d], a, y, [](const LE& y) { return grid_line(y); }); break;
    }
  }

  void sys_step() {
    int d = (int)r.below(2), a = r.chance(1, 2) ? d : 1 - d, s = (int)r.below(2);
    unsigned sel = r.below(8);
    unsigned k = r.below(26);
    switch (k) {
    case 0: op2("cs.insert(c)", 10 + d, *CS[d], 2 + s, *C[s], [](Constraint_System& x, const Constraint& c) { x.insert(c); }); break;
    case 1: case 2: op2("cs.insert(element of a system)", 10 + d, *CS[d], 10 + a, *CS[a], [sel](Constraint_System& x, const Constraint_System& y) {
        const Constraint* c = kth(y, sel); if (c) x.insert(*c); }); break;
    case 3: op1("cs.clear()", 10 + d, *CS[d], [](Constraint_System& x) { x.clear(); }); break;
    case 4: make1("cs = Constraint_System(c)", 10 + d, *CS[d], 2 + s, *C[s], [](const Constraint& c) { return Constraint_System(c); }); break;
    case 5: make1("cs = Constraint_System(cgs)", 10 + d, *CS[d], 14 + s, *QS[s], [](const Congruence_System& q) { return Constraint_System(q); }); break;
    case 6: op2("gs.insert(g)", 12 + d, *GS[d], 4 + s, *G[s], [](Generator_System& x, const Generator& g) { x.insert(g); }); break;
    case 7: case 8: op2("gs.insert(element of a system)", 12 + d, *GS[d], 12 + a, *GS[a], [sel](Generator_System& x, const Generator_System& y) {
        const Generator* g = kth(y, sel); if (g) x.insert(*g); }); break;
    case 9: op1("gs.clear()", 12 + d, *GS[d], [](Generator_System& x) { x.clear(); }); break;
    case 10: make1("gs = Generator_System(g)", 12 + d, *GS[d], 4 + s, *G[s], [](const Generator& g) { return Generator_System(g); }); break;
    case 11: recycle("gs.insert(g, Recycle_Input)", 12 + d, *GS[d], 4 + s, *G[s], [](Generator_System& x, Generator& g) { x.insert(g, Recycle_Input()); }); break;
    case 12: op2("cgs.insert(cg)", 14 + d, *QS[d], 6 + s, *Q[s], [](Congruence_System& x, const Congruence& q) { x.insert(q); }); break;
    case 13: op2("cgs.insert(c)", 14 + d, *QS[d], 2 + s, *C[s], [](Congruence_System& x, const Constraint& c) { x.insert(c); }); break;
    case 14: case 15: op2("cgs.insert(element of a system)", 14 + d, *QS[d], 14 + a, *QS[a], [sel](Congruence_System& x, const Congruence_System& y) {
        const Congruence* c = kth(y, sel); if (c) x.insert(*c); }); break;
    case 16: op2("cgs.insert(cgs)", 14 + d, *QS[d], 14 + a, *QS[a], [](Congruence_System& x, const Congruence_System& y) { x.insert(y); }); break;
    case 17: make1("cgs = Congruence_System(cs)", 14 + d, *QS[d], 10 + s, *CS[s], [](const Constraint_System& c) { return Congruence_System(c); }); break;
    case 18: recycle("cgs.insert(cg, Recycle_Input)", 14 + d, *QS[d], 6 + s, *Q[s], [](Congruence_System& x, Congruence& q) { x.insert(q, Recycle_Input()); }); break;
    case 19: if (a != d) { recycle("cgs.insert(cgs, Recycle_Input)", 14 + d, *QS[d], 14 + a, *QS[a], [](Congruence_System& x, Congruence_System& y) { x.insert(y, Recycle_Input()); }); break; }
      /* fall through */
    case 20: op1("cgs.clear()", 14 + d, *QS[d], [](Congruence_System& x) { x.clear(); }); break;
    case 21: op2("ggs.insert(gg)", 16 + d, *GGS[d], 8 + s, *GG[s], [](Grid_Generator_System& x, const Grid_Generator& g) { x.insert(g); }); break;
    case 22: case 23: op2("ggs.insert(element of a system)", 16 + d, *GGS[d], 16 + a, *GGS[a], [sel](Grid_Generator_System& x, const Grid_Generator_System& y) {
        const Grid_Generator* g = kth(y, sel); if (g) x.insert(*g); }); break;
    case 24: recycle("ggs.insert(gg, Recycle_Input)", 16 + d, *GGS[d], 8 + s, *GG[s], [](Grid_Generator_System& x, Grid_Generator& g) { x.insert(g, Recycle_Input()); }); break;
    default: if (a != d) { recycle("ggs.insert(ggs, Recycle_Input)", 16 + d, *GGS[d], 16 + a, *GGS[a], [](Grid_Generator_System& x, Grid_Generator_System& y) { x.insert(y, Recycle_Input()); }); break; }
      op1("ggs.clear()", 16 + d, *GGS[d], [](Grid_Generator_System& x) { x.clear(); }); break;
    }
  }

  void step() {
    unsigned k = r.below(100);
    if (k < 25) { unsigned t = r.below(9);
      switch (t) { case 0: value_ops(0, E); break; case 1: value_ops(2, C); break; case 2: value_ops(4, G); break; case 3: value_ops(6, Q); break;
        case 4: value_ops(8, GG); break; case 5: value_ops(10, CS); break; case 6: value_ops(12, GS); break; case 7: value_ops(14, QS); break;
        default: value_ops(16, GGS); break; }
      return; }
    if (k < 33) { unsigned t = r.below(5);
      switch (t) { case 0: { int d = (int)r.below(2); dimension_type m = rdim(); op1("set_space_dimension", d, *E[d], [&](LE& x) { x.set_space_dimension(m); }); break; }
        case 1: dim_ops(2, C, true); break; case 2: dim_ops(4, G, false); break; case 3: dim_ops(6, Q, true); break; default: dim_ops(8, GG, false); break; }
      return; }
    if (k < 55) { expr_step(); return; }
    if (k < 75) { make_step(); return; }
    sys_step();
  }
  void run(long len) { init(); for (long i = 0; i < len; ++i) step(); }
};


// =========================================================================================
// Determinate<PSET> itself, in lock step with the Lean heap machine PPLV.Value.Cow
// =========================================================================================
//   dstep construct h | copy h y | assign h y | destroy h | swap h y | mutate h name | binop h y name
//   res <value>                   value given to construct / result of f, g computed on deep copies of the point sets
//   dq <name> h y <0|1>           const queries, judged against the model's values
//   dobs h dead | dobs h <address of the const pointset()> <value>
//   dalloc <faults>               double deletes / deletes of foreign pointers seen by operator delete so far
//   dfinal <Rep-sized live blocks> <same at the start> <all live blocks> <same at the start>
template <class PSET> struct DetTr;
template <> struct DetTr<C_Polyhedron> { static const Shape sh = SH_POLY; static const bool grid = false; };
template <> struct DetTr<Grid> { static const Shape sh = SH_EQ; static const bool grid = true; };

template <class PSET> struct DetHist {
  typedef Determinate<PSET> Det;
  struct RepLike { unsigned long references; PSET pset; };      // same layout as the private Determinate::Rep
  static const int N = 6;
  Det* X[N];
  Rng r;
  uint64_t seed0;
  dimension_type n;
  bool mute = false;
  void emit(const std::string& l) { if (!mute) J.line(l); }
  static const bool grid = DetTr<PSET>::grid;
  DetHist(uint64_t seed, dimension_type n_) : r(seed), seed0(seed), n(n_) { for (int i = 0; i < N; ++i) X[i] = 0; g_semantic_sys = true; g_dim = n_; }

  static const PSET& cps(const Det& d) { return d.pointset(); }       // the const accessor: no mutate()
  unsigned long addr(int h) { return (unsigned long) (const void*) &cps(*X[h]); }
  void observe() {
    for (int h = 0; h < N; ++h) {
      if (!X[h]) { emit("dobs " + std::to_string(h) + " dead"); continue; }
      OS o; o << "dobs " << h << " " << addr(h) << val_str(cps(*X[h])); emit(o.str());
    }
    emit("dalloc " + std::to_string(track::g_faults));
  }
  PSET* rnd_pset() { return Tr<PSET>::make(r, n); }
  int pick_live() { int c[N], k = 0; for (int i = 0; i < N; ++i) if (X[i]) c[k++] = i; return k ? c[r.below(k)] : -1; }
  int pick_dead() { int c[N], k = 0; for (int i = 0; i < N; ++i) if (!X[i]) c[k++] = i; return k ? c[r.below(k)] : -1; }
  // a live handle (other than h if possible) that shares h's representation, or -1
  int pick_sharing(int h) { int c[N], k = 0; for (int i = 0; i < N; ++i) if (X[i] && i != h && addr(i) == addr(h)) c[k++] = i; return k ? c[r.below(k)] : -1; }
  int pick_partner(int h) {
    unsigned k = r.below(10);
    if (k < 3) return h;                                      // d = d, swap(d, d), d.op(d)
    if (k < 6) { int s = pick_sharing(h); if (s >= 0) return s; }
    return pick_live();
  }

  void construct(int h) {
    std::unique_ptr<PSET> p(rnd_pset());
    unsigned k = r.below(4);
    emit("dstep construct " + std::to_string(h));
    emit("res" + val_str(*p));
    if (k == 0 && !grid) { Constraint_System cs(p->constraints()); X[h] = new Det(cs); }
    else if (k == 0 && grid) { Congruence_System cgs(p->congruences()); if (p->is_empty()) X[h] = new Det(*p); else X[h] = new Det(cgs); }
    else X[h] = new Det(*p);
    observe();
  }
  template <class F> void mutate(int h, const char* nm, F f) {
    emit(std::string("dstep mutate ") + std::to_string(h) + " " + nm);
    { PSET t(cps(*X[h])); try { f(t); } catch (...) {} emit("res" + val_str(t)); }
    try { f(X[h]->pointset()); } catch (...) { emit("exc " + pplv::exc_class() + " -"); }
    observe();
  }
  template <class G, class R> void binop(int h, int y, const char* nm, G g, R real) {
    emit(std::string("dstep binop ") + std::to_string(h) + " " + std::to_string(y) + " " + nm);
    { PSET t(cps(*X[h])), u(cps(*X[y])); try { g(t, u); } catch (...) {} emit("res" + val_str(t)); }
    try { real(*X[h], *X[y]); } catch (...) { emit("exc " + pplv::exc_class() + " -"); }
    observe();
  }
  void fix_dim(int h) {
    if (cps(*X[h]).space_dimension() > n)
      mutate(h, "remove_space_dimensions(higher)", [&](PSET& p) { Variables_Set vs; for (dimension_type k = n; k < p.space_dimension(); ++k) vs.insert(Variable(k)); p.remove_space_dimensions(vs); });
  }

  void step() {
    int h = pick_live();
    unsigned k = r.below(100);
    if (h < 0 || (k < 14 && pick_dead() >= 0)) { int d = pick_dead(); if (d >= 0) { construct(d); return; } }
    if (k < 30 && pick_dead() >= 0) { int d = pick_dead();
      emit("dstep copy " + std::to_string(d) + " " + std::to_string(h)); X[d] = new Det(*X[h]); observe(); return; }
    if (k < 48) { int y = pick_partner(h);
      emit("dstep assign " + std::to_string(h) + " " + std::to_string(y)); *X[h] = *X[y]; observe(); return; }
    if (k < 58) { int y = pick_partner(h);
      emit("dstep swap " + std::to_string(h) + " " + std::to_string(y));
      if (r.chance(1, 2)) X[h]->m_swap(*X[y]); else { using std::swap; swap(*X[h], *X[y]); }
      observe(); return; }
    if (k < 66) { emit("dstep destroy " + std::to_string(h)); delete X[h]; X[h] = 0; observe(); return; }
    if (k < 80) {
      unsigned j = r.below(5);
      dimension_type v = r.below(n);
      if (j == 0) mutate(h, "pointset()", [](PSET&) {});        // the non-const accessor alone: clones iff shared
      else if (j == 1) { Constraint c = shape_con(r, n, DetTr<PSET>::sh); mutate(h, "pointset().refine_with_constraint", [&](PSET& p) { p.refine_with_constraint(c); }); }
      else if (j == 2) { LE e = rnd_expr(r, n, 2, false); mutate(h, "pointset().affine_image", [&](PSET& p) { p.affine_image(Variable(v), e); }); }
      else if (j == 3) { Congruence cg = rnd_cg(r, n, !grid); mutate(h, "pointset().refine_with_congruence", [&](PSET& p) { p.refine_with_congruence(cg); }); }
      else mutate(h, "pointset().unconstrain", [&](PSET& p) { p.unconstrain(Variable(v)); });
      return; }
    if (k < 94) {
      int y = pick_partner(h);
      unsigned j = r.below(6);
      if (j == 0) binop(h, y, "upper_bound_assign", [](PSET& a, const PSET& b) { a.upper_bound_assign(b); }, [](Det& a, const Det& b) { a.upper_bound_assign(b); });
      else if (j == 1) binop(h, y, "meet_assign", [](PSET& a, const PSET& b) { a.intersection_assign(b); }, [](Det& a, const Det& b) { a.meet_assign(b); });
      else if (j == 2) binop(h, y, "weakening_assign", [](PSET& a, const PSET& b) { a.difference_assign(b); }, [](Det& a, const Det& b) { a.weakening_assign(b); });
      else if (j == 3) binop(h, y, "lift_op_assign(time_elapse_assign)", [](PSET& a, const PSET& b) { a.time_elapse_assign(b); },
                             [](Det& a, const Det& b) { Det::lift_op_assign([](PSET& p, const PSET& q) { p.time_elapse_assign(q); })(a, b); });
      else if (j == 4 && n <= 2) { binop(h, y, "concatenate_assign", [](PSET& a, const PSET& b) { a.concatenate_assign(b); }, [](Det& a, const Det& b) { a.concatenate_assign(b); }); fix_dim(h); }
      else binop(h, y, "upper_bound_assign", [](PSET& a, const PSET& b) { a.upper_bound_assign(b); }, [](Det& a, const Det& b) { a.upper_bound_assign(b); });
      return; }
    { int y = pick_partner(h); unsigned j = r.below(6); bool b = false; const char* nm = "";
      const Det& a = *X[h]; const Det& c = *X[y];
      switch (j) { case 0: nm = "definitely_entails"; b = a.definitely_entails(c); break;
        case 1: nm = "is_definitely_equivalent_to"; b = a.is_definitely_equivalent_to(c); break;
        case 2: nm = "operator=="; b = (a == c); break;
        case 3: nm = "operator!="; b = (a != c); break;
        case 4: nm = "is_top"; b = a.is_top(); break;
        default: nm = "is_bottom"; b = a.is_bottom(); break; }
      emit(std::string("dq ") + nm + " " + std::to_string(h) + " " + std::to_string(y) + " " + (b ? "1" : "0"));
      observe(); }
  }

  void run(long len) {
    // Pass 1 (silent): the same history, so that every lazily grown scratch object of the library
    // (pooled temporaries, static work vectors) has its final size before the baseline is taken.
    mute = true;
    for (long i = 0; i < len; ++i) step();
    for (int h = 0; h < N; ++h) { delete X[h]; X[h] = 0; }
    // Pass 2: journalled, with poisoning and no reuse of freed blocks.
    mute = false; r = Rng(seed0);
    track::g_class = sizeof(RepLike); track::g_class_live = 0;
    long base_all = track::g_live;
    track::g_quarantine = true;
    for (long i = 0; i < len; ++i) step();
    // destruction in arbitrary order
    for (;;) { int h = pick_live(); if (h < 0) break; emit("dstep destroy " + std::to_string(h)); delete X[h]; X[h] = 0; observe(); }
    track::g_quarantine = false;
    { long scratch = 0, other = 0; std::string sizes;
      track::survivors(scratch, other, sizeof(Temp_Item<mpz_class>), sizeof(Temp_Item<mpq_class>), sizes);
      OS o; o << "dfinal " << track::g_class_live << " 0 " << track::g_live << " " << base_all << " # survivors=" << (scratch + other) << " sizes=" << sizes; emit(o.str()); }
    track::g_class = 0; track::g_nreg = 0;
  }
};

// =========================================================================================
static const char* FAMS[] = { "lin", "cpoly", "nnc", "bds", "oct", "box", "grid", "pps", "prod", "det_cpoly", "det_grid" };
static const int NFAM = 11;

template <class D> static void run_dom(uint64_t seed, dimension_type n, long len) { DomHist<D> H(seed, n); H.run(len); }

int main(int argc, char** argv) {
  long seed = pplv::arg_long(argc, argv, "--seed", 1);
  long first = pplv::arg_long(argc, argv, "--first", 0);
  long last = pplv::arg_long(argc, argv, "--last", 9);
  long len = pplv::arg_long(argc, argv, "--len", 15);
  long batch = pplv::arg_long(argc, argv, "--batch", 6);
  long maxdim = pplv::arg_long(argc, argv, "--maxdim", 3);
  std::string only = pplv::arg_str(argc, argv, "--fam", "all");
  long cpu = pplv::arg_long(argc, argv, "--cpu", 20);             // CPU seconds per history (a runaway becomes `crash SIGXCPU')
  long max_crashes = pplv::arg_long(argc, argv, "--max-crashes", 40);
  (void) batch;
  // one forked child per history (crash isolation); the run stops early when histories keep crashing
  long crashes = 0;
  for (long h = first; h < last; ++h) {
    fflush(stdout);
    pid_t pid = fork();
    if (pid < 0) { perror("fork"); return 2; }
    if (pid == 0) {
      struct rlimit rl; rl.rlim_cur = (rlim_t) cpu; rl.rlim_max = (rlim_t) cpu + 2; setrlimit(RLIMIT_CPU, &rl);
      struct rlimit core; core.rlim_cur = core.rlim_max = 0; setrlimit(RLIMIT_CORE, &core);
#if !defined(__SANITIZE_ADDRESS__)
      struct rlimit as; as.rlim_cur = as.rlim_max = (rlim_t) 3 << 30; setrlimit(RLIMIT_AS, &as);   // poisoned sizes must not exhaust the machine
#endif
      int fam = (int)(h % NFAM);
      if (only != "all") { fam = -1; for (int i = 0; i < NFAM; ++i) if (only == FAMS[i]) fam = i; if (fam < 0) _exit(3); }
      uint64_t s = (uint64_t)seed * 1000003ull + (uint64_t)h;
      Rng pre(s ^ 0x5bd1e995u);
      dimension_type n = 1 + pre.below((unsigned)maxdim);
      if ((fam == 7 || fam == 8) && n > 2 && pre.chance(1, 2)) n = 2;
      { OS o; o << "hist " << h << " " << FAMS[fam] << " " << n; J.line(o.str()); }
      try {
        switch (fam) {
        case 0: { LinHist H(s, n); H.run(len * 2); break; }
        case 1: run_dom<C_Polyhedron>(s, n, len); break;
        case 2: run_dom<NNC_Polyhedron>(s, n, len); break;
        case 3: run_dom<BDS>(s, n, len); break;
        case 4: run_dom<OCT>(s, n, len); break;
        case 5: run_dom<Rational_Box>(s, n, len); break;
        case 6: run_dom<Grid>(s, n, len); break;
        case 7: run_dom<PPS>(s, n, len); break;
        case 8: run_dom<PROD>(s, n, len); break;
        case 9: { DetHist<C_Polyhedron> H(s, n); H.run(len * 3); break; }
        default: { DetHist<Grid> H(s, n); H.run(len * 3); break; }
        }
      } catch (...) { J.line("crash exception " + pplv::exc_class()); }
      J.line("end");
      fflush(stdout);
      _exit(0);
    }
    int st = 0;
    waitpid(pid, &st, 0);
    if (WIFSIGNALED(st)) { J.line(std::string("crash ") + pplv::signal_name(WTERMSIG(st))); J.line("end"); ++crashes; }
    else if (WIFEXITED(st) && WEXITSTATUS(st) != 0) { J.line("crash exit " + std::to_string(WEXITSTATUS(st))); J.line("end"); ++crashes; }
    if (crashes >= max_crashes) { J.line("aborted " + std::to_string(crashes) + " histories crashed, " + std::to_string(last - h - 1) + " not run"); break; }
  }
  return 0;
}
