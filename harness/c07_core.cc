// C07 stage 2 harness: the private state of the REAL PIP solver for seeded small fresh problems.
//
//   c07_core --seed S --first A --last B [--cpu SEC]        (A may be negative: ids -1 .. -3 are the fixed corpus)
//
// For every case: the tableau of the root PIP_Solution_Node as `update_tableau` builds it (before `solve`),
// the initial context, then `PIP_Problem::solve()` and the whole resulting tree read through the node
// pointers: constraints and artificial parameters of every node, and the FINAL tableau (s, t, denominator,
// basis, mapping, var_row, var_column, sign) of every solution node.
//
// Journal (one event per line):
//   case <id>
//   prob <dim> <np> <p_1..p_np> big <d|-1> cut <0|1|2> piv <0|1>
//   cs <m> {<rel> <k> <a_0..a_{dim-1}>}*
//   root <node>             node = <ns> <nt> <den> <nr> s(nr*ns) t(nr*nt) <nb> basis.. <nm> mapping.. <nvr> var_row..
//                                  <nvc> var_column.. <nsg> sign.. <bigcol|-1>
//   ctx0 <rows> <cols> entries.. cfc <0|1>   the initial context computed by the harness from the data (before solve)
//   ctx <rows> <cols> entries..        the initial context (column 0 = constant term)   cfc <0|1>
//   status OPT|UNF
//   tree <tokens>     B | S <arts> <cons> <node> | D <arts> <cons> <tree:true> <tree:false>
//                     arts = <n> {<den> <len> <num_0..>}*   cons = <n> {<len> <row_0..>}*
//                     (rows over the parameter columns: constant, problem parameters, artificial parameters)
//   exc <class> | crash <signal> (written by the parent)
//   end
#include <iostream>
#include <sstream>
#include <fstream>
#include <string>
#include <vector>
#include <map>
#include <set>
#include <list>
#include <deque>
#include <memory>
#include <algorithm>
#include <limits>
#include <stdexcept>
#include <iterator>
#include <utility>
#include <functional>
#include <cmath>
#include <cstdlib>
#include <cstring>
#include <gmpxx.h>
#define private public
#define protected public
#include "ppl.hh"
#undef private
#undef protected
#include "common.hh"
#include "poly_io.hh"
#include <memory>
#include <sstream>

using namespace Parma_Polyhedra_Library;
using namespace pplv_io;
using pplv::Rng;

static pplv::Journal J(1);

struct Data {
  dimension_type dim = 0;
  std::vector<bool> is_param;
  std::vector<Constraint> cs;
  long big = -1;
  dimension_type nv() const { dimension_type n = 0; for (bool b : is_param) if (!b) ++n; return n; }
  dimension_type np() const { return dim - nv(); }
  Variables_Set params() const {
    Variables_Set s; for (dimension_type i = 0; i < dim; ++i) if (is_param[i]) s.insert(Variable(i)); return s;
  }
};

typedef PIP_Tree_Node::Row Row;

static void put_matrix(OS& o, const Matrix<Row>& m) {
  for (dimension_type i = 0; i < m.num_rows(); ++i)
    for (dimension_type j = 0; j < m.num_columns(); ++j) o << " " << m[i].get(j);
}
static void put_node(OS& o, const PIP_Solution_Node& n) {
  const PIP_Solution_Node::Tableau& T = n.tableau;
  o << " " << T.s.num_columns() << " " << T.t.num_columns() << " " << T.denom << " " << T.s.num_rows();
  put_matrix(o, T.s); put_matrix(o, T.t);
  o << " " << n.basis.size(); for (bool b : n.basis) o << " " << (b ? 1 : 0);
  o << " " << n.mapping.size(); for (dimension_type x : n.mapping) o << " " << x;
  o << " " << n.var_row.size(); for (dimension_type x : n.var_row) o << " " << x;
  o << " " << n.var_column.size(); for (dimension_type x : n.var_column) o << " " << x;
  o << " " << n.sign.size(); for (PIP_Solution_Node::Row_Sign x : n.sign) o << " " << (int) x;
  if (n.big_dimension == not_a_dimension()) o << " -1"; else o << " " << n.big_dimension;
}
// a linear form over the parameter columns: constant, problem parameters (increasing dimension), artificial ones
static void put_prow(OS& o, const Linear_Expression& e, Coefficient_traits::const_reference inhom, const Data& d) {
  dimension_type sd = e.space_dimension();
  dimension_type nart = sd > d.dim ? sd - d.dim : 0;
  o << " " << (1 + d.np() + nart) << " " << inhom;
  for (dimension_type i = 0; i < d.dim; ++i) if (d.is_param[i]) o << " " << (i < sd ? e.coefficient(Variable(i)) : Coefficient(0));
  for (dimension_type i = d.dim; i < sd; ++i) o << " " << e.coefficient(Variable(i));
}
static bool mentions_variable(const Linear_Expression& e, const Data& d) {
  for (dimension_type i = 0; i < d.dim && i < e.space_dimension(); ++i)
    if (!d.is_param[i] && e.coefficient(Variable(i)) != 0) return true;
  return false;
}
static bool g_bad = false;
static void put_common(OS& o, const PIP_Tree_Node* n, const Data& d) {
  o << " " << n->artificial_parameters.size();
  for (const PIP_Tree_Node::Artificial_Parameter& a : n->artificial_parameters) {
    o << " " << a.denominator();
    const Linear_Expression& e = a;
    if (mentions_variable(e, d)) g_bad = true;
    put_prow(o, e, e.inhomogeneous_term(), d);
  }
  // NB: plain member walk (the const_iterator of Constraint_System skips tautologies)
  dimension_type m = 0;
  for (Constraint_System::const_iterator c = n->constraints_.begin(); c != n->constraints_.end(); ++c) ++m;
  o << " " << m;
  for (Constraint_System::const_iterator c = n->constraints_.begin(); c != n->constraints_.end(); ++c) {
    Linear_Expression e(c->expression());
    if (mentions_variable(e, d) || !c->is_nonstrict_inequality()) g_bad = true;
    put_prow(o, e, c->inhomogeneous_term(), d);
  }
}
static void walk(OS& o, const PIP_Tree_Node* n, const Data& d, int depth) {
  if (n == nullptr) { o << " B"; return; }
  if (depth > 200) { o << " TOO_DEEP"; return; }
  if (const PIP_Solution_Node* s = n->as_solution()) {
    o << " S"; put_common(o, n, d); put_node(o, *s); return;
  }
  const PIP_Decision_Node* dn = n->as_decision();
  if (dn == nullptr) { o << " NEITHER"; return; }
  o << " D"; put_common(o, n, d);
  walk(o, dn->true_child, d, depth + 1);
  walk(o, dn->false_child, d, depth + 1);
}

static const PIP_Problem::Control_Parameter_Value CUTS[3] = {
  PIP_Problem::CUTTING_STRATEGY_FIRST, PIP_Problem::CUTTING_STRATEGY_DEEPEST, PIP_Problem::CUTTING_STRATEGY_ALL };
static const PIP_Problem::Control_Parameter_Value PIVS[2] = {
  PIP_Problem::PIVOT_ROW_STRATEGY_FIRST, PIP_Problem::PIVOT_ROW_STRATEGY_MAX_COLUMN };

// ------------------------------------------------------------------ random rows (as in c07_pip.cc)
static long coef(Rng& r) {
  unsigned k = r.below(12);
  if (k < 3) return 0;
  if (k < 8) return r.range(-1, 1);
  if (k < 11) return r.range(-3, 3);
  return r.range(-5, 5);
}
static Constraint rnd_row(Rng& r, const Data& d, bool only_params, bool allow_strict) {
  for (int tries = 0; ; ++tries) {
    Linear_Expression e;
    if (d.dim > 0) e += 0 * Variable(d.dim - 1);
    bool any = false;
    for (dimension_type i = 0; i < d.dim; ++i) {
      if (only_params && !d.is_param[i]) continue;
      long c = coef(r);
      if ((long) i == d.big && !r.chance(1, 3)) c = 0;
      if ((long) i == d.big && c != 0) c = (c > 0 ? 1 : -1);
      if (c != 0) any = true;
      e += Coefficient(c) * Variable(i);
    }
    if (!any && tries < 5 && d.dim > 0) continue;
    e += Coefficient(r.range(-6, 6));
    unsigned k = r.below(20);
    if (k < 3) return e == 0;
    if (allow_strict && k < 6) return e > 0;
    return e >= 0;
  }
}
static Constraint shaped_row(Rng& r, const Data& d) {
  std::vector<dimension_type> vars, pars;
  for (dimension_type i = 0; i < d.dim; ++i) (d.is_param[i] ? pars : vars).push_back(i);
  if (vars.empty()) return rnd_row(r, d, false, true);
  Variable x(vars[r.below(vars.size())]);
  Linear_Expression rhs;
  if (d.dim > 0) rhs += 0 * Variable(d.dim - 1);
  if (!pars.empty() && r.chance(3, 4)) {
    dimension_type q = pars[r.below(pars.size())];
    long c = ((long) q == d.big) ? 1 : r.range(1, 3);
    rhs += Coefficient(c) * Variable(q);
  }
  if (vars.size() > 1 && r.chance(1, 3)) {
    Variable y(vars[r.below(vars.size())]);
    if (y.id() != x.id()) rhs += Coefficient(r.range(-2, 2)) * y;
  }
  rhs += Coefficient(r.range(-4, 6));
  long a = r.range(1, 4);
  switch (r.below(5)) {
    case 0: return a * x >= rhs;
    case 1: return a * x <= rhs;
    case 2: return a * x == rhs;
    case 3: return a * x > rhs;
    default: return a * x + Coefficient(r.range(1, 3)) * Variable(vars[r.below(vars.size())]) >= rhs;
  }
}

static void solve_and_journal(const Data& d, int cut, int piv);

// the fixed corpus (negative case ids): witnesses of findings
static void fixed_case(long id, Data& d) {
  Variable A(0), B(1), C(2), D(3), E(4);
  switch (id) {
    case -1: // KF-C07-12: weak NEGATIVE of the second sign refinement, PIVOT_ROW_STRATEGY_MAX_COLUMN
      d.dim = 5; d.is_param = { false, false, false, true, true };
      d.cs.push_back(4 * A + C + E - 3 == 0); d.cs.push_back(C - E - 3 >= 0);
      d.cs.push_back(2 * B + 2 * C - 3 * D - 3 == 0); d.cs.push_back(B + 2 * C - 2 * E + 3 >= 0);
      solve_and_journal(d, 0, 1); break;
    case -2: // the same under the default strategies (right answer)
      d.dim = 5; d.is_param = { false, false, false, true, true };
      d.cs.push_back(4 * A + C + E - 3 == 0); d.cs.push_back(C - E - 3 >= 0);
      d.cs.push_back(2 * B + 2 * C - 3 * D - 3 == 0); d.cs.push_back(B + 2 * C - 2 * E + 3 >= 0);
      solve_and_journal(d, 0, 0); break;
    case -3: // class documentation example
      d.dim = 4; d.is_param = { false, false, true, true };
      d.cs.push_back(3 * B >= -2 * A + 8); d.cs.push_back(B <= 4 * A - 4); d.cs.push_back(B <= D); d.cs.push_back(A <= C);
      solve_and_journal(d, 0, 0); break;
    default: J.line("end"); break;
  }
}
static const long N_FIXED = 3;

static void one_case(uint64_t seed, long id) {
  Rng r(seed * 7000003ull + (uint64_t) id);
  { OS o; o << "case " << id; J.line(o.str()); }
  Data d;
  if (id < 0) { fixed_case(id, d); return; }
  dimension_type nv = 1 + r.below(3), np = r.chance(1, 5) ? 0 : 1 + r.below(2);
  d.dim = nv + np;
  d.is_param.assign(d.dim, false);
  if (r.chance(3, 4)) for (dimension_type i = nv; i < d.dim; ++i) d.is_param[i] = true;
  else { dimension_type left = np; while (left) { dimension_type i = r.below(d.dim); if (!d.is_param[i]) { d.is_param[i] = true; --left; } } }
  if (np > 0 && r.chance(1, 10)) { std::vector<dimension_type> ps; for (dimension_type i = 0; i < d.dim; ++i) if (d.is_param[i]) ps.push_back(i); d.big = ps[r.below(ps.size())]; }
  unsigned n = 1 + r.below(5);
  for (unsigned i = 0; i < n; ++i) {
    unsigned k = r.below(10);
    d.cs.push_back((k < 6) ? shaped_row(r, d) : (k < 8 && d.np() > 0) ? rnd_row(r, d, true, true) : rnd_row(r, d, false, true));
  }
  int cut = r.chance(1, 2) ? 0 : (int) r.below(3);
  int piv = r.chance(1, 2) ? 0 : 1;
  solve_and_journal(d, cut, piv);
}

static void solve_and_journal(const Data& d, int cut, int piv) {
  {
    OS o; o << "prob " << d.dim << " " << d.np();
    for (dimension_type i = 0; i < d.dim; ++i) if (d.is_param[i]) o << " " << i;
    o << " big " << d.big << " cut " << cut << " piv " << piv;
    J.line(o.str());
    OS c; c << "cs " << d.cs.size();
    for (const Constraint& k : d.cs) put_con(c, k, d.dim);
    J.line(c.str());
  }
  try {
    Variables_Set ps = d.params();
    PIP_Problem pip(d.dim, d.cs.begin(), d.cs.end(), ps);
    if (d.big >= 0) pip.set_big_parameter_dimension((dimension_type) d.big);
    pip.set_control_parameter(CUTS[cut]);
    pip.set_control_parameter(PIVS[piv]);
    {
      // the root as PIP_Problem::solve() is about to build it (PIP_Problem.cc:144-300 for a fresh problem)
      PIP_Solution_Node root(&pip);
      root.update_tableau(pip, pip.external_space_dim, pip.first_pending_constraint, pip.input_cs, pip.parameters);
      OS o; o << "root"; put_node(o, root); J.line(o.str());
    }
    {
      // the initial context as PIP_Problem::solve() will build it (PIP_Problem.cc:164-237), computed here from the
      // data so that it is known even when solve() does not return; the real one follows as `ctx`
      std::vector<std::vector<Coefficient> > rows;
      for (const Constraint& c : d.cs) {
        bool has_var = false;
        for (dimension_type i = 0; i < d.dim && i < c.space_dimension(); ++i)
          if (!d.is_param[i] && c.coefficient(Variable(i)) != 0) has_var = true;
        if (has_var) continue;
        std::vector<Coefficient> row;
        Coefficient k = c.inhomogeneous_term(); if (c.is_strict_inequality()) --k;
        row.push_back(k);
        for (dimension_type i = 0; i < d.dim; ++i) if (d.is_param[i]) row.push_back(i < c.space_dimension() ? c.coefficient(Variable(i)) : Coefficient(0));
        rows.push_back(row);
        if (c.is_equality()) { for (Coefficient& x : row) neg_assign(x); rows.push_back(row); }
      }
      OS o; o << "ctx0 " << rows.size() << " " << (1 + d.np());
      for (auto& row : rows) for (auto& x : row) o << " " << x;
      o << " cfc " << (rows.empty() ? 0 : 1);
      J.line(o.str());
    }
    PIP_Problem_Status st = pip.solve();
    {
      const Matrix<Row>& c = pip.initial_context;
      OS o; o << "ctx " << c.num_rows() << " " << c.num_columns(); put_matrix(o, c);
      o << " cfc " << (c.num_rows() > 0 ? 1 : 0);
      J.line(o.str());
    }
    J.line(st == OPTIMIZED_PIP_PROBLEM ? "status OPT" : "status UNF");
    g_bad = false;
    OS t; t << "tree"; walk(t, pip.current_solution, d, 0); J.line(t.str());
    if (g_bad) J.line("# node constraint or artificial parameter mentions a problem variable / is not >=");
    J.line(g_bad ? "shape bad" : "shape ok");
  } catch (...) {
    J.line("exc " + pplv::exc_class());
  }
  J.line("end");
}

int main(int argc, char** argv) {
  long seed = pplv::arg_long(argc, argv, "--seed", 1);
  long first = pplv::arg_long(argc, argv, "--first", 0);
  long last = pplv::arg_long(argc, argv, "--last", 10);
  long cpu = pplv::arg_long(argc, argv, "--cpu", 4);
  auto body = [&](long b) {
    struct rlimit rl; rl.rlim_cur = rl.rlim_max = (rlim_t) 1500 * 1024 * 1024; setrlimit(RLIMIT_AS, &rl);
    one_case((uint64_t) seed, b);
  };
  return pplv::run_batches(first, last, body, (int) cpu);
}
