// C11 harness: calls the real Checked_Number<T, Policy> / Checked:: functions in-process and
// journals (stored value, result code) for every case.
//
//   c11_checked --mode cfg                         type and policy constants of this build
//   c11_checked --mode tab8 --policy <P|all> [--seed n] [--part i --parts n]
//                                                   EXHAUSTIVE 8-bit tables (see grammar below)
//   c11_checked --mode wide --seed n --count n      boundary-biased + random cases for 16/32/64 bits
//   c11_checked --mode prog --seed n --count n      random straight-line coefficient computations, bounded vs mpz
//   c11_checked --mode one <T> <P> <op> <dir> <to0> <x> <y> <e>    a single case (replay)
//
// Journal grammar (all integers decimal = the mathematical value of the operand in its type):
//   cfg type <T> <bits> <signed> <useNeg> <useAdd> <useSub> <useMul> <lbits>
//   cfg fix <div|subMul|umod|isqrt|lcm> <0|1>      repair of KF-C11-1..5 present in this tree (measured on the witness)
//   cfg policy <P> <check_overflow> <check_inf_add_inf> <check_inf_sub_inf> <check_inf_mul_zero>
//              <check_div_zero> <check_inf_div_inf> <check_inf_mod> <check_sqrt_neg> <has_nan> <has_infinity>
//   tab <id> <T> <P> <op> <dir> <to0> <kind>       kind = bin | un | exp | asg8 | asg16 | cmp | sgn | cls
//   r <key> <data>                                 256 entries; entry i of row `key`:
//        bin:  x = T(key), y = T(i)     un: x = T(i)     exp: e = key, x = T(i)
//        asg8: x = F(i)                 asg16: x = F(key*256 + i)     (bit patterns)
//        data entry = 2 hex digits (stored byte) + 3 hex digits (Result), or `-----` = not executed
//        (the call would trap: integer division by zero with check_div_zero off);
//        cmp/sgn/cls rows: 1 hex digit (Result_Relation) resp. 3 hex digits (classify Result).
//   end <id>
//   c <id> <T> <P> <op> <dir> <to0> <x> <y> <e> <stored> <result>
//   q <id> <T> <P> cmp|sgn <x> <y> <relation>
//   crash <signal>        (written by the parent when a child died)
#include "ppl.hh"
#include "common.hh"
#include <type_traits>
#include <limits>

using namespace Parma_Polyhedra_Library;

// A verbatim copy of the flags of Coefficient_types.hh: Bounded_Integer_Coefficient_Policy
// (that struct only exists in builds configured with bounded coefficients).  checks/c11.py
// compares these flags with the source text at every run.
struct BIC_Policy {
  const_bool_nodef(check_overflow, true);
  const_bool_nodef(check_inf_add_inf, false);
  const_bool_nodef(check_inf_sub_inf, false);
  const_bool_nodef(check_inf_mul_zero, false);
  const_bool_nodef(check_div_zero, false);
  const_bool_nodef(check_inf_div_inf, false);
  const_bool_nodef(check_inf_mod, false);
  const_bool_nodef(check_sqrt_neg, false);
  const_bool_nodef(has_nan, false);
  const_bool_nodef(has_infinity, false);
  const_bool_nodef(convertible, true);
  const_bool_nodef(check_fpu_inexact, false);
  const_bool_nodef(check_fpu_nan_result, true);
  static void handle_result(Result) {}
};
// every check on, no special values
struct CHK_Policy {
  const_bool_nodef(check_overflow, true);
  const_bool_nodef(check_inf_add_inf, true);
  const_bool_nodef(check_inf_sub_inf, true);
  const_bool_nodef(check_inf_mul_zero, true);
  const_bool_nodef(check_div_zero, true);
  const_bool_nodef(check_inf_div_inf, true);
  const_bool_nodef(check_inf_mod, true);
  const_bool_nodef(check_sqrt_neg, true);
  const_bool_nodef(has_nan, false);
  const_bool_nodef(has_infinity, false);
  const_bool_nodef(convertible, true);
  const_bool_nodef(check_fpu_inexact, true);
  const_bool_nodef(check_fpu_nan_result, true);
  static void handle_result(Result) {}
};
// every check on, NaN only / infinities only: the other two layouts of Extended_Int
struct NAN_Policy {
  const_bool_nodef(check_overflow, true);
  const_bool_nodef(check_inf_add_inf, true);
  const_bool_nodef(check_inf_sub_inf, true);
  const_bool_nodef(check_inf_mul_zero, true);
  const_bool_nodef(check_div_zero, true);
  const_bool_nodef(check_inf_div_inf, true);
  const_bool_nodef(check_inf_mod, true);
  const_bool_nodef(check_sqrt_neg, true);
  const_bool_nodef(has_nan, true);
  const_bool_nodef(has_infinity, false);
  const_bool_nodef(convertible, true);
  const_bool_nodef(check_fpu_inexact, true);
  const_bool_nodef(check_fpu_nan_result, true);
  static void handle_result(Result) {}
};
struct INF_Policy {
  const_bool_nodef(check_overflow, true);
  const_bool_nodef(check_inf_add_inf, true);
  const_bool_nodef(check_inf_sub_inf, true);
  const_bool_nodef(check_inf_mul_zero, true);
  const_bool_nodef(check_div_zero, true);
  const_bool_nodef(check_inf_div_inf, true);
  const_bool_nodef(check_inf_mod, true);
  const_bool_nodef(check_sqrt_neg, true);
  const_bool_nodef(has_nan, false);
  const_bool_nodef(has_infinity, true);
  const_bool_nodef(convertible, true);
  const_bool_nodef(check_fpu_inexact, true);
  const_bool_nodef(check_fpu_nan_result, true);
  static void handle_result(Result) {}
};

// the bounded-coefficient policy with its real `handle_result` (Coefficient_inlines.hh) and defaults
// (Coefficient_types.hh): used by `--mode prog` through the overloaded operators
struct BICT_Policy : public BIC_Policy {
  static const Rounding_Dir ROUND_DEFAULT_CONSTRUCTOR = ROUND_NATIVE;
  static const Rounding_Dir ROUND_DEFAULT_OPERATOR = ROUND_NATIVE;
  static const Rounding_Dir ROUND_DEFAULT_INPUT = ROUND_NATIVE;
  static const Rounding_Dir ROUND_DEFAULT_OUTPUT = ROUND_NATIVE;
  static const Rounding_Dir ROUND_DEFAULT_FUNCTION = ROUND_NATIVE;
  static void handle_result(Result r) {
    if (result_overflow(r) || result_class(r) == VC_NAN) throw_result_exception(r);
  }
};

template <typename T> struct CO { typedef Check_Overflow_Policy<T> type; };

enum Op { ASSIGN, NEG, ABS, ADD, SUB, MUL, DIV, IDIV, REM, ADDMUL, SUBMUL,
          ADD2, SUB2, MUL2, DIV2, SMOD2, UMOD2, SQRT, GCD, LCM, NOPS };
static const char* op_name[] = { "assign", "neg", "abs", "add", "sub", "mul", "div", "idiv", "rem",
  "addMul", "subMul", "add2exp", "sub2exp", "mul2exp", "div2exp", "smod2exp", "umod2exp", "sqrt", "gcd", "lcm" };
static bool is_binary(Op o) { return o == ADD || o == SUB || o == MUL || o == DIV || o == IDIV || o == REM
                                || o == ADDMUL || o == SUBMUL || o == GCD || o == LCM; }
static bool is_exp(Op o) { return o >= ADD2 && o <= UMOD2; }

template <typename T> struct TName;
#define TN(T, s) template <> struct TName<T> { static const char* name() { return s; } };
TN(int8_t, "i8") TN(uint8_t, "u8") TN(int16_t, "i16") TN(uint16_t, "u16")
TN(int32_t, "i32") TN(uint32_t, "u32") TN(int64_t, "i64") TN(uint64_t, "u64")

template <typename T> static std::string dec(T v) {
  if (std::is_signed<T>::value) return std::to_string((long long) v);
  return std::to_string((unsigned long long) v);
}

// ---- one call of the real library -------------------------------------------------------
template <typename T, typename P>
static Result run_op(Op op, T& to, T x, T y, unsigned e, Rounding_Dir d) {
  typedef Checked_Number<T, P> N;
  N nt, nx, ny;
  nt.raw_value() = to; nx.raw_value() = x; ny.raw_value() = y;
  Result r = V_EMPTY;
  switch (op) {
  case NEG: r = neg_assign_r(nt, nx, d); break;
  case ABS: r = abs_assign_r(nt, nx, d); break;
  case ADD: r = add_assign_r(nt, nx, ny, d); break;
  case SUB: r = sub_assign_r(nt, nx, ny, d); break;
  case MUL: r = mul_assign_r(nt, nx, ny, d); break;
  case DIV: r = div_assign_r(nt, nx, ny, d); break;
  case IDIV: r = idiv_assign_r(nt, nx, ny, d); break;
  case REM: r = rem_assign_r(nt, nx, ny, d); break;
  case ADDMUL: r = add_mul_assign_r(nt, nx, ny, d); break;
  case SUBMUL: r = sub_mul_assign_r(nt, nx, ny, d); break;
  case ADD2: r = add_2exp_assign_r(nt, nx, e, d); break;
  case SUB2: r = sub_2exp_assign_r(nt, nx, e, d); break;
  case MUL2: r = mul_2exp_assign_r(nt, nx, e, d); break;
  case DIV2: r = div_2exp_assign_r(nt, nx, e, d); break;
  case SMOD2: r = smod_2exp_assign_r(nt, nx, e, d); break;
  case UMOD2: r = umod_2exp_assign_r(nt, nx, e, d); break;
  case SQRT: r = sqrt_assign_r(nt, nx, d); break;
  case GCD: r = gcd_assign_r(nt, nx, ny, d); break;
  case LCM: r = lcm_assign_r(nt, nx, ny, d); break;
  default: break;
  }
  to = nt.raw_value();
  return r;
}

template <typename T, typename P, typename F, typename PF>
static Result run_assign(T& to, F x, Rounding_Dir d) {
  Checked_Number<T, P> nt; Checked_Number<F, PF> nx;
  nt.raw_value() = to; nx.raw_value() = x;
  Result r = assign_r(nt, nx, d);
  to = nt.raw_value();
  return r;
}

// would the call execute a trapping instruction?  (x86 idiv by zero; the model treats these as
// outside the contract of a policy with check_div_zero off)
template <typename T, typename P>
static bool would_trap(Op op, T x, T y) {
  typedef Checked_Number<T, P> N;
  if (op == DIV || op == IDIV || op == REM) {
    if (P::check_div_zero) return false;
    N nx, ny; nx.raw_value() = x; ny.raw_value() = y;
    if (is_not_a_number(nx) || is_not_a_number(ny)) return false;
    if (is_minus_infinity(nx) || is_plus_infinity(nx)) {
      // div_ext / idiv_ext decide an infinite dividend by the sign of y; rem_ext only when check_inf_mod
      if (op != REM || P::check_inf_mod) return false;
    }
    if (is_minus_infinity(ny) || is_plus_infinity(ny)) return false;
    return y == 0;
  }
  return false;
}

static const char HEX[] = "0123456789abcdef";
static inline void put_entry(std::string& s, unsigned stored_byte, unsigned res) {
  s.push_back(HEX[(stored_byte >> 4) & 15]); s.push_back(HEX[stored_byte & 15]);
  s.push_back(HEX[(res >> 8) & 15]); s.push_back(HEX[(res >> 4) & 15]); s.push_back(HEX[res & 15]);
}

static long g_id = 0;
static pplv::Journal J(1);
static std::string g_buf;
static void flush_buf() { if (!g_buf.empty()) { ::write(1, g_buf.data(), g_buf.size()); g_buf.clear(); } }
static void out(const std::string& s) {
  g_buf += s; g_buf.push_back('\n');
  // a table is flushed when it ends, so that a trap is attributed to the table being computed
  if (g_buf.size() > (1u << 20) || s.compare(0, 4, "end ") == 0) flush_buf();
}

static const Rounding_Dir DIRS[] = { ROUND_DOWN, ROUND_UP, ROUND_IGNORE, ROUND_NOT_NEEDED };
static const unsigned EXPS8[] = { 0, 1, 2, 3, 4, 5, 6, 7, 8, 9, 10, 15, 16, 17, 31, 32, 33, 63, 64, 65, 1000 };

// ---- exhaustive 8-bit tables -------------------------------------------------------------
template <typename T, typename P>
static void tab_binary(const char* pn, Op op, Rounding_Dir d, T to0) {
  long id = ++g_id;
  out("tab " + std::to_string(id) + " " + TName<T>::name() + " " + pn + " " + op_name[op] + " "
      + std::to_string((unsigned) d) + " " + dec(to0) + " bin");
  std::string row;
  for (unsigned k = 0; k < 256; ++k) {
    row.assign("r " + std::to_string(k) + " ");
    T x = (T) k;
    for (unsigned i = 0; i < 256; ++i) {
      T y = (T) i;
      if (would_trap<T, P>(op, x, y)) { row += "-----"; continue; }
      T to = to0;
      Result r = run_op<T, P>(op, to, x, y, 0, d);
      put_entry(row, (unsigned) (uint8_t) to, (unsigned) r);
    }
    out(row);
  }
  out("end " + std::to_string(id));
}

template <typename T, typename P>
static void tab_unary(const char* pn, Op op, Rounding_Dir d, T to0) {
  long id = ++g_id;
  out("tab " + std::to_string(id) + " " + TName<T>::name() + " " + pn + " " + op_name[op] + " "
      + std::to_string((unsigned) d) + " " + dec(to0) + " un");
  std::string row("r 0 ");
  for (unsigned i = 0; i < 256; ++i) {
    T to = to0;
    Result r = run_op<T, P>(op, to, (T) i, (T) 0, 0, d);
    put_entry(row, (unsigned) (uint8_t) to, (unsigned) r);
  }
  out(row);
  out("end " + std::to_string(id));
}

template <typename T, typename P>
static void tab_exp(const char* pn, Op op, Rounding_Dir d, T to0) {
  long id = ++g_id;
  out("tab " + std::to_string(id) + " " + TName<T>::name() + " " + pn + " " + op_name[op] + " "
      + std::to_string((unsigned) d) + " " + dec(to0) + " exp");
  for (unsigned e : EXPS8) {
    if (op == SMOD2 && e == 0) continue;     // Type(1) << (exp - 1): undefined behaviour in the source
    std::string row("r " + std::to_string(e) + " ");
    for (unsigned i = 0; i < 256; ++i) {
      T to = to0;
      Result r = run_op<T, P>(op, to, (T) i, (T) 0, e, d);
      put_entry(row, (unsigned) (uint8_t) to, (unsigned) r);
    }
    out(row);
  }
  out("end " + std::to_string(id));
}

template <typename T, typename P, typename F, typename PF>
static void tab_assign(const char* pn, const char* pfn, Rounding_Dir d, T to0) {
  long id = ++g_id;
  bool f16 = sizeof(F) == 2;
  out("tab " + std::to_string(id) + " " + TName<T>::name() + " " + pn + " assign:" + TName<F>::name() + ":" + pfn
      + " " + std::to_string((unsigned) d) + " " + dec(to0) + (f16 ? " asg16" : " asg8"));
  unsigned rows = f16 ? 256 : 1;
  for (unsigned k = 0; k < rows; ++k) {
    std::string row("r " + std::to_string(k) + " ");
    for (unsigned i = 0; i < 256; ++i) {
      F x = (F) (k * 256 + i);
      T to = to0;
      Result r = run_assign<T, P, F, PF>(to, x, d);
      put_entry(row, (unsigned) (uint8_t) to, (unsigned) r);
    }
    out(row);
  }
  out("end " + std::to_string(id));
}

template <typename T, typename P>
static void tab_cmp(const char* pn) {
  long id = ++g_id;
  out("tab " + std::to_string(id) + " " + TName<T>::name() + " " + pn + " cmp 0 0 cmp");
  for (unsigned k = 0; k < 256; ++k) {
    std::string row("r " + std::to_string(k) + " ");
    for (unsigned i = 0; i < 256; ++i) {
      Result_Relation r = Checked::cmp_ext<P, P>((T) k, (T) i);
      row.push_back(HEX[(unsigned) r & 15]);
    }
    out(row);
  }
  out("end " + std::to_string(id));
  id = ++g_id;
  out("tab " + std::to_string(id) + " " + TName<T>::name() + " " + pn + " sgn 0 0 sgn");
  std::string row("r 0 ");
  for (unsigned i = 0; i < 256; ++i) {
    Result_Relation r = Checked::sgn_ext<P>((T) i);
    row.push_back(HEX[(unsigned) r & 15]);
  }
  out(row);
  out("end " + std::to_string(id));
  // classify(nan, inf, sign): key = 4*nan + 2*inf + sign
  id = ++g_id;
  out("tab " + std::to_string(id) + " " + TName<T>::name() + " " + pn + " classify 0 0 cls");
  for (unsigned k = 0; k < 8; ++k) {
    std::string crow("r " + std::to_string(k) + " ");
    for (unsigned i = 0; i < 256; ++i) {
      Checked_Number<T, P> n; n.raw_value() = (T) i;
      unsigned r = (unsigned) n.classify((k & 4) != 0, (k & 2) != 0, (k & 1) != 0);
      crow.push_back(HEX[(r >> 8) & 15]); crow.push_back(HEX[(r >> 4) & 15]); crow.push_back(HEX[r & 15]);
    }
    out(crow);
  }
  out("end " + std::to_string(id));
}

template <typename T, typename P>
static void tab8_type(const char* pn, pplv::Rng& rng, long part, long parts, long& ctr) {
  const T TO0 = (T) 0x55;
  // values of `to` for the fused operations: 0, the two extremes, +-1, two seeded ones
  T tos[4] = { (T) 0, (T) 0x7f, (T) 0x80, (T) rng.below(256) };
  for (int oi = NEG; oi < NOPS; ++oi) {
    Op op = (Op) oi;
    for (Rounding_Dir d : DIRS) {
      if ((ctr++ % parts) != part) continue;
      if (op == ADDMUL || op == SUBMUL) { for (T t0 : tos) tab_binary<T, P>(pn, op, d, t0); }
      else if (is_binary(op)) tab_binary<T, P>(pn, op, d, TO0);
      else if (is_exp(op)) tab_exp<T, P>(pn, op, d, TO0);
      else tab_unary<T, P>(pn, op, d, TO0);
    }
  }
  // strict-relation variants of the two directed modes (the integer code must ignore the flag)
  for (Rounding_Dir d : { static_cast<Rounding_Dir>(ROUND_DOWN | ROUND_STRICT_RELATION),
                          static_cast<Rounding_Dir>(ROUND_UP | ROUND_STRICT_RELATION) }) {
    if ((ctr++ % parts) != part) continue;
    tab_binary<T, P>(pn, DIV, d, TO0);
    tab_binary<T, P>(pn, ADD, d, TO0);
  }
  if ((ctr++ % parts) == part) tab_cmp<T, P>(pn);
}

template <typename P>
static void tab8_assign(const char* pn, long part, long parts, long& ctr) {
  typedef Check_Overflow_Policy<int8_t> C8; typedef Check_Overflow_Policy<uint8_t> CU8;
  typedef Check_Overflow_Policy<int16_t> C16; typedef Check_Overflow_Policy<uint16_t> CU16;
  for (Rounding_Dir d : DIRS) {
    if ((ctr++ % parts) != part) continue;
    // same policy on both sides
    tab_assign<int8_t, P, int8_t, P>(pn, pn, d, 0x55);
    tab_assign<int8_t, P, uint8_t, P>(pn, pn, d, 0x55);
    tab_assign<uint8_t, P, int8_t, P>(pn, pn, d, 0x55);
    tab_assign<uint8_t, P, uint8_t, P>(pn, pn, d, 0x55);
    tab_assign<int8_t, P, int16_t, P>(pn, pn, d, 0x55);
    tab_assign<int8_t, P, uint16_t, P>(pn, pn, d, 0x55);
    tab_assign<uint8_t, P, int16_t, P>(pn, pn, d, 0x55);
    tab_assign<uint8_t, P, uint16_t, P>(pn, pn, d, 0x55);
    // from the plain overflow-checking policy (full range source)
    tab_assign<int8_t, P, int8_t, C8>(pn, "CO", d, 0x55);
    tab_assign<uint8_t, P, uint8_t, CU8>(pn, "CO", d, 0x55);
    tab_assign<int8_t, P, int16_t, C16>(pn, "CO", d, 0x55);
    tab_assign<uint8_t, P, uint16_t, CU16>(pn, "CO", d, 0x55);
    // from the extended policy into P
    tab_assign<int8_t, P, int8_t, Extended_Number_Policy>(pn, "EN", d, 0x55);
    tab_assign<uint8_t, P, uint8_t, Extended_Number_Policy>(pn, "EN", d, 0x55);
    tab_assign<int8_t, P, uint8_t, Extended_Number_Policy>(pn, "EN", d, 0x55);
    tab_assign<uint8_t, P, int16_t, Extended_Number_Policy>(pn, "EN", d, 0x55);
  }
}

template <typename P8, typename PU8, typename PA>
static void tab8_policy(const char* pn, long seed, long part, long parts) {
  pplv::Rng rng((uint64_t) seed);
  long ctr = 0;
  tab8_type<int8_t, P8>(pn, rng, part, parts, ctr);
  tab8_type<uint8_t, PU8>(pn, rng, part, parts, ctr);
  tab8_assign<PA>(pn, part, parts, ctr);
}

// ---- wide types: boundary-biased + random ---------------------------------------------------
template <typename T> static T pick(pplv::Rng& rng, int bias_nan_inf) {
  typedef typename std::make_unsigned<T>::type U;
  const T mn = std::numeric_limits<T>::min(), mx = std::numeric_limits<T>::max();
  const int bits = sizeof(T) * 8;
  switch (rng.below(12)) {
  case 0: return (T) (mn + (T) rng.below(5));
  case 1: return (T) (mx - (T) rng.below(5));
  case 2: return (T) ((T) rng.below(7) - (std::is_signed<T>::value ? 3 : 0));
  case 3: { int k = (int) rng.below(bits); U v = (U) ((U) 1 << k); int o = (int) rng.below(3) - 1;
            v = (U) (v + (U) o); return rng.chance(1, 2) && std::is_signed<T>::value ? (T) (U) (0 - v) : (T) v; }
  case 4: { // around sqrt(max)
            U s = (U) 1 << (bits / 2); int o = (int) rng.below(5) - 2; U v = (U) (s + (U) o);
            return rng.chance(1, 2) && std::is_signed<T>::value ? (T) (U) (0 - v) : (T) v; }
  case 5: case 6: { int k = 1 + (int) rng.below(bits); U v = (U) rng.next(); if (k < bits) v &= (U) (((U) 1 << k) - 1);
            return rng.chance(1, 2) && std::is_signed<T>::value ? (T) (U) (0 - v) : (T) v; }
  case 7: return (T) (rng.below(200)) ;
  case 8: return std::is_signed<T>::value ? (T) (-(long) rng.below(200)) : (T) (mx - (T) rng.below(200));
  case 9: return (T) (mx / (T) (1 + rng.below(9)) + (T) rng.below(3) - 1);
  case 10: return std::is_signed<T>::value ? (T) (mn / (T) (1 + rng.below(9)) + (T) rng.below(3) - 1) : (T) rng.next();
  default: return (T) rng.next();
  }
  (void) bias_nan_inf;
}

template <typename T, typename P>
static void wide_case(const char* pn, pplv::Rng& rng) {
  typedef typename std::make_unsigned<T>::type U;
  const int bits = sizeof(T) * 8;
  Op op = (Op) (NEG + rng.below(NOPS - NEG));
  Rounding_Dir d = DIRS[rng.below(4)];
  if (rng.chance(1, 16)) d = static_cast<Rounding_Dir>(d | ROUND_STRICT_RELATION);
  T x = pick<T>(rng, 0), y = pick<T>(rng, 0), to0 = pick<T>(rng, 0);
  if ((op == MUL || op == ADDMUL || op == SUBMUL || op == LCM) && rng.chance(1, 2) && x != 0 && x != (T) -1) {
    // products near the limits of the type
    T lim = rng.chance(1, 2) ? std::numeric_limits<T>::max() : std::numeric_limits<T>::min();
    if (lim != 0) y = (T) (lim / x + (T) rng.below(3) - 1);
  }
  if ((op == ADD || op == SUB) && rng.chance(1, 2)) {
    T lim = rng.chance(1, 2) ? std::numeric_limits<T>::max() : std::numeric_limits<T>::min();
    y = (op == ADD) ? (T) ((U) lim - (U) x + (U) rng.below(5) - 2) : (T) ((U) x - (U) lim + (U) rng.below(5) - 2);
  }
  if ((op == DIV || op == IDIV || op == REM) && rng.chance(1, 2)) y = (T) ((T) rng.below(9) - (std::is_signed<T>::value ? 4 : 0));
  unsigned e = 0;
  if (is_exp(op)) {
    switch (rng.below(4)) {
    case 0: e = rng.below(bits + 3); break;
    case 1: e = bits - 2 + rng.below(5); break;
    case 2: e = rng.below(8); break;
    default: e = rng.below(200); break;
    }
    if (op == SMOD2 && e == 0) e = 1;
    y = 0;
  }
  if (!is_binary(op)) y = 0;
  if (would_trap<T, P>(op, x, y)) return;
  T to = to0;
  Result r = run_op<T, P>(op, to, x, y, e, d);
  out("c " + std::to_string(++g_id) + " " + TName<T>::name() + " " + pn + " " + op_name[op] + " "
      + std::to_string((unsigned) d) + " " + dec(to0) + " " + dec(x) + " " + dec(y) + " " + std::to_string(e)
      + " " + dec(to) + " " + std::to_string((unsigned) r));
}

template <typename T, typename P, typename F, typename PF>
static void wide_assign(const char* pn, const char* pfn, pplv::Rng& rng) {
  Rounding_Dir d = DIRS[rng.below(4)];
  F x = pick<F>(rng, 0);
  if (rng.chance(1, 2)) {       // values around the limits of the destination
    long double lim = rng.chance(1, 2) ? (long double) std::numeric_limits<T>::max() : (long double) std::numeric_limits<T>::min();
    long double v = lim + (long double) ((int) rng.below(7) - 3);
    if (v >= (long double) std::numeric_limits<F>::min() && v <= (long double) std::numeric_limits<F>::max()) x = (F) v;
  }
  T to0 = pick<T>(rng, 0), to = to0;
  Result r = run_assign<T, P, F, PF>(to, x, d);
  out("c " + std::to_string(++g_id) + " " + TName<T>::name() + " " + pn + " assign:" + TName<F>::name() + ":" + pfn + " "
      + std::to_string((unsigned) d) + " " + dec(to0) + " " + dec(x) + " 0 0 " + dec(to) + " " + std::to_string((unsigned) r));
}

// ---- conversions from mpz_class, mpq_class, double, float -----------------------------------------
//   c <id> <T> <P> assignZ <dir> <to0> <v> 0 0 <stored> <result>            exact = v
//   c <id> <T> <P> assignQ <dir> <to0> <num> <den> 0 <stored> <result>      exact = num/den (canonical)
//   c <id> <T> <P> assignD|assignF[:nan|:pinf|:minf] <dir> <to0> <m> 0 <k> <stored> <result>   exact = m / 2^k
static mpz_class around_limits(pplv::Rng& rng, long double lo, long double hi) {
  mpz_class v;
  switch (rng.below(6)) {
  case 0: v = mpz_class(std::to_string((long long) 0)) + (int) rng.below(7) - 3; break;
  case 1: { mpz_class h; mpz_set_d(h.get_mpz_t(), (double) hi); v = h + (int) rng.below(9) - 4; break; }
  case 2: { mpz_class l; mpz_set_d(l.get_mpz_t(), (double) lo); v = l + (int) rng.below(9) - 4; break; }
  case 3: { v = 1; v <<= rng.below(70); v += (int) rng.below(3) - 1; if (rng.chance(1, 2)) v = -v; break; }
  case 4: { v = (unsigned long) rng.next(); v *= (unsigned long) rng.below(5); if (rng.chance(1, 2)) v = -v; break; }
  default: v = (long) rng.range(-300, 300); break;
  }
  return v;
}

// a finite double/float as m / 2^k
template <typename F> static void dyadic(F x, std::string& m, unsigned& k) {
  int e; long double fr = frexpl((long double) x, &e);      // x = fr * 2^e, 0.5 <= |fr| < 1
  // 64 bits of significand are enough for double and float
  long double sc = ldexpl(fr, 64);
  mpz_class mm; mpz_set_d(mm.get_mpz_t(), (double) 0);
  // build exactly from the two 32-bit halves to avoid double rounding
  bool neg = sc < 0; if (neg) sc = -sc;
  unsigned long hi32 = (unsigned long) (sc / 4294967296.0L);
  unsigned long lo32 = (unsigned long) (sc - (long double) hi32 * 4294967296.0L);
  mm = hi32; mm <<= 32; mm += lo32; if (neg) mm = -mm;
  long ex = (long) e - 64;                                   // x = mm * 2^ex
  if (mm == 0) { m = "0"; k = 0; return; }
  while (ex < 0 && mpz_even_p(mm.get_mpz_t())) { mm >>= 1; ++ex; }
  if (ex >= 0) { mm <<= ex; k = 0; } else k = (unsigned) -ex;
  m = mm.get_str();
}

template <typename T, typename P>
static void conv_case(const char* pn, pplv::Rng& rng) {
  typedef Checked_Number<T, P> N;
  Rounding_Dir d = DIRS[rng.below(4)];
  const long double lo = (long double) std::numeric_limits<T>::min(), hi = (long double) std::numeric_limits<T>::max();
  T to0 = pick<T>(rng, 0);
  N nt; nt.raw_value() = to0;
  std::string head = std::string(" ") + TName<T>::name() + " " + pn + " ";
  switch (rng.below(5)) {
  case 0: {
    mpz_class v = around_limits(rng, lo, hi);
    Result r = assign_r(nt, v, d);
    out("c " + std::to_string(++g_id) + head + "assignZ " + std::to_string((unsigned) d) + " " + dec(to0) + " " + v.get_str()
        + " 0 0 " + dec(nt.raw_value()) + " " + std::to_string((unsigned) r));
    break; }
  case 1: {
    mpz_class n = around_limits(rng, lo, hi);
    mpz_class dd = 1 + (long) rng.below(rng.chance(1, 2) ? 4 : 1000);
    if (rng.chance(1, 2)) n = n * dd + (int) rng.below(5) - 2;
    mpq_class q(n, dd); q.canonicalize();
    Result r = assign_r(nt, q, d);
    out("c " + std::to_string(++g_id) + head + "assignQ " + std::to_string((unsigned) d) + " " + dec(to0) + " " + q.get_num().get_str()
        + " " + q.get_den().get_str() + " 0 " + dec(nt.raw_value()) + " " + std::to_string((unsigned) r));
    break; }
  case 2: {
    double x;
    switch (rng.below(8)) {
    case 0: x = (double) hi + (double) ((int) rng.below(9) - 4) * 0.5; break;
    case 1: x = (double) lo + (double) ((int) rng.below(9) - 4) * 0.5; break;
    case 2: x = ldexp(1.0, (int) rng.below(70)) * (rng.chance(1, 2) ? -1 : 1); break;
    case 3: x = (double) ((long) rng.range(-1000, 1000)) / 4.0; break;
    case 4: x = nextafter((double) hi, rng.chance(1, 2) ? 1e300 : -1e300); break;
    case 5: x = nextafter((double) lo, rng.chance(1, 2) ? 1e300 : -1e300); break;
    case 6: { int w = (int) rng.below(3); x = w == 0 ? std::numeric_limits<double>::quiet_NaN()
                                            : (w == 1 ? std::numeric_limits<double>::infinity() : -std::numeric_limits<double>::infinity()); break; }
    default: x = ldexp((double) (long) (rng.next() >> 11), (int) rng.below(40) - 60) * (rng.chance(1, 2) ? -1 : 1); break;
    }
    Result r = assign_r(nt, x, d);
    std::string opn = "assignD", m = "0"; unsigned k = 0;
    if (x != x) opn += ":nan"; else if (x == std::numeric_limits<double>::infinity()) opn += ":pinf";
    else if (x == -std::numeric_limits<double>::infinity()) opn += ":minf"; else dyadic(x, m, k);
    out("c " + std::to_string(++g_id) + head + opn + " " + std::to_string((unsigned) d) + " " + dec(to0) + " " + m
        + " 0 " + std::to_string(k) + " " + dec(nt.raw_value()) + " " + std::to_string((unsigned) r));
    break; }
  case 4: {
    // the other direction: assign_r(mpz_class, mpq_class, dir), with and without ROUND_STRICT_RELATION
    //   c <id> <T> <P> zFromQ <dir|strict> 0 <num> <den> 0 <stored> <result>
    mpz_class n = around_limits(rng, lo, hi);
    mpz_class dd = 1 + (long) rng.below(rng.chance(1, 2) ? 4 : 1000);
    if (rng.chance(1, 2)) n = n * dd + (int) rng.below(5) - 2;
    mpq_class q(n, dd); q.canonicalize();
    Rounding_Dir dz = d;
    if (round_dir(dz) == ROUND_NOT_NEEDED && q.get_den() != 1) dz = ROUND_IGNORE;
    if (rng.chance(1, 2)) dz = static_cast<Rounding_Dir>(dz | ROUND_STRICT_RELATION);
    Checked_Number<mpz_class, Extended_Number_Policy> z;
    Result r = assign_r(z, q, dz);
    out("c " + std::to_string(++g_id) + head + "zFromQ " + std::to_string((unsigned) dz) + " 0 " + q.get_num().get_str()
        + " " + q.get_den().get_str() + " 0 " + z.raw_value().get_str() + " " + std::to_string((unsigned) r));
    break; }
  default: {
    float x;
    switch (rng.below(6)) {
    case 0: x = (float) hi; break;
    case 1: x = (float) lo; break;
    case 2: x = ldexpf(1.0f, (int) rng.below(70)) * (rng.chance(1, 2) ? -1 : 1); break;
    case 3: x = (float) ((long) rng.range(-1000, 1000)) / 4.0f; break;
    case 4: x = nextafterf((float) hi, rng.chance(1, 2) ? 1e30f : -1e30f); break;
    default: x = ldexpf((float) (long) (rng.next() >> 40), (int) rng.below(40) - 30) * (rng.chance(1, 2) ? -1 : 1); break;
    }
    Result r = assign_r(nt, x, d);
    std::string m = "0"; unsigned k = 0; dyadic(x, m, k);
    out("c " + std::to_string(++g_id) + head + "assignF " + std::to_string((unsigned) d) + " " + dec(to0) + " " + m
        + " 0 " + std::to_string(k) + " " + dec(nt.raw_value()) + " " + std::to_string((unsigned) r));
    break; }
  }
}

template <typename T, typename P>
static void wide_cmp(const char* pn, pplv::Rng& rng) {
  T x = pick<T>(rng, 0), y = rng.chance(1, 4) ? x : pick<T>(rng, 0);
  Result_Relation r = Checked::cmp_ext<P, P>(x, y);
  out("q " + std::to_string(++g_id) + " " + TName<T>::name() + " " + pn + " cmp " + dec(x) + " " + dec(y) + " " + std::to_string((unsigned) r));
  r = Checked::sgn_ext<P>(x);
  out("q " + std::to_string(++g_id) + " " + TName<T>::name() + " " + pn + " sgn " + dec(x) + " 0 " + std::to_string((unsigned) r));
}

// ---- gcdext: three outputs ------------------------------------------------------------------------
//   gx <id> <T> <P> <dir> <x> <y> <to0> <s0> <t0> <to> <s> <t> <result>
template <typename T, typename P>
static void gcdext_case(const char* pn, pplv::Rng& rng) {
  Rounding_Dir d = DIRS[rng.below(4)];
  T x = pick<T>(rng, 0), y = pick<T>(rng, 0);
  switch (rng.below(8)) {
  case 0: x = 0; y = 0; break;
  case 1: y = 0; break;
  case 2: x = 0; break;
  case 3: y = x; break;
  case 4: x = (T) (1 + rng.below(120)); y = (T) (1 + rng.below(120)); break;
  default: break;
  }
  T to0 = (T) 77, s0 = (T) 5, t0 = (T) 6;
  T to = to0, s = s0, t = t0;
  Result r = Checked::gcdext_ext<P, P, P, P, P>(to, s, t, x, y, d);
  out("gx " + std::to_string(++g_id) + " " + TName<T>::name() + " " + pn + " " + std::to_string((unsigned) d) + " " + dec(x) + " " + dec(y)
      + " " + dec(to0) + " " + dec(s0) + " " + dec(t0) + " " + dec(to) + " " + dec(s) + " " + dec(t) + " " + std::to_string((unsigned) r));
}

template <typename P16, typename PU16, typename P32, typename PU32, typename P64, typename PU64, typename PA>
static void wide_policy(const char* pn, pplv::Rng& rng, long count) {
  for (long i = 0; i < count; ++i) {
    switch (rng.below(10)) {
    case 8:
      switch (rng.below(8)) {
      case 0: conv_case<int8_t, PA>(pn, rng); break;
      case 1: conv_case<uint8_t, PA>(pn, rng); break;
      case 2: conv_case<int16_t, P16>(pn, rng); break;
      case 3: conv_case<uint16_t, PU16>(pn, rng); break;
      case 4: conv_case<int32_t, P32>(pn, rng); break;
      case 5: conv_case<uint32_t, PU32>(pn, rng); break;
      case 6: conv_case<int64_t, P64>(pn, rng); break;
      default: conv_case<uint64_t, PU64>(pn, rng); break;
      }
      break;
    case 9:
      switch (rng.below(3)) {
      case 0: conv_case<int64_t, P64>(pn, rng); break;
      case 1: conv_case<uint64_t, PU64>(pn, rng); break;
      default:
        switch (rng.below(6)) {
        case 0: gcdext_case<int8_t, PA>(pn, rng); break;
        case 1: gcdext_case<uint8_t, PA>(pn, rng); break;
        case 2: gcdext_case<int16_t, P16>(pn, rng); break;
        case 3: gcdext_case<int32_t, P32>(pn, rng); break;
        case 4: gcdext_case<int64_t, P64>(pn, rng); break;
        default: gcdext_case<uint32_t, PU32>(pn, rng); break;
        }
        break;
      }
      break;
    case 0: wide_case<int16_t, P16>(pn, rng); break;
    case 1: wide_case<uint16_t, PU16>(pn, rng); break;
    case 2: wide_case<int32_t, P32>(pn, rng); break;
    case 3: wide_case<uint32_t, PU32>(pn, rng); break;
    case 4: wide_case<int64_t, P64>(pn, rng); break;
    case 5: wide_case<uint64_t, PU64>(pn, rng); break;
    case 6:
      switch (rng.below(12)) {
      case 0: wide_assign<int16_t, PA, int32_t, PA>(pn, pn, rng); break;
      case 1: wide_assign<int32_t, PA, int64_t, PA>(pn, pn, rng); break;
      case 2: wide_assign<uint32_t, PA, int64_t, PA>(pn, pn, rng); break;
      case 3: wide_assign<int32_t, PA, uint32_t, PA>(pn, pn, rng); break;
      case 4: wide_assign<uint32_t, PA, int32_t, PA>(pn, pn, rng); break;
      case 5: wide_assign<int64_t, PA, uint64_t, PA>(pn, pn, rng); break;
      case 6: wide_assign<uint64_t, PA, int64_t, PA>(pn, pn, rng); break;
      case 7: wide_assign<uint16_t, PA, uint64_t, PA>(pn, pn, rng); break;
      case 8: wide_assign<int64_t, PA, int8_t, PA>(pn, pn, rng); break;
      case 9: wide_assign<uint64_t, PA, uint16_t, PA>(pn, pn, rng); break;
      case 10: wide_assign<int32_t, PA, int32_t, Extended_Number_Policy>(pn, "EN", rng); break;
      default: wide_assign<int64_t, PA, int64_t, Extended_Number_Policy>(pn, "EN", rng); break;
      }
      break;
    default:
      if (rng.chance(1, 2)) wide_cmp<int32_t, P32>(pn, rng); else wide_cmp<uint64_t, PU64>(pn, rng);
      break;
    }
  }
}

// ---- bounded builds: straight-line coefficient computations vs mpz_class ------------------------
//   prog <id> <T> <k> <instr>*k | <r0 r1 r2 r3 initial> | B ok|exc:<class>:<index> <r0..r3> | U <r0..r3>
// instr = name:d:a:b.  The bounded run uses Checked_Number<T, BICT_Policy> through the public
// operators / *_assign functions (each hands its Result to handle_result); the unbounded run uses
// mpz_class.  After an exception both runs stop (registers as they were before the instruction).
static const char* PNAMES[] = { "neg", "abs", "add", "sub", "mul", "addMul", "subMul", "div", "rem", "gcd", "lcm" };
template <typename T>
static void prog_case(pplv::Rng& rng) {
  typedef Checked_Number<T, BICT_Policy> N;
  const int NR = 4;
  N b[NR]; mpz_class u[NR];
  std::string init;
  for (int i = 0; i < NR; ++i) {
    T v;
    switch (rng.below(5)) {
    case 0: v = (T) ((int) rng.below(7) - 3); break;
    case 1: v = (T) ((int) rng.below(41) - 20); break;
    case 2: { int k = 1 + (int) rng.below(sizeof(T) * 4); v = (T) (rng.next() & ((((uint64_t) 1) << k) - 1)); if (rng.chance(1, 2)) v = (T) -v; break; }
    case 3: v = pick<T>(rng, 0); break;
    default: v = (T) ((int) rng.below(200) - 100); break;
    }
    b[i].raw_value() = v;
    u[i] = mpz_class(std::to_string((long long) v));
    init += " " + dec(v);
  }
  int len = 1 + (int) rng.below(10);
  std::string instrs, outcome = "ok";
  int k = 0;
  for (; k < len; ++k) {
    int op = (int) rng.below(11), d = (int) rng.below(NR), a = (int) rng.below(NR), c = (int) rng.below(NR);
    if ((op == 7 || op == 8) && u[c] == 0) op = 2;      // division by zero is a trap in both configurations
    instrs += std::string(" ") + PNAMES[op] + ":" + std::to_string(d) + ":" + std::to_string(a) + ":" + std::to_string(c);
    try {
      switch (op) {
      case 0: neg_assign(b[d], b[a]); break;
      case 1: abs_assign(b[d], b[a]); break;
      case 2: b[d] = b[a] + b[c]; break;
      case 3: b[d] = b[a] - b[c]; break;
      case 4: b[d] = b[a] * b[c]; break;
      case 5: add_mul_assign(b[d], b[a], b[c]); break;
      case 6: sub_mul_assign(b[d], b[a], b[c]); break;
      case 7: b[d] = b[a] / b[c]; break;
      case 8: b[d] = b[a] % b[c]; break;
      case 9: gcd_assign(b[d], b[a], b[c]); break;
      default: lcm_assign(b[d], b[a], b[c]); break;
      }
    }
    catch (...) { outcome = "exc:" + pplv::exc_class() + ":" + std::to_string(k); ++k; break; }
    switch (op) {
    case 0: u[d] = -u[a]; break;
    case 1: u[d] = abs(u[a]); break;
    case 2: u[d] = u[a] + u[c]; break;
    case 3: u[d] = u[a] - u[c]; break;
    case 4: u[d] = u[a] * u[c]; break;
    case 5: u[d] += u[a] * u[c]; break;
    case 6: u[d] -= u[a] * u[c]; break;
    case 7: u[d] = u[a] / u[c]; break;
    case 8: u[d] = u[a] % u[c]; break;
    case 9: { mpz_class g; mpz_gcd(g.get_mpz_t(), u[a].get_mpz_t(), u[c].get_mpz_t()); u[d] = g; break; }
    default: { mpz_class g; mpz_lcm(g.get_mpz_t(), u[a].get_mpz_t(), u[c].get_mpz_t()); u[d] = g; break; }
    }
  }
  std::string line = "prog " + std::to_string(++g_id) + " " + TName<T>::name() + " " + std::to_string(k) + instrs + " |" + init + " | B " + outcome;
  for (int i = 0; i < NR; ++i) line += " " + dec(b[i].raw_value());
  line += " | U";
  for (int i = 0; i < NR; ++i) line += " " + u[i].get_str();
  out(line);
}

static void prog(pplv::Rng& rng, long count) {
  for (long i = 0; i < count; ++i) {
    switch (rng.below(4)) {
    case 0: prog_case<int8_t>(rng); break;
    case 1: prog_case<int16_t>(rng); break;
    case 2: prog_case<int32_t>(rng); break;
    default: prog_case<int64_t>(rng); break;
    }
  }
}

// ---- configuration -------------------------------------------------------------------------
template <typename T> static void cfg_type() {
  typedef Checked::Larger<T> L;
  out(std::string("cfg type ") + TName<T>::name() + " " + std::to_string(sizeof(T) * 8) + " "
      + (std::is_signed<T>::value ? "1" : "0") + " " + std::to_string((int) L::use_for_neg) + " "
      + std::to_string((int) L::use_for_add) + " " + std::to_string((int) L::use_for_sub) + " "
      + std::to_string((int) L::use_for_mul) + " " + std::to_string(sizeof(typename L::type_for_mul) * 8));
}
template <> void cfg_type<int8_t>() {
  typedef Checked::Larger<signed char> L;
  out(std::string("cfg type i8 8 1 ") + std::to_string((int) L::use_for_neg) + " " + std::to_string((int) L::use_for_add) + " "
      + std::to_string((int) L::use_for_sub) + " " + std::to_string((int) L::use_for_mul) + " " + std::to_string(sizeof(L::type_for_mul) * 8));
}
template <typename P> static void cfg_policy(const char* pn) {
  out(std::string("cfg policy ") + pn + " " + std::to_string((int) P::check_overflow) + " " + std::to_string((int) P::check_inf_add_inf)
      + " " + std::to_string((int) P::check_inf_sub_inf) + " " + std::to_string((int) P::check_inf_mul_zero)
      + " " + std::to_string((int) P::check_div_zero) + " " + std::to_string((int) P::check_inf_div_inf)
      + " " + std::to_string((int) P::check_inf_mod) + " " + std::to_string((int) P::check_sqrt_neg)
      + " " + std::to_string((int) P::has_nan) + " " + std::to_string((int) P::has_infinity));
}
static void cfg() {
  cfg_type<int8_t>(); cfg_type<uint8_t>(); cfg_type<int16_t>(); cfg_type<uint16_t>();
  cfg_type<int32_t>(); cfg_type<uint32_t>(); cfg_type<int64_t>(); cfg_type<uint64_t>();
  cfg_policy<Check_Overflow_Policy<int> >("CO");
  cfg_policy<Extended_Number_Policy>("EN");
  cfg_policy<WRD_Extended_Number_Policy>("WRD");
  cfg_policy<BIC_Policy>("BIC");
  cfg_policy<Debug_WRD_Extended_Number_Policy>("DBG");
  cfg_policy<CHK_Policy>("CHK");
  cfg_policy<NAN_Policy>("NAN");
  cfg_policy<INF_Policy>("INF");
  // which of the repairs fixes/fix_c11_*.diff are present in the tree this harness was compiled against:
  // measured on the witness of each finding (the driver switches its model accordingly)
  {
    int8_t to = 0x55; run_op<int8_t, Check_Overflow_Policy<int8_t> >(DIV, to, (int8_t) 7, (int8_t) -2, 0, ROUND_DOWN);
    out(std::string("cfg fix div ") + (to == -4 ? "1" : "0"));
    to = 0; Result r = run_op<int8_t, Check_Overflow_Policy<int8_t> >(SUBMUL, to, (int8_t) 2, (int8_t) 64, 0, ROUND_UP);
    out(std::string("cfg fix subMul ") + (r != V_LT_INF ? "1" : "0"));   // repaired: V_UNKNOWN_POS_OVERFLOW, no false overflow claim
    to = 0x55; r = run_op<int8_t, Extended_Number_Policy>(UMOD2, to, (int8_t) -1, (int8_t) 0, 7, ROUND_DOWN);
    out(std::string("cfg fix umod ") + (r != V_EQ ? "1" : "0"));
    to = 0x55; run_op<int8_t, Check_Overflow_Policy<int8_t> >(SQRT, to, (int8_t) 64, (int8_t) 0, 0, ROUND_UP);
    out(std::string("cfg fix isqrt ") + (to == 8 ? "1" : "0"));
    to = 0x55; run_op<int8_t, Check_Overflow_Policy<int8_t> >(LCM, to, (int8_t) 1, (int8_t) -128, 0, ROUND_DOWN);
    out(std::string("cfg fix lcm ") + (to == 127 ? "1" : "0"));   // repaired: the overflow outcome of |y| is stored (max, V_GT_SUP)
  }
  // result codes and rounding directions as this build sees them (T1 cross-check)
  out(std::string("cfg enum V_LT_INF ") + std::to_string((unsigned) V_LT_INF) + " V_GT_SUP " + std::to_string((unsigned) V_GT_SUP)
      + " V_UNREPRESENTABLE " + std::to_string((unsigned) V_UNREPRESENTABLE) + " ROUND_NOT_NEEDED " + std::to_string((unsigned) ROUND_NOT_NEEDED));
}

static const char* POLICIES[] = { "CO", "EN", "WRD", "BIC", "DBG", "CHK", "NAN", "INF" };

static void tab8(const std::string& p, long seed, long part, long parts) {
  if (p == "CO") tab8_policy<Check_Overflow_Policy<int8_t>, Check_Overflow_Policy<uint8_t>, Check_Overflow_Policy<int> >("CO", seed, part, parts);
  else if (p == "EN") tab8_policy<Extended_Number_Policy, Extended_Number_Policy, Extended_Number_Policy>("EN", seed, part, parts);
  else if (p == "WRD") tab8_policy<WRD_Extended_Number_Policy, WRD_Extended_Number_Policy, WRD_Extended_Number_Policy>("WRD", seed, part, parts);
  else if (p == "BIC") tab8_policy<BIC_Policy, BIC_Policy, BIC_Policy>("BIC", seed, part, parts);
  else if (p == "DBG") tab8_policy<Debug_WRD_Extended_Number_Policy, Debug_WRD_Extended_Number_Policy, Debug_WRD_Extended_Number_Policy>("DBG", seed, part, parts);
  else if (p == "CHK") tab8_policy<CHK_Policy, CHK_Policy, CHK_Policy>("CHK", seed, part, parts);
  else if (p == "NAN") tab8_policy<NAN_Policy, NAN_Policy, NAN_Policy>("NAN", seed, part, parts);
  else if (p == "INF") tab8_policy<INF_Policy, INF_Policy, INF_Policy>("INF", seed, part, parts);
}

static void wide(const std::string& p, pplv::Rng& rng, long count) {
  if (p == "CO") wide_policy<Check_Overflow_Policy<int16_t>, Check_Overflow_Policy<uint16_t>, Check_Overflow_Policy<int32_t>,
                             Check_Overflow_Policy<uint32_t>, Check_Overflow_Policy<int64_t>, Check_Overflow_Policy<uint64_t>,
                             Check_Overflow_Policy<int> >("CO", rng, count);
#define WP(name, P) else if (p == name) wide_policy<P, P, P, P, P, P, P>(name, rng, count);
  WP("EN", Extended_Number_Policy) WP("WRD", WRD_Extended_Number_Policy) WP("BIC", BIC_Policy)
  WP("DBG", Debug_WRD_Extended_Number_Policy) WP("CHK", CHK_Policy) WP("NAN", NAN_Policy) WP("INF", INF_Policy)
#undef WP
}

template <typename T> static T parse(const char* s) {
  if (std::is_signed<T>::value) return (T) strtoll(s, nullptr, 10);
  return (T) strtoull(s, nullptr, 10);
}

template <typename T, typename P>
static void one_tp(const char* tn, const char* pn, Op op, unsigned d, char** a) {
  T to0 = parse<T>(a[0]), x = parse<T>(a[1]), y = parse<T>(a[2]); unsigned e = (unsigned) strtoul(a[3], nullptr, 10);
  if (would_trap<T, P>(op, x, y)) { out("trap"); return; }
  T to = to0;
  Result r = run_op<T, P>(op, to, x, y, e, static_cast<Rounding_Dir>(d));
  out(std::string("c 1 ") + tn + " " + pn + " " + op_name[op] + " " + std::to_string(d) + " " + dec(to0) + " " + dec(x) + " "
      + dec(y) + " " + std::to_string(e) + " " + dec(to) + " " + std::to_string((unsigned) r));
}
template <typename P8, typename PU8, typename P16, typename PU16, typename P32, typename PU32, typename P64, typename PU64>
static void one_p(const std::string& t, const char* pn, Op op, unsigned d, char** a) {
  if (t == "i8") one_tp<int8_t, P8>("i8", pn, op, d, a); else if (t == "u8") one_tp<uint8_t, PU8>("u8", pn, op, d, a);
  else if (t == "i16") one_tp<int16_t, P16>("i16", pn, op, d, a); else if (t == "u16") one_tp<uint16_t, PU16>("u16", pn, op, d, a);
  else if (t == "i32") one_tp<int32_t, P32>("i32", pn, op, d, a); else if (t == "u32") one_tp<uint32_t, PU32>("u32", pn, op, d, a);
  else if (t == "i64") one_tp<int64_t, P64>("i64", pn, op, d, a); else if (t == "u64") one_tp<uint64_t, PU64>("u64", pn, op, d, a);
}
static void one(int argc, char** argv, int at) {
  if (at + 8 > argc) { fprintf(stderr, "one: <T> <P> <op> <dir> <to0> <x> <y> <e>\n"); return; }
  std::string t = argv[at], p = argv[at + 1], o = argv[at + 2];
  unsigned d = (unsigned) atoi(argv[at + 3]);
  Op op = NOPS;
  for (int i = 0; i < NOPS; ++i) if (o == op_name[i]) op = (Op) i;
  if (op == NOPS || op == ASSIGN) { fprintf(stderr, "one: unknown op\n"); return; }
  char** a = argv + at + 4;
  if (p == "CO") one_p<Check_Overflow_Policy<int8_t>, Check_Overflow_Policy<uint8_t>, Check_Overflow_Policy<int16_t>, Check_Overflow_Policy<uint16_t>,
                      Check_Overflow_Policy<int32_t>, Check_Overflow_Policy<uint32_t>, Check_Overflow_Policy<int64_t>, Check_Overflow_Policy<uint64_t> >(t, "CO", op, d, a);
#define OP1(name, P) else if (p == name) one_p<P, P, P, P, P, P, P, P>(t, name, op, d, a);
  OP1("EN", Extended_Number_Policy) OP1("WRD", WRD_Extended_Number_Policy) OP1("BIC", BIC_Policy)
  OP1("DBG", Debug_WRD_Extended_Number_Policy) OP1("CHK", CHK_Policy) OP1("NAN", NAN_Policy) OP1("INF", INF_Policy)
#undef OP1
}

int main(int argc, char** argv) {
  std::string mode = pplv::arg_str(argc, argv, "--mode", "cfg");
  long seed = pplv::arg_long(argc, argv, "--seed", 1);
  std::string policy = pplv::arg_str(argc, argv, "--policy", "all");
  long part = pplv::arg_long(argc, argv, "--part", 0), parts = pplv::arg_long(argc, argv, "--parts", 1);
  long count = pplv::arg_long(argc, argv, "--count", 100000);
  if (mode == "cfg") { cfg(); flush_buf(); return 0; }
  if (mode == "one") {
    cfg();
    for (int i = 1; i < argc; ++i) if (!strcmp(argv[i], "one")) { one(argc, argv, i + 1); break; }
    flush_buf(); return 0;
  }
  cfg(); flush_buf();
  if (mode == "prog") {
    return pplv::run_batches(0, 1, [&](long) { g_id = 900000000L; pplv::Rng rng((uint64_t) (seed * 77 + 5)); prog(rng, count); flush_buf(); }, 600);
  }
  std::vector<std::string> ps;
  for (const char* p : POLICIES) if (policy == "all" || policy == p) ps.push_back(p);
  // one forked child per policy: a trap inside the library is attributed and does not kill the run
  return pplv::run_batches(0, (long) ps.size(), [&](long b) {
    g_id = (b + 1) * 10000000L + part * 100000L;
    if (mode == "tab8") tab8(ps[b], seed, part, parts);
    else if (mode == "wide") { pplv::Rng rng((uint64_t) (seed * 1000 + b)); wide(ps[b], rng, count); }
    flush_buf();
  }, 600);
}
