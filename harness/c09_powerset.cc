// C09 harness: seeded histories over a pool of Pointset_Powerset<PSET> objects,
// PSET in {C_Polyhedron, NNC_Polyhedron, BD_Shape<mpq_class>, Rational_Box}; every step journalled.
// Grammar of the journal: see lean/Driver/PS.lean (pplv_ps).
//   c09_powerset --seed S --first A --last B --len L --maxdim D [--batch K]
#include "ppl.hh"
#include "common.hh"
#include "poly_io.hh"
#include <memory>
#include <vector>
#include <cstring>

using namespace Parma_Polyhedra_Library;
using pplv::Rng;
using namespace pplv_io;

// Journal with an "exact" mode (stage 2 tie): the ordinary lines are captured instead of printed,
// the step wrappers print xb / xo / xe / xa lines (disjunct LISTS and the `reduced' flag of all slots
// before and after every step; see lean/PPLV/Powerset/ExactReplay.lean).
struct XJournal : pplv::Journal {
  bool exact = false;
  std::vector<std::string> ops, extra;
  XJournal() : pplv::Journal(1) {}
  static bool starts(const std::string& s, const char* p) { return s.compare(0, strlen(p), p) == 0; }
  void raw(const std::string& s) { pplv::Journal::line(s); }
  void line(const std::string& s) {
    if (!exact) { raw(s); return; }
    if (starts(s, "hist ") || s == "end") { raw(s); return; }
    if (starts(s, "op ") || starts(s, "copy ") || starts(s, "swap ") || starts(s, "new ") || starts(s, "newu ")
        || starts(s, "newe ") || starts(s, "q ") || starts(s, "exc ") || starts(s, "ret "))
      ops.push_back(s);
  }
};
static XJournal J;

// ---- domain traits -------------------------------------------------------------------------
template <typename PSET> struct Tr;
template <> struct Tr<C_Polyhedron> { static const char code = 'C'; static const bool nnc = false, poly = true, bds = false, box = false; };
template <> struct Tr<NNC_Polyhedron> { static const char code = 'N'; static const bool nnc = true, poly = true, bds = false, box = false; };
template <> struct Tr<BD_Shape<mpq_class> > { static const char code = 'D'; static const bool nnc = false, poly = false, bds = true, box = false; };
template <> struct Tr<Rational_Box> { static const char code = 'B'; static const bool nnc = false, poly = false, bds = false, box = true; };

// a constraint in the language of the domain
template <typename PSET>
static Constraint dom_con(Rng& r, dimension_type n) {
  typedef Tr<PSET> T;
  unsigned k = r.below(20);
  long c = r.range(-2, 3);
  dimension_type i = r.below(n);
  Linear_Expression e;
  e += 0 * Variable(n - 1);
  if (k < 11 || T::box || n < 2) {                 // interval constraint  +-x_i + c
    e += (r.chance(1, 2) ? 1 : -1) * Variable(i);
  } else if (k < 17 || T::bds) {                    // bounded difference  x_i - x_j + c
    dimension_type j = r.below(n); if (j == i) j = (i + 1) % n;
    if (T::bds || r.chance(1, 2)) { e += Variable(i); e -= Variable(j); }
    else { e += Variable(i); e += Variable(j); if (r.chance(1, 2)) e = -e; }
  } else {
    e = rnd_expr(r, n, 2, false); c = 0;
    if (all_zero(e, n)) e += Variable(i);
  }
  e += c;
  unsigned t = r.below(20);
  if (t < 2) return e == 0;
  if (T::nnc && t < 7) return e > 0;
  return e >= 0;
}

template <typename PSET>
static Constraint_System dom_cs(Rng& r, dimension_type n, unsigned maxm) {
  Constraint_System cs;
  cs.insert(0 * Variable(n - 1) >= -1);
  unsigned m = r.below(maxm + 1);
  for (unsigned i = 0; i < m; ++i) cs.insert(dom_con<PSET>(r, n));
  return cs;
}

template <typename PSET>
struct Hist {
  typedef Pointset_Powerset<PSET> PS;
  typedef Tr<PSET> T;
  Rng r;
  Rng rx;                       // decisions that exist in exact mode only (keeps the histories identical)
  std::unique_ptr<PS> slot[4];
  dimension_type maxdim;
  Hist(uint64_t seed) : r(seed), rx(seed ^ 0x9e3779b97f4a7c15ull) {}

  bool live(int s) const { return (bool)slot[s]; }
  dimension_type dim(int s) { return slot[s]->space_dimension(); }
  int pick_live() { int c[4], k = 0; for (int i = 0; i < 4; ++i) if (live(i)) c[k++] = i; return c[r.below(k)]; }
  int pick_compatible(int s) {
    int c[4], k = 0;
    for (int i = 0; i < 4; ++i) if (live(i) && dim(i) == dim(s)) c[k++] = i;
    return c[r.below(k)];
  }

  // ---- observation -----------------------------------------------------------------------
  void put_disjuncts(OS& o, const PS& p, bool minimized) {
    dimension_type n = p.space_dimension();
    o << " " << p.size();
    for (typename PS::const_iterator i = p.begin(); i != p.end(); ++i) {
      if (minimized) put_cs(o, i->pointset().minimized_constraints(), n);
      else put_cs(o, i->pointset().constraints(), n);
    }
  }
  void show(int s) {
    if (!live(s)) return;
    OS o; o << "ps " << s << " " << dim(s);
    put_disjuncts(o, *slot[s], r.chance(1, 2));
    J.line(o.str());
  }
  void show_all() { for (int s = 0; s < 4; ++s) show(s); }
  bool was_bad[4] = {false, false, false, false};
  void check_ok(int s) {      // reported on the transition good -> bad only
    if (!live(s)) return;
    bool ok = slot[s]->OK();
    if (!ok && !was_bad[s]) { OS o; o << "notok " << s; J.line(o.str()); }
    if (ok && was_bad[s]) { OS o; o << "okagain " << s; J.line(o.str()); }
    was_bad[s] = !ok;
  }
  // generators of every disjunct of a copy (hint for the hull; polyhedra only)
  void hint_gens(int s) {
    PS cp(*slot[s]);
    OS o; dimension_type n = cp.space_dimension();
    o << "hintg " << s << " " << cp.size();
    for (typename PS::const_iterator i = cp.begin(); i != cp.end(); ++i) {
      C_Polyhedron* dummy = 0; (void)dummy;
      put_gens_of(o, i->pointset(), n);
    }
    J.line(o.str());
  }
  static void put_gens_of(OS& o, const C_Polyhedron& p, dimension_type n) { put_gs(o, p.minimized_generators(), n); }
  static void put_gens_of(OS& o, const NNC_Polyhedron& p, dimension_type n) { put_gs(o, p.minimized_generators(), n); }
  template <typename X> static void put_gens_of(OS& o, const X&, dimension_type) { o << " 0"; }

  // ---- exact mode: the sequence and the flag of every slot, read without touching the objects ----
  // (`sequence' / `reduced' are protected members of Powerset: read through a derived class; every
  //  disjunct is deep-copied before its constraints / generators are asked for)
  struct Peek : PS {
    static bool flag(const PS& p) { return static_cast<const Peek&>(p).reduced; }
  };
  std::string snap_slot(int s, bool gens) {
    OS o;
    if (!live(s)) { o << " 0"; return o.str(); }
    const PS& P = *slot[s];
    dimension_type n = P.space_dimension();
    o << " 1 " << n << " " << Peek::flag(P) << " " << P.size();
    for (typename PS::const_iterator i = P.begin(); i != P.end(); ++i) {
      PSET cp(i->pointset());
      put_cs(o, cp.constraints(), n);
      if (gens && T::poly) { o << " g"; put_gens_of(o, cp, n); } else o << " -";
    }
    return o.str();
  }
  void snap_all(const char* tag, bool gens) {
    OS o; o << tag;
    for (int s = 0; s < 4; ++s) o << snap_slot(s, gens);
    J.raw(o.str());
  }
  template <typename F> void xstep(F body) {
    if (!J.exact) { body(); return; }
    J.ops.clear(); J.extra.clear();
    snap_all("xb", true);
    body();
    for (size_t i = 0; i < J.ops.size(); ++i) J.raw("xo " + J.ops[i]);
    for (size_t i = 0; i < J.extra.size(); ++i) J.raw("xe " + J.extra[i]);
    snap_all("xa", false);
  }
  // the constraint systems linear_partition will iterate over in difference_assign(y): the library
  // works on NNC copies of the operands, reduces them and asks every disjunct for constraints();
  // the same preparatory steps on a copy (the order of the rows is a matter of representation; the
  // driver only trusts them after checking that they denote the disjuncts of the reduced operand)
  void journal_diff_cons(const PS& y) {
    if (!J.exact || !T::poly) return;
    Pointset_Powerset<NNC_Polyhedron> yy(y);
    yy.omega_reduce();
    OS o; dimension_type n = yy.space_dimension();
    o << "ycons " << yy.size();
    for (Pointset_Powerset<NNC_Polyhedron>::const_iterator i = yy.begin(); i != yy.end(); ++i)
      put_cs(o, i->pointset().constraints(), n);
    J.extra.push_back(o.str());
  }
  // linear_partition(p, q) itself, on deep copies of two disjuncts (journalled completely)
  void journal_linear_partition() {
    if (!J.exact || !T::poly) return;
    int c[4], m = 0;
    for (int k = 0; k < 4; ++k) if (live(k)) c[m++] = k;
    int s = c[rx.below(m)];
    m = 0;
    for (int k = 0; k < 4; ++k) if (live(k) && dim(k) == dim(s)) c[m++] = k;
    int t = c[rx.below(m)];
    if (slot[s]->size() == 0 || slot[t]->size() == 0) return;
    typename PS::const_iterator i = slot[s]->begin(), j = slot[t]->begin();
    for (unsigned k = rx.below(slot[s]->size()); k > 0; --k) ++i;
    for (unsigned k = rx.below(slot[t]->size()); k > 0; --k) ++j;
    PSET p(i->pointset()), q(j->pointset());
    dimension_type n = p.space_dimension();
    OS o; o << "xlp " << T::code << " " << n;
    put_cs(o, q.constraints(), n);
    std::pair<PSET, Pointset_Powerset<NNC_Polyhedron> > res = linear_partition(p, q);
    put_cs(o, p.constraints(), n);            // the rows linear_partition iterated over, in its order
    put_cs(o, res.first.constraints(), n);
    o << " " << res.second.size();
    for (Pointset_Powerset<NNC_Polyhedron>::const_iterator k = res.second.begin(); k != res.second.end(); ++k)
      put_cs(o, k->pointset().constraints(), n);
    J.raw(o.str());
  }

  // ---- construction ----------------------------------------------------------------------
  PSET make_disjunct(dimension_type n, const Constraint_System& cs) {
    PSET p(cs);
    if (p.space_dimension() < n) p.add_space_dimensions_and_embed(n - p.space_dimension());
    return p;
  }
  // a new disjunct related to the current contents of slot s: fresh, duplicate, subset, adjacent, empty
  Constraint_System related_cs(int s, dimension_type n) { return related_cs(r, s, n, 10); }
  Constraint_System related_cs(Rng& r, int s, dimension_type n, unsigned kinds) {
    unsigned k = kinds == 10 ? r.below(10) : kinds;
    PS& P = *slot[s];
    if (k < 5 || P.size() == 0) return dom_cs<PSET>(r, n, 3);
    // pick an existing disjunct
    unsigned idx = r.below(P.size());
    typename PS::const_iterator it = P.begin();
    for (unsigned i = 0; i < idx; ++i) ++it;
    Constraint_System base = it->pointset().constraints();
    Constraint_System cs; cs.insert(0 * Variable(n - 1) >= -1);
    for (Constraint_System::const_iterator i = base.begin(); i != base.end(); ++i) cs.insert(*i);
    if (k == 5) return cs;                                             // duplicate
    if (k == 6) { cs.insert(dom_con<PSET>(r, n)); return cs; }           // subset
    if (k == 7) { Constraint c = dom_con<PSET>(r, n); cs.insert(c);      // empty (contradiction)
      Linear_Expression e(c.expression()); cs.insert(-e >= 1); return cs; }
    // adjacent: flip one inequality of the base
    Constraint_System adj; adj.insert(0 * Variable(n - 1) >= -1);
    unsigned m = 0; for (Constraint_System::const_iterator i = base.begin(); i != base.end(); ++i) ++m;
    unsigned flip = m ? r.below(m) : 0, j = 0;
    for (Constraint_System::const_iterator i = base.begin(); i != base.end(); ++i, ++j) {
      if (j == flip && i->is_inequality()) {
        Linear_Expression e(i->expression());
        if (T::nnc && i->is_nonstrict_inequality()) adj.insert(-e > 0); else adj.insert(-e >= 0);
      } else adj.insert(*i);
    }
    return adj;
  }
  void create(int s, dimension_type n) {
    OS o; unsigned k = r.below(12);
    if (k == 0) { o << "newu " << s << " " << n; J.line(o.str()); slot[s].reset(new PS(n, UNIVERSE)); return; }
    if (k == 1) { o << "newe " << s << " " << n; J.line(o.str()); slot[s].reset(new PS(n, EMPTY)); return; }
    unsigned m = 1 + r.below(3);
    std::vector<Constraint_System> css;
    for (unsigned i = 0; i < m; ++i) css.push_back(dom_cs<PSET>(r, n, 3));
    o << "new " << s << " " << n << " " << m;
    for (unsigned i = 0; i < m; ++i) put_cs(o, css[i], n);
    J.line(o.str());
    slot[s].reset(new PS(n, EMPTY));
    for (unsigned i = 0; i < m; ++i) slot[s]->add_disjunct(make_disjunct(n, css[i]));
  }

  // replay of simplify_using_context_assign's base-level calls with the public API (diagnosis only)
  void journal_base_simplify(const PS& x0, const PS& y0) {
    PS x(x0), y(y0);
    x.omega_reduce(); y.omega_reduce();
    dimension_type n = x.space_dimension();
    if (x.is_empty() || y.is_empty()) return;
    for (typename PS::const_iterator xi = x.begin(); xi != x.end(); ++xi) {
      PSET enlarged(n, UNIVERSE);
      for (typename PS::const_iterator yi = y.begin(); yi != y.end(); ++yi) {
        PSET ctx(yi->pointset());
        if (y.size() > 1) ctx.intersection_assign(enlarged);
        PSET e(xi->pointset());
        OS o; o << "basesimp " << n; put_cs(o, e.constraints(), n); put_cs(o, ctx.constraints(), n);
        bool b = e.simplify_using_context_assign(ctx);
        put_cs(o, e.constraints(), n); o << " " << b;
        J.line(o.str());
        enlarged.intersection_assign(e);
      }
    }
  }

  // ---- queries -----------------------------------------------------------------------------
  void query(int s) {
    PS& P = *slot[s];
    dimension_type n = P.space_dimension();
    OS o; o << "q " << s << " ";
    switch (r.below(18)) {
      case 0: o << "is_empty " << P.is_empty(); break;
      case 1: o << "is_universe " << P.is_universe(); break;
      case 2: o << "is_bounded " << P.is_bounded(); break;
      case 3: { int t = pick_compatible(s); o << "contains " << t << " " << P.contains(*slot[t]); break; }
      case 4: { int t = pick_compatible(s); o << "strictly_contains " << t << " " << P.strictly_contains(*slot[t]); break; }
      case 5: { int t = pick_compatible(s); o << "disjoint " << t << " " << P.is_disjoint_from(*slot[t]); break; }
      case 6: case 7: { int t = pick_compatible(s); o << "geom_covers " << t << " " << P.geometrically_covers(*slot[t]); break; }
      case 8: case 9: { int t = pick_compatible(s); o << "geom_equals " << t << " " << P.geometrically_equals(*slot[t]); break; }
      case 10: { int t = pick_compatible(s); o << "entails " << t << " " << P.definitely_entails(*slot[t]); break; }
      case 11: { int t = pick_compatible(s); o << "equals " << t << " " << (P == *slot[t]); break; }
      case 12: { Linear_Expression e = rnd_expr(r, n, 2, false); bool up = r.chance(1, 2);
        o << (up ? "bounds_above" : "bounds_below"); put_expr(o, e, n);
        o << " " << (up ? P.bounds_from_above(e) : P.bounds_from_below(e)); break; }
      case 13: case 14: { Linear_Expression e = rnd_expr(r, n, 2, false); bool mx = r.chance(1, 2);
        Coefficient num, den; bool incl;
        bool ok = mx ? P.maximize(e, num, den, incl) : P.minimize(e, num, den, incl);
        o << (mx ? "max" : "min"); put_expr(o, e, n);
        if (!ok) o << " none"; else o << " " << num << " " << den << " " << incl; break; }
      case 15: case 16: { Constraint c = dom_con<PSET>(r, n);
        // base-level relation_with of boxes / BD shapes is not exact (and belongs to C03): polyhedra only
        if (!T::poly || (!T::nnc && c.is_strict_inequality())) { o << "size " << P.size(); break; }
        Poly_Con_Relation rel = P.relation_with(c);
        o << "relcon"; put_con(o, c, n);
        o << " " << rel.implies(Poly_Con_Relation::is_disjoint()) << " " << rel.implies(Poly_Con_Relation::strictly_intersects())
          << " " << rel.implies(Poly_Con_Relation::is_included()) << " " << rel.implies(Poly_Con_Relation::saturates());
        break; }
      default: o << "size " << P.size(); break;
    }
    J.line(o.str());
  }

  // ---- one mutator ---------------------------------------------------------------------------
  void mutate() {
    int s = pick_live();
    PS& P = *slot[s];
    dimension_type n = P.space_dimension();
    OS o;
    int other = -1;
    unsigned k = r.below(40);
    try {
      switch (k) {
      case 0: case 1: case 2: o << "op " << s << " omega_reduce"; J.line(o.str()); P.omega_reduce(); break;
      case 3: case 4: o << "op " << s << " pairwise_reduce"; J.line(o.str()); P.pairwise_reduce(); break;
      case 5: { if (T::poly) hint_gens(s);
        o << "op " << s << " collapse"; J.line(o.str()); P.collapse(); break; }
      case 6: case 7: case 8: case 9: { Constraint_System cs = related_cs(s, n);
        o << "op " << s << " add_disjunct"; put_cs(o, cs, n); J.line(o.str());
        P.add_disjunct(make_disjunct(n, cs)); break; }
      case 10: case 11: case 12: { int t = pick_compatible(s); other = t;
        o << "op " << s << " meet " << t; J.line(o.str());
        if (r.chance(1, 2)) P.intersection_assign(*slot[t]); else P.meet_assign(*slot[t]); break; }
      case 13: case 14: case 15: { int t = pick_compatible(s); other = t;
        o << "op " << s << " ub " << t; J.line(o.str());
        unsigned w = r.below(3);
        if (w == 0) P.upper_bound_assign(*slot[t]); else if (w == 1) P.least_upper_bound_assign(*slot[t]);
        else P.upper_bound_assign_if_exact(*slot[t]);
        break; }
      case 16: case 17: case 18: { int t = pick_compatible(s); other = t;
        if (P.size() * slot[t]->size() > 9) return;
        o << "op " << s << " diff " << t; J.line(o.str());
        journal_diff_cons(*slot[t]);
        P.difference_assign(*slot[t]); break; }
      case 19: case 20: { Constraint_System cs = dom_cs<PSET>(r, n, 2);
        o << "op " << s << " add_cons"; put_cs(o, cs, n); J.line(o.str());
        if (r.chance(1, 2)) P.add_constraints(cs); else { J.extra.push_back("each"); for (Constraint_System::const_iterator i = cs.begin(); i != cs.end(); ++i) P.add_constraint(*i); }
        break; }
      case 21: { Constraint_System cs = dom_cs<PSET>(r, n, 2);
        o << "op " << s << " add_cons"; put_cs(o, cs, n); J.line(o.str());
        if (r.chance(1, 2)) P.refine_with_constraints(cs); else { J.extra.push_back("each"); for (Constraint_System::const_iterator i = cs.begin(); i != cs.end(); ++i) P.refine_with_constraint(*i); }
        break; }
      case 22: case 23: { dimension_type v = r.below(n);
        Linear_Expression e = rnd_expr(r, n, 2, false); Coefficient d = r.chance(1, 4) ? r.range(-2, -1) : r.range(1, 2);
        o << "op " << s << " aff_img " << v << " " << d; put_expr(o, e, n); J.line(o.str());
        P.affine_image(Variable(v), e, d); break; }
      case 24: { dimension_type v = r.below(n);
        Linear_Expression e = rnd_expr(r, n, 2, false); Coefficient d = r.chance(1, 4) ? r.range(-2, -1) : r.range(1, 2);
        o << "op " << s << " aff_pre " << v << " " << d; put_expr(o, e, n); J.line(o.str());
        P.affine_preimage(Variable(v), e, d); break; }
      case 25: { if (n >= maxdim) return; bool emb = r.chance(1, 2);
        o << "op " << s << (emb ? " add_dims_embed 1" : " add_dims_project 1"); J.line(o.str());
        if (emb) P.add_space_dimensions_and_embed(1); else P.add_space_dimensions_and_project(1); break; }
      case 26: { if (n < 2) return; Variables_Set vs; vs.insert(Variable(r.below(n)));
        o << "op " << s << " remove_dims " << vs.size();
        for (Variables_Set::const_iterator i = vs.begin(); i != vs.end(); ++i) o << " " << *i;
        J.line(o.str()); P.remove_space_dimensions(vs); break; }
      case 27: { if (n < 2) return; dimension_type m = 1 + r.below(n - 1);
        o << "op " << s << " remove_higher " << m; J.line(o.str()); P.remove_higher_space_dimensions(m); break; }
      case 28: { if (n < 2) return;   // permutation
        Partial_Function pf; std::vector<dimension_type> perm; for (dimension_type i = 0; i < n; ++i) perm.push_back(i);
        for (dimension_type i = n; i > 1; --i) std::swap(perm[i - 1], perm[r.below(i)]);
        o << "op " << s << " map_dims " << n << " " << n;
        for (dimension_type i = 0; i < n; ++i) { pf.insert(i, perm[i]); o << " " << i << " " << perm[i]; }
        J.line(o.str()); P.map_space_dimensions(pf); break; }
      case 29: { if (n >= maxdim) return; dimension_type v = r.below(n);
        o << "op " << s << " expand " << v << " 1"; J.line(o.str());
        P.expand_space_dimension(Variable(v), 1); break; }
      case 30: { if (n < 2) return; dimension_type v = r.below(n), w = r.below(n); if (v == w) return;
        Variables_Set vs; vs.insert(Variable(v));
        o << "op " << s << " fold " << v << " " << w; J.line(o.str());
        P.fold_space_dimensions(vs, Variable(w)); break; }
      case 31: { int t = pick_live(); other = t; if (n + dim(t) > maxdim || P.size() * slot[t]->size() > 9) return;
        o << "op " << s << " concat " << t; J.line(o.str());
        PS cp(*slot[t]);
        P.concatenate_assign(cp); break; }
      case 32: case 33: case 34: { int t = pick_compatible(s); other = t;
        if (P.size() * slot[t]->size() > 9) return;
        journal_base_simplify(P, *slot[t]);
        o << "op " << s << " simplify " << t << " " << P.size(); J.line(o.str());
        bool b = P.simplify_using_context_assign(*slot[t]);
        OS o2; o2 << "ret " << b; J.line(o2.str());
        break; }
      case 35: { // copy into another slot: copy constructor or assignment (shares the representations)
        int d = r.below(4); if (d == s) return;
        o << "copy " << d << " " << s; J.line(o.str());
        if (live(d) && r.chance(1, 2)) *slot[d] = P; else slot[d].reset(new PS(P));
        was_bad[d] = was_bad[s];
        other = d; break; }
      case 36: { int d = pick_live(); if (d == s) return;
        o << "swap " << s << " " << d; J.line(o.str());
        if (r.chance(1, 2)) P.m_swap(*slot[d]); else swap(P, *slot[d]);
        std::swap(was_bad[s], was_bad[d]);
        other = d; break; }
      case 37: { unsigned m = 1 + r.below(3);
        if (T::poly) { OS o1; o1 << "op " << s << " omega_reduce"; J.line(o1.str()); P.omega_reduce(); show(s); hint_gens(s); }
        o << "op " << s << " collapse_max " << m; J.line(o.str());
        // collapse(unsigned) is protected in Powerset: reach it through BGP99-free public path
        struct Open : PS { void collapse_to(unsigned k) { this->collapse(k); } };
        static_cast<Open&>(P).collapse_to(m); break; }
      case 38: { if (!T::nnc && !T::poly) return;
        o << "op " << s << " closure"; J.line(o.str()); P.topological_closure_assign(); break; }
      default: { int d = r.below(4); if (live(d) && r.chance(2, 3)) return;
        create(d, n); other = d; s = d; break; }
      }
    } catch (...) {
      J.line("exc " + pplv::exc_class());
    }
    show(s);
    if (other >= 0 && other != s) show(other);
    check_ok(s);
    if (other >= 0 && other != s) check_ok(other);
  }

  // ---- exact mode only: situations the sequence-level algorithms are sensitive to ---------------
  // (equal disjuncts at different positions before a reduction; more disjuncts than the bound of
  //  collapse(max_disjuncts); adjacent disjuncts before pairwise_reduce) -- decisions from `rx'
  void xadd(int s, const Constraint_System& cs) {
    xstep([&] {
      PS& P = *slot[s]; dimension_type n = P.space_dimension();
      OS o; o << "op " << s << " add_disjunct"; put_cs(o, cs, n); J.line(o.str());
      try { P.add_disjunct(make_disjunct(n, cs)); } catch (...) { J.line("exc " + pplv::exc_class()); }
    });
  }
  template <typename F> void xop(int s, const std::string& what, F f) {
    xstep([&] {
      OS o; o << "op " << s << " " << what; J.line(o.str());
      try { f(*slot[s]); } catch (...) { J.line("exc " + pplv::exc_class()); }
    });
  }
  // widening functor that journals every call (argument order of PPL: the receiver is the larger one)
  struct JWiden {
    dimension_type n;
    void operator()(PSET& a, const PSET& b, unsigned* = 0) const {
      OS o; o << "widen";
      { PSET ca(a), cb(b); put_cs(o, ca.constraints(), n); put_cs(o, cb.constraints(), n); }
      a.H79_widening_assign(b);
      { PSET ca(a); put_cs(o, ca.constraints(), n); }
      J.extra.push_back(o.str());
    }
  };
  void xbgp99_poly(int s, int t) {
    // make the argument entail the receiver (the precondition of the extrapolation operators)
    xstep([&] {
      OS o; o << "op " << s << " ub " << t; J.line(o.str());
      try { slot[s]->upper_bound_assign(*slot[t]); } catch (...) { J.line("exc " + pplv::exc_class()); }
    });
    dimension_type n = dim(s);
    if (rx.chance(1, 2)) xadd(s, related_cs(rx, s, n, 8));
    if (rx.chance(1, 3)) xadd(s, dom_cs<PSET>(rx, n, 3));
    unsigned mx = rx.below(4);
    xstep([&] {
      OS o; o << "op " << s << " bgp99 " << t << " " << mx; J.line(o.str());
      JWiden w; w.n = n;
      try { slot[s]->BGP99_extrapolation_assign(*slot[t], w, mx); } catch (...) { J.line("exc " + pplv::exc_class()); }
    });
  }

  void xextra() {
    int c[4], m = 0;
    for (int k = 0; k < 4; ++k) if (live(k)) c[m++] = k;
    int s = c[rx.below(m)];
    dimension_type n = dim(s);
    switch (rx.below(5)) {
    case 4: {                       // BGP99 extrapolation with a journalling widening (polyhedra)
      int t = -1;
      for (int k = 0; k < 4; ++k) if (k != s && live(k) && dim(k) == n) t = k;
      if (t < 0 || !T::poly || slot[s]->size() + slot[t]->size() > 6) return;
      if constexpr (T::poly) xbgp99_poly(s, t);
      break; }
    case 0: {                       // equal disjuncts, other disjuncts in between, then a reduction
      if (slot[s]->size() == 0 || slot[s]->size() > 5) return;
      if (rx.chance(1, 2)) xadd(s, dom_cs<PSET>(rx, n, 3));
      xadd(s, related_cs(rx, s, n, 5));
      if (rx.chance(1, 2)) xadd(s, dom_cs<PSET>(rx, n, 3));
      if (rx.chance(1, 3)) xadd(s, related_cs(rx, s, n, 5));
      xop(s, "omega_reduce", [](PS& P) { P.omega_reduce(); });
      break; }
    case 1: {                       // more disjuncts than the bound
      if (slot[s]->size() > 4) return;
      unsigned add = 2 + rx.below(3);
      for (unsigned i = 0; i < add; ++i) xadd(s, dom_cs<PSET>(rx, n, 3));
      unsigned mx = 2 + rx.below(2);
      OS w; w << "collapse_max " << mx;
      xop(s, w.str(), [mx](PS& P) { struct Open : PS { void collapse_to(unsigned k) { this->collapse(k); } };
                                    static_cast<Open&>(P).collapse_to(mx); });
      break; }
    case 2: {                       // adjacent / nested disjuncts, then pairwise_reduce
      if (slot[s]->size() == 0 || slot[s]->size() > 4) return;
      unsigned add = 1 + rx.below(2);
      for (unsigned i = 0; i < add; ++i) xadd(s, related_cs(rx, s, n, rx.chance(1, 4) ? 6 : 8));
      if (rx.chance(1, 3)) xadd(s, dom_cs<PSET>(rx, n, 3));
      xop(s, "pairwise_reduce", [](PS& P) { P.pairwise_reduce(); });
      break; }
    default: {                      // an upper bound with an argument sharing equal disjuncts
      int t = -1;
      for (int k = 0; k < 4; ++k) if (k != s && live(k) && dim(k) == n) t = k;
      if (t < 0 || slot[s]->size() == 0 || slot[s]->size() + slot[t]->size() > 7) return;
      xadd(t, related_cs(rx, s, n, 5));
      xstep([&] {
        OS o; o << "op " << s << " ub " << t; J.line(o.str());
        try { slot[s]->upper_bound_assign(*slot[t]); } catch (...) { J.line("exc " + pplv::exc_class()); }
      });
      break; }
    }
  }

  void run(long h, long seed, long len) {
    dimension_type n = 1 + r.below((unsigned)std::min<long>(maxdim, 3));
    { OS o; o << "hist " << h << " " << seed << " " << T::code; J.line(o.str()); }
    xstep([&] { create(0, n); }); show(0);
    xstep([&] { create(1, n); }); show(1);
    if (r.chance(1, 2)) { xstep([&] { create(2, n); }); show(2); }
    for (long i = 0; i < len; ++i) {
      xstep([&] { mutate(); });
      if (r.chance(1, 2)) { int s = pick_live(); xstep([&] { query(s); }); show(s); }
      if (r.chance(1, 4)) show_all();
      if (J.exact && rx.chance(1, 3)) journal_linear_partition();
      if (J.exact && rx.chance(1, 3)) xextra();
    }
    show_all();
    for (int s = 0; s < 4; ++s) check_ok(s);
    J.line("end");
  }
};

int main(int argc, char** argv) {
  long seed = pplv::arg_long(argc, argv, "--seed", 1);
  long first = pplv::arg_long(argc, argv, "--first", 0);
  long last = pplv::arg_long(argc, argv, "--last", 10);
  long len = pplv::arg_long(argc, argv, "--len", 10);
  long maxdim = pplv::arg_long(argc, argv, "--maxdim", 3);
  long batch = pplv::arg_long(argc, argv, "--batch", 20);
  const char* only = pplv::arg_str(argc, argv, "--dom", "");
  J.exact = pplv::arg_long(argc, argv, "--exact", 0) != 0;
  long nb = (last - first + batch - 1) / batch;
  return pplv::run_batches(0, nb, [&](long b) {
    for (long h = first + b * batch; h < std::min(last, first + (b + 1) * batch); ++h) {
      uint64_t sd = (uint64_t)seed * 1000003ull + (uint64_t)h;
      Rng pick(sd ^ 0x5bd1e995u);
      unsigned k = pick.below(10);
      char dom = k < 4 ? 'C' : k < 8 ? 'N' : k < 9 ? 'D' : 'B';
      if (only[0]) dom = only[0];
      switch (dom) {
        case 'C': { Hist<C_Polyhedron> H(sd); H.maxdim = maxdim; H.run(h, seed, len); break; }
        case 'N': { Hist<NNC_Polyhedron> H(sd); H.maxdim = maxdim; H.run(h, seed, len); break; }
        case 'D': { Hist<BD_Shape<mpq_class> > H(sd); H.maxdim = maxdim; H.run(h, seed, len); break; }
        default: { Hist<Rational_Box> H(sd); H.maxdim = maxdim; H.run(h, seed, len); break; }
      }
    }
  }, 60);
}
