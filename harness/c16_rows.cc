// C16 harness: lock-step histories on CO_Tree, Sparse_Row / Dense_Row, and Linear_Expression
// (+ Constraint / Generator / Congruence and their systems) in both representations.
//
// Every history runs in a forked child (pplv::run_batches) and writes one journal line per
// step:   <K> <id> <op> <args…> | <returned values> | <state sections…>
// The same interpreter executes generated operations and replayed ones (--replay FILE: lines
// "<kind> <op> <args…>"), every operation checks its own preconditions and is skipped when
// they do not hold, so a replay list may be shrunk freely.
//
//   c16_rows --seed S --first B --last B2 [--len L] [--kf 1]      generated histories B..B2-1
//   c16_rows --replay FILE                                          one history from FILE
#include "ppl.hh"
#include "common.hh"
#include <map>
#include <algorithm>
#include <fcntl.h>

using namespace Parma_Polyhedra_Library;
typedef dimension_type dim_t;

// ---- access to private members without touching the library (explicit-instantiation idiom) ----
template <typename Tag, typename Tag::type M> struct Rob { friend typename Tag::type get(Tag) { return M; } };
#define ROB(TAG, MEMBER, ...) \
  struct TAG { using type = __VA_ARGS__; friend type get(TAG); }; template struct Rob<TAG, MEMBER>;
ROB(T_ok, &CO_Tree::OK, bool (CO_Tree::*)() const)
ROB(T_sok, &CO_Tree::structure_OK, bool (CO_Tree::*)() const)
ROB(T_idx, &CO_Tree::indexes, dim_t* CO_Tree::*)
ROB(T_rs, &CO_Tree::reserved_size, dim_t CO_Tree::*)
ROB(T_sz, &CO_Tree::size_, dim_t CO_Tree::*)
ROB(T_md, &CO_Tree::max_depth, unsigned CO_Tree::*)
ROB(T_data, &CO_Tree::data, Coefficient* CO_Tree::*)
ROB(T_bn, &CO_Tree::bisect_near, dim_t (CO_Tree::*)(dim_t, dim_t) const)
ROB(T_bi, &CO_Tree::bisect_in, dim_t (CO_Tree::*)(dim_t, dim_t, dim_t) const)
ROB(S_tree, &Sparse_Row::tree, CO_Tree Sparse_Row::*)
typedef Coefficient_traits::const_reference cref;
ROB(L_gcd, &Linear_Expression::gcd, Coefficient (Linear_Expression::*)(dim_t, dim_t) const)
ROB(L_exd, &Linear_Expression::exact_div_assign, void (Linear_Expression::*)(cref, dim_t, dim_t))
ROB(L_mul, &Linear_Expression::mul_assign, void (Linear_Expression::*)(cref, dim_t, dim_t))
ROB(L_lcr, &Linear_Expression::linear_combine, void (Linear_Expression::*)(const Linear_Expression&, cref, cref, dim_t, dim_t))
ROB(L_lxr, &Linear_Expression::linear_combine_lax, void (Linear_Expression::*)(const Linear_Expression&, cref, cref, dim_t, dim_t))
ROB(L_lci, &Linear_Expression::linear_combine, void (Linear_Expression::*)(const Linear_Expression&, dim_t))
ROB(L_neg, &Linear_Expression::negate, void (Linear_Expression::*)(dim_t, dim_t))
ROB(L_lnz, &Linear_Expression::last_nonzero, dim_t (Linear_Expression::*)() const)
ROB(L_lnzr, &Linear_Expression::last_nonzero, dim_t (Linear_Expression::*)(dim_t, dim_t) const)
ROB(L_fnz, &Linear_Expression::first_nonzero, dim_t (Linear_Expression::*)(dim_t, dim_t) const)
ROB(L_nz, &Linear_Expression::num_zeroes, dim_t (Linear_Expression::*)(dim_t, dim_t) const)
ROB(L_az, &Linear_Expression::all_zeroes, bool (Linear_Expression::*)(dim_t, dim_t) const)
ROB(L_eqr, &Linear_Expression::is_equal_to, bool (Linear_Expression::*)(const Linear_Expression&, dim_t, dim_t) const)
ROB(L_eqs, &Linear_Expression::is_equal_to, bool (Linear_Expression::*)(const Linear_Expression&, cref, cref, dim_t, dim_t) const)
ROB(L_spr, &Linear_Expression::scalar_product_assign, void (Linear_Expression::*)(Coefficient&, const Linear_Expression&, dim_t, dim_t) const)
ROB(L_get, &Linear_Expression::get, cref (Linear_Expression::*)(dim_t) const)
ROB(L_com, &Linear_Expression::have_a_common_variable, bool (Linear_Expression::*)(const Linear_Expression&, Variable, Variable) const)

static const dim_t UNUSED = (dim_t)-1;

// ---- small helpers -----------------------------------------------------------------------------
static std::string cs(cref c) {
  // a corrupted row may hold garbage of millions of digits: name it instead of printing it
  size_t digits = mpz_sizeinbase(raw_value(c).get_mpz_t(), 10);
  if (digits > 3000) return "HUGE" + std::to_string(digits);
  std::ostringstream o; o << c; return o.str();
}
static std::string ls(long v) { return std::to_string(v); }

struct Op {
  std::string kind, name; std::vector<std::string> a;
  long l(size_t i) const { return i < a.size() ? atol(a[i].c_str()) : 0; }
  Coefficient c(size_t i) const { return i < a.size() ? Coefficient(a[i].c_str()) : Coefficient(0); }
  const std::string& s(size_t i) const { static std::string e; return i < a.size() ? a[i] : e; }
  std::string text() const { std::string t = name; for (auto& x : a) { t += ' '; t += x; } return t; }
};
static Op mk(const char* kind, const char* name, std::initializer_list<std::string> args) {
  Op o; o.kind = kind; o.name = name; o.a.assign(args.begin(), args.end()); return o;
}

struct Gen {
  pplv::Rng& R;
  explicit Gen(pplv::Rng& r) : R(r) {}
  Coefficient coef(bool allow_zero = true) {
    unsigned t = R.below(40);
    Coefficient c;
    if (t == 0) { c = 1; c <<= 70; c += (long)R.range(0, 9); if (R.chance(1, 2)) c = -c; }       // beyond 64 bits
    else if (t < 4) c = R.range(-1000000, 1000000);
    else if (t < 12) c = 6 * R.range(-6, 6);                                                     // common factors
    else c = R.range(-7, 7);
    if (!allow_zero && c == 0) c = R.chance(1, 2) ? 1 : -1;
    return c;
  }
  Coefficient small_nz() { long v = R.range(1, 4); unsigned t = R.below(6); if (t == 0) v = 1; if (t == 1) v = -1 * (long)R.range(1, 1) ; return Coefficient(R.chance(1, 2) || t == 1 ? -v : v); }
};

static pplv::Journal J(1);
static bool repaired[8] = { false };   // --repaired 1,3: classes of known findings measured as repaired: exercise them again
static bool exhaustive = false;   // replay mode: exhaustive position-level probes on small trees

// =================================================================================================
//  CO_Tree histories
// =================================================================================================
struct VecIt {   // input iterator for CO_Tree(Iterator, n)
  const std::vector<std::pair<dim_t, Coefficient> >* v; size_t i;
  dim_t index() const { return (*v)[i].first; }
  cref operator*() const { return (*v)[i].second; }
  VecIt& operator++() { ++i; return *this; }
  VecIt operator++(int) { VecIt t = *this; ++i; return t; }
};

struct TreeH {
  CO_Tree t; std::string hid; long step; pplv::Rng* R;
  TreeH() : step(0), R(nullptr) {}
  static std::string contents(const CO_Tree& x) {
    std::string s;
    for (CO_Tree::const_iterator i = x.begin(), e = x.end(); i != e; ++i) { s += ' '; s += ls((long)i.index()); s += ':'; s += cs(*i); }
    return s;
  }
  static std::string state(const CO_Tree& x) {
    return ls((long)(x.*get(T_sz()))) + " " + ls((long)(x.*get(T_rs()))) + " " + ((x.*get(T_ok()))() ? "1" : "0") + " "
         + ((x.*get(T_sok()))() ? "1" : "0");
  }
  std::string key_of(CO_Tree::iterator i) { return i == t.end() ? std::string("end") : ls((long)i.index()); }
  CO_Tree::iterator hint(const std::string& h) {
    if (h.empty() || h == "end" || t.empty()) return t.end();
    return t.bisect((dim_t)atol(h.c_str() + 1));
  }
  bool stored(dim_t k) { if (t.empty()) return false; CO_Tree::iterator i = t.bisect(k); return i != t.end() && i.index() == k; }
  void out(const Op& o, const std::string& ret, const CO_Tree& shown) {
    J.line("T " + hid + "." + ls(step) + " " + o.text() + " | " + ret + " " + state(shown) + " |" + contents(shown));
  }
  // raw array + bisect probes on the private position-level functions
  static void probes(const CO_Tree& x, const std::string& id, pplv::Rng& R, unsigned n_probes) {
    dim_t rs = x.*get(T_rs()); if (rs == 0 || x.empty()) return;
    dim_t* ix = x.*get(T_idx());
    std::string a = "A " + id + " " + ls((long)rs) + " " + ls((long)ix[0]) + " " + ls((long)ix[rs + 1]);
    std::vector<dim_t> used; dim_t maxk = 0;
    for (dim_t p = 1; p <= rs; ++p) { if (ix[p] == UNUSED) a += " _"; else { a += " " + ls((long)ix[p]); used.push_back(p); maxk = ix[p]; } }
    J.line(a);
    if (n_probes == 0) {   // replay mode, small tree: every used hint, every key next to a stored one
      for (size_t hi = 0; hi < used.size(); ++hi)
        for (size_t ki = 0; ki < used.size(); ++ki)
          for (int dlt = -1; dlt <= 1; ++dlt) {
            dim_t key = ix[used[ki]]; if (dlt < 0 && key == 0) continue; key = (dim_t)((long)key + dlt);
            dim_t r = (x.*get(T_bn()))(used[hi], key);
            J.line("B " + id + " near " + ls((long)used[hi]) + " " + ls((long)key) + " " + ls((long)r));
            if (hi <= ki) {
              dim_t r2 = (x.*get(T_bi()))(used[hi], used[ki], key);
              J.line("B " + id + " in " + ls((long)used[hi]) + " " + ls((long)used[ki]) + " " + ls((long)key) + " " + ls((long)r2));
            }
          }
      return;
    }
    for (unsigned q = 0; q < n_probes; ++q) {
      dim_t key;
      unsigned m = R.below(4);
      if (m == 0) key = ix[used[R.below(used.size())]];
      else if (m == 1) { key = ix[used[R.below(used.size())]]; key = key + 1; }
      else if (m == 2) { key = ix[used[R.below(used.size())]]; key = key ? key - 1 : 0; }
      else key = (dim_t)R.range(0, (long)maxk + 2);
      if (R.chance(2, 3)) {
        dim_t h = used[R.below(used.size())];
        dim_t r = (x.*get(T_bn()))(h, key);
        J.line("B " + id + " near " + ls((long)h) + " " + ls((long)key) + " " + ls((long)r));
      } else {
        size_t i1 = R.below(used.size()), i2 = R.below(used.size()); if (i1 > i2) std::swap(i1, i2);
        dim_t r = (x.*get(T_bi()))(used[i1], used[i2], key);
        J.line("B " + id + " in " + ls((long)used[i1]) + " " + ls((long)used[i2]) + " " + ls((long)key) + " " + ls((long)r));
      }
    }
  }
  void apply(const Op& o) {
    const std::string& n = o.name; ++step;
    J.line("P " + hid + "." + ls(step) + " tree " + o.text());
    if (n == "ins") { CO_Tree::iterator i = t.insert((dim_t)o.l(0), o.c(1)); out(o, key_of(i), t); }
    else if (n == "ins0") { CO_Tree::iterator i = t.insert((dim_t)o.l(0)); out(o, key_of(i), t); }
    else if (n == "insh") { CO_Tree::iterator h = hint(o.s(0)); CO_Tree::iterator i = t.insert(h, (dim_t)o.l(1), o.c(2)); out(o, key_of(i), t); }
    else if (n == "insh0") { CO_Tree::iterator h = hint(o.s(0)); CO_Tree::iterator i = t.insert(h, (dim_t)o.l(1)); out(o, key_of(i), t); }
    else if (n == "era") { CO_Tree::iterator i = t.erase((dim_t)o.l(0)); out(o, key_of(i), t); }
    else if (n == "erai") {
      if (!stored((dim_t)o.l(0))) { --step; return; }
      CO_Tree::iterator i = t.erase(t.bisect((dim_t)o.l(0))); out(o, key_of(i), t);
    }
    else if (n == "bis") { if (t.empty()) { --step; return; } out(o, key_of(t.bisect((dim_t)o.l(0))), t); }
    else if (n == "bnear") { if (t.empty()) { --step; return; } out(o, key_of(t.bisect_near(hint(o.s(0)), (dim_t)o.l(1))), t); }
    else if (n == "bin") {
      dim_t f = (dim_t)o.l(0), l = (dim_t)o.l(1);
      if (f > l || !stored(f) || !stored(l)) { --step; return; }
      out(o, key_of(t.bisect_in(t.bisect(f), t.bisect(l), (dim_t)o.l(2))), t);
    }
    else if (n == "incr") { t.increase_keys_from((dim_t)o.l(0), (dim_t)o.l(1)); out(o, "-", t); }
    else if (n == "esl") { t.erase_element_and_shift_left((dim_t)o.l(0)); out(o, "-", t); }
    else if (n == "next") {
      if (!stored((dim_t)o.l(0))) { --step; return; }
      CO_Tree::iterator i = t.bisect((dim_t)o.l(0)); ++i; out(o, key_of(i), t);
    }
    else if (n == "prev") {
      if (t.empty()) { --step; return; }
      CO_Tree::iterator i = o.s(0) == "end" ? t.end() : (stored((dim_t)o.l(0)) ? t.bisect((dim_t)o.l(0)) : t.end());
      if (i == t.begin()) { --step; return; }
      --i; out(o, key_of(i), t);
    }
    else if (n == "clear") { t.clear(); out(o, "-", t); }
    else if (n == "copy") { CO_Tree c(t); out(o, "-", c); }
    else if (n == "assign") { CO_Tree c; c.insert(5, Coefficient(1)); c = t; out(o, "-", c); }
    else if (n == "bulk") {   // args: k v k v ... (strictly increasing keys)
      std::vector<std::pair<dim_t, Coefficient> > v;
      for (size_t i = 0; i + 1 < o.a.size(); i += 2) {
        dim_t k = (dim_t)o.l(i); if (!v.empty() && v.back().first >= k) { --step; return; }
        v.push_back(std::make_pair(k, o.c(i + 1)));
      }
      VecIt it; it.v = &v; it.i = 0;
      CO_Tree c(it, v.size()); t.m_swap(c); out(o, "-", t);
    }
    else if (n == "erasewhile") {   // erasure during iteration: erase every element whose key % m == r
      long m = std::max(1L, o.l(0)), r = o.l(1);
      CO_Tree::iterator i = t.begin();
      while (!t.empty() && i != t.end()) {
        if ((long)(i.index() % (dim_t)m) == r) {
          Op e = mk("tree", "erai", { ls((long)i.index()) });
          i = t.erase(i); out(e, key_of(i), t); ++step;
        } else ++i;
      }
      out(o, "-", t);
    }
    else { --step; return; }
    if (R && !t.empty()) probes(t, hid + "." + ls(step), *R, exhaustive && t.size() <= 8 ? 0 : (t.*get(T_rs()) <= 31 ? 6 : 3));
  }
};

// functors for the combine*() templates (same contract for both row classes)
struct F_scale { Coefficient c; void operator()(Coefficient& x) const { x *= c; } };
struct F_zero { void operator()(Coefficient& x) const { x = 0; } };
struct G_lin { Coefficient c1, c2; void operator()(Coefficient& x, cref y) const { x *= c1; x += c2 * y; } };
struct G_mul { void operator()(Coefficient& x, cref y) const { x *= y; } };
struct G_addmul { Coefficient c2; void operator()(Coefficient& x, cref y) const { x += c2 * y; } };
struct H_lin { Coefficient c2; void operator()(Coefficient& x, cref y) const { x = c2 * y; } };

// =================================================================================================
//  Sparse_Row / Dense_Row histories
// =================================================================================================
struct RowH {
  static const int K = 3;
  Sparse_Row S[K]; Dense_Row D[K]; std::string hid; long step; pplv::Rng* R;
  RowH() : step(0), R(nullptr) {}
  static CO_Tree& tree(Sparse_Row& s) { return s.*get(S_tree()); }
  static const CO_Tree& tree(const Sparse_Row& s) { return s.*get(S_tree()); }
  static std::string sp(const char* tag, int slot, const Sparse_Row& s) {
    const CO_Tree& t = tree(s);
    std::string r = std::string(" | ") + tag + " " + ls(slot) + " " + ls((long)s.size()) + " " + (s.OK() ? "1" : "0") + " "
      + ((t.*get(T_ok()))() ? "1" : "0");
    for (Sparse_Row::const_iterator i = s.begin(), e = s.end(); i != e; ++i) { r += ' '; r += ls((long)i.index()); r += ':'; r += cs(*i); }
    return r;
  }
  static std::string dn(const char* tag, int slot, const Dense_Row& d) {
    std::string r = std::string(" | ") + tag + " " + ls(slot) + " " + ls((long)d.size()) + " " + (d.OK() ? "1" : "0");
    for (dim_t i = 0; i < d.size(); ++i) { r += ' '; r += cs(d[i]); }
    return r;
  }
  std::string both(int a) { return sp("S", a, S[a]) + dn("D", a, D[a]); }
  void out(const Op& o, const std::string& ret, const std::string& sections) {
    J.line("R " + hid + "." + ls(step) + " " + o.text() + " | " + ret + sections);
  }
  std::string skey(int a, Sparse_Row::iterator i) { return i == S[a].end() ? std::string("end") : ls((long)i.index()); }
  std::string dkey(int a, Dense_Row::iterator i) { return i == D[a].end() ? std::string("end") : ls((long)i.index()); }
  Sparse_Row::iterator hint(int a, const std::string& h) {
    if (h.empty() || h == "end") return S[a].end();
    dim_t k = (dim_t)atol(h.c_str() + 1);
    if (h[0] == 'f') return k < S[a].size() ? S[a].find(k) : S[a].end();
    return k <= S[a].size() ? S[a].lower_bound(k) : S[a].end();
  }
  bool okslot(long a) const { return a >= 0 && a < K; }
  // keep the numbers printable: products of products double their length at every step
  bool big(int a) const {
    for (dim_t i = 0; i < D[a].size(); ++i) if (mpz_sizeinbase(raw_value(D[a][i]).get_mpz_t(), 10) > 300) return true;
    return false;
  }
  void apply(const Op& o) {
    const std::string& n = o.name; ++step;
    J.line("P " + hid + "." + ls(step) + " row " + o.text());
    int a = (int)o.l(0);
    if (!okslot(a)) { --step; return; }
    dim_t sz = S[a].size();
    if (n == "new") { S[a] = Sparse_Row((dim_t)o.l(1)); D[a] = Dense_Row((dim_t)o.l(1)); out(o, "-", both(a)); }
    else if (n == "set") {
      dim_t i = (dim_t)o.l(1); if (i >= sz) { --step; return; }
      Sparse_Row::iterator r = S[a].insert(i, o.c(2)); Dense_Row::iterator q = D[a].insert(i, o.c(2));
      out(o, skey(a, r) + " " + dkey(a, q), both(a));
    }
    else if (n == "seth") {
      dim_t i = (dim_t)o.l(2); if (i >= sz) { --step; return; }
      Sparse_Row::iterator r = S[a].insert(hint(a, o.s(1)), i, o.c(3)); Dense_Row::iterator q = D[a].insert(D[a].begin(), i, o.c(3));
      out(o, skey(a, r) + " " + dkey(a, q), both(a));
    }
    else if (n == "ins0") {
      dim_t i = (dim_t)o.l(1); if (i >= sz) { --step; return; }
      Sparse_Row::iterator r = S[a].insert(i); Dense_Row::iterator q = D[a].insert(i);
      out(o, skey(a, r) + " " + dkey(a, q), both(a));
    }
    else if (n == "ins0h") {
      dim_t i = (dim_t)o.l(2); if (i >= sz) { --step; return; }
      Sparse_Row::iterator r = S[a].insert(hint(a, o.s(1)), i); Dense_Row::iterator q = D[a].insert(D[a].begin(), i);
      out(o, skey(a, r) + " " + dkey(a, q), both(a));
    }
    else if (n == "idx") {   // non-const operator[]: stores the entry, returns a reference
      dim_t i = (dim_t)o.l(1); if (i >= sz) { --step; return; }
      Coefficient x = S[a][i]; Coefficient y = D[a][i];
      out(o, cs(x) + " " + cs(y), both(a));
    }
    else if (n == "get") {
      dim_t i = (dim_t)o.l(1); if (i >= sz) { --step; return; }
      const Sparse_Row& s = S[a]; const Dense_Row& d = D[a];
      out(o, cs(s.get(i)) + " " + cs(d.get(i)) + " " + cs(s[i]), both(a));
    }
    else if (n == "find" || n == "findh") {
      bool h = n == "findh"; dim_t i = (dim_t)o.l(h ? 2 : 1); if (i >= sz) { --step; return; }
      Sparse_Row::iterator r = h ? S[a].find(hint(a, o.s(1)), i) : S[a].find(i);
      const Sparse_Row& s = S[a];
      Sparse_Row::const_iterator rc = h ? s.find(Sparse_Row::const_iterator(hint(a, o.s(1))), i) : s.find(i);
      out(o, skey(a, r) + " " + (rc == s.end() ? std::string("end") : ls((long)rc.index())), both(a));
    }
    else if (n == "lb" || n == "lbh") {
      bool h = n == "lbh"; dim_t i = (dim_t)o.l(h ? 2 : 1); if (i > sz) { --step; return; }
      Sparse_Row::iterator r = h ? S[a].lower_bound(hint(a, o.s(1)), i) : S[a].lower_bound(i);
      const Sparse_Row& s = S[a];
      Sparse_Row::const_iterator rc = h ? s.lower_bound(Sparse_Row::const_iterator(hint(a, o.s(1))), i) : s.lower_bound(i);
      out(o, skey(a, r) + " " + (rc == s.end() ? std::string("end") : ls((long)rc.index())), both(a));
    }
    else if (n == "reset") {
      dim_t i = (dim_t)o.l(1); if (i >= sz) { --step; return; }
      S[a].reset(i); D[a].reset(i); out(o, "-", both(a));
    }
    else if (n == "resetit") {
      dim_t i = (dim_t)o.l(1); if (i >= sz) { --step; return; }
      Sparse_Row::iterator it = S[a].find(i); if (it == S[a].end()) { --step; return; }
      Sparse_Row::iterator r = S[a].reset(it); D[a].reset(i); out(o, skey(a, r), both(a));
    }
    else if (n == "resetr") {
      dim_t lo = (dim_t)o.l(1), hi = (dim_t)o.l(2); if (lo > hi || hi > sz) { --step; return; }
      Sparse_Row::iterator r = S[a].reset(S[a].lower_bound(lo), S[a].lower_bound(hi)); D[a].reset(lo, hi);
      out(o, skey(a, r), both(a));
    }
    else if (n == "resetafter") {
      dim_t i = (dim_t)o.l(1); if (i >= sz) { --step; return; }
      S[a].reset_after(i); D[a].reset(i, sz); out(o, "-", both(a));
    }
    else if (n == "erasewhile") {   // erasure during iteration over the sparse row
      long m = std::max(1L, o.l(1)), r = o.l(2);
      Sparse_Row::iterator i = S[a].begin();
      while (i != S[a].end()) {
        if ((long)(i.index() % (dim_t)m) == r) {
          dim_t k = i.index(); Op e = mk("row", "resetit", { ls(a), ls((long)k) });
          i = S[a].reset(i); D[a].reset(k); out(e, skey(a, i), both(a)); ++step;
        } else ++i;
      }
      out(o, "-", both(a));
    }
    else if (n == "swapc") {
      dim_t i = (dim_t)o.l(1), j = (dim_t)o.l(2); if (i >= sz || j >= sz) { --step; return; }
      S[a].swap_coefficients(i, j); D[a].swap_coefficients(i, j); out(o, "-", both(a));
    }
    else if (n == "swapit") {
      dim_t i = (dim_t)o.l(1), j = (dim_t)o.l(2); if (i >= sz || j >= sz) { --step; return; }
      Sparse_Row::iterator p = S[a].find(i), q = S[a].find(j); if (p == S[a].end() || q == S[a].end()) { --step; return; }
      S[a].swap_coefficients(p, q); D[a].swap_coefficients(D[a].find(i), D[a].find(j)); out(o, "-", both(a));
    }
    else if (n == "shift") {
      dim_t k = (dim_t)o.l(1), i = (dim_t)o.l(2); if (i > sz || sz + k > 400) { --step; return; }
      S[a].add_zeroes_and_shift(k, i); D[a].add_zeroes_and_shift(k, i); out(o, "-", both(a));
    }
    else if (n == "del") {
      dim_t i = (dim_t)o.l(1); if (i >= sz) { --step; return; }
      S[a].delete_element_and_shift(i);
      for (dim_t j = i; j + 1 < sz; ++j) D[a].swap_coefficients(j, j + 1);   // as remove_space_dimensions does
      D[a].resize(sz - 1);
      out(o, "-", both(a));
    }
    else if (n == "resize") {
      dim_t k = (dim_t)o.l(1); if (k > 400) { --step; return; }
      S[a].resize(k); D[a].resize(k); out(o, "-", both(a));
    }
    else if (n == "clear") { S[a].clear(); D[a].clear(); out(o, "-", both(a)); }
    else if (n == "norm") { S[a].normalize(); D[a].normalize(); out(o, "-", both(a)); }
    else if (n == "lc" || n == "lcr") {
      int b = (int)o.l(1); if (!okslot(b) || b == a) { --step; return; }
      Coefficient c1 = o.c(2), c2 = o.c(3); if (c1 == 0 || c2 == 0 || big(a) || big(b)) { --step; return; }
      dim_t s = 0, e = sz;
      if (n == "lcr") { s = (dim_t)o.l(4); e = (dim_t)o.l(5); if (s > e || e > sz || e > S[b].size()) { --step; return; } }
      else if (S[b].size() != sz) { --step; return; }
      Sparse_Row xs(S[a]); Dense_Row xd(D[a]);
      if (n == "lc") {
        S[a].linear_combine(S[b], c1, c2); D[a].linear_combine(D[b], c1, c2);
        linear_combine(xs, D[b], c1, c2); linear_combine(xd, S[b], c1, c2);
      } else {
        S[a].linear_combine(S[b], c1, c2, s, e); D[a].linear_combine(D[b], c1, c2, s, e);
        linear_combine(xs, D[b], c1, c2, s, e); linear_combine(xd, S[b], c1, c2, s, e);
      }
      out(o, "-", both(a) + sp("XS", a, xs) + dn("XD", a, xd));
    }
    else if (n == "comb") {      // combine / combine_needs_first / combine_needs_second with functors
      int b = (int)o.l(1); long mode = o.l(2); Coefficient c1 = o.c(3), c2 = o.c(4);
      if (!okslot(b) || b == a || S[b].size() != sz || c1 == 0 || c2 == 0 || big(a) || big(b)) { --step; return; }
      if (mode == 0) { F_scale f = { c1 }; G_lin g = { c1, c2 }; H_lin h = { c2 }; S[a].combine(S[b], f, g, h); D[a].combine(D[b], f, g, h); }
      else if (mode == 1) { F_zero f; G_mul g; S[a].combine_needs_first(S[b], f, g); D[a].combine_needs_first(D[b], f, g); }
      else { G_addmul g = { c2 }; H_lin h = { c2 }; S[a].combine_needs_second(S[b], g, h); D[a].combine_needs_second(D[b], g, h); }
      out(o, "-", both(a));
    }
    else if (n == "swaprows") {
      int b = (int)o.l(1); if (!okslot(b)) { --step; return; }
      swap(S[a], S[b]); swap(D[a], D[b]); out(o, "-", both(a) + both(b));
    }
    else if (n == "swapmix") {   // swap(Sparse_Row&, Dense_Row&) both ways: slot a and slot b exchange contents
      int b = (int)o.l(1); if (!okslot(b) || a == b) { --step; return; }
      swap(S[a], D[b]); swap(D[a], S[b]); out(o, "-", both(a) + both(b));
    }
    else if (n == "copy") {
      int b = (int)o.l(1); if (!okslot(b)) { --step; return; }
      Sparse_Row ns(S[b]); Dense_Row nd(D[b]); swap(S[a], ns); swap(D[a], nd); out(o, "-", both(a));
    }
    else if (n == "conv") {      // Sparse_Row(Dense_Row), Dense_Row(Sparse_Row)
      int b = (int)o.l(1); if (!okslot(b)) { --step; return; }
      if (S[b].size() == 0 && o.l(2) != 1) { --step; return; }   // known-finding class (size 0), only on request
      Sparse_Row ns(D[b]); Dense_Row nd(S[b]); swap(S[a], ns); swap(D[a], nd); out(o, "-", both(a));
    }
    else if (n == "convsz") {    // the (row, size, capacity) constructors, all four source/target pairs
      int b = (int)o.l(1); dim_t k = (dim_t)o.l(2); if (!okslot(b) || k > 400 || k == 0) { --step; return; }   // capacity != 0 is asserted
      Sparse_Row ss(S[b], k, k); Dense_Row ds(S[b], k, k); Dense_Row dd(D[b], k, k);
      std::string extra = dn("XD", a, dd);
      if (o.l(3) == 1 || k >= D[b].size()) { Sparse_Row sd(D[b], k, k); extra += sp("XS", a, sd); }
      swap(S[a], ss); swap(D[a], ds); out(o, "-", both(a) + extra);
    }
    else if (n == "asgsd") {     // Sparse_Row = Dense_Row
      int b = (int)o.l(1); if (!okslot(b)) { --step; return; }
      Dense_Row src(D[b]); S[a] = src; D[a] = src; out(o, "-", both(a));
    }
    else if (n == "asgds") {     // Dense_Row = Sparse_Row into a fresh (capacity 0) row: re-allocating path
      int b = (int)o.l(1); if (!okslot(b)) { --step; return; }
      Sparse_Row src(S[b]); Dense_Row nd; nd = src; swap(D[a], nd); S[a] = src; out(o, "-", both(a));
    }
    else if (n == "asgds_raw") { // Dense_Row = Sparse_Row into the existing row (no re-allocation when it fits)
      int b = (int)o.l(1); if (!okslot(b)) { --step; return; }
      Sparse_Row src(S[b]); D[a] = src; S[a] = src; out(o, "-", both(a));
    }
    else if (n == "eq") {
      int b = (int)o.l(1); if (!okslot(b)) { --step; return; }
      std::string r;
      r += (S[a] == S[b]) ? "1" : "0"; r += (D[a] == D[b]) ? " 1" : " 0"; r += (S[a] == D[b]) ? " 1" : " 0"; r += (D[a] == S[b]) ? " 1" : " 0";
      r += (S[a] != S[b]) ? " 1" : " 0"; r += (D[a] != S[b]) ? " 1" : " 0";
      out(o, r, both(a));
    }
    else { --step; return; }
    if (R && tree(S[a]).size() > 0 && (exhaustive || R->chance(1, 3)))
      TreeH::probes(tree(S[a]), hid + "." + ls(step), *R, exhaustive && tree(S[a]).size() <= 8 ? 0 : 3);
  }
};

// =================================================================================================
//  Linear_Expression (+ Constraint / Generator / Congruence, systems) histories
// =================================================================================================
// Generator::divisor() throws on rays/lines; print 0 for them
static Coefficient dz(const Generator& g) { return (g.is_point() || g.is_closure_point()) ? Coefficient(g.divisor()) : Coefficient(0); }

struct ExprH {
  static const int K = 3;
  Linear_Expression* Ed[K]; Linear_Expression* Es[K]; std::string hid; long step;
  ExprH() : step(0) { for (int i = 0; i < K; ++i) { Ed[i] = new Linear_Expression(DENSE); Es[i] = new Linear_Expression(SPARSE); } }
  static std::string vec(const Linear_Expression& e) {
    std::string r = ls((long)e.space_dimension()) + " " + (e.OK() ? "1" : "0") + " " + (e.representation() == DENSE ? "d" : "s") + " " + cs(e.inhomogeneous_term());
    for (dim_t i = 0; i < e.space_dimension(); ++i) { r += ' '; r += cs(e.coefficient(Variable(i))); }
    return r;
  }
  static std::string iter(const Linear_Expression& e) {
    std::string r;
    for (Linear_Expression::const_iterator i = e.begin(), end = e.end(); i != end; ++i) { r += ' '; r += ls((long)i.variable().id()); r += ':'; r += cs(*i); }
    // backwards, too
    std::string b; Linear_Expression::const_iterator i = e.end(), beg = e.begin();
    while (i != beg) { --i; b = " " + ls((long)i.variable().id()) + ":" + cs(*i) + b; }
    if (b != r) r += " BACKWARD-DIFFERS" + b;
    return r;
  }
  std::string both(int a) {
    const Linear_Expression& d = *Ed[a]; const Linear_Expression& s = *Es[a];
    std::string q = std::string(d.is_equal_to(s) ? "1" : "0") + (s.is_equal_to(d) ? " 1" : " 0") + " " + ls(compare(d, s)) + " " + ls(compare(s, d));
    return " | ED " + ls(a) + " " + vec(d) + " | ES " + ls(a) + " " + vec(s) + " | ID " + ls(a) + iter(d) + " | IS " + ls(a) + iter(s) + " | Q " + ls(a) + " " + q;
  }
  void out(const Op& o, const std::string& ret, const std::string& sections) {
    J.line("X " + hid + "." + ls(step) + " " + o.text() + " | " + ret + sections);
  }
  bool okslot(long a) const { return a >= 0 && a < K; }
  bool big(int a) const {
    const Linear_Expression& e = *Ed[a];
    if (mpz_sizeinbase(raw_value(e.inhomogeneous_term()).get_mpz_t(), 10) > 300) return true;
    for (dim_t i = 0; i < e.space_dimension(); ++i) if (mpz_sizeinbase(raw_value(e.coefficient(Variable(i))).get_mpz_t(), 10) > 300) return true;
    return false;
  }
  // operand in the same (mix = 0) or in the other (mix = 1) representation
  const Linear_Expression& arg(int b, bool for_dense, long mix) { return (for_dense != (mix != 0)) ? *Ed[b] : *Es[b]; }
  static Variables_Set vset(const Op& o, size_t from, dim_t dim) {
    Variables_Set v; for (size_t i = from; i < o.a.size(); ++i) { long x = o.l(i); if (x >= 0 && (dim_t)x < dim) v.insert((dim_t)x); } return v;
  }
  void apply(const Op& o) {
    const std::string& n = o.name; ++step;
    J.line("P " + hid + "." + ls(step) + " expr " + o.text());
    int a = (int)o.l(0); if (!okslot(a)) { --step; return; }
    Linear_Expression& d = *Ed[a]; Linear_Expression& s = *Es[a];
    dim_t dim = d.space_dimension();
    if ((n == "mul" || n == "mulr" || n == "add" || n == "sub" || n == "addmul" || n == "submul" || n == "lc3" || n == "lclax"
         || n == "lcv" || n == "lcr" || n == "lclaxr") && (big(a) || big(0) || big(1) || big(2))) { --step; return; }
    if (n == "new") { dim_t k = (dim_t)o.l(1); if (k > 300) { --step; return; }
      d = Linear_Expression(DENSE); s = Linear_Expression(SPARSE); d.set_space_dimension(k); s.set_space_dimension(k); out(o, "-", both(a)); }
    else if (n == "setc") { dim_t v = (dim_t)o.l(1); if (v >= dim) { --step; return; } d.set_coefficient(Variable(v), o.c(2)); s.set_coefficient(Variable(v), o.c(2)); out(o, "-", both(a)); }
    else if (n == "seti") { d.set_inhomogeneous_term(o.c(1)); s.set_inhomogeneous_term(o.c(1)); out(o, "-", both(a)); }
    else if (n == "setdim") { dim_t k = (dim_t)o.l(1); if (k > 300) { --step; return; } d.set_space_dimension(k); s.set_space_dimension(k); out(o, "-", both(a)); }
    else if (n == "add" || n == "sub") {
      int b = (int)o.l(1); long mix = o.l(2); if (!okslot(b) || b == a) { --step; return; }
      if (n == "add") { d += arg(b, true, mix); s += arg(b, false, mix); } else { d -= arg(b, true, mix); s -= arg(b, false, mix); }
      out(o, "-", both(a));
    }
    else if (n == "mul") { d *= o.c(1); s *= o.c(1); out(o, "-", both(a)); }
    else if (n == "div") { if (o.c(1) == 0) { --step; return; } d /= o.c(1); s /= o.c(1); out(o, "-", both(a)); }
    else if (n == "neg") { neg_assign(d); neg_assign(s); out(o, "-", both(a)); }
    else if (n == "addv" || n == "subv") { dim_t v = (dim_t)o.l(1); if (v > 300) { --step; return; }
      if (n == "addv") { d += Variable(v); s += Variable(v); } else { d -= Variable(v); s -= Variable(v); } out(o, "-", both(a)); }
    else if (n == "addn" || n == "subn") { if (n == "addn") { d += o.c(1); s += o.c(1); } else { d -= o.c(1); s -= o.c(1); } out(o, "-", both(a)); }
    else if (n == "addmulv" || n == "submulv") { dim_t v = (dim_t)o.l(2); if (v > 300) { --step; return; }
      if (n == "addmulv") { add_mul_assign(d, o.c(1), Variable(v)); add_mul_assign(s, o.c(1), Variable(v)); }
      else { sub_mul_assign(d, o.c(1), Variable(v)); sub_mul_assign(s, o.c(1), Variable(v)); }
      out(o, "-", both(a)); }
    else if (n == "addmul" || n == "submul") {
      int b = (int)o.l(2); long mix = o.l(3); if (!okslot(b) || b == a) { --step; return; }
      if (n == "addmul") { add_mul_assign(d, o.c(1), arg(b, true, mix)); add_mul_assign(s, o.c(1), arg(b, false, mix)); }
      else { sub_mul_assign(d, o.c(1), arg(b, true, mix)); sub_mul_assign(s, o.c(1), arg(b, false, mix)); }
      out(o, "-", both(a));
    }
    else if (n == "lc3" || n == "lclax") {
      int b = (int)o.l(1); long mix = o.l(4); if (!okslot(b) || b == a) { --step; return; }
      Coefficient c1 = o.c(2), c2 = o.c(3);
      if (n == "lc3") { if (c1 == 0 || c2 == 0) { --step; return; } d.linear_combine(arg(b, true, mix), c1, c2); s.linear_combine(arg(b, false, mix), c1, c2); }
      else {
        if (c1 == 0 && c2 != 0 && mix && o.l(5) != 1) { --step; return; }   // known-finding class, only on request
        d.linear_combine_lax(arg(b, true, mix), c1, c2); s.linear_combine_lax(arg(b, false, mix), c1, c2);
      }
      out(o, "-", both(a));
    }
    else if (n == "lcv") {       // linear_combine(y, v): both must have a nonzero coefficient for v, same dimension
      int b = (int)o.l(1); dim_t v = (dim_t)o.l(2); long mix = o.l(3);
      if (!okslot(b) || b == a || v >= dim || Ed[b]->space_dimension() != dim) { --step; return; }
      if (d.coefficient(Variable(v)) == 0 || Ed[b]->coefficient(Variable(v)) == 0) { --step; return; }
      // (the public overload taking a Variable is declared but never defined in the library)
      (d.*get(L_lci()))(arg(b, true, mix), v + 1); (s.*get(L_lci()))(arg(b, false, mix), v + 1); out(o, "-", both(a));
    }
    else if (n == "lcr" || n == "lclaxr") {
      int b = (int)o.l(1); long mix = o.l(6); if (!okslot(b) || b == a) { --step; return; }
      Coefficient c1 = o.c(2), c2 = o.c(3); dim_t st = (dim_t)o.l(4), en = (dim_t)o.l(5);
      if (st > en || en > dim + 1 || en > Ed[b]->space_dimension() + 1) { --step; return; }
      if (n == "lcr") { if (c1 == 0 || c2 == 0) { --step; return; }
        (d.*get(L_lcr()))(arg(b, true, mix), c1, c2, st, en); (s.*get(L_lcr()))(arg(b, false, mix), c1, c2, st, en); }
      else {
        if (c1 == 0 && c2 != 0 && mix && o.l(7) != 1) { --step; return; }   // known-finding class, only on request
        (d.*get(L_lxr()))(arg(b, true, mix), c1, c2, st, en); (s.*get(L_lxr()))(arg(b, false, mix), c1, c2, st, en);
      }
      out(o, "-", both(a));
    }
    else if (n == "swapd") { dim_t v = (dim_t)o.l(1), w = (dim_t)o.l(2); if (v >= dim || w >= dim) { --step; return; }
      d.swap_space_dimensions(Variable(v), Variable(w)); s.swap_space_dimensions(Variable(v), Variable(w)); out(o, "-", both(a)); }
    else if (n == "rmd") { Variables_Set v = vset(o, 1, dim); d.remove_space_dimensions(v); s.remove_space_dimensions(v); out(o, "-", both(a)); }
    else if (n == "shiftd") { dim_t v = (dim_t)o.l(1), k = (dim_t)o.l(2); if (v > dim || dim + k > 300) { --step; return; }
      d.shift_space_dimensions(Variable(v), k); s.shift_space_dimensions(Variable(v), k); out(o, "-", both(a)); }
    else if (n == "perm") {
      std::vector<Variable> cyc; std::set<long> seen;
      for (size_t i = 1; i < o.a.size(); ++i) { long x = o.l(i); if (x < 0 || (dim_t)x >= dim || seen.count(x)) { --step; return; } seen.insert(x); cyc.push_back(Variable((dim_t)x)); }
      d.permute_space_dimensions(cyc); s.permute_space_dimensions(cyc); out(o, "-", both(a));
    }
    else if (n == "norm") { d.normalize(); s.normalize(); out(o, "-", both(a)); }
    else if (n == "signnorm") { d.sign_normalize(); s.sign_normalize(); out(o, "-", both(a)); }
    else if (n == "mulr" || n == "negr") {
      dim_t st = (dim_t)o.l(n == "mulr" ? 2 : 1), en = (dim_t)o.l(n == "mulr" ? 3 : 2); if (st > en || en > dim + 1) { --step; return; }
      if (n == "mulr") { (d.*get(L_mul()))(o.c(1), st, en); (s.*get(L_mul()))(o.c(1), st, en); }
      else { (d.*get(L_neg()))(st, en); (s.*get(L_neg()))(st, en); }
      out(o, "-", both(a));
    }
    else if (n == "exdivg") {    // exact_div_assign by the gcd of the range
      dim_t st = (dim_t)o.l(1), en = (dim_t)o.l(2); if (st > en || en > dim + 1) { --step; return; }
      Coefficient g = (d.*get(L_gcd()))(st, en), g2 = (s.*get(L_gcd()))(st, en);
      if (g == 0 || g != g2) { out(o, cs(g) + " " + cs(g2), both(a)); return; }
      (d.*get(L_exd()))(g, st, en); (s.*get(L_exd()))(g, st, en); out(o, cs(g) + " " + cs(g2), both(a));
    }
    else if (n == "copyrep") {   // copy construction across representations, set_representation there and back
      int b = (int)o.l(1); if (!okslot(b)) { --step; return; }
      Linear_Expression nd(*Es[b], DENSE), ns(*Ed[b], SPARSE);
      nd.set_representation(SPARSE); nd.set_representation(DENSE); ns.set_representation(DENSE); ns.set_representation(SPARSE);
      swap(d, nd); swap(s, ns); out(o, "-", both(a));
    }
    else if (n == "ctor3") {     // Linear_Expression(e, space_dim, r), source in the other representation when mix
      int b = (int)o.l(1); dim_t k = (dim_t)o.l(2); long mix = o.l(3); if (!okslot(b) || k > 300) { --step; return; }
      if (o.l(4) != 1 && mix && k < Ed[b]->space_dimension()) { --step; return; }   // known-finding class, only on request
      Linear_Expression nd(arg(b, true, mix), k, DENSE), ns(arg(b, false, mix), k, SPARSE);
      swap(d, nd); swap(s, ns); out(o, "-", both(a));
    }
    else if (n == "q") {         // scalar observations of one expression, on a range
      dim_t st = (dim_t)o.l(1), en = (dim_t)o.l(2); if (st > en || en > dim + 1) { --step; return; }
      std::string r[2]; Linear_Expression* e[2] = { &d, &s };
      for (int k = 0; k < 2; ++k) {
        const Linear_Expression& x = *e[k];
        r[k] = std::string(x.is_zero() ? "1" : "0") + (x.all_homogeneous_terms_are_zero() ? " 1" : " 0") + " " + cs((x.*get(L_gcd()))(st, en))
          + " " + ls((long)(x.*get(L_lnz()))()) + " " + ls((long)(x.*get(L_lnzr()))(st, en)) + " " + ls((long)(x.*get(L_fnz()))(st, en))
          + " " + ls((long)(x.*get(L_nz()))(st, en)) + " " + ((x.*get(L_az()))(st, en) ? "1" : "0");
      }
      out(o, r[0] + " ; " + r[1], both(a));
    }
    else if (n == "q2") {        // scalar observations of two expressions, all four representation pairs
      int b = (int)o.l(1); dim_t st = (dim_t)o.l(2), en = (dim_t)o.l(3); Coefficient c1 = o.c(4), c2 = o.c(5);
      if (!okslot(b)) { --step; return; }
      dim_t dimb = Ed[b]->space_dimension();
      if (st > en || en > dim + 1 || en > dimb + 1) { --step; return; }
      std::string r;
      for (int k = 0; k < 4; ++k) {
        const Linear_Expression& x = (k & 1) ? s : d; const Linear_Expression& y = (k & 2) ? *Es[b] : *Ed[b];
        Coefficient sp; (x.*get(L_spr()))(sp, y, st, en);
        std::string one = ls(compare(x, y)) + " " + (x.is_equal_to(y) ? "1" : "0") + " " + cs(sp) + " " + ((x.*get(L_eqr()))(y, st, en) ? "1" : "0")
          + " " + ((x.*get(L_eqs()))(y, c1, c2, st, en) ? "1" : "0");
        if (st >= 1 && en >= 1) one += std::string(" ") + ((x.*get(L_com()))(y, Variable(st - 1), Variable(en - 1)) ? "1" : "0"); else one += " -";
        if (dim <= dimb) { Coefficient z; Scalar_Products::assign(z, x, y); one += " " + cs(z); } else one += " -";
        r += (k ? " ; " : "") + one;
      }
      out(o, r, both(a));
    }
    else if (n == "mk") {        // Constraint / Generator / Congruence from both representations
      long what = o.l(1); std::string r[2];
      for (int k = 0; k < 2; ++k) {
        const Linear_Expression& e = k ? s : d; Representation rep = k ? SPARSE : DENSE; std::ostringstream os;
        using namespace IO_Operators;
        if (what <= 2) {
          Constraint c0 = what == 0 ? (e >= 0) : what == 1 ? (e == 0) : (e > 0);
          Constraint c(c0, rep);
          os << c.space_dimension() << " " << c.OK() << " t" << (int)c.type() << " " << c.inhomogeneous_term();
          for (dim_t i = 0; i < c.space_dimension(); ++i) os << " " << c.coefficient(Variable(i));
          os << " taut" << c.is_tautological() << " inc" << c.is_inconsistent();
          Constraint cd(c0, DENSE);
          os << " eqv" << c.is_equivalent_to(cd) << " eq" << (c == cd) << " cmp" << compare(c, cd);
          Constraint_System sys(rep); sys.insert(c); sys.insert(Constraint(e + 1 >= 0, rep)); sys.insert(c);
          os << " sys" << sys.OK();
          for (Constraint_System::const_iterator i = sys.begin(); i != sys.end(); ++i) {
            os << " [t" << (int)i->type() << " " << i->inhomogeneous_term();
            for (dim_t v = 0; v < i->space_dimension(); ++v) os << " " << i->coefficient(Variable(v));
            os << "]";
          }
        } else if (what <= 5) {
          if (what != 5 && e.all_homogeneous_terms_are_zero()) { --step; return; }
          Linear_Expression h(e); h.set_inhomogeneous_term(0);
          Coefficient den = o.c(2); if (den <= 0) den = 1;
          Generator g0 = what == 3 ? Generator::ray(h, rep) : what == 4 ? Generator::line(h, rep) : Generator::point(h, den, rep);
          Generator g(g0, rep);
          os << g.space_dimension() << " " << g.OK() << " t" << (int)g.type() << " " << dz(g);
          for (dim_t i = 0; i < g.space_dimension(); ++i) os << " " << g.coefficient(Variable(i));
          Generator gd(g0, DENSE);
          os << " eqv" << g.is_equivalent_to(gd) << " eq" << (g == gd) << " cmp" << compare(g, gd);
          Generator_System sys(rep); sys.insert(Generator::point(0 * Variable(0), Coefficient_one(), rep)); sys.insert(g);
          os << " sys" << sys.OK();
          for (Generator_System::const_iterator i = sys.begin(); i != sys.end(); ++i) {
            os << " [t" << (int)i->type() << " " << dz(*i);
            for (dim_t v = 0; v < i->space_dimension(); ++v) os << " " << i->coefficient(Variable(v));
            os << "]";
          }
        } else {
          Coefficient m = o.c(2); if (m < 0) m = -m;
          Congruence cg0 = (e %= 0) / m; Congruence cg(cg0, rep); cg.strong_normalize();
          os << cg.space_dimension() << " " << cg.OK() << " m" << cg.modulus() << " " << cg.inhomogeneous_term();
          for (dim_t i = 0; i < cg.space_dimension(); ++i) os << " " << cg.coefficient(Variable(i));
          os << " taut" << cg.is_tautological() << " inc" << cg.is_inconsistent();
          Congruence cd(cg0, DENSE); cd.strong_normalize();
          os << " eq" << (cg == cd);
          Congruence_System sys(rep); sys.insert(cg); sys.insert(Congruence((e + 1 %= 0) / m, rep));
          os << " sys" << sys.OK();
          for (Congruence_System::const_iterator i = sys.begin(); i != sys.end(); ++i) {
            os << " [m" << i->modulus() << " " << i->inhomogeneous_term();
            for (dim_t v = 0; v < i->space_dimension(); ++v) os << " " << i->coefficient(Variable(v));
            os << "]";
          }
        }
        r[k] = os.str();
      }
      out(o, r[0] + " ; " + r[1], both(a));
    }
    else { --step; return; }
  }
  static dim_t sp_dim(const Linear_Expression& e) { return e.space_dimension(); }
};

// =================================================================================================
//  generation
// =================================================================================================
static std::string pick_hint(pplv::Rng& R, long bound) {
  unsigned t = R.below(5);
  if (t == 0) return "end";
  return std::string(t < 3 ? "f" : "l") + ls(R.range(0, std::max(0L, bound)));
}

static void gen_tree(TreeH& H, pplv::Rng& R, long len) {
  Gen G(R);
  long universe = 1 + (long)R.range(4, 160);           // keys drawn from [0, universe)
  long target = R.range(1, 5) == 1 ? 130 : (long)R.range(2, 70);
  std::vector<long> phase; // grow / mixed / shrink
  for (long k = 0; k < len; ++k) {
    long sz = (long)H.t.size();
    unsigned mode = (k < len / 3) ? 0 : (k < 2 * len / 3 ? 1 : 2);
    unsigned p_ins = mode == 0 ? 70 : mode == 1 ? 40 : 15, p_era = mode == 0 ? 5 : mode == 1 ? 25 : 55;
    if (sz >= target && mode == 0) p_ins = 30;
    unsigned x = R.below(100); long key = R.range(0, universe - 1);
    if (R.chance(1, 6) && sz > 0) { // aim at an existing key / neighbour
      CO_Tree::iterator i = H.t.bisect((dim_t)key); key = (long)i.index() + R.range(-1, 1); if (key < 0) key = 0;
    }
    if (x < p_ins) {
      unsigned v = R.below(4);
      if (v == 0) H.apply(mk("tree", "ins", { ls(key), cs(G.coef()) }));
      else if (v == 1) H.apply(mk("tree", "ins0", { ls(key) }));
      else if (v == 2) H.apply(mk("tree", "insh", { "n" + ls(R.range(0, universe)), ls(key), cs(G.coef()) }));
      else H.apply(mk("tree", "insh0", { R.chance(1, 5) ? std::string("end") : "n" + ls(R.range(0, universe)), ls(key) }));
    } else if (x < p_ins + p_era) {
      unsigned v = R.below(5);
      if (v < 2) H.apply(mk("tree", "era", { ls(key) }));
      else if (v < 4) { if (sz > 0) { CO_Tree::iterator i = H.t.bisect((dim_t)key); H.apply(mk("tree", "erai", { ls((long)i.index()) })); } }
      else H.apply(mk("tree", "esl", { ls(key) }));
    } else {
      unsigned v = R.below(12);
      if (v < 2) H.apply(mk("tree", "bis", { ls(key) }));
      else if (v < 5) H.apply(mk("tree", "bnear", { "n" + ls(R.range(0, universe)), ls(key) }));
      else if (v == 5) { if (sz > 0) { long f = (long)H.t.bisect((dim_t)R.range(0, universe)).index(), l = (long)H.t.bisect((dim_t)R.range(0, universe)).index(); if (f > l) std::swap(f, l); H.apply(mk("tree", "bin", { ls(f), ls(l), ls(key) })); } }
      else if (v == 6) { H.apply(mk("tree", "incr", { ls(key), ls(R.range(1, 3)) })); universe += 3; }
      else if (v == 7) { if (sz > 0) H.apply(mk("tree", "next", { ls((long)H.t.bisect((dim_t)key).index()) })); }
      else if (v == 8) { if (sz > 0) H.apply(mk("tree", "prev", { R.chance(1, 3) ? std::string("end") : ls((long)H.t.bisect((dim_t)key).index()) })); }
      else if (v == 9) H.apply(mk("tree", R.chance(1, 2) ? "copy" : "assign", {}));
      else if (v == 10 && R.chance(1, 4)) { long m = R.range(2, 5); H.apply(mk("tree", "erasewhile", { ls(m), ls(R.range(0, m - 1)) })); }
      else if (v == 11 && R.chance(1, 6)) {
        Op o = mk("tree", "bulk", {}); long kk = R.range(0, 3); long cnt = R.range(0, 70);
        for (long i = 0; i < cnt; ++i) { o.a.push_back(ls(kk)); o.a.push_back(cs(G.coef())); kk += R.range(1, 4); }
        universe = std::max(universe, kk + 2); H.apply(o);
      }
      else if (R.chance(1, 40)) H.apply(mk("tree", "clear", {}));
    }
  }
}

static void gen_row(RowH& H, pplv::Rng& R, long len) {
  Gen G(R);
  long n0 = R.chance(1, 3) ? R.range(1, 12) : R.range(8, 90);
  for (int a = 0; a < RowH::K; ++a) H.apply(mk("row", "new", { ls(a), ls(n0) }));
  for (long k = 0; k < len; ++k) {
    int a = (int)R.below(RowH::K), b = (int)R.below(RowH::K); if (b == a) b = (a + 1) % RowH::K;
    long sz = (long)H.S[a].size(); long i = sz ? R.range(0, sz - 1) : 0, j = sz ? R.range(0, sz - 1) : 0;
    bool filling = k < len / 4;
    unsigned x = R.below(filling ? 45 : 100);
    std::string sa = ls(a), sb = ls(b);
    if (x < 12) H.apply(mk("row", "set", { sa, ls(i), cs(G.coef()) }));
    else if (x < 22) H.apply(mk("row", "seth", { sa, pick_hint(R, sz), ls(i), cs(G.coef()) }));
    else if (x < 26) H.apply(mk("row", "ins0", { sa, ls(i) }));
    else if (x < 30) H.apply(mk("row", "ins0h", { sa, pick_hint(R, sz), ls(i) }));
    else if (x < 33) H.apply(mk("row", "idx", { sa, ls(i) }));
    else if (x < 36) H.apply(mk("row", "get", { sa, ls(i) }));
    else if (x < 39) H.apply(mk("row", R.chance(1, 2) ? "find" : "lb", { sa, ls(i) }));
    else if (x < 45) H.apply(mk("row", R.chance(1, 2) ? "findh" : "lbh", { sa, pick_hint(R, sz), ls(i) }));
    else if (x < 51) H.apply(mk("row", "reset", { sa, ls(i) }));
    else if (x < 55) { Sparse_Row::iterator it = sz ? H.S[a].lower_bound((dim_t)i) : H.S[a].end(); if (it != H.S[a].end()) H.apply(mk("row", "resetit", { sa, ls((long)it.index()) })); }
    else if (x < 58) { long lo = std::min(i, j), hi = std::max(i, j) + (long)R.below(2); H.apply(mk("row", "resetr", { sa, ls(lo), ls(std::min(hi, sz)) })); }
    else if (x < 60) H.apply(mk("row", "resetafter", { sa, ls(i) }));
    else if (x < 64) H.apply(mk("row", "swapc", { sa, ls(i), ls(j) }));
    else if (x < 65) H.apply(mk("row", "swapit", { sa, ls(i), ls(j) }));
    else if (x < 68) H.apply(mk("row", "shift", { sa, ls(R.range(0, 3)), ls(R.range(0, sz)) }));
    else if (x < 71) H.apply(mk("row", "del", { sa, ls(i) }));
    else if (x < 73) H.apply(mk("row", "resize", { sa, ls((repaired[4] && R.chance(1, 6)) ? 0L : std::max(0L, sz + R.range(-4, 4))) }));
    else if (x < 75) H.apply(mk("row", "norm", { sa }));
    else if (x < 80) {
      // make the sizes agree, then combine whole rows
      if (H.S[b].size() != H.S[a].size()) H.apply(mk("row", "resize", { sb, ls(sz) }));
      Coefficient c1 = R.chance(1, 3) ? Coefficient(1) : G.small_nz(), c2 = G.small_nz();
      H.apply(mk("row", "lc", { sa, sb, cs(c1), cs(c2) }));
    }
    else if (x < 88) {
      long m = std::min(sz, (long)H.S[b].size()); long s = m ? R.range(0, m) : 0, e = m ? R.range(0, m) : 0; if (s > e) std::swap(s, e);
      if (R.chance(1, 4)) { s = 0; e = m; }
      Coefficient c1 = R.chance(1, 3) ? Coefficient(1) : G.small_nz(), c2 = G.small_nz();
      if (R.chance(1, 10)) c1 = G.coef(false);
      H.apply(mk("row", "lcr", { sa, sb, cs(c1), cs(c2), ls(s), ls(e) }));
    }
    else if (x < 89) {
      if (H.S[b].size() != H.S[a].size()) H.apply(mk("row", "resize", { sb, ls(sz) }));
      H.apply(mk("row", "comb", { sa, sb, ls((long)R.below(3)), cs(G.small_nz()), cs(G.small_nz()) }));
    }
    else if (x < 90) H.apply(mk("row", R.chance(1, 2) ? "swaprows" : "swapmix", { sa, sb }));
    else if (x < 92) { if (R.chance(1, 2)) H.apply(mk("row", "copy", { sa, sb })); else H.apply(mk("row", "conv", { sa, sb, repaired[4] ? "1" : "0" })); }
    else if (x < 94) {
      long sb_sz = (long)H.S[b].size();
      if (repaired[2]) H.apply(mk("row", "convsz", { sa, sb, ls(std::max(1L, sb_sz + R.range(-4, 3))), "1" }));
      else H.apply(mk("row", "convsz", { sa, sb, ls(sb_sz + R.range(0, 3)), "0" }));
    }
    else if (x < 95) H.apply(mk("row", (repaired[1] && R.chance(2, 3)) ? "asgds_raw" : (R.chance(1, 2) ? "asgsd" : "asgds"), { sa, sb }));
    else if (x < 98) H.apply(mk("row", "eq", { sa, sb }));
    else if (x < 99) { long m = R.range(2, 4); H.apply(mk("row", "erasewhile", { sa, ls(m), ls(R.range(0, m - 1)) })); }
    else if (R.chance(1, 4)) H.apply(mk("row", "clear", { sa }));
  }
}

static void gen_expr(ExprH& H, pplv::Rng& R, long len) {
  Gen G(R);
  long n0 = R.chance(1, 3) ? R.range(0, 6) : R.range(4, 40);
  for (int a = 0; a < ExprH::K; ++a) H.apply(mk("expr", "new", { ls(a), ls(n0) }));
  for (long k = 0; k < len; ++k) {
    int a = (int)R.below(ExprH::K), b = (int)R.below(ExprH::K); if (b == a) b = (a + 1) % ExprH::K;
    long dim = (long)H.Ed[a]->space_dimension(), dimb = (long)H.Ed[b]->space_dimension();
    long v = dim ? R.range(0, dim - 1) : 0, w = dim ? R.range(0, dim - 1) : 0;
    std::string sa = ls(a), sb = ls(b), mix = ls((long)R.below(2));
    bool filling = k < len / 4;
    unsigned x = R.below(filling ? 30 : 100);
    if (x < 14) H.apply(mk("expr", "setc", { sa, ls(v), cs(G.coef()) }));
    else if (x < 17) H.apply(mk("expr", "seti", { sa, cs(G.coef()) }));
    else if (x < 22) H.apply(mk("expr", R.chance(1, 2) ? "addmulv" : "submulv", { sa, cs(G.coef()), ls(R.chance(1, 8) ? dim + R.range(0, 2) : v) }));
    else if (x < 25) H.apply(mk("expr", R.chance(1, 2) ? "addv" : "subv", { sa, ls(R.chance(1, 8) ? dim + R.range(0, 2) : v) }));
    else if (x < 27) H.apply(mk("expr", R.chance(1, 2) ? "addn" : "subn", { sa, cs(G.coef()) }));
    else if (x < 30) H.apply(mk("expr", R.chance(1, 2) ? "add" : "sub", { sa, sb, mix }));
    else if (x < 34) H.apply(mk("expr", R.chance(1, 2) ? "addmul" : "submul", { sa, cs(G.coef()), sb, mix }));
    else if (x < 37) H.apply(mk("expr", "mul", { sa, cs(R.chance(1, 10) ? Coefficient(0) : G.small_nz()) }));
    else if (x < 39) H.apply(mk("expr", "div", { sa, cs(G.small_nz()) }));
    else if (x < 41) H.apply(mk("expr", "neg", { sa }));
    else if (x < 46) H.apply(mk("expr", "lc3", { sa, sb, cs(R.chance(1, 3) ? Coefficient(1) : G.small_nz()), cs(G.small_nz()), mix }));
    else if (x < 49) {
      Coefficient c1 = R.chance(1, 3) ? Coefficient(0) : G.small_nz(), c2 = R.chance(1, 4) ? Coefficient(0) : G.small_nz();
      H.apply(mk("expr", "lclax", { sa, sb, cs(c1), cs(c2), (c1 == 0 && c2 != 0 && !repaired[3]) ? std::string("0") : mix, repaired[3] ? "1" : "0" }));
    }
    else if (x < 52) { if (dim == dimb) H.apply(mk("expr", "lcv", { sa, sb, ls(v), mix })); }
    else if (x < 60) {
      long m = std::min(dim, dimb) + 1; long s = R.range(0, m), e = R.range(0, m); if (s > e) std::swap(s, e);
      bool lax = R.chance(1, 3);
      Coefficient c1 = lax && R.chance(1, 3) ? Coefficient(0) : (R.chance(1, 3) ? Coefficient(1) : G.small_nz());
      Coefficient c2 = lax && R.chance(1, 4) ? Coefficient(0) : G.small_nz();
      H.apply(mk("expr", lax ? "lclaxr" : "lcr", { sa, sb, cs(c1), cs(c2), ls(s), ls(e), (lax && c1 == 0 && c2 != 0 && !repaired[3]) ? std::string("0") : mix, repaired[3] ? "1" : "0" }));
    }
    else if (x < 63) H.apply(mk("expr", "swapd", { sa, ls(v), ls(w) }));
    else if (x < 66) { Op o = mk("expr", "rmd", { sa }); long c = R.range(0, 3); for (long q = 0; q < c && dim; ++q) o.a.push_back(ls(R.range(0, dim - 1))); H.apply(o); }
    else if (x < 68) H.apply(mk("expr", "shiftd", { sa, ls(R.range(0, dim)), ls(R.range(0, 3)) }));
    else if (x < 71) {
      Op o = mk("expr", "perm", { sa }); long c = std::min(dim, (long)R.range(0, 5)); std::set<long> seen;
      for (long q = 0; q < c; ++q) { long z = R.range(0, dim - 1); if (!seen.count(z)) { seen.insert(z); o.a.push_back(ls(z)); } }
      H.apply(o);
    }
    else if (x < 73) H.apply(mk("expr", "setdim", { sa, ls(std::max(0L, dim + R.range(-3, 3))) }));
    else if (x < 76) H.apply(mk("expr", R.chance(1, 2) ? "norm" : "signnorm", { sa }));
    else if (x < 79) { long s = R.range(0, dim + 1), e = R.range(0, dim + 1); if (s > e) std::swap(s, e);
      if (R.chance(1, 2)) H.apply(mk("expr", "mulr", { sa, cs(R.chance(1, 6) ? Coefficient(0) : G.small_nz()), ls(s), ls(e) })); else H.apply(mk("expr", "negr", { sa, ls(s), ls(e) })); }
    else if (x < 81) { long s = R.range(0, dim + 1), e = R.range(0, dim + 1); if (s > e) std::swap(s, e); H.apply(mk("expr", "exdivg", { sa, ls(s), ls(e) })); }
    else if (x < 83) H.apply(mk("expr", "copyrep", { sa, sb }));
    else if (x < 85) H.apply(mk("expr", "ctor3", { sa, sb, ls(std::max(0L, dimb + R.range(-2, 3))), mix, repaired[2] ? "1" : "0" }));
    else if (x < 89) { long s = R.range(0, dim + 1), e = R.range(0, dim + 1); if (s > e) std::swap(s, e); H.apply(mk("expr", "q", { sa, ls(s), ls(e) })); }
    else if (x < 95) { long m = std::min(dim, dimb) + 1; long s = R.range(0, m), e = R.range(0, m); if (s > e) std::swap(s, e);
      H.apply(mk("expr", "q2", { sa, sb, ls(s), ls(e), cs(G.small_nz()), cs(G.small_nz()) })); }
    else H.apply(mk("expr", "mk", { sa, ls(R.range(0, 6)), cs(Coefficient(R.range(1, 6))) }));
  }
}

// the known-finding probes: each history stops right after the operation under suspicion
static void gen_kf(long which, const std::string& hid) {
  if (which == 0) {          // Dense_Row = Sparse_Row, target larger than the source (shrinking branch)
    RowH H; H.hid = hid;
    H.apply(mk("row", "new", { "0", "10" })); H.apply(mk("row", "new", { "1", "12" }));
    H.apply(mk("row", "set", { "0", "2", "5" })); H.apply(mk("row", "set", { "0", "7", "-3" }));
    for (int i = 0; i < 12; ++i) H.apply(mk("row", "set", { "1", ls(i), ls(100 + i) }));
    H.apply(mk("row", "asgds_raw", { "1", "0" }));
  } else if (which == 1) {   // … target smaller than the source but with enough capacity
    RowH H; H.hid = hid;
    H.apply(mk("row", "new", { "0", "6" })); H.apply(mk("row", "new", { "1", "6" }));
    H.apply(mk("row", "set", { "0", "1", "4" }));
    for (int i = 0; i < 6; ++i) H.apply(mk("row", "set", { "1", ls(i), ls(100 + i) }));
    H.apply(mk("row", "asgds_raw", { "1", "0" }));
  } else if (which == 2) {   // Sparse_Row(const Dense_Row&, sz, capacity) with sz < size
    RowH H; H.hid = hid;
    H.apply(mk("row", "new", { "0", "6" })); H.apply(mk("row", "new", { "1", "6" }));
    H.apply(mk("row", "set", { "0", "1", "2" })); H.apply(mk("row", "set", { "0", "5", "4" }));
    H.apply(mk("row", "convsz", { "1", "0", "3", "1" }));
  } else if (which == 3) {   // the same through Linear_Expression(e, space_dim, SPARSE) from a DENSE expression
    ExprH H; H.hid = hid;
    H.apply(mk("expr", "new", { "0", "5" })); H.apply(mk("expr", "new", { "1", "5" }));
    H.apply(mk("expr", "setc", { "0", "0", "2" })); H.apply(mk("expr", "setc", { "0", "4", "7" }));
    H.apply(mk("expr", "ctor3", { "1", "0", "2", "1", "1" }));
  } else if (which == 5) {   // Dense_Row(const Sparse_Row&) from a row of size 0
    RowH H; H.hid = hid;
    H.apply(mk("row", "new", { "0", "0" })); H.apply(mk("row", "new", { "1", "3" }));
    H.apply(mk("row", "conv", { "1", "0", "1" }));
  } else {                   // linear_combine_lax(y, 0, c2, …): SPARSE target, DENSE operand with zero coefficients
    ExprH H; H.hid = hid;
    H.apply(mk("expr", "new", { "0", "4" })); H.apply(mk("expr", "new", { "1", "4" }));
    H.apply(mk("expr", "setc", { "0", "1", "3" })); H.apply(mk("expr", "setc", { "1", "2", "5" }));
    H.apply(mk("expr", "lclaxr", { "1", "0", "0", "2", "0", "5", "1", "1" }));
  }
}


// =================================================================================================
//  stage 2: layout journal for the rebalancing machinery (--reb 1).  One line per operation:
//    L <id> <op> <args…> | <returned key|end|-> | <rs> <max_depth> <size_> <OK()> | <indexes[0]> <indexes[rs+1]> | <slots 1..rs>
//  a used slot prints as key:value, a run of n unused slots as _n.  The driver replays the model
//  from the previous REAL layout and demands the identical layout.
// =================================================================================================
struct RebH {
  CO_Tree t; std::string hid; long step; std::vector<std::string> oplog;
  RebH() : step(0) {}
  static std::string layout(const CO_Tree& x) {
    dim_t rs = x.*get(T_rs()); unsigned md = x.*get(T_md()); dim_t sz = x.*get(T_sz());
    std::string s = ls((long)rs) + " " + ls((long)md) + " " + ls((long)sz) + " " + ((x.*get(T_ok()))() ? "1" : "0") + " |";
    if (rs == 0) return s + " - - |";
    dim_t* ix = x.*get(T_idx()); Coefficient* dt = x.*get(T_data());
    s += " " + ls((long)ix[0]) + " " + ls((long)ix[rs + 1]) + " |";
    long run = 0;
    for (dim_t p = 1; p <= rs; ++p) {
      if (ix[p] == UNUSED) { ++run; continue; }
      if (run) { s += " _" + ls(run); run = 0; }
      s += ' '; s += ls((long)ix[p]); s += ':'; s += cs(dt[p]);
    }
    if (run) s += " _" + ls(run);
    return s;
  }
  void line(const std::string& op, const std::string& ret) {
    ++step; J.line("L " + hid + "." + ls(step) + " " + op + " | " + ret + " | " + layout(t));
  }
  std::string key_of(CO_Tree::iterator i) { return i == t.end() ? std::string("end") : ls((long)i.index()); }
  void ins(dim_t k, long v) { CO_Tree::iterator i = t.insert(k, Coefficient(v)); line("ins " + ls((long)k) + " " + ls(v), key_of(i)); }
  void era(dim_t k) { CO_Tree::iterator i = t.erase(k); line("era " + ls((long)k), key_of(i)); }
  // hinted insertions: the hint is journalled as the slot index the iterator is on (or "end")
  dim_t used_slot_at_or_before(dim_t p) const {
    dim_t rs = t.*get(T_rs()); if (rs == 0) return 0; dim_t* ix = t.*get(T_idx());
    if (p > rs) p = rs;
    while (p >= 1 && ix[p] == UNUSED) --p;
    return p;
  }
  CO_Tree::iterator iter_at(dim_t p) {   // iterator on the used slot p
    dim_t* ix = t.*get(T_idx()); CO_Tree::iterator it = t.begin();
    for (dim_t q = 1; q < p; ++q) if (ix[q] != UNUSED) ++it;
    return it;
  }
  void insh(dim_t hp, dim_t k, long v, bool with_data) {
    dim_t p = t.empty() ? 0 : used_slot_at_or_before(hp);
    CO_Tree::iterator h = p == 0 ? t.end() : iter_at(p);
    std::string hs = p == 0 ? std::string("end") : ls((long)p);
    if (with_data) { CO_Tree::iterator i = t.insert(h, k, Coefficient(v)); line("insh " + hs + " " + ls((long)k) + " " + ls(v), key_of(i)); }
    else { CO_Tree::iterator i = t.insert(h, k); line("insh0 " + hs + " " + ls((long)k), key_of(i)); }
  }
  // one insertion of the generated histories: plain, or hinted from a random used slot (stale or not) / end()
  void insr(pplv::Rng& R, dim_t k, long v) {
    unsigned m = R.below(6);
    if (m < 3 || t.empty()) { ins(k, v); return; }
    dim_t rs = t.*get(T_rs());
    dim_t hp = m == 3 && R.chance(1, 3) ? 0 : (dim_t)R.range(1, (long)rs);
    if (hp == 0) { CO_Tree::iterator h = t.end();
      if (R.chance(1, 2)) { CO_Tree::iterator i = t.insert(h, k, Coefficient(v)); line("insh end " + ls((long)k) + " " + ls(v), key_of(i)); }
      else { CO_Tree::iterator i = t.insert(h, k); line("insh0 end " + ls((long)k), key_of(i)); }
      return; }
    // a hint next to the key half of the time (what Sparse_Row's loops do), anywhere otherwise
    if (R.chance(1, 2)) { dim_t* ix = t.*get(T_idx()); dim_t q = 1; while (q <= rs && (ix[q] == UNUSED || ix[q] < k)) ++q; hp = q > rs ? rs : q; if (R.chance(1, 2) && hp > 1) --hp; }
    if (used_slot_at_or_before(hp) == 0) { dim_t* ix = t.*get(T_idx()); hp = 1; while (ix[hp] == UNUSED) ++hp; }
    insh(hp, k, v, m != 5);
  }
  void bulk(const std::vector<std::pair<dim_t, Coefficient> >& v) {
    VecIt it; it.v = &v; it.i = 0; CO_Tree c(it, v.size()); t.m_swap(c);
    std::string op = "bulk"; for (auto& p : v) { op += ' '; op += ls((long)p.first); op += ':'; op += cs(p.second); }
    line(op, "-");
  }
  void apply(const Op& o) {
    if (o.name == "ins") ins((dim_t)o.l(0), o.l(1));
    else if (o.name == "insh") insh(o.s(0) == "end" ? 0 : (dim_t)o.l(0), (dim_t)o.l(1), o.l(2), true);
    else if (o.name == "insh0") insh(o.s(0) == "end" ? 0 : (dim_t)o.l(0), (dim_t)o.l(1), 0, false);
    else if (o.name == "era") era((dim_t)o.l(0));
    else if (o.name == "bulk") {
      std::vector<std::pair<dim_t, Coefficient> > v;
      for (auto& a : o.a) { size_t c = a.find(':'); if (c == std::string::npos) continue;
        dim_t k = (dim_t)atol(a.substr(0, c).c_str()); if (!v.empty() && v.back().first >= k) return;
        v.push_back(std::make_pair(k, Coefficient(a.substr(c + 1).c_str()))); }
      bulk(v);
    }
  }
};

// sizes: class 0 small (<= 3..31 slots), 1 medium (<= 255), 2 large (crossing 511/1023 slots)
static void run_reb(long b, long seed) {
  std::string hid = "q" + ls(b);
  pplv::Rng R((uint64_t)seed * 7000003ull + (uint64_t)b * 31ull + 17ull);
  unsigned sc = (unsigned)(b % 40);
  unsigned cls = sc < 28 ? 0 : (sc < 37 ? 1 : 2);
  long N = cls == 0 ? R.range(2, 34) : cls == 1 ? R.range(35, 230) : R.range(470, 940);
  unsigned order = (unsigned)R.below(6);        // 0 ascending 1 descending 2 random 3 clustered 4 mixed ins/era 5 bulk first
  unsigned storm = (unsigned)R.below(4);        // erase storm: 0 ascending 1 descending 2 random 3 from the middle outwards
  static const char* on[] = { "asc", "desc", "rnd", "clu", "mix", "bulk" };
  J.line("H " + hid + " reb " + on[order] + " " + ls(N) + " " + ls((long)storm));
  RebH H; H.hid = hid;
  std::vector<dim_t> keys;
  long span = N * (long)R.range(1, 6) + 3;
  if (order == 0 || order == 1 || order == 5) {
    dim_t k = (dim_t)R.range(0, 3);
    for (long i = 0; i < N; ++i) { keys.push_back(k); k += (dim_t)R.range(1, 4); }
    if (order == 1) std::reverse(keys.begin(), keys.end());
  } else if (order == 2 || order == 4) {
    std::map<dim_t, bool> seen;
    while ((long)keys.size() < N) { dim_t k = (dim_t)R.range(0, span); if (!seen[k]) { seen[k] = true; keys.push_back(k); } }
  } else {
    std::map<dim_t, bool> seen; long nc = R.range(1, 4); std::vector<long> centre;
    for (long c = 0; c < nc; ++c) centre.push_back(R.range(0, span) * 8);
    long guard = 0;
    while ((long)keys.size() < N && guard++ < 40 * N) {
      long c = centre[R.below((unsigned)nc)]; long w = std::max(4L, 2 * N / nc);
      long k = c + R.range(-w, w); if (k < 0) k = -k;
      if (!seen[(dim_t)k]) { seen[(dim_t)k] = true; keys.push_back((dim_t)k); }
    }
  }
  if (order == 5) {
    std::vector<std::pair<dim_t, Coefficient> > v;
    for (size_t i = 0; i < keys.size(); ++i) v.push_back(std::make_pair(keys[i], Coefficient(R.range(-9, 9))));
    H.bulk(v);
    long extra = R.range(1, std::max(2L, N / 2));
    for (long i = 0; i < extra; ++i) { dim_t k = (dim_t)R.range(0, (long)keys.back() + 3); H.insr(R, k, R.range(-9, 9)); bool has = false; for (dim_t q : keys) if (q == k) has = true; if (!has) keys.push_back(k); }
  } else if (order == 4) {
    std::vector<dim_t> in;
    for (long i = 0; i < 3 * N; ++i) {
      if (in.empty() || R.chance(3, 5)) { dim_t k = keys[R.below((unsigned)keys.size())]; H.insr(R, k, R.range(-9, 9)); bool has = false; for (dim_t q : in) if (q == k) has = true; if (!has) in.push_back(k); }
      else { size_t j = R.below((unsigned)in.size()); dim_t k = R.chance(1, 8) ? (dim_t)R.range(0, span) : in[j]; H.era(k);
             for (size_t q = 0; q < in.size(); ++q) if (in[q] == k) { in.erase(in.begin() + q); break; } }
    }
    keys = in;
  } else {
    for (size_t i = 0; i < keys.size(); ++i) { H.insr(R, keys[i], R.range(-9, 9)); if (R.chance(1, 12)) H.insr(R, keys[R.below((unsigned)(i + 1))], R.range(-9, 9)); }
  }
  // erase storm
  std::vector<dim_t> ks = keys; std::sort(ks.begin(), ks.end());
  if (storm == 1) std::reverse(ks.begin(), ks.end());
  else if (storm == 2) { for (size_t i = ks.size(); i > 1; --i) std::swap(ks[i - 1], ks[R.below((unsigned)i)]); }
  else if (storm == 3) { std::vector<dim_t> o; size_t m = ks.size() / 2; for (size_t d = 0; d <= ks.size(); ++d) { if (m + d < ks.size()) o.push_back(ks[m + d]); if (d && d <= m) o.push_back(ks[m - d]); } ks = o; }
  size_t stop = R.chance(1, 3) ? ks.size() / 2 : ks.size();
  for (size_t i = 0; i < stop; ++i) { H.era(ks[i]); if (R.chance(1, 16)) H.era(ks[i] + 1); }
  // grow again after the storm
  if (stop < ks.size()) for (long i = 0; i < std::min(20L, N); ++i) H.insr(R, (dim_t)R.range(0, span), R.range(-9, 9));
  J.line("E " + hid);
}


// =================================================================================================
//  stage 2c: Sparse_Row on the real tree (--rebrow 1).  One line per operation:
//    W <id> <op> <args…> | <ret> | <size()> | <rs> <max_depth> <size_> <OK()> | <indexes[0]> <indexes[rs+1]> | <slots>
//  hints are journalled as the slot index of the iterator (or "end").
// =================================================================================================
struct RowRebH {
  Sparse_Row S; std::string hid; long step;
  RowRebH() : step(0) {}
  CO_Tree& tr() { return S.*get(S_tree()); }
  dim_t rs() { return tr().*get(T_rs()); }
  dim_t* ix() { return tr().*get(T_idx()); }
  void line(const std::string& op, const std::string& ret) {
    ++step; J.line("W " + hid + "." + ls(step) + " " + op + " | " + ret + " | " + ls((long)S.size()) + " | " + RebH::layout(tr()));
  }
  std::string key_of(Sparse_Row::iterator i) { return i == S.end() ? std::string("end") : ls((long)i.index()); }
  dim_t used_slot_at_or_before(dim_t p) { if (tr().empty()) return 0; if (p > rs()) p = rs(); while (p >= 1 && ix()[p] == UNUSED) --p; return p; }
  Sparse_Row::iterator iter_at(dim_t p) { Sparse_Row::iterator it = S.begin(); for (dim_t q = 1; q < p; ++q) if (ix()[q] != UNUSED) ++it; return it; }
  bool apply(const Op& o) {
    const std::string& n = o.name; dim_t sz = S.size();
    auto hintit = [&](size_t a, std::string& hs) { dim_t p = o.s(a) == "end" ? 0 : used_slot_at_or_before((dim_t)o.l(a)); hs = p == 0 ? "end" : ls((long)p); return p == 0 ? S.end() : iter_at(p); };
    if (n == "new") { S = Sparse_Row((dim_t)o.l(0)); line("new " + ls(o.l(0)), "-"); }
    else if (n == "set") { dim_t i = (dim_t)o.l(0); if (i >= sz) return false; Sparse_Row::iterator r = S.insert(i, o.c(1)); line("set " + ls((long)i) + " " + o.s(1), key_of(r)); }
    else if (n == "seth") { dim_t i = (dim_t)o.l(1); if (i >= sz) return false; std::string hs; Sparse_Row::iterator h = hintit(0, hs); Sparse_Row::iterator r = S.insert(h, i, o.c(2)); line("seth " + hs + " " + ls((long)i) + " " + o.s(2), key_of(r)); }
    else if (n == "ins0") { dim_t i = (dim_t)o.l(0); if (i >= sz) return false; Sparse_Row::iterator r = S.insert(i); line("ins0 " + ls((long)i), key_of(r)); }
    else if (n == "ins0h") { dim_t i = (dim_t)o.l(1); if (i >= sz) return false; std::string hs; Sparse_Row::iterator h = hintit(0, hs); Sparse_Row::iterator r = S.insert(h, i); line("ins0h " + hs + " " + ls((long)i), key_of(r)); }
    else if (n == "reset") { dim_t i = (dim_t)o.l(0); if (i >= sz) return false; S.reset(i); line("reset " + ls((long)i), "-"); }
    else if (n == "resetit") { dim_t p = used_slot_at_or_before((dim_t)o.l(0)); if (p == 0) return false; Sparse_Row::iterator r = S.reset(iter_at(p)); line("resetit " + ls((long)p), key_of(r)); }
    else if (n == "resetafter") { dim_t i = (dim_t)o.l(0); if (i >= sz) return false; S.reset_after(i); line("resetafter " + ls((long)i), "-"); }
    else if (n == "del") { dim_t i = (dim_t)o.l(0); if (i >= sz) return false; S.delete_element_and_shift(i); line("del " + ls((long)i), "-"); }
    else if (n == "addz") { dim_t k = (dim_t)o.l(0), i = (dim_t)o.l(1); if (i > sz || sz + k > 100000) return false; S.add_zeroes_and_shift(k, i); line("addz " + ls((long)k) + " " + ls((long)i), "-"); }
    else if (n == "swapc") { dim_t i = (dim_t)o.l(0), j = (dim_t)o.l(1); if (i >= sz || j >= sz) return false; S.swap_coefficients(i, j); line("swapc " + ls((long)i) + " " + ls((long)j), "-"); }
    else if (n == "find") { dim_t i = (dim_t)o.l(1); if (i >= sz) return false; std::string hs; Sparse_Row::iterator h = hintit(0, hs);
      Sparse_Row::iterator r = hs == "end" && o.s(0) == "end" && o.l(2) ? S.find(i) : S.find(h, i); line("find " + hs + " " + ls((long)i), key_of(r)); }
    else if (n == "lb") { dim_t i = (dim_t)o.l(1); if (i > sz) return false; std::string hs; Sparse_Row::iterator h = hintit(0, hs);
      Sparse_Row::iterator r = hs == "end" && o.s(0) == "end" && o.l(2) ? S.lower_bound(i) : S.lower_bound(h, i); line("lb " + hs + " " + ls((long)i), key_of(r)); }
    else return false;
    return true;
  }
};

static void run_rebrow(long b, long seed) {
  std::string hid = "w" + ls(b);
  pplv::Rng R((uint64_t)seed * 9000011ull + (uint64_t)b * 131ull + 5ull);
  unsigned cls = (unsigned)(b % 10) < 7 ? 0 : ((unsigned)(b % 10) < 9 ? 1 : 2);
  long n = cls == 0 ? R.range(3, 40) : cls == 1 ? R.range(41, 260) : R.range(500, 1100);
  long len = cls == 0 ? R.range(20, 120) : cls == 1 ? R.range(150, 500) : R.range(700, 1500);
  J.line("H " + hid + " rebrow " + ls(n) + " " + ls(len));
  RowRebH H; H.hid = hid;
  H.apply(mk("row", "new", { ls(n) }));
  unsigned fill = (unsigned)R.range(1, 9);      // how insertion-heavy this history is (density of the row)
  for (long s = 0; s < len; ++s) {
    dim_t sz = H.S.size(); if (sz == 0) { H.apply(mk("row", "addz", { "3", "0" })); continue; }
    auto idx = [&]() { return ls((long)R.below((unsigned)sz)); };
    auto hint = [&]() { return R.chance(1, 6) || H.rs() == 0 ? std::string("end") : ls((long)R.range(1, (long)H.rs())); };
    auto val = [&]() { return ls(R.range(-9, 9)); };
    unsigned m = R.below(30);
    if (m < fill) H.apply(mk("row", "set", { idx(), val() }));
    else if (m < fill + 4) H.apply(mk("row", "seth", { hint(), idx(), val() }));
    else if (m < fill + 6) H.apply(mk("row", R.chance(1, 2) ? "ins0" : "ins0h", R.chance(1, 2) ? std::initializer_list<std::string>{ idx() } : std::initializer_list<std::string>{ hint(), idx() }));
    else if (m < 17) H.apply(mk("row", "reset", { idx() }));
    else if (m < 19) H.apply(mk("row", "resetit", { hint() }));
    else if (m < 20) { if (R.chance(1, 3)) H.apply(mk("row", "resetafter", { idx() })); }
    else if (m < 22) H.apply(mk("row", "del", { idx() }));
    else if (m < 24) H.apply(mk("row", "addz", { ls(R.range(0, 3)), ls((long)R.below((unsigned)sz + 1)) }));
    else if (m < 27) H.apply(mk("row", "swapc", { idx(), idx() }));
    else if (m < 29) H.apply(mk("row", "find", { hint(), idx(), R.chance(1, 2) ? "1" : "0" }));
    else H.apply(mk("row", "lb", { hint(), ls((long)R.below((unsigned)sz + 1)), R.chance(1, 2) ? "1" : "0" }));
  }
  J.line("E " + hid);
}

static void run_rebrowreplay(const char* path) {
  FILE* f = fopen(path, "r"); if (!f) { perror(path); _exit(3); }
  char buf[1 << 16]; RowRebH H; H.hid = "w0";
  J.line("H w0 rebrow replay 0");
  while (fgets(buf, sizeof buf, f)) {
    std::istringstream is(buf); Op o; o.kind = "row"; if (!(is >> o.name)) continue; std::string t; while (is >> t) o.a.push_back(t);
    if ((o.name == "find" || o.name == "lb") && o.a.size() == 2) o.a.push_back("0");
    H.apply(o);
  }
  fclose(f);
  J.line("E w0");
}

static void run_rebreplay(const char* path) {
  FILE* f = fopen(path, "r"); if (!f) { perror(path); _exit(3); }
  char buf[1 << 18]; RebH H; H.hid = "q0";
  J.line("H q0 reb replay 0 0");
  while (fgets(buf, sizeof buf, f)) {
    std::istringstream is(buf); Op o; o.kind = "reb"; if (!(is >> o.name)) continue; std::string t; while (is >> t) o.a.push_back(t);
    H.apply(o);
  }
  fclose(f);
  J.line("E q0");
}

static void run_history(long b, long seed, long len_opt, bool kf) {
  std::string hid = "h" + ls(b);
  if (kf) { J.line("H " + hid + " kf " + ls(b)); gen_kf(b, hid); J.line("E " + hid); return; }
  pplv::Rng R((uint64_t)seed * 1000003ull + (uint64_t)b);
  unsigned kind = (unsigned)(b % 3);
  long len = len_opt > 0 ? len_opt : (kind == 0 ? R.range(60, 420) : kind == 1 ? R.range(60, 260) : R.range(40, 160));
  if (kind == 0) { J.line("H " + hid + " tree " + ls(len)); TreeH H; H.hid = hid; H.R = &R; gen_tree(H, R, len); }
  else if (kind == 1) { J.line("H " + hid + " row " + ls(len)); RowH H; H.hid = hid; H.R = &R; gen_row(H, R, len); }
  else { J.line("H " + hid + " expr " + ls(len)); ExprH H; H.hid = hid; gen_expr(H, R, len); }
  J.line("E " + hid);
}

static void run_replay(const char* path) {
  FILE* f = fopen(path, "r"); if (!f) { perror(path); _exit(3); }
  std::vector<Op> ops; char buf[1 << 16];
  while (fgets(buf, sizeof buf, f)) {
    std::istringstream is(buf); Op o; if (!(is >> o.kind >> o.name)) continue; std::string t; while (is >> t) o.a.push_back(t); ops.push_back(o);
  }
  fclose(f);
  if (ops.empty()) return;
  std::string kind = ops[0].kind; pplv::Rng R(12345); exhaustive = true;
  J.line("H r0 " + kind + " " + ls((long)ops.size()));
  if (kind == "tree") { TreeH H; H.hid = "r0"; H.R = &R; for (auto& o : ops) H.apply(o); }
  else if (kind == "row") { RowH H; H.hid = "r0"; H.R = &R; for (auto& o : ops) H.apply(o); }
  else { ExprH H; H.hid = "r0"; for (auto& o : ops) H.apply(o); }
  J.line("E r0");
}

int main(int argc, char** argv) {
  const char* rp = pplv::arg_str(argc, argv, "--replay", nullptr);
  if (rp) return pplv::run_batches(0, 1, [&](long) { run_replay(rp); }, 20);
  { const char* rr = pplv::arg_str(argc, argv, "--rebreplay", nullptr);
    if (rr) return pplv::run_batches(0, 1, [&](long) { run_rebreplay(rr); }, 20);
    const char* rw = pplv::arg_str(argc, argv, "--rebrowreplay", nullptr);
    if (rw) return pplv::run_batches(0, 1, [&](long) { run_rebrowreplay(rw); }, 20);
    if (pplv::arg_long(argc, argv, "--rebrow", 0)) {
      long seed = pplv::arg_long(argc, argv, "--seed", 1), first = pplv::arg_long(argc, argv, "--first", 0), last = pplv::arg_long(argc, argv, "--last", 40);
      return pplv::run_batches(first, last, [&](long bb) { run_rebrow(bb, seed); }, 20);
    }
    if (pplv::arg_long(argc, argv, "--reb", 0)) {
      long seed = pplv::arg_long(argc, argv, "--seed", 1), first = pplv::arg_long(argc, argv, "--first", 0), last = pplv::arg_long(argc, argv, "--last", 40);
      return pplv::run_batches(first, last, [&](long bb) { run_reb(bb, seed); }, 20);
    } }
  { const char* rp2 = pplv::arg_str(argc, argv, "--repaired", "");
    for (const char* q = rp2; *q; ++q) if (*q >= '1' && *q <= '7') repaired[*q - '0'] = true; }
  long seed = pplv::arg_long(argc, argv, "--seed", 1), first = pplv::arg_long(argc, argv, "--first", 0),
       last = pplv::arg_long(argc, argv, "--last", 30), len = pplv::arg_long(argc, argv, "--len", 0),
       kf = pplv::arg_long(argc, argv, "--kf", 0);
  // one forked child per history; a mutant that loops or crashes everywhere must not eat the time budget
  int crashed = 0;
  for (long b = first; b < last && crashed < 6; ++b) {
    fflush(stdout);
    off_t before = lseek(1, 0, SEEK_CUR);
    pplv::run_batches(b, b + 1, [&](long bb) { run_history(bb, seed, len, kf != 0); }, 10);
    // run_batches appends "crash …" itself; detect it through the exit status it leaves in the journal
    if (before >= 0) {
      off_t after = lseek(1, 0, SEEK_CUR);
      if (after > before) {
        char tail[16] = {0}; int fd = open("/proc/self/fd/1", O_RDONLY);
        if (fd >= 0) { if (after >= 4) { lseek(fd, after - 4, SEEK_SET); if (read(fd, tail, 4) == 4 && !strncmp(tail, "end\n", 4)) ++crashed; } close(fd); }
      }
    }
  }
  if (crashed >= 6) J.line("stopped after 6 crashed histories");
  return 0;
}
